//go:build test

// Scale-dependent and delayed effects: (1) descriptor-leak monitor over
// repeated episodes, (2) a history that starts with device-less weeks,
// restart, every archived week queried, (3) several hundred wrong-size
// datagrams through the real socket in one listener lifetime.
package main

import (
	"encoding/hex"
	"fmt"
	"math/rand"
	"net"
	"os"
	"path/filepath"
	"strings"
	"sync/atomic"
	"time"

	"verifharness/lib/drv"
	"verifharness/lib/ev"
	"verifharness/lib/refenc"
	"verifharness/lib/run"
)

func childScale(b run.Batch, r *ev.Result, rng *rand.Rand) {
	// the server is first started long after genesis: start-up catch-up
	// produces 3–5 weeks without any device
	emptyWeeks := 3 + rng.Intn(3)
	if b.P("slice") != "1" {
		// more than two years before the first device: an archive longer than any in-memory bound would keep
		emptyWeeks = 108 + rng.Intn(40)
	}
	initialClock = uint32(2016*(emptyWeeks-1) + 4000 + rng.Intn(2000))
	w, err := newWorld(b, r, rng, "srv")
	initialClock = 0
	if err != nil {
		r.Inconc("cannot start world: " + err.Error())
		if w != nil {
			w.finish()
		}
		return
	}
	defer w.finish()
	base := w.offset()
	r.Count("scale.deviceless_weeks_at_first_start", int64(base/2016))
	if base == 0 {
		r.Inconc("start-up catch-up did not produce device-less weeks")
		return
	}
	if !w.live("first start long after genesis") {
		return
	}

	// ---- (2) device-less weeks, then weeks with devices, restart, every archived week
	for k := 0; k < 2; k++ {
		now := drv.Clock()
		for i := 0; i < 20; i++ {
			w.Inject(w.A.Report(now-uint32(rng.Intn(300)), 40+uint64(i)).Bytes())
		}
		if !w.rotateTo(w.offset() + 2016) {
			return
		}
	}
	drv.SetClock(w.offset() + 100)
	off := w.offset()
	if !w.closeJudged("restart after device-less and populated weeks", nil, "no held connections") {
		return
	}
	run.Op("restart with %d archived weeks of which the first %d have no device", off/2016, base/2016)
	if err := w.Start(); err != nil {
		r.Violationf("restart-failed-after-deviceless-weeks", map[string]interface{}{"batch": b, "offset": off}, "server did not restart: %v", err)
		w.failed = true
		return
	}
	for week := uint32(0); week < off+4032 && !w.failed; week += 2016 {
		c := httpCase{"GET", "/api/v1/all-device-stats", "archived.everyweek", fmt.Sprintf("timeslot_offset=%d", week), "empty", nil}
		if week%4032 == 0 {
			c.query += "&insert_false_negatives=true"
		}
		w.httpInput(c, true)
		r.Count("scale.weeks_queried_after_restart", 1)
	}
	if w.failed {
		return
	}

	// ---- (3) wrong-size datagrams through the socket, cumulatively in one listener lifetime
	nshort := 300 + rng.Intn(701)
	run.Op("%d wrong-size datagrams through the report socket", nshort)
	for i := 0; i < nshort && !w.failed; i++ {
		var l int
		switch i % 4 {
		case 0:
			l = rng.Intn(80)
		case 1:
			l = 79
		case 2:
			l = 0
		default:
			l = 81 + rng.Intn(1400)
		}
		p := make([]byte, l)
		rng.Read(p)
		if err := w.SendUDP(p); err != nil {
			w.udpFailure(fmt.Sprintf("wrong-size datagram %d of %d (%d bytes)", i, nshort, l), err)
			return
		}
		r.Eval(1)
		r.Count("inputs.datagram", 1)
		r.Count("inputs.datagram.wrongsize_burst", 1)
	}
	// a valid report through the socket must still be processed
	if p, slot, o, ok := w.freshSlot(); ok {
		rp := p.Report(slot, 99)
		run.Op("valid report through the socket after %d wrong-size datagrams", nshort)
		if err := w.SendUDP(rp.Bytes()); err != nil {
			w.udpFailure("valid report after the wrong-size burst", err)
			return
		}
		got, _, _, present := w.S.VerifSlot(p.ID, int(slot-o))
		if !present || drv.RefReport(got) != rp {
			r.Violationf("liveness:acceptable-report-not-recorded", map[string]interface{}{"batch": b, "after": "wrong-size burst"}, "valid report sent through the socket after %d wrong-size datagrams was not recorded", nshort)
			return
		}
		r.Count("scale.valid_report_after_wrongsize_burst", 1)
	}
	if !w.live("wrong-size datagram burst") {
		return
	}

	// ---- (1) descriptor-leak monitor
	ndev := 100 + rng.Intn(120)
	for i := 0; i < ndev; i++ {
		a := w.MkAuth(w.newID(), refenc.GenKey(rng).Pub, 1000)
		if st, _, err := w.do("POST", "/api/v1/authorize-equipment", a.JSON()); err != nil || st != 200 {
			r.Inconc(fmt.Sprintf("authorizing device for the leak monitor: status %d err %v", st, err))
			return
		}
	}
	kinds := []string{"status500", "status400", "status404", "status200", "reset", "garbage", "truncated", "down"}
	peers := map[string]*peer{}
	for _, k := range kinds {
		p, err := startPeer(k)
		if err != nil {
			r.Inconc("peer: " + err.Error())
			return
		}
		peers[k] = p
		defer p.stop()
	}
	tc := tcpCases(&w.keys, w.probes[1].ID, rng, 60)
	repetition := func(rep int) {
		for _, k := range kinds {
			srv := refenc.AuthServer{Pub: refenc.GenKey(rng).Pub, Location: "127.0.0.1", HTTP: peers[k].port, TCP: 1, UDP: 2}
			w.authorizeServer(srv, fmt.Sprintf("%s peer (leak monitor repetition %d, %d devices)", k, rep, ndev))
		}
		for _, c := range tc {
			if c.mode != "hold" && !w.failed {
				w.tcpInput(c)
			}
		}
		for _, nb := range rawHTTP(rng) {
			if !strings.Contains(nb.class, "half") && nb.class != "raw.longline" && nb.class != "raw.manyheaders" && !w.failed {
				w.rawHTTPInput(nb)
			}
		}
		w.dropHeld()
	}
	var counts []int
	for rep := 1; rep <= 3 && !w.failed; rep++ {
		repetition(rep)
		if rep == 1 || rep == 3 {
			n, ok := w.settledFdCount()
			if !ok {
				r.Inconc("descriptor count did not settle")
				return
			}
			counts = append(counts, n)
		}
		r.Count("scale.leak_monitor_repetitions", 1)
	}
	if w.failed || len(counts) != 2 {
		return
	}
	growth := counts[1] - counts[0]
	r.Eval(1)
	r.Count("scale.leak_monitor_judged", 1)
	r.Max("max.fd_growth_over_two_repetitions", int64(growth))
	r.Note("descriptor count after 1 repetition %d, after 3 repetitions %d (%d devices, peers %v)", counts[0], counts[1], ndev, kinds)
	for k, p := range peers {
		r.Count("scale.peer_contacts."+k, atomic.LoadInt64(&p.contacts))
	}
	if growth > 8 {
		r.Violationf("descriptor-leak-per-episode", map[string]interface{}{"batch": b, "after_1": counts[0], "after_3": counts[1], "devices": ndev, "peers": kinds},
			"open descriptors at quiescence grew from %d (after 1 repetition) to %d (after 3 repetitions) of the same episode mix – onboarding servers whose peers answer %v with %d devices listed, sync request classes, raw HTTP: %d per repetition, the episodes leave descriptors behind", counts[0], counts[1], kinds, ndev, growth/2)
		return
	}
	if !w.live("leak monitor episodes") {
		return
	}
	w.stalledReaders()
}

// stalledReaders: HTTP clients that request a large reply (archive of several
// MiB, statistics of all devices, recent reports, equipment list) and never
// read it. Then the liveness triple, the lock probe and a judged shutdown with
// those connections still open.
func (w *world) stalledReaders() {
	r, rng := w.r, w.rng
	// reports of the banned device X that are still on disk (they are skipped
	// at start-up): several MiB that do not compress
	filler := make([]byte, 80*80000)
	rng.Read(filler)
	for i := 0; i < len(filler); i += 80 {
		copy(filler[i:], idBytes(w.X.ID))
	}
	run.Op("append %d bytes of reports of banned device %d to equipment-reports.dat (public files larger than any socket buffer)", len(filler), w.X.ID)
	f, err := os.OpenFile(filepath.Join(w.Dir, "equipment-reports.dat"), os.O_APPEND|os.O_WRONLY, 0644)
	if err != nil {
		r.Inconc("cannot extend the report file: " + err.Error())
		return
	}
	f.Write(filler)
	f.Close()
	st, body, err := w.do("GET", "/api/v1/archive", nil)
	if err != nil || st != 200 || len(body) < len(filler)*9/10 {
		r.Inconc(fmt.Sprintf("a reading client did not get the large archive: status %d err %v len %d", st, err, len(body)))
		return
	}
	r.Count("stall.archive_read_by_wellbehaved_client", 1)
	time.Sleep(100 * time.Millisecond) // archive rate limiter (3 per 60 ms)
	off := w.offset()
	paths := []string{"/api/v1/archive", fmt.Sprintf("/api/v1/all-device-stats?timeslot_offset=%d", off), "/api/v1/recent-reports?publicKey=" + hex.EncodeToString(w.A.Key.Pub[:]), "/api/v1/equipment", "/api/v1/archive"}
	d := smallWindowDialer()
	var held []net.Conn
	defer func() {
		for _, c := range held {
			c.Close()
		}
	}()
	for _, p := range paths {
		run.Op("GET %s from a client with a 2 KiB receive buffer that never reads the reply", p)
		c, err := d.Dial("tcp", fmt.Sprintf("127.0.0.1:%d", w.HTTP))
		if err != nil {
			r.Inconc("stalled reader: " + err.Error())
			return
		}
		held = append(held, c)
		fmt.Fprintf(c, "GET %s HTTP/1.1\r\nHost: x\r\n\r\n", p)
		r.Eval(1)
		r.Count("inputs.http", 1)
		r.Count("inputs.http.stalled_reader", 1)
		r.Nontrivial("stalled/" + p)
	}
	parked := 0
	for i := 0; i < 600 && parked == 0; i++ {
		parked = 0
		for _, blk := range strings.Split(stacks(), "\n\n") {
			if strings.Contains(blk, "ArchiveHandler") && strings.Contains(blk, "net.(*conn).Write") {
				parked++
			}
		}
		if parked == 0 {
			time.Sleep(10 * time.Millisecond)
		}
	}
	if parked == 0 {
		r.Inconc("the archive handler of the stalled reader was never seen parked in conn.Write (reply swallowed by socket buffers?)")
		return
	}
	r.Count("stall.archive_handlers_parked_in_write", int64(parked))
	if !w.live("large replies requested by clients that do not read them") {
		return
	}
	// shutdown with the stalled readers still connected
	r.Count("shutdown.with_stalled_http_readers", 1)
	w.closeJudged("stalled HTTP readers", held, fmt.Sprintf("%d HTTP clients that requested large replies and do not read", len(held)))
}
