//go:build test

// Scale-dependent and delayed effects: (1) descriptor-leak monitor over
// repeated episodes, (2) a history that starts with device-less weeks,
// restart, every archived week queried, (3) several hundred wrong-size
// datagrams through the real socket in one listener lifetime.
package main

import (
	"fmt"
	"math/rand"
	"strings"
	"sync/atomic"

	"verifharness/lib/drv"
	"verifharness/lib/ev"
	"verifharness/lib/refenc"
	"verifharness/lib/run"
)

func childScale(b run.Batch, r *ev.Result, rng *rand.Rand) {
	// the server is first started long after genesis: start-up catch-up
	// produces 3–5 weeks without any device
	emptyWeeks := 3 + rng.Intn(3)
	initialClock = uint32(2016*(emptyWeeks-1) + 4000 + rng.Intn(2000))
	w, err := newWorld(b, r, rng, "srv")
	initialClock = 0
	if err != nil {
		r.Inconc("cannot start world: " + err.Error())
		if w != nil {
			w.finish()
		}
		return
	}
	defer w.finish()
	base := w.offset()
	r.Count("scale.deviceless_weeks_at_first_start", int64(base/2016))
	if base == 0 {
		r.Inconc("start-up catch-up did not produce device-less weeks")
		return
	}
	if !w.live("first start long after genesis") {
		return
	}

	// ---- (2) device-less weeks, then weeks with devices, restart, every archived week
	for k := 0; k < 2; k++ {
		now := drv.Clock()
		for i := 0; i < 20; i++ {
			w.Inject(w.A.Report(now-uint32(rng.Intn(300)), 40+uint64(i)).Bytes())
		}
		if !w.rotateTo(w.offset() + 2016) {
			return
		}
	}
	drv.SetClock(w.offset() + 100)
	off := w.offset()
	if !w.closeJudged("restart after device-less and populated weeks", nil, "no held connections") {
		return
	}
	run.Op("restart with %d archived weeks of which the first %d have no device", off/2016, base/2016)
	if err := w.Start(); err != nil {
		r.Violationf("restart-failed-after-deviceless-weeks", map[string]interface{}{"batch": b, "offset": off}, "server did not restart: %v", err)
		w.failed = true
		return
	}
	for week := uint32(0); week < off+4032 && !w.failed; week += 2016 {
		c := httpCase{"GET", "/api/v1/all-device-stats", "archived.everyweek", fmt.Sprintf("timeslot_offset=%d", week), "empty", nil}
		if week%4032 == 0 {
			c.query += "&insert_false_negatives=true"
		}
		w.httpInput(c, true)
		r.Count("scale.weeks_queried_after_restart", 1)
	}
	if w.failed {
		return
	}

	// ---- (3) wrong-size datagrams through the socket, cumulatively in one listener lifetime
	nshort := 300 + rng.Intn(701)
	run.Op("%d wrong-size datagrams through the report socket", nshort)
	for i := 0; i < nshort && !w.failed; i++ {
		var l int
		switch i % 4 {
		case 0:
			l = rng.Intn(80)
		case 1:
			l = 79
		case 2:
			l = 0
		default:
			l = 81 + rng.Intn(1400)
		}
		p := make([]byte, l)
		rng.Read(p)
		if err := w.SendUDP(p); err != nil {
			w.udpFailure(fmt.Sprintf("wrong-size datagram %d of %d (%d bytes)", i, nshort, l), err)
			return
		}
		r.Eval(1)
		r.Count("inputs.datagram", 1)
		r.Count("inputs.datagram.wrongsize_burst", 1)
	}
	// a valid report through the socket must still be processed
	if p, slot, o, ok := w.freshSlot(); ok {
		rp := p.Report(slot, 99)
		run.Op("valid report through the socket after %d wrong-size datagrams", nshort)
		if err := w.SendUDP(rp.Bytes()); err != nil {
			w.udpFailure("valid report after the wrong-size burst", err)
			return
		}
		got, _, _, present := w.S.VerifSlot(p.ID, int(slot-o))
		if !present || drv.RefReport(got) != rp {
			r.Violationf("liveness:acceptable-report-not-recorded", map[string]interface{}{"batch": b, "after": "wrong-size burst"}, "valid report sent through the socket after %d wrong-size datagrams was not recorded", nshort)
			return
		}
		r.Count("scale.valid_report_after_wrongsize_burst", 1)
	}
	if !w.live("wrong-size datagram burst") {
		return
	}

	// ---- (1) descriptor-leak monitor
	ndev := 100 + rng.Intn(120)
	for i := 0; i < ndev; i++ {
		a := w.MkAuth(w.newID(), refenc.GenKey(rng).Pub, 1000)
		if st, _, err := w.do("POST", "/api/v1/authorize-equipment", a.JSON()); err != nil || st != 200 {
			r.Inconc(fmt.Sprintf("authorizing device for the leak monitor: status %d err %v", st, err))
			return
		}
	}
	kinds := []string{"status500", "status400", "status404", "status200", "reset", "garbage", "truncated", "down"}
	peers := map[string]*peer{}
	for _, k := range kinds {
		p, err := startPeer(k)
		if err != nil {
			r.Inconc("peer: " + err.Error())
			return
		}
		peers[k] = p
		defer p.stop()
	}
	tc := tcpCases(&w.keys, w.probes[1].ID, rng, 60)
	repetition := func(rep int) {
		for _, k := range kinds {
			srv := refenc.AuthServer{Pub: refenc.GenKey(rng).Pub, Location: "127.0.0.1", HTTP: peers[k].port, TCP: 1, UDP: 2}
			w.authorizeServer(srv, fmt.Sprintf("%s peer (leak monitor repetition %d, %d devices)", k, rep, ndev))
		}
		for _, c := range tc {
			if c.mode != "hold" && !w.failed {
				w.tcpInput(c)
			}
		}
		for _, nb := range rawHTTP(rng) {
			if !strings.Contains(nb.class, "half") && nb.class != "raw.longline" && nb.class != "raw.manyheaders" && !w.failed {
				w.rawHTTPInput(nb)
			}
		}
		w.dropHeld()
	}
	var counts []int
	for rep := 1; rep <= 3 && !w.failed; rep++ {
		repetition(rep)
		if rep == 1 || rep == 3 {
			n, ok := w.settledFdCount()
			if !ok {
				r.Inconc("descriptor count did not settle")
				return
			}
			counts = append(counts, n)
		}
		r.Count("scale.leak_monitor_repetitions", 1)
	}
	if w.failed || len(counts) != 2 {
		return
	}
	growth := counts[1] - counts[0]
	r.Eval(1)
	r.Count("scale.leak_monitor_judged", 1)
	r.Max("max.fd_growth_over_two_repetitions", int64(growth))
	r.Note("descriptor count after 1 repetition %d, after 3 repetitions %d (%d devices, peers %v)", counts[0], counts[1], ndev, kinds)
	for k, p := range peers {
		r.Count("scale.peer_contacts."+k, atomic.LoadInt64(&p.contacts))
	}
	if growth > 8 {
		r.Violationf("descriptor-leak-per-episode", map[string]interface{}{"batch": b, "after_1": counts[0], "after_3": counts[1], "devices": ndev, "peers": kinds},
			"open descriptors at quiescence grew from %d (after 1 repetition) to %d (after 3 repetitions) of the same episode mix – onboarding servers whose peers answer %v with %d devices listed, sync request classes, raw HTTP: %d per repetition, the episodes leave descriptors behind", counts[0], counts[1], kinds, ndev, growth/2)
		return
	}
	w.live("leak monitor episodes")
}
