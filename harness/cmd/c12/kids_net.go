//go:build test

// Children of C12 that use the HTTP API and the TCP sync listener: request
// matrix, sync request classes, peers that are down, shutdown scenarios.
package main

import (
	"bytes"
	"fmt"
	"io"
	"math/rand"
	"net"
	"strings"
	"sync/atomic"
	"syscall"
	"time"

	"verifharness/lib/drv"
	"verifharness/lib/ev"
	"verifharness/lib/refenc"
	"verifharness/lib/run"
)

// ---------------------------------------------------------------- single inputs

func (w *world) httpInput(c httpCase, probe bool) {
	pq := c.route
	if c.query != "" {
		pq += "?" + c.query
	}
	desc := fmt.Sprintf("http %s %s qclass=%s bclass=%s bodylen=%d", c.method, clipStr(pq), c.qclass, c.bclass, len(c.body))
	run.Op("%s body=%s", desc, clip(c.body))
	st, _, err := w.do(c.method, pq, c.body)
	w.r.Eval(1)
	w.r.Count("inputs.http", 1)
	w.r.Count("inputs.http.q."+c.qclass, 1)
	w.r.Count("inputs.http.b."+c.bclass, 1)
	w.rm[strings.TrimPrefix(c.route, "/api/v1/")+" "+c.method] = true
	switch {
	case st == -1:
		w.r.Count("http.client_refused_to_send", 1)
	case err != nil && isTimeout(err):
		w.r.Inconc("request timed out on the client side: " + desc)
		w.failed = true
		return
	case err != nil:
		w.r.Count("http.no_response", 1)
	default:
		w.r.Count(fmt.Sprintf("http.status.%d", st), 1)
		if st != 405 && st != 404 {
			w.r.Nontrivial(fmt.Sprintf("http/%s/%s/%x", c.method, pq, c.body))
		}
		if st != 405 && st != 404 && w.rng.Intn(200) == 0 {
			w.r.Sample(map[string]interface{}{"kind": "http", "method": c.method, "path": clipStr(pq), "qclass": c.qclass, "bclass": c.bclass, "status": st, "body": clip(c.body)})
		}
		if st == 200 && strings.HasPrefix(c.bclass, "signed.") && c.method == "POST" {
			w.r.Count("http.accepted."+strings.TrimPrefix(c.route, "/api/v1/"), 1)
		}
	}
	w.checkStderr(map[string]interface{}{"method": c.method, "path": clipStr(pq), "qclass": c.qclass, "bclass": c.bclass, "body": clip(c.body)})
	if probe {
		w.live(desc)
	}
}

func clipStr(s string) string {
	if len(s) > 300 {
		return s[:200] + fmt.Sprintf("...(%d chars)", len(s))
	}
	return s
}

func (w *world) rawHTTPInput(nb namedBytes) {
	run.Op("http raw class=%s bytes=%s", nb.class, clip(nb.b))
	c, err := w.dial(w.HTTP)
	if err != nil {
		w.r.Violationf("liveness:http-port-not-accepting", map[string]interface{}{"batch": w.b}, "cannot connect to the HTTP port: %v", err)
		w.failed = true
		return
	}
	c.SetWriteDeadline(time.Now().Add(10 * time.Second))
	_, werr := c.Write(nb.b)
	w.r.Eval(1)
	w.r.Count("inputs.http", 1)
	w.r.Count("inputs.http.raw", 1)
	w.r.Count("inputs.http."+nb.class, 1)
	if strings.Contains(nb.class, "half") || werr != nil {
		w.hold(c) // left half-sent; the server's read timeout has to deal with it
	} else {
		c.SetReadDeadline(time.Now().Add(200 * time.Millisecond))
		io.Copy(io.Discard, io.LimitReader(c, 1<<20))
		c.Close()
	}
	w.checkStderr(nb.class)
	w.live("raw http " + nb.class)
}

func (w *world) tcpInput(c tcpCase) {
	desc := fmt.Sprintf("tcp sync class=%s mode=%s len=%d", c.class, c.mode, len(c.payload))
	run.Op("%s bytes=%s", desc, clip(c.payload))
	conn, err := w.dial(w.TCP)
	if err != nil {
		w.r.Violationf("liveness:sync-port-not-accepting", map[string]interface{}{"batch": w.b, "after": desc}, "cannot connect to the TCP sync port: %v", err)
		w.failed = true
		return
	}
	w.r.Eval(1)
	w.r.Count("inputs.tcp", 1)
	w.r.Count("inputs.tcp."+strings.SplitN(c.class, "+", 2)[0], 1)
	if len(c.payload) >= 4 {
		w.r.Nontrivial(fmt.Sprintf("tcp/%s/%x", c.mode, c.payload[:4]))
	}
	conn.SetDeadline(time.Now().Add(10 * time.Second))
	switch c.mode {
	case "slow":
		for _, x := range c.payload {
			conn.Write([]byte{x})
			time.Sleep(time.Millisecond)
		}
	default:
		conn.Write(c.payload)
	}
	switch c.mode {
	case "rst":
		conn.(*net.TCPConn).SetLinger(0)
		conn.Close()
		return
	case "hold":
		conn.SetDeadline(time.Time{})
		w.hold(conn)
		w.r.Count("tcp.held_open", 1)
		return
	case "halfclose":
		conn.(*net.TCPConn).CloseWrite()
	}
	defer conn.Close()
	if len(c.payload) < 4 && c.mode == "close" {
		return
	}
	raw, rerr := io.ReadAll(conn)
	if c.known && len(raw) == 0 && !isTimeout(rerr) {
		// cut off without a byte (handler deadline under contention?): ask again
		w.r.Count("tcp.known_request_repeated", 1)
		raw, rerr = w.syncRetry(uint32(c.payload[0]) | uint32(c.payload[1])<<8 | uint32(c.payload[2])<<16 | uint32(c.payload[3])<<24)
	}
	if len(c.payload) != 4 {
		w.r.Count("tcp.reply.unjudged", 1)
		return
	}
	_, refused, perr := refenc.ParseSyncReply(raw)
	switch {
	case rerr != nil && isTimeout(rerr):
		w.r.Inconc("sync reply timed out: " + desc)
		w.failed = true
	case c.known && (rerr != nil || perr != nil || refused):
		key := "liveness:sync-reply-malformed"
		if w.overlong != "" {
			key = w.overlong
		}
		w.r.Violationf(key, map[string]interface{}{"batch": w.b, "request": clip(c.payload), "reply": clip(raw)}, "sync request for an authorized device: read err=%v parse=%v refused=%v (%d bytes)", rerr, perr, refused, len(raw))
	case refused:
		w.r.Count("tcp.reply.refused", 1)
	case perr == nil && rerr == nil:
		w.r.Count("tcp.reply.wellformed", 1)
	default:
		w.r.Count("tcp.reply.other", 1)
	}
}

// authorizeServer posts a GCA-signed server entry.
func (w *world) authorizeServer(s refenc.AuthServer, what string) int {
	s = s.Signed(w.GCAk.Priv)
	run.Op("authorize server %s location=%q http=%d banned=%v", what, clipStr(s.Location), s.HTTP, s.Banned)
	st, _, err := w.do("POST", "/api/v1/authorized-servers", s.JSON())
	w.r.Eval(1)
	w.r.Count("inputs.http", 1)
	w.r.Count("inputs.http.peers", 1)
	w.rm["authorized-servers POST"] = true
	if err != nil {
		w.r.Count("http.no_response", 1)
	}
	w.checkStderr("authorize server " + what)
	return st
}

func (w *world) authorizeNewEquipment(what string) int {
	a := w.MkAuth(w.newID(), refenc.GenKey(w.rng).Pub, 1000)
	run.Op("authorize new equipment id=%d (%s)", a.ID, what)
	st, _, err := w.do("POST", "/api/v1/authorize-equipment", a.JSON())
	w.r.Eval(1)
	w.r.Count("inputs.http", 1)
	w.r.Count("inputs.http.peers", 1)
	w.rm["authorize-equipment POST"] = true
	if err != nil {
		w.r.Count("http.no_response", 1)
	}
	w.checkStderr("authorize new equipment: " + what)
	return st
}

// ---------------------------------------------------------------- HTTP matrix

func childHTTP(b run.Batch, r *ev.Result, rng *rand.Rand) {
	w, err := newWorld(b, r, rng, "srv")
	if err != nil {
		r.Inconc("cannot start world: " + err.Error())
		if w != nil {
			w.finish()
		}
		return
	}
	defer w.finish()
	// one or two archived weeks, some reports in the live window
	target := uint32(2016 * (1 + rng.Intn(2)))
	drv.SetClock(100)
	for i := 0; i < 30; i++ {
		w.Inject(w.A.Report(uint32(rng.Intn(500)), 30+uint64(i)).Bytes())
		w.Inject(w.B.Report(uint32(rng.Intn(500)), 30+uint64(i)).Bytes())
	}
	if !w.rotateTo(target) {
		r.Inconc("could not rotate")
		return
	}
	drv.SetClock(target + 500 + uint32(rng.Intn(1500)))
	for i := 0; i < 30; i++ {
		w.Inject(w.A.Report(drv.Clock()-uint32(rng.Intn(400)), 30+uint64(i)).Bytes())
	}
	// an authorized peer that is down: every accepted authorization fans out to it
	port, release, err := closedPort()
	if err != nil {
		r.Inconc("no closed port: " + err.Error())
		return
	}
	defer release()
	down := refenc.AuthServer{Pub: refenc.GenKey(rng).Pub, Location: "127.0.0.1", HTTP: port, TCP: 1, UDP: 1}
	if st := w.authorizeServer(down, "down peer"); st != 200 {
		r.Inconc(fmt.Sprintf("authorizing the down peer gave status %d", st))
		return
	}
	r.Count("fanout.server_with_peer_down", 1)
	if !w.live("authorize down peer") {
		return
	}
	// the impact job stays gated in this child: bodies carry ±MaxFloat64 coordinates
	qs := queries(&w.keys, w.offset(), rng)
	bs := bodies(&w.keys, rng, w.newID, port, true)
	cases := httpCases(qs, bs, rng, b.N)
	for i, c := range cases {
		if w.failed || r.NumViolations() > 10 {
			return
		}
		born := w.born
		if !w.recycle(35 * time.Second) {
			return
		}
		if w.born != born {
			// the server list lives in memory only: list the down peer again
			if st := w.authorizeServer(down, "down peer (after restart)"); st == 200 {
				r.Count("fanout.server_with_peer_down", 1)
			}
		}
		w.httpInput(c, true)
		if i%500 == 499 {
			// interleave: a fresh authorization (fan-out to the down peer) and the raw requests
			if st := w.authorizeNewEquipment("peer down"); st == 200 {
				r.Count("fanout.equipment_with_peer_down", 1)
			}
			w.live("authorize with peer down")
		}
	}
	for _, nb := range rawHTTP(rng) {
		if w.failed {
			return
		}
		w.rawHTTPInput(nb)
	}
	if st := w.authorizeNewEquipment("peer down"); st == 200 {
		r.Count("fanout.equipment_with_peer_down", 1)
	}
	w.live("authorize with peer down")
}

// ---------------------------------------------------------------- TCP sync classes

func childTCP(b run.Batch, r *ev.Result, rng *rand.Rand) {
	w, err := newWorld(b, r, rng, "srv")
	if err != nil {
		r.Inconc("cannot start world: " + err.Error())
		if w != nil {
			w.finish()
		}
		return
	}
	defer w.finish()
	drv.SetClock(1000)
	// a crowd of sync connections that have not sent their request yet (all opened within the server's read
	// deadline): an authorized device that asks meanwhile gets its data, not the refusal of an unknown id
	{
		var crowd []net.Conn
		for i := 0; i < 150+rng.Intn(100); i++ {
			c, err := net.DialTimeout("tcp", fmt.Sprintf("127.0.0.1:%d", w.TCP), 2*time.Second)
			if err != nil {
				break
			}
			if i%4 == 0 {
				c.Write([]byte{byte(i)}) // a quarter of a request
			}
			crowd = append(crowd, c)
		}
		run.Op("%d sync connections without a request are pending", len(crowd))
		r.Count("inputs.tcp", int64(len(crowd)))
		r.Max("max.pending_sync_connections_during_probe", int64(len(crowd)))
		ok := w.live(fmt.Sprintf("%d pending sync connections without a request", len(crowd)))
		for _, c := range crowd {
			c.Close()
		}
		if !ok {
			return
		}
	}
	for i, c := range tcpCases(&w.keys, w.probes[1].ID, rng, b.N) {
		if w.failed || r.NumViolations() > 10 {
			return
		}
		if time.Since(w.born) > 35*time.Second {
			// recycle with whatever is held right now: one more shutdown observation
			held := w.held
			w.held = nil
			if !w.closeJudged("tcp recycle", held, fmt.Sprintf("%d idle/half-sent sync connections (accumulated)", len(held))) {
				return
			}
			for _, c := range held {
				c.Close()
			}
			if err := w.Start(); err != nil {
				r.Inconc("restart: " + err.Error())
				return
			}
			w.born = time.Now()
		}
		w.tcpInput(c)
		w.live(fmt.Sprintf("tcp %s/%s", c.class, c.mode))
		if i%97 == 96 {
			// burst of parallel connections of mixed kinds
			run.Op("tcp burst of 120 connections")
			done := make(chan bool, 120)
			for j := 0; j < 120; j++ {
				go func(j int) {
					defer func() { done <- true }()
					c, err := w.dial(w.TCP)
					if err != nil {
						return
					}
					defer c.Close()
					c.SetDeadline(time.Now().Add(10 * time.Second))
					c.Write(idBytes(w.A.ID)[:j%6%5])
					if j%3 == 0 {
						io.Copy(io.Discard, c)
					}
				}(j)
			}
			for j := 0; j < 120; j++ {
				<-done
			}
			r.Count("inputs.tcp", 120)
			r.Count("inputs.tcp.burst", 120)
			r.Eval(120)
			w.live("tcp burst")
		}
	}
	// final shutdown with the connections still held
	held := w.held
	w.held = nil
	if len(held) > 0 {
		if _, _, err := w.Sync(w.A.ID); err != nil {
			r.Inconc("sync before shutdown failed: " + err.Error())
		}
		r.Count("shutdown.with_idle_sync_conns", 1)
	}
	w.closeJudged("end of tcp batch", held, fmt.Sprintf("%d idle/half-sent sync connections", len(held)))
	for _, c := range held {
		c.Close()
	}
}

// ---------------------------------------------------------------- peers

type peer struct {
	kind     string
	port     uint16
	contacts int64
	stop     func()
}

func startPeer(kind string) (*peer, error) {
	p := &peer{kind: kind}
	if kind == "down" {
		port, rel, err := closedPort()
		if err != nil {
			return nil, err
		}
		p.port, p.stop = port, rel
		return p, nil
	}
	l, err := net.Listen("tcp", "127.0.0.1:0")
	if err != nil {
		return nil, err
	}
	p.port = uint16(l.Addr().(*net.TCPAddr).Port)
	p.stop = func() { l.Close() }
	go func() {
		for {
			c, err := l.Accept()
			if err != nil {
				return
			}
			atomic.AddInt64(&p.contacts, 1)
			go func(c net.Conn) {
				defer c.Close()
				c.SetDeadline(time.Now().Add(5 * time.Second))
				switch kind {
				case "reset":
					c.(*net.TCPConn).SetLinger(0)
				case "garbage":
					c.Write([]byte("\x00\xff not http at all\r\n\r\n"))
				case "status500", "status400", "status404", "status200":
					buf := make([]byte, 8192)
					c.Read(buf)
					body := "this server does not take that equipment\n"
					fmt.Fprintf(c, "HTTP/1.1 %s Whatever\r\nContent-Type: text/plain\r\nContent-Length: %d\r\nConnection: close\r\n\r\n%s", kind[6:], len(body), body)
				case "http500":
					buf := make([]byte, 4096)
					c.Read(buf)
					c.Write([]byte("HTTP/1.1 500 Internal Server Error\r\nContent-Length: 0\r\nConnection: close\r\n\r\n"))
				case "truncated":
					buf := make([]byte, 4096)
					c.Read(buf)
					c.Write([]byte("HTTP/1.1 200 OK\r\nContent-Length: 100\r\n\r\nshort"))
				case "slow":
					buf := make([]byte, 4096)
					c.Read(buf)
					time.Sleep(150 * time.Millisecond)
					c.Write([]byte("HTTP/1.1 200 OK\r\nContent-Length: 0\r\nConnection: close\r\n\r\n"))
				}
			}(c)
		}
	}()
	return p, nil
}

func childPeers(b run.Batch, r *ev.Result, rng *rand.Rand) {
	w, err := newWorld(b, r, rng, "srv")
	if err != nil {
		r.Inconc("cannot start world: " + err.Error())
		if w != nil {
			w.finish()
		}
		return
	}
	defer w.finish()
	drv.SetClock(700)
	for round := 0; round < b.N; round++ {
		if round > 0 {
			// the server list lives in memory only: a restart gives an empty list again
			if !w.closeJudged("peers round", nil, "no held connections") {
				return
			}
			if err := w.Start(); err != nil {
				r.Inconc("restart: " + err.Error())
				return
			}
			w.born = time.Now()
		}
		kinds := []string{"down", "down", "reset", "garbage", "http500", "truncated", "slow", "self"}
		rng.Shuffle(len(kinds)-2, func(i, j int) { kinds[i+2], kinds[j+2] = kinds[j+2], kinds[i+2] })
		var peers []*peer
		downAuthorized := 0
		for _, kind := range kinds {
			if w.failed {
				break
			}
			var port uint16
			if kind == "self" {
				port = w.HTTP
			} else {
				p, err := startPeer(kind)
				if err != nil {
					r.Inconc("peer: " + err.Error())
					return
				}
				peers = append(peers, p)
				port = p.port
			}
			srv := refenc.AuthServer{Pub: refenc.GenKey(rng).Pub, Location: "127.0.0.1", HTTP: port, TCP: uint16(rng.Intn(65536)), UDP: uint16(rng.Intn(65536))}
			st := w.authorizeServer(srv, kind+" peer")
			r.Count("peers.authorized."+kind, 1)
			if st == 200 && (kind == "down" || downAuthorized > 0) {
				// the new entry was sent to every listed server (a down one among them)
				// and the equipment list to the new server
				r.Count("fanout.server_with_peer_down", 1)
			}
			if kind == "down" && st == 200 {
				downAuthorized++
			}
			if !w.live("authorize " + kind + " peer") {
				break
			}
			if st := w.authorizeNewEquipment("peers: " + strings.Join(kinds, ",")); st == 200 && downAuthorized > 0 {
				r.Count("fanout.equipment_with_peer_down", 1)
			}
			if !w.live("authorize equipment after " + kind + " peer") {
				break
			}
			if kind == "down" && rng.Intn(2) == 0 {
				srv.Banned = true
				w.authorizeServer(srv, "ban the down peer")
				w.authorizeNewEquipment("a banned down peer is listed")
				w.live("ban down peer")
			}
		}
		// what the server itself logged about its fan-out attempts
		lg := w.ReadFile("server.log")
		r.Count("fanout.failures_logged_equipment", int64(bytes.Count(lg, []byte("unable to send http request to submit new hardware"))))
		r.Count("fanout.failures_logged_server", int64(bytes.Count(lg, []byte("Failed to send request to server"))))
		for _, p := range peers {
			r.Count("peers.contacts."+p.kind, atomic.LoadInt64(&p.contacts))
			p.stop()
		}
		if w.failed {
			return
		}
	}
}

// ---------------------------------------------------------------- shutdown scenarios

// smallWindowDialer: client sockets with a minimal receive buffer and MSS (set
// before connect), so that a reply the peer does not read cannot disappear
// into socket buffers.
func smallWindowDialer() net.Dialer {
	return net.Dialer{Timeout: 5 * time.Second, Control: func(network, address string, c syscall.RawConn) error {
		var serr error
		if err := c.Control(func(fd uintptr) {
			if serr = syscall.SetsockoptInt(int(fd), syscall.SOL_SOCKET, syscall.SO_RCVBUF, 2048); serr == nil {
				serr = syscall.SetsockoptInt(int(fd), syscall.IPPROTO_TCP, syscall.TCP_MAXSEG, 256)
			}
		}); err != nil {
			return err
		}
		return serr
	}}
}

// nonReaders gives device B a migration order close to the 64 KiB limit (so
// that its sync reply cannot disappear into socket buffers) and opens n
// connections with a minimal receive buffer and MSS that send B's id and
// never read. It returns once the handlers are seen parked in conn.Write.
func (w *world) nonReaders(n int) ([]net.Conn, error) {
	newGCA := refenc.GenKey(w.rng)
	m := refenc.Migration{Equipment: w.B.Key.Pub, NewGCA: newGCA.Pub, NewID: 9}
	for i := 0; i < 180; i++ {
		m.Servers = append(m.Servers, refenc.AuthServer{Pub: refenc.GenKey(w.rng).Pub, Location: strings.Repeat("m", 255), HTTP: 1, TCP: 1, UDP: 1}.Signed(newGCA.Priv))
	}
	run.Op("migration order of %d bytes for device %d (long sync reply)", len(m.Bytes()), w.B.ID)
	if st, body, err := w.PostMigration(m.Signed(w.GCAk.Priv)); err != nil || st != 200 {
		return nil, fmt.Errorf("large migration order refused: status %d err %v %.100s", st, err, body)
	}
	rep, refused, err := w.Sync(w.B.ID)
	if err != nil || refused || len(rep.SignedPart) < 60000 {
		return nil, fmt.Errorf("long sync reply not delivered to a reading peer: err %v refused %v len %d", err, refused, len(rep.SignedPart))
	}
	w.r.Count("nonreader.long_reply_read_by_wellbehaved_peer", 1)
	d := smallWindowDialer()
	var conns []net.Conn
	for i := 0; i < n; i++ {
		run.Op("sync request for device %d from a peer with a 2 KiB receive buffer that never reads", w.B.ID)
		c, err := d.Dial("tcp", fmt.Sprintf("127.0.0.1:%d", w.TCP))
		if err != nil {
			return conns, err
		}
		conns = append(conns, c)
		if _, err := c.Write(idBytes(w.B.ID)); err != nil {
			return conns, err
		}
		w.r.Eval(1)
		w.r.Count("inputs.tcp", 1)
		w.r.Count("inputs.tcp.nonreading", 1)
	}
	for i := 0; i < 300; i++ {
		if len(syncWriters(stacks())) >= n {
			w.r.Count("nonreader.handlers_parked_in_write", int64(n))
			return conns, nil
		}
		time.Sleep(5 * time.Millisecond)
	}
	return conns, fmt.Errorf("the sync handlers of the non-reading peers were never seen parked in conn.Write (reply swallowed by socket buffers?)")
}

type shutScenario struct{ idle, half, httpKeep, httpNew, httpHalfHdr, httpHalfBody, nonRead int }

func (s shutScenario) String() string {
	return fmt.Sprintf("sync idle=%d half-sent=%d non-reading=%d; http keepalive-idle=%d new-silent=%d half-header=%d half-body=%d", s.idle, s.half, s.nonRead, s.httpKeep, s.httpNew, s.httpHalfHdr, s.httpHalfBody)
}

func childShutdown(b run.Batch, r *ev.Result, rng *rand.Rand) {
	w, err := newWorld(b, r, rng, "srv")
	if err != nil {
		r.Inconc("cannot start world: " + err.Error())
		if w != nil {
			w.finish()
		}
		return
	}
	defer w.finish()
	drv.SetClock(900)
	var slice int
	fmt.Sscan(b.P("slice"), &slice)
	fixed := [][]shutScenario{
		{{}, {idle: 1}, {half: 1}, {nonRead: 2}, {idle: 3, half: 2, httpKeep: 1, httpNew: 1, httpHalfHdr: 1, httpHalfBody: 1}},
		{{httpKeep: 2}, {httpNew: 1, httpHalfHdr: 1}, {nonRead: 1}, {idle: 2, httpHalfBody: 1}, {idle: 20, half: 20}},
	}
	scs := append([]shutScenario(nil), fixed[slice%2]...)
	for i := 0; i < b.N; i++ {
		scs = append(scs, shutScenario{rng.Intn(6), rng.Intn(4), rng.Intn(3), rng.Intn(3), rng.Intn(2), rng.Intn(2), rng.Intn(3) / 2})
	}
	for i, sc := range scs {
		if w.failed {
			return
		}
		if i > 0 {
			if err := w.Start(); err != nil {
				r.Inconc("restart: " + err.Error())
				return
			}
			w.born = time.Now()
		}
		var held, syncHeld []net.Conn
		fail := func(err error) { r.Inconc("shutdown scenario set-up: " + err.Error()) }
		for j := 0; j < sc.idle+sc.half; j++ {
			c, err := w.dial(w.TCP)
			if err != nil {
				fail(err)
				return
			}
			if j >= sc.idle {
				c.Write(idBytes(w.A.ID)[:1+rng.Intn(3)])
			}
			held = append(held, c)
			syncHeld = append(syncHeld, c)
		}
		if sc.nonRead > 0 {
			conns, err := w.nonReaders(sc.nonRead)
			held = append(held, conns...)
			syncHeld = append(syncHeld, conns...)
			if err != nil {
				fail(err)
				for _, c := range held {
					c.Close()
				}
				return
			}
		}
		// a later connection was served → the accept loop has launched a handler for each earlier one
		if _, _, err := w.Sync(w.A.ID); err != nil {
			fail(err)
			return
		}
		for j := 0; j < sc.httpKeep+sc.httpNew+sc.httpHalfHdr+sc.httpHalfBody; j++ {
			c, err := w.dial(w.HTTP)
			if err != nil {
				fail(err)
				return
			}
			switch {
			case j < sc.httpKeep:
				c.Write([]byte("GET /api/v1/equipment HTTP/1.1\r\nHost: x\r\n\r\n"))
				if st, err := readHTTPResponse(c); err != nil || st != 200 {
					fail(fmt.Errorf("keep-alive request: status %d err %v", st, err))
					return
				}
			case j < sc.httpKeep+sc.httpNew:
			case j < sc.httpKeep+sc.httpNew+sc.httpHalfHdr:
				c.Write([]byte("POST /api/v1/authorize-equipment HTTP/1.1\r\nHost: x\r\nContent-Le"))
			default:
				c.Write([]byte("POST /api/v1/authorize-equipment HTTP/1.1\r\nHost: x\r\nContent-Length: 1000\r\n\r\n{\"ShortID\":"))
			}
			held = append(held, c)
		}
		if st, _, err := w.do("GET", "/api/v1/equipment", nil); err != nil || st != 200 {
			fail(fmt.Errorf("equipment: status %d err %v", st, err))
			return
		}
		w.hc.CloseIdleConnections()
		r.Eval(1)
		r.Count("inputs.shutdown_scenarios", 1)
		r.Count("shutdown.held_connections", int64(len(held)))
		if len(syncHeld) > 0 {
			r.Count("shutdown.with_idle_sync_conns", 1)
		}
		r.Nontrivial("shutdown/" + sc.String())
		r.Sample(map[string]interface{}{"kind": "shutdown", "held": sc.String()})
		ok := w.closeJudged(fmt.Sprintf("scenario %d", i), held, sc.String())
		for _, c := range held {
			c.Close()
		}
		if !ok {
			return
		}
	}
}
