//go:build test

// Plain-build churn batch of C12: ordinary inputs racing with state changes.
// (a) valid reports of devices that are being banned one after the other,
// re-sent from many goroutines; (b) GET /equipment pollers while several
// hundred devices are being authorized. Both look for process death (nil
// dereference, "concurrent map iteration and map write"), not race reports.
package main

import (
	"bytes"
	"fmt"
	"io"
	"math/rand"
	"net"
	"net/http"
	"sync"
	"sync/atomic"
	"time"

	"github.com/glowlabs-org/gca-backend/server"

	"verifharness/lib/drv"
	"verifharness/lib/ev"
	"verifharness/lib/refenc"
	"verifharness/lib/run"
)

var churnClient = &http.Client{Timeout: 10 * time.Second, Transport: &http.Transport{MaxIdleConnsPerHost: 32, IdleConnTimeout: time.Second, DisableCompression: true}}

func waitSent(sent *atomic.Int64, target int64) bool {
	for i := 0; sent.Load() < target; i++ {
		if i > 200000 {
			return false
		}
		time.Sleep(50 * time.Microsecond)
	}
	return true
}

func childChurn(b run.Batch, r *ev.Result, rng *rand.Rand) {
	w, err := newWorld(b, r, rng, "srv")
	if err != nil {
		r.Inconc("cannot start world: " + err.Error())
		if w != nil {
			w.finish()
		}
		return
	}
	defer w.finish()
	drv.SetClock(1200)
	// requests of the concurrent phases: a request that gets no answer within
	// 10 s ends its phase early (the verdict then comes from the probes after
	// the phase, never from this timeout)
	var stalled atomic.Bool
	cdo := func(method, pq string, body []byte) (int, error) {
		var rd io.Reader
		if body != nil {
			rd = bytes.NewReader(body)
		}
		req, err := http.NewRequest(method, fmt.Sprintf("http://127.0.0.1:%d%s", w.HTTP, pq), rd)
		if err != nil {
			return 0, err
		}
		resp, err := churnClient.Do(req)
		if err != nil {
			if isTimeout(err) {
				stalled.Store(true)
			}
			return 0, err
		}
		io.Copy(io.Discard, resp.Body)
		resp.Body.Close()
		return resp.StatusCode, nil
	}

	// ---- (a) reports under fire while their device is banned
	nv := b.N
	var victims []*drv.Dev
	for i := 0; i < nv; i++ {
		d, err := w.AddDevice(w.newID(), 5000)
		if err != nil {
			r.Inconc("cannot authorize victim: " + err.Error())
			return
		}
		victims = append(victims, d)
	}
	type shot struct{ raw [][]byte }
	shots := make([]shot, nv)
	for i, v := range victims {
		for k := 0; k < 4; k++ {
			shots[i].raw = append(shots[i].raw, v.Report(1200-uint32(k*7), 10+uint64(k)).Bytes())
		}
	}
	var cur atomic.Int64
	var stop atomic.Bool
	var sent, udpSent atomic.Int64
	udpBase := server.VerifUDPHandled()
	var wg sync.WaitGroup
	udp, err := net.Dial("udp", fmt.Sprintf("127.0.0.1:%d", w.UDP))
	if err != nil {
		r.Inconc(err.Error())
		return
	}
	run.Op("churn: 10 goroutines re-send valid reports of %d devices while these are banned one after the other", nv)
	for g := 0; g < 10; g++ {
		wg.Add(1)
		go func(g int) {
			defer wg.Done()
			for k := 0; !stop.Load(); k++ {
				s := shots[cur.Load()]
				raw := s.raw[(g+k)%len(s.raw)]
				if g >= 8 {
					// the listener starts one goroutine per datagram: keep the
					// number in flight bounded or they pile up behind the mutex
					for i := 0; udpSent.Load()-int64(server.VerifUDPHandled()-udpBase) > 16 && i < 20000 && !stop.Load(); i++ {
						time.Sleep(20 * time.Microsecond)
					}
					udp.Write(raw)
					udpSent.Add(1)
				} else {
					w.S.VerifInject(raw)
				}
				if sent.Add(1)%8 == 0 {
					time.Sleep(20 * time.Microsecond) // leave the scheduler room for the API goroutines
				}
			}
		}(g)
	}
	bans := 0
	phase := time.Now()
	for i, v := range victims {
		if time.Since(phase) > 40*time.Second {
			// safety valve for an overloaded machine (test-mode servers live 120 s): fewer bans, same oracle
			r.Note("churn: stopped after %d of %d bans (40 s)", i, nv)
			break
		}
		cur.Store(int64(i))
		before := sent.Load()
		if !waitSent(&sent, before+40) { // the injectors are on this device now
			r.Inconc("report injectors stalled")
			stop.Store(true)
			return
		}
		if st, err := w.BanDevice(v.ID); err == nil && st != 200 {
			bans++
		}
		waitSent(&sent, before+80)
	}
	stop.Store(true)
	wg.Wait()
	udp.Close()
	// one evaluation per ban under fire; how many re-sends fitted around the
	// bans depends on scheduling and is recorded as an observation only
	r.Eval(nv)
	r.Count("inputs.ban_under_fire", int64(nv))
	r.Count("churn.reports_resent_around_bans", sent.Load())
	r.Count("churn.bans_under_fire", int64(bans))
	r.Nontrivial(fmt.Sprintf("churn/ban/%d", b.Seed))
	w.checkStderr("reports under fire during bans")
	if !w.live("reports re-sent while their devices were banned") {
		return
	}

	stalled.Store(false)
	// ---- (e) sync pollers for an authorized device while migration orders for other equipment arrive
	{
		nm := 2000 + rng.Intn(1000)
		newGCA := refenc.GenKey(rng)
		inner := refenc.AuthServer{Pub: refenc.GenKey(rng).Pub, Location: "127.0.0.1", HTTP: 1, TCP: 1, UDP: 1}.Signed(newGCA.Priv)
		orders := make([][]byte, nm)
		for i := range orders {
			m := refenc.Migration{NewGCA: newGCA.Pub, NewID: uint32(i), Servers: []refenc.AuthServer{inner}}
			rng.Read(m.Equipment[:])
			orders[i] = m.Signed(w.GCAk.Priv).JSON()
		}
		run.Op("churn: 48 sync pollers for device %d while %d migration orders for other equipment are posted by 4 clients", w.probes[0].ID, nm)
		var mdone atomic.Bool
		var msyncs, mOK, nextM atomic.Int64
		var mw, pw2 sync.WaitGroup
		for g := 0; g < 48; g++ {
			mw.Add(1)
			go func() {
				defer mw.Done()
				for !mdone.Load() && !stalled.Load() {
					c, err := w.dial(w.TCP)
					if err != nil {
						continue
					}
					c.SetDeadline(time.Now().Add(8 * time.Second))
					c.Write(idBytes(w.probes[0].ID))
					buf := make([]byte, 4096)
					if n, err := c.Read(buf); n > 1 {
						msyncs.Add(1)
					} else if isTimeout(err) {
						stalled.Store(true)
					}
					c.Close()
				}
			}()
		}
		for g := 0; g < 6; g++ {
			pw2.Add(1)
			go func() {
				defer pw2.Done()
				for {
					i := int(nextM.Add(1)) - 1
					if i >= nm || stalled.Load() {
						return
					}
					if st, err := cdo("POST", "/api/v1/equipment-migrate", orders[i]); err == nil && st == 200 {
						mOK.Add(1)
					}
				}
			}()
		}
		pw2.Wait()
		mdone.Store(true)
		mw.Wait()
		r.Eval(nm)
		r.Count("inputs.http", int64(nm))
		r.Count("inputs.http.churn", int64(nm))
		r.Count("churn.migration_orders_under_sync_polling", mOK.Load())
		r.Count("churn.syncs_answered_during_migration_orders", msyncs.Load())
		w.rm["equipment-migrate POST"] = true
		r.Nontrivial(fmt.Sprintf("churn/migrate/%d", b.Seed))
		w.checkStderr("sync polling during migration orders")
		if !w.live("sync polled while migration orders arrived") {
			return
		}
	}
	stalled.Store(false)
	// ---- (c) sync pollers for an authorized device while new servers (peers down) are onboarded
	port, release, err := closedPort()
	if err != nil {
		r.Inconc("no closed port: " + err.Error())
		return
	}
	defer release()
	ns := 50 + rng.Intn(51)
	srvBodies := make([][]byte, ns)
	for i := range srvBodies {
		srvBodies[i] = refenc.AuthServer{Pub: refenc.GenKey(rng).Pub, Location: "127.0.0.1", HTTP: port, TCP: 1, UDP: 2}.Signed(w.GCAk.Priv).JSON()
	}
	run.Op("churn: 40 sync pollers for device %d while %d servers with down peers are onboarded by 4 clients", w.probes[0].ID, ns)
	var sdone atomic.Bool
	var syncs, srvOK atomic.Int64
	var sw sync.WaitGroup
	for g := 0; g < 40; g++ {
		sw.Add(1)
		go func() {
			defer sw.Done()
			for !sdone.Load() && !stalled.Load() {
				c, err := w.dial(w.TCP)
				if err != nil {
					continue
				}
				c.SetDeadline(time.Now().Add(8 * time.Second))
				c.Write(idBytes(w.probes[0].ID))
				buf := make([]byte, 1<<16)
				if n, err := c.Read(buf); n > 1 {
					syncs.Add(1)
				} else if isTimeout(err) {
					stalled.Store(true)
				}
				c.Close()
			}
		}()
	}
	var ow sync.WaitGroup
	var nextS atomic.Int64
	for g := 0; g < 4; g++ {
		ow.Add(1)
		go func() {
			defer ow.Done()
			for {
				i := int(nextS.Add(1)) - 1
				if i >= ns || stalled.Load() {
					return
				}
				if st, err := cdo("POST", "/api/v1/authorized-servers", srvBodies[i]); err == nil && st == 200 {
					srvOK.Add(1)
				}
			}
		}()
	}
	ow.Wait()
	sdone.Store(true)
	sw.Wait()
	r.Eval(ns)
	r.Count("inputs.http", int64(ns))
	r.Count("inputs.http.churn", int64(ns))
	r.Count("churn.servers_onboarded_under_sync_polling", srvOK.Load())
	r.Count("churn.syncs_answered_during_onboarding", syncs.Load())
	w.rm["authorized-servers POST"] = true
	r.Nontrivial(fmt.Sprintf("churn/onboard/%d", b.Seed))
	w.checkStderr("sync polling during server onboarding")
	if !w.live("sync polled while servers were onboarded") {
		return
	}

	stalled.Store(false)
	// ---- (b) GET /equipment pollers while many devices are authorized
	na := 300 + rng.Intn(301)
	auths := make([][]byte, na)
	for i := range auths {
		auths[i] = w.MkAuth(w.newID(), refenc.GenKey(rng).Pub, 1000).JSON()
	}
	run.Op("churn: 8 GET /equipment pollers while %d devices are authorized by 4 clients", na)
	var done atomic.Bool
	var polls, pollsDuring, accepted atomic.Int64
	var pw sync.WaitGroup
	for g := 0; g < 8; g++ {
		pw.Add(1)
		go func() {
			defer pw.Done()
			for !done.Load() && !stalled.Load() {
				if st, err := cdo("GET", "/api/v1/equipment", nil); err == nil && st == 200 {
					polls.Add(1)
				}
			}
		}()
	}
	var aw sync.WaitGroup
	var next atomic.Int64
	for g := 0; g < 4; g++ {
		aw.Add(1)
		go func() {
			defer aw.Done()
			for {
				i := int(next.Add(1)) - 1
				if i >= na || stalled.Load() {
					return
				}
				if st, err := cdo("POST", "/api/v1/authorize-equipment", auths[i]); err == nil && st == 200 {
					accepted.Add(1)
				}
			}
		}()
	}
	aw.Wait()
	pollsDuring.Store(polls.Load())
	done.Store(true)
	pw.Wait()
	r.Eval(na)
	r.Count("inputs.http", int64(na))
	r.Count("inputs.http.churn", int64(na))
	r.Count("churn.devices_authorized_under_polling", accepted.Load())
	r.Count("churn.equipment_polls_during_authorizations", pollsDuring.Load())
	w.rm["equipment GET"], w.rm["authorize-equipment POST"] = true, true
	r.Nontrivial(fmt.Sprintf("churn/poll/%d", b.Seed))
	w.checkStderr("equipment polling during authorizations")
	if !w.live("equipment polled while devices were authorized") {
		return
	}

	stalled.Store(false)
	// ---- (d) statistics of the current window polled across rotations (many devices)
	for rot := 0; rot < 2; rot++ {
		off := w.offset()
		drv.SetClock(off + 3201)
		run.Op("churn: 6 pollers of all-device-stats?timeslot_offset=%d across the rotation of that window", off)
		var rdone atomic.Bool
		var statsOK atomic.Int64
		var rw sync.WaitGroup
		for g := 0; g < 6; g++ {
			rw.Add(1)
			go func() {
				defer rw.Done()
				for !rdone.Load() && !stalled.Load() {
					if st, err := cdo("GET", fmt.Sprintf("/api/v1/all-device-stats?timeslot_offset=%d", off), nil); err == nil && st == 200 {
						statsOK.Add(1)
					}
				}
			}()
		}
		for i := 0; statsOK.Load() < 2 && i < 4000 && !stalled.Load(); i++ { // pollers are at work
			time.Sleep(5 * time.Millisecond)
		}
		n := drv.StepRotation()
		before := statsOK.Load()
		for i := 0; statsOK.Load() < before+6 && i < 4000 && !stalled.Load(); i++ { // and still answered afterwards
			time.Sleep(5 * time.Millisecond)
		}
		rdone.Store(true)
		rw.Wait()
		r.Eval(1)
		r.Count("inputs.rotation_under_stats_polling", 1)
		r.Count("rotations.live", int64(n))
		r.Count("churn.rotations_under_stats_polling", int64(n))
		r.Count("churn.stats_answered_across_rotation", statsOK.Load())
		w.rm["all-device-stats GET"] = true
		w.checkStderr(fmt.Sprintf("all-device-stats?timeslot_offset=%d polled across the rotation", off))
		if !w.live("statistics polled across a rotation") {
			return
		}
	}
}
