//go:build test

// Plain-build churn batch of C12: ordinary inputs racing with state changes.
// (a) valid reports of devices that are being banned one after the other,
// re-sent from many goroutines; (b) GET /equipment pollers while several
// hundred devices are being authorized. Both look for process death (nil
// dereference, "concurrent map iteration and map write"), not race reports.
package main

import (
	"fmt"
	"math/rand"
	"net"
	"sync"
	"sync/atomic"
	"time"

	"github.com/glowlabs-org/gca-backend/server"

	"verifharness/lib/drv"
	"verifharness/lib/ev"
	"verifharness/lib/refenc"
	"verifharness/lib/run"
)

func waitSent(sent *atomic.Int64, target int64) bool {
	for i := 0; sent.Load() < target; i++ {
		if i > 200000 {
			return false
		}
		time.Sleep(50 * time.Microsecond)
	}
	return true
}

func childChurn(b run.Batch, r *ev.Result, rng *rand.Rand) {
	w, err := newWorld(b, r, rng, "srv")
	if err != nil {
		r.Inconc("cannot start world: " + err.Error())
		if w != nil {
			w.finish()
		}
		return
	}
	defer w.finish()
	drv.SetClock(1200)

	// ---- (a) reports under fire while their device is banned
	nv := b.N
	var victims []*drv.Dev
	for i := 0; i < nv; i++ {
		d, err := w.AddDevice(w.newID(), 5000)
		if err != nil {
			r.Inconc("cannot authorize victim: " + err.Error())
			return
		}
		victims = append(victims, d)
	}
	type shot struct{ raw [][]byte }
	shots := make([]shot, nv)
	for i, v := range victims {
		for k := 0; k < 4; k++ {
			shots[i].raw = append(shots[i].raw, v.Report(1200-uint32(k*7), 10+uint64(k)).Bytes())
		}
	}
	var cur atomic.Int64
	var stop atomic.Bool
	var sent, udpSent atomic.Int64
	udpBase := server.VerifUDPHandled()
	var wg sync.WaitGroup
	udp, err := net.Dial("udp", fmt.Sprintf("127.0.0.1:%d", w.UDP))
	if err != nil {
		r.Inconc(err.Error())
		return
	}
	run.Op("churn: 10 goroutines re-send valid reports of %d devices while these are banned one after the other", nv)
	for g := 0; g < 10; g++ {
		wg.Add(1)
		go func(g int) {
			defer wg.Done()
			for k := 0; !stop.Load(); k++ {
				s := shots[cur.Load()]
				raw := s.raw[(g+k)%len(s.raw)]
				if g >= 8 {
					// the listener starts one goroutine per datagram: keep the
					// number in flight bounded or they pile up behind the mutex
					for i := 0; udpSent.Load()-int64(server.VerifUDPHandled()-udpBase) > 16 && i < 20000 && !stop.Load(); i++ {
						time.Sleep(20 * time.Microsecond)
					}
					udp.Write(raw)
					udpSent.Add(1)
				} else {
					w.S.VerifInject(raw)
				}
				if sent.Add(1)%8 == 0 {
					time.Sleep(20 * time.Microsecond) // leave the scheduler room for the API goroutines
				}
			}
		}(g)
	}
	bans := 0
	phase := time.Now()
	for i, v := range victims {
		if time.Since(phase) > 40*time.Second {
			// safety valve for an overloaded machine (test-mode servers live 120 s): fewer bans, same oracle
			r.Note("churn: stopped after %d of %d bans (40 s)", i, nv)
			break
		}
		cur.Store(int64(i))
		before := sent.Load()
		if !waitSent(&sent, before+40) { // the injectors are on this device now
			r.Inconc("report injectors stalled")
			stop.Store(true)
			return
		}
		if st, err := w.BanDevice(v.ID); err == nil && st != 200 {
			bans++
		}
		waitSent(&sent, before+80)
	}
	stop.Store(true)
	wg.Wait()
	udp.Close()
	// one evaluation per ban under fire; how many re-sends fitted around the
	// bans depends on scheduling and is recorded as an observation only
	r.Eval(nv)
	r.Count("inputs.ban_under_fire", int64(nv))
	r.Count("churn.reports_resent_around_bans", sent.Load())
	r.Count("churn.bans_under_fire", int64(bans))
	r.Nontrivial(fmt.Sprintf("churn/ban/%d", b.Seed))
	w.checkStderr("reports under fire during bans")
	if !w.live("reports re-sent while their devices were banned") {
		return
	}

	// ---- (b) GET /equipment pollers while many devices are authorized
	na := 300 + rng.Intn(301)
	auths := make([][]byte, na)
	for i := range auths {
		auths[i] = w.MkAuth(w.newID(), refenc.GenKey(rng).Pub, 1000).JSON()
	}
	run.Op("churn: 8 GET /equipment pollers while %d devices are authorized by 4 clients", na)
	var done atomic.Bool
	var polls, pollsDuring, accepted atomic.Int64
	var pw sync.WaitGroup
	for g := 0; g < 8; g++ {
		pw.Add(1)
		go func() {
			defer pw.Done()
			for !done.Load() {
				if st, _, err := w.do("GET", "/api/v1/equipment", nil); err == nil && st == 200 {
					polls.Add(1)
				}
			}
		}()
	}
	var aw sync.WaitGroup
	var next atomic.Int64
	for g := 0; g < 4; g++ {
		aw.Add(1)
		go func() {
			defer aw.Done()
			for {
				i := int(next.Add(1)) - 1
				if i >= na {
					return
				}
				if st, _, err := w.do("POST", "/api/v1/authorize-equipment", auths[i]); err == nil && st == 200 {
					accepted.Add(1)
				}
			}
		}()
	}
	aw.Wait()
	pollsDuring.Store(polls.Load())
	done.Store(true)
	pw.Wait()
	r.Eval(na)
	r.Count("inputs.http", int64(na))
	r.Count("inputs.http.churn", int64(na))
	r.Count("churn.devices_authorized_under_polling", accepted.Load())
	r.Count("churn.equipment_polls_during_authorizations", pollsDuring.Load())
	w.rm["equipment GET"], w.rm["authorize-equipment POST"] = true, true
	r.Nontrivial(fmt.Sprintf("churn/poll/%d", b.Seed))
	w.checkStderr("equipment polling during authorizations")
	w.live("equipment polled while devices were authorized")
}
