//go:build test

// Structurally valid, GCA-signed requests whose field values leave the
// domain the wire formats can carry (location > 255 bytes, sync reply larger
// than its 16-bit length prefix, one public key under two ShortIDs). Each
// scenario has its own batch because some of them end the process.
package main

import (
	"fmt"
	"math/rand"
	"strings"

	"verifharness/lib/drv"
	"verifharness/lib/ev"
	"verifharness/lib/refenc"
	"verifharness/lib/run"
)

func childHazard(b run.Batch, r *ev.Result, rng *rand.Rand) {
	w, err := newWorld(b, r, rng, "srv")
	if err != nil {
		r.Inconc("cannot start world: " + err.Error())
		if w != nil {
			w.finish()
		}
		return
	}
	defer w.finish()
	drv.SetClock(800)
	port, release, err := closedPort()
	if err != nil {
		r.Inconc(err.Error())
		return
	}
	defer release()
	if !w.live("hazard set-up") {
		return
	}
	switch b.P("which") {
	case "overlong-location":
		for _, l := range []int{256, 300, 70000} {
			w.overlong = "sync-replies-unparseable:server-location-longer-than-255-bytes"
			st := w.authorizeServer(refenc.AuthServer{Pub: refenc.GenKey(rng).Pub, Location: strings.Repeat("a", l), HTTP: port, TCP: 1, UDP: 2}, fmt.Sprintf("location of %d bytes", l))
			r.Count(fmt.Sprintf("hazard.location%d.status.%d", l, st), 1)
			w.live(fmt.Sprintf("authorize server with a location of %d bytes", l))
			w.authorizeNewEquipment(fmt.Sprintf("server with %d byte location listed", l))
			w.live("authorize equipment with an overlong location listed")
		}
	case "oversize-migration":
		newGCA := refenc.GenKey(rng)
		m := refenc.Migration{Equipment: w.probes[0].Key.Pub, NewGCA: newGCA.Pub, NewID: 9}
		for i := 0; i < 190; i++ {
			m.Servers = append(m.Servers, refenc.AuthServer{Pub: refenc.GenKey(rng).Pub, Location: strings.Repeat("c", 255), HTTP: port, TCP: 1, UDP: 2}.Signed(newGCA.Priv))
		}
		m = m.Signed(w.GCAk.Priv)
		run.Op("migration order with 190 servers of 255-byte locations for the probe device")
		w.overlong = "sync-reply-unparseable:migration-order-larger-than-16-bit-length-prefix"
		st, _, _ := w.do("POST", "/api/v1/equipment-migrate", m.JSON())
		r.Eval(1)
		r.Count("inputs.http", 1)
		r.Count(fmt.Sprintf("hazard.oversize_migration.status.%d", st), 1)
		w.checkStderr("oversize migration")
		w.live("oversize migration order")
	case "duplicate-pubkey":
		k := refenc.GenKey(rng)
		w.closeKey = "shutdown-panics:two-authorized-devices-share-a-public-key"
		for i := 0; i < 2; i++ {
			a := w.MkAuth(w.newID(), k.Pub, 1000)
			run.Op("authorize equipment id=%d with public key %x (same key as the other id)", a.ID, k.Pub[:6])
			st, _, _ := w.do("POST", "/api/v1/authorize-equipment", a.JSON())
			r.Eval(1)
			r.Count("inputs.http", 1)
			r.Count(fmt.Sprintf("hazard.duplicate_pubkey.status.%d", st), 1)
			w.checkStderr("duplicate pubkey")
			w.live("authorization sharing a public key")
		}
	}
}
