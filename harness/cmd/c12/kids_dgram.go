//go:build test

// Children of C12 that deliver datagrams: clock sweep and start-up catch-up.
package main

import (
	"fmt"
	"math/rand"
	"net"
	"sync/atomic"
	"time"

	"github.com/glowlabs-org/gca-backend/server"

	"verifharness/lib/drv"
	"verifharness/lib/ev"
	"verifharness/lib/run"
)

var c01Deltas = []int{0, 1, 431, 432, 433, 2015, 2016, 2017, 3199, 3200, 3599, 3600}
var farDeltas = []int{4033, 4034, 4463, 4464, 4465, 4500, 6047, 6048, 6049, 8063, 8064, 8065, 8495, 8496, 8497, 9000}

// allDeltas: C01 configurations, every value 3568..4032, beyond two windows, random.
func allDeltas(rng *rand.Rand, nrand int) (ds []int, classful map[int]bool) {
	classful = map[int]bool{}
	for _, d := range c01Deltas {
		ds = append(ds, d)
		classful[d] = true
	}
	for d := 3568; d <= 4032; d++ {
		ds = append(ds, d)
	}
	for _, d := range []int{3568, 3600, 3601, 3999, 4000, 4031, 4032} {
		classful[d] = true
	}
	for _, d := range farDeltas {
		ds = append(ds, d)
	}
	classful[4033], classful[4464], classful[8064], classful[8497] = true, true, true, true
	for i := 0; i < nrand; i++ {
		d := rng.Intn(2*4032 + 500)
		ds = append(ds, d)
		if i%3 == 0 {
			classful[d] = true
		}
	}
	return
}

func (w *world) rotateTo(off uint32) bool {
	for {
		cur := w.offset()
		if cur >= off {
			return cur == off
		}
		drv.SetClock(cur + 3201)
		run.Op("rotation step at now-offset=3201 (offset %d)", cur)
		if n := drv.StepRotation(); n != 1 {
			w.r.Inconc(fmt.Sprintf("rotation did not happen when expected (now-offset=3201): %d", n))
			return false
		}
		w.r.Count("rotations.live", 1)
	}
}

// config delivers the datagram set of one (now, offset) configuration.
func (w *world) config(off uint32, delta int, classful, full bool) {
	now := off + uint32(delta)
	drv.SetClock(now)
	w.deltas[delta] = true
	dgs := edgeDatagrams(&w.keys, now, off, w.rng)
	if classful {
		dgs = append(dgs, classDatagrams(&w.keys, now, off, w.rng, full)...)
		w.r.Count("configs.all_classes", 1)
	}
	for i, d := range dgs {
		if d.class == "edge.off+4032" && delta >= 3600 && delta <= 4032+432 {
			w.r.Count("edge.offset_plus_4032_when_time_acceptable", 1)
		}
		w.deliver(d, i)
		if w.failed {
			return
		}
		if i%4 == 3 || i == len(dgs)-1 {
			if !w.live(fmt.Sprintf("datagram class=%s now=%d offset=%d", d.class, now, off)) {
				return
			}
		}
	}
	// the impact job's index guard: one round of the (otherwise gated) job here
	if classful || delta >= 4020 || delta%16 == 0 {
		run.Op("impact job round at now=%d offset=%d", now, off)
		drv.StepImpact()
		w.r.Count("impact_rounds", 1)
		if delta >= 4032 {
			w.r.Count("impact_rounds_beyond_window", 1)
		}
	}
	w.r.Count("configs", 1)
}

func childClock(b run.Batch, r *ev.Result, rng *rand.Rand) {
	w, err := newWorld(b, r, rng, "srv")
	if err != nil {
		r.Inconc("cannot start world: " + err.Error())
		if w != nil {
			w.finish()
		}
		return
	}
	defer w.finish()
	var slice, of int
	fmt.Sscan(b.P("slice"), &slice)
	fmt.Sscan(b.P("of"), &of)
	full := b.Tier == "thorough"
	nrand := 8
	if full {
		nrand = 40
	}
	// the delta list is a function of the tier seed only, so that the slices partition it
	var tseed int64
	fmt.Sscan(b.P("tseed"), &tseed)
	ds, classful := allDeltas(rand.New(rand.NewSource(tseed)), nrand)
	ci := 0
	for _, off := range []uint32{0, 2016, 4032} {
		if !w.rotateTo(off) {
			if !w.failed {
				r.Inconc(fmt.Sprintf("could not reach offset %d", off))
			}
			return
		}
		for _, d := range ds {
			ci++
			if ci%of != slice {
				continue
			}
			// restart only where no catch-up would be triggered
			drv.SetClock(off)
			if !w.recycle(35 * time.Second) {
				return
			}
			w.config(off, d, classful[d], full)
			if w.failed || r.NumViolations() > 10 {
				return
			}
		}
	}
	// live catch-up: the background rotator works its way through two windows
	// while datagrams keep arriving
	off := w.offset()
	drv.SetClock(off + 2*4032 + 437)
	for k := 0; k < 4; k++ {
		o := w.offset()
		for i, d := range edgeDatagrams(&w.keys, drv.Clock(), o, rng) {
			w.deliver(d, i)
		}
		run.Op("rotation step at now-offset=%d", drv.Clock()-o)
		n := drv.StepRotation()
		r.Count("rotations.live", int64(n))
		if !w.live("live rotation") {
			return
		}
	}
}

// ---------------------------------------------------------------- start-up catch-up

var catchCb atomic.Value // func(*server.GCAServer)

func installCatchupHook() {
	catchCb.Store(func(*server.GCAServer) {})
	server.VerifSetHook("migrate.catchup", func(s *server.GCAServer) {
		catchCb.Load().(func(*server.GCAServer))(s)
	})
}

func sendUDPTo(port uint16, b []byte) error {
	c, err := net.Dial("udp", fmt.Sprintf("127.0.0.1:%d", port))
	if err != nil {
		return err
	}
	defer c.Close()
	before := server.VerifUDPHandled()
	if _, err := c.Write(b); err != nil {
		return err
	}
	deadline := time.Now().Add(5 * time.Second)
	for server.VerifUDPHandled() == before {
		if time.Now().After(deadline) {
			return fmt.Errorf("datagram was not processed within 5s")
		}
		time.Sleep(50 * time.Microsecond)
	}
	return nil
}

func childCatchup(b run.Batch, r *ev.Result, rng *rand.Rand) {
	w, err := newWorld(b, r, rng, "srv")
	if err != nil {
		r.Inconc("cannot start world: " + err.Error())
		if w != nil {
			w.finish()
		}
		return
	}
	defer w.finish()
	installCatchupHook()
	full := b.Tier == "thorough"
	// some reports in the window so that rotations move data
	drv.SetClock(300)
	for i := 0; i < 20; i++ {
		w.Inject(w.A.Report(uint32(rng.Intn(700)), 5+uint64(i)).Bytes())
		w.Inject(w.B.Report(uint32(rng.Intn(700)), 5+uint64(i)).Bytes())
	}
	fixed := []int{4000, 4001, 4031, 4032, 4033, 4200, 4463, 4464, 4465, 6015, 6016, 6017, 6048, 8031, 8032, 8064, 8065, 8496, 8497, 10080}
	var ds []int
	var slice, of int
	fmt.Sscan(b.P("slice"), &slice)
	fmt.Sscan(b.P("of"), &of)
	for i, d := range fixed {
		if i%of == slice {
			ds = append(ds, d)
		}
	}
	for i := 0; i < b.N; i++ {
		switch rng.Intn(3) {
		case 0:
			ds = append(ds, 4000+rng.Intn(33)) // 4000..4032
		case 1:
			ds = append(ds, 4000+rng.Intn(465)) // up to the last time-acceptable edge
		default:
			ds = append(ds, 4000+rng.Intn(2*4032))
		}
	}
	for _, D := range ds {
		if w.failed || r.NumViolations() > 10 {
			return
		}
		// park the clock at the window start first: on Close the gated rotation
		// loop is released for a last iteration and would rotate if now−offset > 3200
		drv.SetClock(w.offset())
		off0 := w.offset()
		if !w.closeJudged("before catch-up restart", nil, "no held connections") {
			return
		}
		now := off0 + uint32(D)
		drv.SetClock(now)
		iter := 0
		catchCb.Store(func(s *server.GCAServer) {
			_, _, off, _ := s.VerifSlot(0, -1)
			delta := int(now - off)
			w.deltas[delta] = true
			_, _, udp := s.Ports()
			dgs := edgeDatagrams(&w.keys, now, off, rng)
			if iter == 0 || full {
				dgs = append(dgs, classDatagrams(&w.keys, now, off, rng, false)...)
			}
			for i, d := range dgs {
				viaSocket := len(d.b) != 80 || i%4 == 1
				run.Op("catch-up datagram class=%s now=%d offset=%d iteration=%d socket=%v bytes=%s", d.class, now, off, iter, viaSocket, clip(d.b))
				if d.class == "edge.off+4032" && delta <= 4032+432 {
					r.Count("edge.offset_plus_4032_when_time_acceptable", 1)
					r.Count("catchup.edge_offset_plus_4032_when_time_acceptable", 1)
				}
				if viaSocket {
					if err := sendUDPTo(udp, d.b); err != nil {
						r.Inconc("catch-up socket delivery: " + err.Error())
						return
					}
					r.Count("catchup.injections_socket", 1)
				} else {
					s.VerifInject(d.b)
				}
				r.Eval(1)
				r.Count("catchup.injections", 1)
				r.Count("inputs.datagram", 1)
				r.Count("inputs.datagram."+d.class, 1)
			}
			// an acceptable report (if the configuration has one) must change its slot even now
			lo, hi := int64(now)-432, int64(off)+4031
			if lo <= hi && len(w.probes) > 0 {
				p := w.probes[len(w.probes)-1]
				for s2 := lo; s2 <= hi; s2++ {
					if w.used[p.ID][uint32(s2)] {
						continue
					}
					w.used[p.ID][uint32(s2)] = true
					rp := p.Report(uint32(s2), 2+uint64(rng.Intn(1000)))
					run.Op("catch-up probe report dev=%d slot=%d", p.ID, s2)
					s.VerifInject(rp.Bytes())
					got, _, _, present := s.VerifSlot(p.ID, int(uint32(s2)-off))
					if !present || drv.RefReport(got) != rp {
						r.Violationf("liveness:acceptable-report-not-recorded-during-catch-up", map[string]interface{}{"now": now, "offset": off, "slot": s2, "batch": b},
							"acceptable report (device %d slot %d) injected during start-up catch-up (now %d, offset %d) did not change its slot", p.ID, s2, now, off)
					} else {
						r.Count("catchup.probe_report_changed_slot", 1)
					}
					break
				}
			}
			iter++
			r.Count("catchup.rotations_with_injection", 1)
		})
		run.Op("start server with now-offset=%d (offset %d): catch-up expected", D, off0)
		err := w.Start()
		catchCb.Store(func(*server.GCAServer) {})
		if err != nil {
			r.Violationf("restart-failed-at-clock", map[string]interface{}{"now": now, "offset": off0, "batch": b}, "server did not start at now-offset=%d: %v", D, err)
			w.failed = true
			return
		}
		w.born = time.Now()
		r.Count("catchup.restarts", 1)
		r.Count("server.lifetimes", 1)
		if iter == 0 {
			r.Inconc(fmt.Sprintf("catch-up hook never fired although now-offset=%d", D))
			return
		}
		if !w.live(fmt.Sprintf("start-up catch-up from now-offset=%d", D)) {
			return
		}
		// after start-up the window is within 4000 of the clock: deliver there too
		o := w.offset()
		w.deltas[int(now-o)] = true
		for i, d := range edgeDatagrams(&w.keys, now, o, rng) {
			w.deliver(d, i)
		}
		if !w.live("edge set after catch-up") {
			return
		}
	}
}
