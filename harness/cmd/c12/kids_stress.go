//go:build test

// Race-variant stress batch of C12: all three listeners are driven
// concurrently while the clock moves through rotations and the background
// jobs run ungated; then quiescence probes and a shutdown with held
// connections. Op counts are fixed by (tier, seed); no time budget.
package main

import (
	"fmt"
	"io"
	"math/rand"
	"net"
	"net/http"
	"sync"
	"sync/atomic"
	"time"

	"verifharness/lib/drv"
	"verifharness/lib/ev"
	"verifharness/lib/run"
)

func childStress(b run.Batch, r *ev.Result, rng *rand.Rand) {
	w, err := newWorld(b, r, rng, "srv")
	if err != nil {
		r.Inconc("cannot start world: " + err.Error())
		if w != nil {
			w.finish()
		}
		return
	}
	defer w.finish()
	port, release, err := closedPort()
	if err != nil {
		r.Inconc("no closed port: " + err.Error())
		return
	}
	defer release()
	// one body pool for all rounds: the signed bodies must stay the same
	// requests (a second "zero key" device would be the known duplicate-key finding)
	bs := bodies(&w.keys, rng, w.newID, port, false)
	for round := 0; round < b.N; round++ {
		if w.failed {
			return
		}
		off := w.offset()
		base := off + 2600
		drv.SetClock(base)
		qs := queries(&w.keys, off, rng)
		hcases := httpCases(qs, bs, rng, 400)
		tcases := tcpCases(&w.keys, w.probes[1].ID, rng, 240)
		var dgs []dg
		for k := 0; k < 6; k++ {
			now := base + uint32(k*300)
			dgs = append(dgs, edgeDatagrams(&w.keys, now, off, rng)...)
			dgs = append(dgs, classDatagrams(&w.keys, now, off, rng, false)...)
			dgs = append(dgs, edgeDatagrams(&w.keys, now, off+2016, rng)...)
		}
		run.Op("stress round %d: %d datagrams, %d http, %d tcp concurrently; clock moves from now-offset=2600 by 1800; jobs ungated", round, len(dgs), len(hcases), len(tcases))
		drv.GateRotation(false)
		drv.GateImpact(false)
		var ops atomic.Int64
		var wg sync.WaitGroup
		tick := func() {
			n := ops.Add(1)
			if n%25 == 0 {
				drv.SetClock(base + uint32(n/25)*40)
			}
		}
		udp, err := net.Dial("udp", fmt.Sprintf("127.0.0.1:%d", w.UDP))
		if err != nil {
			r.Inconc(err.Error())
			return
		}
		// Polls for the recent reports of keys the server has never heard of
		// (anybody can send them) while junk of report length keeps arriving:
		// the poll's "equipment not found" path runs between the datagram
		// handler's critical sections all the time. A poll that is not answered
		// within 8 s stops the round; the lock probe then decides.
		var stalled atomic.Bool
		var pollsDone, junkDone, pollTimeouts atomic.Int64
		polls := 120 + rng.Intn(60)
		pollKeys := make([]string, polls)
		for i := range pollKeys {
			k := make([]byte, 32)
			rng.Read(k)
			pollKeys[i] = fmt.Sprintf("%x", k)
		}
		junk := make([][]byte, 64)
		for i := range junk {
			junk[i] = make([]byte, 80)
			rng.Read(junk[i])
		}
		wg.Add(2)
		go func() {
			defer wg.Done()
			hc := &http.Client{Timeout: 8 * time.Second, Transport: &http.Transport{DisableKeepAlives: true}}
			for i := 0; i < polls && !stalled.Load(); i++ {
				resp, err := hc.Get(fmt.Sprintf("http://127.0.0.1:%d/api/v1/recent-reports?publicKey=%s", w.HTTP, pollKeys[i]))
				if err != nil {
					if isTimeout(err) && !mutexSeenFree(w, 10*time.Second) {
						stalled.Store(true)
					} else if isTimeout(err) {
						pollTimeouts.Add(1) // slow, not wedged: the mutex changes hands
					}
					continue
				}
				io.Copy(io.Discard, resp.Body)
				resp.Body.Close()
				pollsDone.Add(1)
			}
		}()
		go func() {
			defer wg.Done()
			for i := 0; pollsDone.Load()+pollTimeouts.Load() < int64(polls) && !stalled.Load() && i < 400000; i++ {
				udp.Write(junk[i%len(junk)])
				if i%16 == 15 {
					time.Sleep(500 * time.Microsecond)
				}
				junkDone.Add(1)
			}
		}()
		for g := 0; g < 2; g++ {
			wg.Add(1)
			go func(g int) {
				defer wg.Done()
				for i := g; i < len(dgs) && !stalled.Load(); i += 2 {
					if i%3 == 0 {
						w.S.VerifInject(dgs[i].b)
					} else {
						udp.Write(dgs[i].b)
						if i%16 == 1 {
							time.Sleep(time.Millisecond)
						}
					}
					tick()
				}
			}(g)
		}
		for g := 0; g < 2; g++ {
			wg.Add(1)
			go func(g int) {
				defer wg.Done()
				for i := g; i < len(hcases) && !stalled.Load(); i += 2 {
					c := hcases[i]
					pq := c.route
					if c.query != "" {
						pq += "?" + c.query
					}
					w.do(c.method, pq, c.body)
					tick()
				}
			}(g)
		}
		var heldMu sync.Mutex
		var held []net.Conn
		for g := 0; g < 2; g++ {
			wg.Add(1)
			go func(g int) {
				defer wg.Done()
				for i := g; i < len(tcases) && !stalled.Load(); i += 2 {
					c := tcases[i]
					conn, err := w.dial(w.TCP)
					if err != nil {
						continue
					}
					conn.SetDeadline(time.Now().Add(10 * time.Second))
					conn.Write(c.payload)
					switch c.mode {
					case "hold":
						heldMu.Lock()
						held = append(held, conn)
						heldMu.Unlock()
					case "rst":
						conn.(*net.TCPConn).SetLinger(0)
						conn.Close()
					default:
						if len(c.payload) >= 4 || c.mode == "halfclose" {
							conn.(*net.TCPConn).CloseWrite()
							io.Copy(io.Discard, conn)
						}
						conn.Close()
					}
					tick()
				}
			}(g)
		}
		// a wedged server never returns from an injected datagram: wait for the
		// workers only as long as no poll has stalled
		workersDone := make(chan struct{})
		go func() { wg.Wait(); close(workersDone) }()
	waitWorkers:
		for {
			select {
			case <-workersDone:
				break waitWorkers
			case <-time.After(50 * time.Millisecond):
				if stalled.Load() {
					break waitWorkers
				}
			}
		}
		udp.Close()
		r.Count("stress.unknown_key_polls_among_junk_datagrams", pollsDone.Load())
		r.Count("stress.junk_datagrams_during_polls", junkDone.Load())
		r.Count("stress.polls_slow_but_mutex_free", pollTimeouts.Load())
		if stalled.Load() {
			// unanswered poll: a held lock is a violation (decided by the lock probe inside live), anything else is not judged
			drv.GateRotation(true)
			drv.GateImpact(true)
			if w.live(fmt.Sprintf("stress round %d: a recent-reports poll for an unknown key was not answered within 8 s while junk datagrams arrived", round)) {
				r.Inconc("a recent-reports poll timed out during the stress round although the server is live afterwards (machine overloaded)")
			}
			return
		}
		n := int(ops.Load())
		r.Eval(n)
		r.Count("inputs.datagram", int64(len(dgs)))
		r.Count("inputs.http", int64(len(hcases)))
		r.Count("inputs.tcp", int64(len(tcases)))
		r.Count("stress.concurrent_inputs", int64(n))
		for _, c := range hcases {
			w.rm[c.route[len("/api/v1/"):]+" "+c.method] = true
		}
		w.checkStderr(fmt.Sprintf("stress round %d", round))
		// quiescence: let the rotator finish, then gate the jobs and probe
		settled := false
		for i := 0; i < 4000; i++ {
			if int64(drv.Clock())-int64(w.offset()) <= 3200 {
				settled = true
				break
			}
			time.Sleep(5 * time.Millisecond)
		}
		r.Count("rotations.live", int64((w.offset()-off)/2016))
		drv.GateRotation(true)
		drv.GateImpact(true)
		if !settled {
			r.Inconc("rotation did not settle after the stress round")
			return
		}
		time.Sleep(150 * time.Millisecond) // both loops park at their gates
		if w.offset()+3200 < drv.Clock() {
			r.Inconc("offset still behind after gating")
			return
		}
		if !w.live(fmt.Sprintf("stress round %d", round)) {
			return
		}
		// shutdown with what the sync workers left open
		if _, _, err := w.Sync(w.A.ID); err != nil {
			r.Inconc("sync before shutdown: " + err.Error())
			return
		}
		if len(held) > 0 {
			r.Count("shutdown.with_idle_sync_conns", 1)
		}
		ok := w.closeJudged("after stress", held, fmt.Sprintf("%d idle/half-sent sync connections after stress", len(held)))
		for _, c := range held {
			c.Close()
		}
		if !ok {
			return
		}
		if round+1 < b.N {
			if err := w.Start(); err != nil {
				r.Inconc("restart: " + err.Error())
				return
			}
			w.born = time.Now()
		}
	}
}

// mutexSeenFree reports whether both server mutexes were seen free at least
// once within d (a wedged server never shows its main mutex free again).
func mutexSeenFree(w *world, d time.Duration) bool {
	mainSeen, srvSeen := false, false
	for t0 := time.Now(); time.Since(t0) < d; time.Sleep(5 * time.Millisecond) {
		mf, sf := w.S.VerifTryLock()
		mainSeen, srvSeen = mainSeen || mf, srvSeen || sf
		if mainSeen && srvSeen {
			return true
		}
	}
	return false
}
