//go:build test

// Close() issued while a POST /authorized-servers is still fanning out to a
// peer that does not answer (or answers slowly). The shutdown is judged as
// usual: it has to return; goroutines of the server parked for good decide.
package main

import (
	"bytes"
	"fmt"
	"math/rand"
	"net/http"
	"sync/atomic"
	"time"

	"verifharness/lib/drv"
	"verifharness/lib/ev"
	"verifharness/lib/refenc"
	"verifharness/lib/run"
)

func childCloseFanout(b run.Batch, r *ev.Result, rng *rand.Rand) {
	w, err := newWorld(b, r, rng, "srv")
	if err != nil {
		r.Inconc("cannot start world: " + err.Error())
		if w != nil {
			w.finish()
		}
		return
	}
	defer w.finish()
	drv.SetClock(950)
	bg := &http.Client{}
	timings := []string{"right-after-post", "after-first-peer-answered", "slow-peer"}
	for ep := 0; ep < b.N && !w.failed; ep++ {
		timing := timings[ep%len(timings)]
		if ep > 0 {
			if err := w.Start(); err != nil {
				r.Inconc("restart: " + err.Error())
				return
			}
			w.born = time.Now()
		}
		var fast *peer
		if timing == "after-first-peer-answered" {
			// a peer that answers at once is listed first
			fast, err = startPeer("status200")
			if err != nil {
				r.Inconc(err.Error())
				return
			}
			if st := w.authorizeServer(refenc.AuthServer{Pub: refenc.GenKey(rng).Pub, Location: "127.0.0.1", HTTP: fast.port, TCP: 1, UDP: 1}, "answering peer"); st != 200 {
				r.Inconc(fmt.Sprintf("answering peer: status %d", st))
				return
			}
		}
		var slow *peer
		var silent *silentPeer
		var port uint16
		if timing == "slow-peer" {
			slow, err = startPeer("slow")
			if err == nil {
				port = slow.port
			}
		} else {
			silent, port, err = startSilentPeer()
		}
		if err != nil {
			r.Inconc(err.Error())
			return
		}
		srv := refenc.AuthServer{Pub: refenc.GenKey(rng).Pub, Location: "127.0.0.1", HTTP: port, TCP: 1, UDP: 2}.Signed(w.GCAk.Priv)
		run.Op("POST /authorized-servers (peer on port %d, %s) left in flight, then Close()", port, timing)
		url := fmt.Sprintf("http://127.0.0.1:%d/api/v1/authorized-servers", w.HTTP)
		var fastBase int64
		if fast != nil {
			fastBase = atomic.LoadInt64(&fast.contacts)
		}
		postDone := make(chan struct{})
		go func() {
			if resp, err := bg.Post(url, "application/json", bytes.NewReader(srv.JSON())); err == nil {
				resp.Body.Close()
			}
			close(postDone)
		}()
		// the handler is past the point where the new server is listed: its fan-out has begun
		listed := false
		for i := 0; i < 400 && !listed; i++ {
			if _, l, err := w.AuthorizedServers(); err == nil {
				for _, s := range l {
					listed = listed || s.Pub == srv.Pub
				}
			}
			if !listed {
				time.Sleep(5 * time.Millisecond)
			}
		}
		if !listed {
			r.Inconc("the new server never appeared in the list")
			return
		}
		if fast != nil {
			for i := 0; i < 400 && atomic.LoadInt64(&fast.contacts) <= fastBase; i++ {
				time.Sleep(5 * time.Millisecond)
			}
			if atomic.LoadInt64(&fast.contacts) > fastBase {
				r.Count("closefanout.first_peer_had_answered", 1)
			}
		}
		r.Eval(1)
		r.Count("inputs.close_during_server_fanout", 1)
		r.Count("inputs.http", 1)
		r.Count("closefanout."+timing, 1)
		r.Nontrivial("closefanout/" + timing)
		ok := w.closeJudged("POST /authorized-servers in flight ("+timing+")", nil, "an authorized-servers request still fanning out to a "+map[bool]string{true: "slow", false: "silent"}[slow != nil]+" peer")
		if silent != nil {
			silent.release()
		}
		if slow != nil {
			slow.stop()
		}
		if fast != nil {
			fast.stop()
		}
		select {
		case <-postDone:
		case <-time.After(20 * time.Second):
			r.Count("closefanout.post_still_pending_after_close", 1)
		}
		if !ok {
			return
		}
	}
	if w.failed {
		return
	}
	// ---- the same with the forwarding of a NEW EQUIPMENT authorization to a listed peer that never answers
	if err := w.Start(); err != nil {
		r.Inconc("restart: " + err.Error())
		return
	}
	w.born = time.Now()
	silent, port, err := startSilentPeer()
	if err != nil {
		r.Inconc(err.Error())
		return
	}
	srv := refenc.AuthServer{Pub: refenc.GenKey(rng).Pub, Location: "127.0.0.1", HTTP: port, TCP: 1, UDP: 2}.Signed(w.GCAk.Priv)
	base := fmt.Sprintf("http://127.0.0.1:%d", w.HTTP)
	go func() {
		if resp, err := bg.Post(base+"/api/v1/authorized-servers", "application/json", bytes.NewReader(srv.JSON())); err == nil {
			resp.Body.Close()
		}
	}()
	listed := false
	for i := 0; i < 400 && !listed; i++ {
		if _, l, err := w.AuthorizedServers(); err == nil {
			for _, s := range l {
				listed = listed || s.Pub == srv.Pub
			}
		}
		if !listed {
			time.Sleep(5 * time.Millisecond)
		}
	}
	if !listed {
		r.Inconc("the silent peer never appeared in the list")
		silent.release()
		return
	}
	k := refenc.GenKey(rng)
	auth := refenc.Auth{ID: uint32(900000 + rng.Intn(1000)), Pub: k.Pub, Lat: 1, Long: 2, Capacity: 1000, Debt: 1, Expiration: 4000000000, Fee: 1}.Signed(w.GCAk.Priv)
	run.Op("POST /authorize-equipment for a new device while the listed peer on port %d never answers, then Close()", port)
	go func() {
		if resp, err := bg.Post(base+"/api/v1/authorize-equipment", "application/json", bytes.NewReader(auth.JSON())); err == nil {
			resp.Body.Close()
		}
	}()
	known := false
	for i := 0; i < 400 && !known; i++ {
		if _, eq, err := w.Equipment(); err == nil {
			_, known = eq[auth.ID]
		}
		if !known {
			time.Sleep(5 * time.Millisecond)
		}
	}
	if !known {
		r.Inconc("the new device never appeared in the equipment list")
		silent.release()
		return
	}
	time.Sleep(100 * time.Millisecond) // lets the forwarding reach the peer
	r.Eval(1)
	r.Count("inputs.close_during_equipment_forward", 1)
	r.Count("inputs.http", 1)
	r.Nontrivial("closefanout/equipment-forward")
	w.closeJudged("POST /authorize-equipment being forwarded to a silent peer", nil, "an equipment authorization still being forwarded to a silent peer")
	silent.release()
}
