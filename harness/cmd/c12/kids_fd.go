//go:build test

// Descriptor shortage: for a short while the process cannot create file
// descriptors, so accept() fails on every listener while peers connect.
// Afterwards every listener has to answer again. Own child process because
// RLIMIT_NOFILE is process-wide.
package main

import (
	"bytes"
	"fmt"
	"math/rand"
	"net"
	"os"
	"sort"
	"strconv"
	"syscall"
	"time"

	"verifharness/lib/drv"
	"verifharness/lib/ev"
	"verifharness/lib/run"
)

func lowestFreeFd() (int, error) {
	ents, err := os.ReadDir("/proc/self/fd")
	if err != nil {
		return 0, err
	}
	var fds []int
	for _, e := range ents {
		if n, err := strconv.Atoi(e.Name()); err == nil {
			fds = append(fds, n)
		}
	}
	sort.Ints(fds)
	// the directory handle used for this listing is closed again: treat the
	// highest number seen as in use anyway and fill every hole afterwards
	return fds[len(fds)-1] + 1, nil
}

func rawSocket(typ int) (int, error) { return syscall.Socket(syscall.AF_INET, typ, 0) }

func fdConn(fd int) (net.Conn, error) {
	f := os.NewFile(uintptr(fd), "presocket")
	defer f.Close()
	return net.FileConn(f)
}

func childFdLimit(b run.Batch, r *ev.Result, rng *rand.Rand) {
	w, err := newWorld(b, r, rng, "srv")
	if err != nil {
		r.Inconc("cannot start world: " + err.Error())
		if w != nil {
			w.finish()
		}
		return
	}
	defer w.finish()
	drv.SetClock(1500)
	if !w.live("descriptor shortage set-up") {
		return
	}
	for round := 0; round < b.N && !w.failed; round++ {
		w.hc.CloseIdleConnections()
		nSync, nHTTP := 1+rng.Intn(3), 1+rng.Intn(3)
		var syncFds, httpFds []int
		fail := func(err error) { r.Inconc("descriptor shortage set-up: " + err.Error()) }
		for i := 0; i < nSync+nHTTP; i++ {
			fd, err := rawSocket(syscall.SOCK_STREAM)
			if err != nil {
				fail(err)
				return
			}
			if i < nSync {
				syncFds = append(syncFds, fd)
			} else {
				httpFds = append(httpFds, fd)
			}
		}
		ufd, err := rawSocket(syscall.SOCK_DGRAM)
		if err != nil {
			fail(err)
			return
		}
		var old syscall.Rlimit
		if err := syscall.Getrlimit(syscall.RLIMIT_NOFILE, &old); err != nil {
			fail(err)
			return
		}
		limit, err := lowestFreeFd()
		if err != nil {
			fail(err)
			return
		}
		logBefore := bytes.Count(w.ReadFile("server.log"), []byte("Failed to accept connection"))
		run.Op("descriptor shortage round %d: RLIMIT_NOFILE %d -> %d for 300 ms while %d sync and %d http peers connect and a report arrives", round, old.Cur, limit, nSync, nHTTP)
		if err := syscall.Setrlimit(syscall.RLIMIT_NOFILE, &syscall.Rlimit{Cur: uint64(limit), Max: old.Max}); err != nil {
			fail(err)
			return
		}
		var filler []int
		for { // fill the holes below the limit
			fd, err := syscall.Open("/dev/null", syscall.O_RDONLY, 0)
			if err != nil {
				break
			}
			filler = append(filler, fd)
		}
		lo := [4]byte{127, 0, 0, 1}
		connErrs := 0
		for _, fd := range syncFds {
			if err := syscall.Connect(fd, &syscall.SockaddrInet4{Port: int(w.TCP), Addr: lo}); err != nil {
				connErrs++
			}
			syscall.Write(fd, idBytes(w.A.ID))
		}
		for _, fd := range httpFds {
			if err := syscall.Connect(fd, &syscall.SockaddrInet4{Port: int(w.HTTP), Addr: lo}); err != nil {
				connErrs++
			}
			syscall.Write(fd, []byte("GET /api/v1/equipment HTTP/1.1\r\nHost: x\r\nConnection: close\r\n\r\n"))
		}
		rep := w.A.Report(1500+uint32(round), 77)
		syscall.Sendto(ufd, rep.Bytes(), 0, &syscall.SockaddrInet4{Port: int(w.UDP), Addr: lo})
		time.Sleep(300 * time.Millisecond)
		rerr := syscall.Setrlimit(syscall.RLIMIT_NOFILE, &old)
		for _, fd := range filler {
			syscall.Close(fd)
		}
		syscall.Close(ufd)
		if rerr != nil {
			fail(rerr)
			return
		}
		r.Eval(1)
		r.Count("inputs.descriptor_shortage_rounds", 1)
		r.Count("inputs.tcp", int64(nSync))
		r.Count("inputs.http", int64(nHTTP))
		r.Count("inputs.datagram", 1)
		r.Nontrivial(fmt.Sprintf("fdlimit/%d/%d/%d", b.Seed, round, limit))
		if connErrs > 0 {
			r.Count("fdlimit.client_connect_errors", int64(connErrs))
		}
		time.Sleep(50 * time.Millisecond)
		lg := w.ReadFile("server.log")
		r.Count("fdlimit.sync_accept_failures_logged", int64(bytes.Count(lg, []byte("Failed to accept connection"))-logBefore))
		// the peers that connected during the shortage: informational
		for i, fd := range append(append([]int{}, syncFds...), httpFds...) {
			c, err := fdConn(fd)
			if err != nil {
				syscall.Close(fd)
				continue
			}
			c.SetReadDeadline(time.Now().Add(3 * time.Second))
			buf := make([]byte, 2048)
			n, _ := c.Read(buf)
			switch {
			case n > 0 && i < nSync:
				r.Count("fdlimit.pending_sync_peer_answered", 1)
			case n > 0:
				r.Count("fdlimit.pending_http_peer_answered", 1)
			default:
				r.Count("fdlimit.pending_peer_not_answered", 1)
			}
			c.Close()
		}
		w.checkStderr("descriptor shortage")
		if !w.live(fmt.Sprintf("descriptor shortage (accept failing on all listeners for 300 ms), round %d", round)) {
			return
		}
	}
}
