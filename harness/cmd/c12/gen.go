//go:build test

// Input generators of the C12 check: datagram classes (those of C01 plus the
// window-edge set), HTTP request matrix (route × method × query × body) and
// TCP sync request classes. All generators are pure functions of the world's
// keys, the (now, offset) configuration and the PRNG handed in.
package main

import (
	"encoding/hex"
	"fmt"
	"math"
	"math/rand"
	"strings"

	"verifharness/lib/drv"
	"verifharness/lib/refenc"
)

// ---------------------------------------------------------------- datagrams

type dg struct {
	b     []byte
	class string
}

func flipBit(b []byte, i int) []byte {
	c := append([]byte(nil), b...)
	c[i/8] ^= 1 << (uint(i) % 8)
	return c
}

func inU32(s int64) bool { return s >= 0 && s <= 0xffffffff }

// edgeDatagrams is the window-edge set that is delivered at every clock value:
// validly signed reports of authorized devices at now∓432/433 and at the
// window end −1 / +0 / +1 (offset+4031/4032/4033), the window start and a
// little garbage aimed at a known id.
func edgeDatagrams(k *keys, now, offset uint32, rng *rand.Rand) []dg {
	var out []dg
	pw := func() uint64 { return 2 + uint64(rng.Intn(1000)) }
	add := func(class string, d *drv.Dev, s int64) {
		if !inU32(s) {
			return
		}
		out = append(out, dg{d.Report(uint32(s), pw()).Bytes(), class})
	}
	n, o := int64(now), int64(offset)
	add("edge.now-433", k.A, n-433)
	add("edge.now-432", k.A, n-432)
	add("edge.now+432", k.A, n+432)
	add("edge.now+433", k.A, n+433)
	add("edge.off-1", k.B, o-1)
	add("edge.off", k.B, o)
	add("edge.off+4031", k.A, o+4031)
	add("edge.off+4032", k.A, o+4032)
	add("edge.off+4032", k.B, o+4032)
	add("edge.off+4033", k.A, o+4033)
	add("edge.off+4032", k.X, o+4032) // banned device, same slot
	// garbage aimed at a known id, and one bit flip of a valid report
	g := make([]byte, 80)
	rng.Read(g)
	copy(g, k.A.Report(0, 2).Bytes()[:4])
	out = append(out, dg{g, "random"})
	v := k.A.Report(uint32(n), pw()).Bytes()
	out = append(out, dg{flipBit(v, rng.Intn(640)), "bitflip"})
	return out
}

// classDatagrams is the C01 generator (all classes), without the model.
func classDatagrams(k *keys, now, offset uint32, rng *rand.Rand, full bool) []dg {
	var out []dg
	add := func(class string, b []byte) { out = append(out, dg{b, class}) }
	lo := int64(now) - 432
	if lo < int64(offset) {
		lo = int64(offset)
	}
	hi := int64(now) + 432
	if hi > int64(offset)+4031 {
		hi = int64(offset) + 4031
	}
	freshSlot := func() (uint32, bool) {
		if lo > hi {
			// no acceptable slot here: aim at the time window anyway
			return now, false
		}
		return uint32(lo + rng.Int63n(hi-lo+1)), true
	}
	power := func() uint64 { return 2 + uint64(rng.Intn(1000)) }

	nr := 10
	if full {
		nr = 50
	}
	for i := 0; i < nr; i++ {
		l := rng.Intn(201)
		b := make([]byte, l)
		rng.Read(b)
		if l >= 4 && rng.Intn(2) == 0 {
			copy(b, k.A.Report(0, 0).Bytes()[:4])
		}
		add("random", b)
	}
	s, _ := freshSlot()
	v := k.A.Report(s, power()).Bytes()
	flips := 32
	if full {
		flips = 640
	}
	perm := rng.Perm(640)
	for _, i := range perm[:flips] {
		add("bitflip", flipBit(v, i))
	}
	for j := 0; j < 6; j++ {
		c := append([]byte(nil), v...)
		for q := 0; q < 2+rng.Intn(7); q++ {
			c = flipBit(c, rng.Intn(640))
		}
		add("multiflip", c)
	}
	sw := append([]byte(nil), v...)
	copy(sw[0:4], v[4:8])
	copy(sw[4:8], v[0:4])
	add("fieldswap", sw)
	sw = append([]byte(nil), v...)
	copy(sw[8:12], v[12:16])
	copy(sw[12:16], v[8:12])
	add("fieldswap", sw)
	sw = append([]byte(nil), v...)
	copy(sw[16:48], v[48:80])
	copy(sw[48:80], v[16:48])
	add("fieldswap", sw)
	add("truncated", v[:79])
	add("truncated", v[:16])
	add("truncated", v[:0])
	for _, l := range []int{81, 160, 200, 1400} {
		p := make([]byte, l)
		copy(p, v)
		rng.Read(p[80:])
		add("padded", p)
	}
	r := refenc.Report{ID: k.A.ID, Slot: s, Power: power()}
	for _, nk := range []struct {
		n string
		k refenc.Key
	}{{"B", k.B.Key}, {"X", k.X.Key}, {"U", k.U.Key}, {"GCA", k.GCAk}, {"temp", k.Temp}, {"server", k.Server}} {
		add("resigned."+nk.n, r.Signed(nk.k.Priv).Bytes())
	}
	wrong := func(name string, sb []byte) {
		q := r
		q.Sig = refenc.Sign(k.A.Key.Priv, sb)
		add("wrongbytes."+name, q.Bytes())
	}
	body := r.SigningBytes()[15:]
	wrong("noprefix", body)
	wrong("otherprefix", append([]byte("EquipmentAuthorization"), body...))
	// hostile signature encodings for the native verifier
	for _, hs := range hostileSigs(rng) {
		q := r
		q.Sig = hs
		add("hostilesig", q.Bytes())
	}
	q := r
	q.Slot, _ = freshSlot()
	q.Sig = refenc.SignRand(k.A.Key.Priv, q.SigningBytes())
	add("randnonce", q.Bytes())
	for _, p := range []uint64{0, 1, 2, math.MaxInt64, math.MaxInt64 + 1, math.MaxUint64} {
		s2, _ := freshSlot()
		add(fmt.Sprintf("power.%d", p), k.B.Report(s2, p).Bytes())
	}
	s3, _ := freshSlot()
	add("id.banned", k.X.Report(s3, power()).Bytes())
	add("id.neverauthorized", k.U.Report(s3, power()).Bytes())
	for _, id := range []uint32{0, 0xffffffff} {
		add("id.extreme", refenc.Report{ID: id, Slot: s3, Power: power()}.Signed(k.A.Key.Priv).Bytes())
	}
	for _, sl := range []int64{int64(now) - 433, int64(now) - 432, int64(now) - 431, int64(now), int64(now) + 431, int64(now) + 432, int64(now) + 433,
		int64(offset) - 1, int64(offset), int64(offset) + 1, int64(offset) + 2015, int64(offset) + 2016, int64(offset) + 4031, int64(offset) + 4032, int64(offset) + 4033,
		0, 0xffffffff, 0x7fffffff, 0x80000000} {
		if !inU32(sl) {
			continue
		}
		d := k.A
		if rng.Intn(2) == 0 {
			d = k.B
		}
		add("boundary", d.Report(uint32(sl), power()).Bytes())
	}
	for j := 0; j < 3; j++ {
		if s, ok := freshSlot(); ok {
			d := k.A
			if j == 1 {
				d = k.B
			}
			v := d.Report(s, power())
			add("control", v.Bytes())
			switch rng.Intn(4) {
			case 0:
				add("control.replay", v.Bytes())
			case 1:
				add("control.equivocate", d.Report(s, v.Power+1).Bytes())
				add("control.afterban", d.Report(s, v.Power+2).Bytes())
			case 2:
				q := v
				q.Sig = refenc.SignRand(d.Key.Priv, v.SigningBytes())
				add("control.resigned_same_content", q.Bytes())
			}
		}
	}
	if s, ok := freshSlot(); ok {
		add("control.overcapacity", k.A.Report(s, k.A.Auth.Capacity*135/100+1).Bytes())
		s2, _ := freshSlot()
		add("control.negative", k.A.Report(s2, uint64(1<<64-5000)).Bytes())
	}
	return out
}

// hostileSigs are signature encodings that stress the native (cgo secp256k1)
// verifier: zero, all ones, r or s equal to / above the group order, high s.
func hostileSigs(rng *rand.Rand) [][64]byte {
	var out [][64]byte
	n, _ := hex.DecodeString("fffffffffffffffffffffffffffffffebaaedce6af48a03bbfd25e8cd0364141")
	p, _ := hex.DecodeString("fffffffffffffffffffffffffffffffffffffffffffffffffffffffefffffc2f")
	var z, f, rn, sn, pp, one [64]byte
	for i := range f {
		f[i] = 0xff
	}
	copy(rn[:32], n)
	rng.Read(rn[32:])
	rng.Read(sn[:32])
	copy(sn[32:], n)
	copy(pp[:32], p)
	copy(pp[32:], p)
	one[31], one[63] = 1, 1
	out = append(out, z, f, rn, sn, pp, one)
	var rnd [64]byte
	rng.Read(rnd[:])
	out = append(out, rnd)
	return out
}

// ---------------------------------------------------------------- HTTP

var routes = []string{
	"/api/v1/all-device-stats", "/api/v1/authorized-servers", "/api/v1/authorize-equipment", "/api/v1/equipment",
	"/api/v1/equipment-migrate", "/api/v1/register-gca", "/api/v1/recent-reports", "/api/v1/geo-stats", "/api/v1/archive",
	"/api/v1/no-such-route",
}

var methods = []string{"GET", "POST", "PUT", "DELETE", "HEAD", "OPTIONS", "PATCH"}

type namedStr struct {
	class string
	s     string
}

type namedBytes struct {
	class string
	b     []byte
}

// queries builds the query classes for the current window offset.
func queries(k *keys, offset uint32, rng *rand.Rand) []namedStr {
	var out []namedStr
	add := func(c, q string) { out = append(out, namedStr{c, q}) }
	all := func(v string) string {
		return "timeslot_offset=" + v + "&publicKey=" + v + "&latitude=" + v + "&longitude=" + v
	}
	add("absent", "")
	add("empty", all(""))
	add("nonnumeric", all("abc"))
	add("nonnumeric", all("0x7e0"))
	add("negative", all("-2016"))
	add("two32", all("4294967296"))
	add("two32.aligned-below", "timeslot_offset=4294967040") // largest multiple of 2016 below 2^32
	add("two32.minus1", all("4294967295"))
	add("two64", all("18446744073709551616"))
	add("two64.minus1", all("18446744073709551615"))
	add("misaligned", fmt.Sprintf("timeslot_offset=%d", offset+1))
	add("misaligned", fmt.Sprintf("timeslot_offset=%d", offset+2015))
	if offset >= 2016 {
		add("archived", fmt.Sprintf("timeslot_offset=%d", offset-2016))
		add("archived", "timeslot_offset=0")
		add("archived.false_negatives", fmt.Sprintf("timeslot_offset=%d&insert_false_negatives=true", offset-2016))
	}
	add("live", fmt.Sprintf("timeslot_offset=%d", offset))
	add("live", fmt.Sprintf("timeslot_offset=%d", offset+2016))
	add("live.false_negatives", fmt.Sprintf("timeslot_offset=%d&insert_false_negatives=true", offset))
	add("future", fmt.Sprintf("timeslot_offset=%d", offset+4032))
	add("future", fmt.Sprintf("timeslot_offset=%d", offset+2016*1000))
	add("hexwrong", "publicKey="+strings.Repeat("ab", 31))
	add("hexwrong", "publicKey="+strings.Repeat("ab", 33))
	add("hexwrong", "publicKey="+strings.Repeat("a", 63))
	add("hexwrong", "publicKey="+strings.Repeat("zz", 32))
	add("hexwrong", "publicKey="+strings.Repeat("ab", 40000))
	var u [32]byte
	rng.Read(u[:])
	add("pk.unknown", "publicKey="+hex.EncodeToString(u[:]))
	add("pk.banned", "publicKey="+hex.EncodeToString(k.X.Key.Pub[:]))
	add("pk.neverauthorized", "publicKey="+hex.EncodeToString(k.U.Key.Pub[:]))
	add("pk.known", "publicKey="+hex.EncodeToString(k.A.Key.Pub[:]))
	add("pk.known.upper", "publicKey="+strings.ToUpper(hex.EncodeToString(k.B.Key.Pub[:])))
	add("geo.numeric", "latitude=40.5&longitude=-100.25")
	add("geo.extreme", "latitude=1e308&longitude=-1e308")
	add("geo.nan", "latitude=NaN&longitude=Inf")
	add("duplicate", fmt.Sprintf("timeslot_offset=%d&timeslot_offset=abc&publicKey=&publicKey=00", offset))
	add("escaped", "timeslot_offset=%32%30%31%36&publicKey=%00%ff&latitude=%2B1&longitude=+1")
	return out
}

func jsonArr(n int, f func(i int) string) string {
	var sb strings.Builder
	sb.WriteByte('[')
	for i := 0; i < n; i++ {
		if i > 0 {
			sb.WriteByte(',')
		}
		sb.WriteString(f(i))
	}
	sb.WriteByte(']')
	return sb.String()
}

func authJSONWith(pubLen, sigLen int, elem func(i int) string) []byte {
	return []byte(fmt.Sprintf(`{"ShortID":77,"PublicKey":%s,"Latitude":1,"Longitude":2,"Capacity":3,"Debt":4,"Expiration":5,"Initialization":6,"ProtocolFee":7,"Signature":%s}`,
		jsonArr(pubLen, elem), jsonArr(sigLen, elem)))
}

// signedExtremes are validly GCA-signed authorizations with extreme field
// values; ids come from the caller so they never collide with probe devices.
func signedExtremeAuths(k *keys, rng *rand.Rand, nextID func() uint32) []namedBytes {
	var out []namedBytes
	mk := func(class string, f func(a *refenc.Auth)) {
		a := refenc.Auth{ID: nextID(), Pub: refenc.GenKey(rng).Pub, Lat: 10, Long: 20, Capacity: 1000, Debt: 1, Expiration: 100000, Initialization: 1, Fee: 1}
		f(&a)
		out = append(out, namedBytes{"signed." + class, a.Signed(k.GCAk.Priv).JSON()})
	}
	mk("plain", func(a *refenc.Auth) {})
	mk("capacity0", func(a *refenc.Auth) { a.Capacity = 0 })
	mk("capacitymax", func(a *refenc.Auth) { a.Capacity = math.MaxUint64 })
	mk("latlong+max", func(a *refenc.Auth) { a.Lat, a.Long = math.MaxFloat64, math.MaxFloat64 })
	mk("latlong-max", func(a *refenc.Auth) { a.Lat, a.Long = -math.MaxFloat64, -math.MaxFloat64 })
	mk("latlong.mixed", func(a *refenc.Auth) { a.Lat, a.Long = math.MaxFloat64, -math.MaxFloat64 })
	mk("latlong.denormal", func(a *refenc.Auth) { a.Lat, a.Long = math.SmallestNonzeroFloat64, -math.SmallestNonzeroFloat64 })
	mk("allmax", func(a *refenc.Auth) {
		a.Debt, a.Fee, a.Expiration, a.Initialization = math.MaxUint64, math.MaxUint64, math.MaxUint32, math.MaxUint32
	})
	mk("allzero", func(a *refenc.Auth) {
		a.Lat, a.Long, a.Capacity, a.Debt, a.Fee, a.Expiration, a.Initialization = 0, 0, 0, 0, 0, 0, 0
	})
	mk("id0", func(a *refenc.Auth) { a.ID = 0 })
	mk("idmax", func(a *refenc.Auth) { a.ID = math.MaxUint32 })
	mk("zerokey", func(a *refenc.Auth) { a.Pub = [32]byte{} })
	return out
}

// bodies builds the request body classes. Every structured body exists for
// all four request types so that the route × body product is meaningful.
func bodies(k *keys, rng *rand.Rand, nextID func() uint32, peerPort uint16, withExtremeLatLong bool) []namedBytes {
	var out []namedBytes
	add := func(c string, b []byte) { out = append(out, namedBytes{c, b}) }
	add("empty", nil)
	j := make([]byte, 1+rng.Intn(300))
	rng.Read(j)
	add("junk", j)
	add("junk", []byte("hello, world"))
	add("junk", []byte("\xef\xbb\xbf{}"))
	add("json.scalar", []byte("null"))
	add("json.scalar", []byte("7"))
	add("json.scalar", []byte(`"x"`))
	add("json.scalar", []byte("[]"))
	add("json.scalar", []byte("{}"))
	add("json.trailing", []byte(`{"ShortID":1} garbage`))
	add("json.dupkeys", []byte(`{"ShortID":1,"ShortID":2,"shortid":3,"SHORTID":"x"}`))

	plainAuth := refenc.Auth{ID: nextID(), Pub: refenc.GenKey(rng).Pub, Lat: 1, Long: 2, Capacity: 1000, Debt: 1, Expiration: 9, Initialization: 1, Fee: 3}
	srvKey := refenc.GenKey(rng)
	plainSrv := refenc.AuthServer{Pub: srvKey.Pub, Location: "127.0.0.1", HTTP: peerPort, TCP: 1, UDP: 2}
	newGCA := refenc.GenKey(rng)
	inner := refenc.AuthServer{Pub: refenc.GenKey(rng).Pub, Location: "127.0.0.1", HTTP: peerPort, TCP: 3, UDP: 4}.Signed(newGCA.Priv)
	plainMig := refenc.Migration{Equipment: k.B.Key.Pub, NewGCA: newGCA.Pub, NewID: 7, Servers: []refenc.AuthServer{inner}}
	plainReg := refenc.Registration{GCAKey: refenc.GenKey(rng).Pub}

	// truncated JSON
	for _, full := range [][]byte{plainAuth.Signed(k.GCAk.Priv).JSON(), plainSrv.Signed(k.GCAk.Priv).JSON(), plainMig.Signed(k.GCAk.Priv).JSON(), plainReg.JSON()} {
		add("truncated", full[:1+rng.Intn(len(full)-1)])
		add("truncated", full[:len(full)-1])
	}
	// wrong types
	add("wrongtypes", []byte(`{"ShortID":"7","PublicKey":"abc","Latitude":"x","Longitude":[],"Capacity":-1,"Debt":1.5,"Expiration":null,"Initialization":{},"ProtocolFee":true,"Signature":"sig"}`))
	add("wrongtypes", []byte(`{"PublicKey":5,"Banned":"yes","Location":7,"HttpPort":"80","TcpPort":-1,"UdpPort":1.5,"GCAAuthorization":{}}`))
	add("wrongtypes", []byte(`{"Equipment":"x","NewGCA":1,"NewShortID":"a","NewServers":{"a":1},"Signature":[]}`))
	add("wrongtypes", []byte(`{"GCAKey":"k","Signature":7}`))
	add("wrongtypes", []byte(`{"NewServers":[1,"a",null,{"PublicKey":"x"}]}`))
	// arrays of wrong length / element range
	num := func(i int) string { return fmt.Sprint(i % 256) }
	for _, l := range [][2]int{{0, 64}, {31, 64}, {33, 64}, {32, 0}, {32, 63}, {32, 65}, {64, 32}, {1000, 1000}} {
		add("arraylen", authJSONWith(l[0], l[1], num))
	}
	add("arrayelem", authJSONWith(32, 64, func(i int) string { return "256" }))
	add("arrayelem", authJSONWith(32, 64, func(i int) string { return "-1" }))
	add("arrayelem", authJSONWith(32, 64, func(i int) string { return "1.5" }))
	add("arrayelem", authJSONWith(32, 64, func(i int) string { return `"1"` }))
	add("arraylen", []byte(fmt.Sprintf(`{"GCAKey":%s,"Signature":%s}`, jsonArr(33, num), jsonArr(63, num))))
	add("arraylen", []byte(fmt.Sprintf(`{"PublicKey":%s,"Banned":false,"Location":"a","HttpPort":1,"TcpPort":2,"UdpPort":3,"GCAAuthorization":%s}`, jsonArr(31, num), jsonArr(65, num))))
	add("arraylen", []byte(fmt.Sprintf(`{"Equipment":%s,"NewGCA":%s,"NewShortID":1,"NewServers":[],"Signature":%s}`, jsonArr(0, num), jsonArr(64, num), jsonArr(32, num))))
	// huge numbers
	add("hugenumbers", []byte(`{"ShortID":4294967296,"Capacity":18446744073709551616,"Latitude":1e999,"Longitude":-1e999,"Debt":1e30,"Expiration":99999999999,"ProtocolFee":-0}`))
	add("hugenumbers", []byte(`{"ShortID":1e400}`))
	add("hugenumbers", []byte(`{"ShortID":`+strings.Repeat("9", 5000)+`}`))
	add("hugenumbers", []byte(`{"HttpPort":65536,"TcpPort":-1,"UdpPort":1e5,"Location":"x"}`))
	add("hugenumbers", []byte(`{"NewShortID":-1}`))
	// nesting
	add("nesting", []byte(strings.Repeat("[", 100000)))
	add("nesting", []byte(strings.Repeat(`{"a":`, 50000)))
	add("nesting", []byte(`{"PublicKey":`+strings.Repeat("[", 9000)+strings.Repeat("]", 9000)+`}`))
	add("nesting", []byte(`{"NewServers":`+strings.Repeat("[", 20000)))
	add("nesting", []byte(strings.Repeat("[", 9999)+strings.Repeat("]", 9999)))
	add("large", append([]byte(strings.Repeat(" ", 3<<20)), plainReg.JSON()...))

	// valid structure, not (validly) signed
	add("unsigned", plainAuth.JSON())
	ra := plainAuth
	rng.Read(ra.Sig[:])
	add("unsigned", ra.JSON())
	add("unsigned", plainAuth.Signed(k.Temp.Priv).JSON())
	add("unsigned", plainAuth.Signed(k.A.Key.Priv).JSON())
	add("unsigned", plainAuth.Signed(k.Server.Priv).JSON())
	for _, hs := range hostileSigs(rng) {
		h := plainAuth
		h.Sig = hs
		add("unsigned.hostilesig", h.JSON())
	}
	add("unsigned", plainSrv.JSON())
	add("unsigned", plainSrv.Signed(k.Temp.Priv).JSON())
	add("unsigned", plainMig.JSON())
	um := plainMig
	um.Servers = []refenc.AuthServer{{Pub: inner.Pub, Location: "x", HTTP: 1}}
	add("unsigned.inner", um.Signed(k.GCAk.Priv).JSON())
	add("unsigned", plainReg.JSON())
	rr := plainReg
	rr.Sig = refenc.Sign(k.GCAk.Priv, rr.SigningBytes())
	add("unsigned", rr.JSON())
	// a registration that is validly signed by the temporary key (the GCA is
	// already registered, so it must be refused – but it reaches the signature check)
	rt := plainReg
	rt.Sig = refenc.Sign(k.Temp.Priv, rt.SigningBytes())
	add("signed.registration-again", rt.JSON())

	// validly GCA-signed structures with extreme field values
	for _, nb := range signedExtremeAuths(k, rng, nextID) {
		if !withExtremeLatLong && strings.Contains(nb.class, "latlong") {
			continue
		}
		add(nb.class, nb.b)
	}
	// conflicting authorization for B (bans B; B is never a probe device)
	cb := k.B.Auth
	cb.Debt += 7
	add("signed.conflict", cb.Signed(k.GCAk.Priv).JSON())
	// servers
	mkSrv := func(class string, f func(s *refenc.AuthServer)) {
		s := refenc.AuthServer{Pub: refenc.GenKey(rng).Pub, Location: "127.0.0.1", HTTP: peerPort, TCP: 1, UDP: 2}
		f(&s)
		add("signed.server."+class, s.Signed(k.GCAk.Priv).JSON())
	}
	mkSrv("plain", func(s *refenc.AuthServer) {})
	mkSrv("loc0", func(s *refenc.AuthServer) { s.Location = "" })
	mkSrv("loc255", func(s *refenc.AuthServer) { s.Location = strings.Repeat("a", 255) })
	mkSrv("loc.odd", func(s *refenc.AuthServer) { s.Location = "127.0.0.1:1/x?y=#\" \\" })
	mkSrv("ports0", func(s *refenc.AuthServer) { s.HTTP, s.TCP, s.UDP = 0, 0, 0 })
	mkSrv("portsmax", func(s *refenc.AuthServer) { s.HTTP, s.TCP, s.UDP = 65535, 65535, 65535 })
	mkSrv("bornbanned", func(s *refenc.AuthServer) { s.Banned = true })
	ban := plainSrv
	add("signed.server.first", plainSrv.Signed(k.GCAk.Priv).JSON())
	ban.Banned = true
	add("signed.server.ban", ban.Signed(k.GCAk.Priv).JSON())
	// migrations
	mkMig := func(class string, f func(m *refenc.Migration)) {
		m := refenc.Migration{Equipment: k.B.Key.Pub, NewGCA: newGCA.Pub, NewID: 7, Servers: []refenc.AuthServer{inner}}
		f(&m)
		add("signed.migration."+class, m.Signed(k.GCAk.Priv).JSON())
	}
	mkMig("plain", func(m *refenc.Migration) {})
	mkMig("noservers", func(m *refenc.Migration) { m.Servers = nil; m.Equipment = k.U.Key.Pub })
	mkMig("unknownequipment", func(m *refenc.Migration) { rng.Read(m.Equipment[:]) })
	mkMig("zerokeys", func(m *refenc.Migration) { m.Equipment = [32]byte{}; m.NewGCA = [32]byte{}; m.Servers = nil })
	mkMig("idmax", func(m *refenc.Migration) { m.NewID = math.MaxUint32; m.Equipment = k.X.Key.Pub })
	mkMig("loc255x3", func(m *refenc.Migration) {
		m.Equipment = k.A.Key.Pub
		m.Servers = nil
		for i := 0; i < 3; i++ {
			m.Servers = append(m.Servers, refenc.AuthServer{Pub: refenc.GenKey(rng).Pub, Location: strings.Repeat("b", 255), HTTP: 65535, TCP: 0, UDP: 1, Banned: i == 1}.Signed(newGCA.Priv))
		}
	})
	// new-server entries whose location does not fit the one-byte length of the wire layout, in orders
	// with and without valid signatures (the handler sees them before anything has been checked)
	for _, n := range []int{256, 257, 511, 70000} {
		n := n
		mkMig(fmt.Sprintf("loc%d", n), func(m *refenc.Migration) {
			m.Equipment = k.A.Key.Pub
			m.Servers = []refenc.AuthServer{refenc.AuthServer{Pub: refenc.GenKey(rng).Pub, Location: strings.Repeat("c", n), HTTP: 1, TCP: 2, UDP: 3}.Signed(newGCA.Priv)}
		})
		um := plainMig
		um.Servers = []refenc.AuthServer{{Pub: inner.Pub, Location: strings.Repeat("d", n), HTTP: 1}}
		add(fmt.Sprintf("unsigned.migration.loc%d", n), um.JSON())
	}
	return out
}

type httpCase struct {
	method, route, qclass, query, bclass string
	body                                 []byte
}

// httpCases: full product when n <= 0, otherwise a covering sample of n cases:
// every route×method×query class and every route×method×body class at least
// once (as far as n allows), then random combinations.
func httpCases(qs []namedStr, bs []namedBytes, rng *rand.Rand, n int) []httpCase {
	var out []httpCase
	mk := func(r, m string, q namedStr, b namedBytes) httpCase {
		return httpCase{m, r, q.class, q.s, b.class, b.b}
	}
	if n <= 0 {
		for _, r := range routes {
			for _, m := range methods {
				for _, q := range qs {
					for _, b := range bs {
						out = append(out, mk(r, m, q, b))
					}
				}
			}
		}
		rng.Shuffle(len(out), func(i, j int) { out[i], out[j] = out[j], out[i] })
		return out
	}
	// (a) every route × method once; (b) for the methods a route implements:
	// every query class and every body class; (c) random combinations, biased
	// to implemented methods (a wrong method never gets past the first line of a handler).
	valid := func(r string) []string {
		switch r {
		case "/api/v1/authorize-equipment", "/api/v1/equipment-migrate", "/api/v1/register-gca":
			return []string{"POST"}
		case "/api/v1/authorized-servers":
			return []string{"GET", "POST"}
		case "/api/v1/no-such-route":
			return []string{"GET", "POST"}
		}
		return []string{"GET"}
	}
	for _, r := range routes {
		for _, m := range methods {
			out = append(out, mk(r, m, qs[rng.Intn(len(qs))], bs[rng.Intn(len(bs))]))
		}
	}
	var deep []httpCase
	for _, r := range routes {
		for _, m := range valid(r) {
			for _, q := range qs {
				b := bs[0]
				if m == "POST" || rng.Intn(4) == 0 {
					b = bs[rng.Intn(len(bs))]
				}
				deep = append(deep, mk(r, m, q, b))
			}
			if m == "POST" || r == "/api/v1/archive" {
				for _, b := range bs {
					deep = append(deep, mk(r, m, qs[rng.Intn(len(qs))], b))
				}
			}
		}
	}
	rng.Shuffle(len(deep), func(i, j int) { deep[i], deep[j] = deep[j], deep[i] })
	if len(out)+len(deep) > n {
		deep = deep[:n-len(out)]
	}
	out = append(out, deep...)
	for len(out) < n {
		r := routes[rng.Intn(len(routes))]
		m := methods[rng.Intn(len(methods))]
		if rng.Intn(4) != 0 {
			v := valid(r)
			m = v[rng.Intn(len(v))]
		}
		out = append(out, mk(r, m, qs[rng.Intn(len(qs))], bs[rng.Intn(len(bs))]))
	}
	rng.Shuffle(len(out), func(i, j int) { out[i], out[j] = out[j], out[i] })
	return out
}

// rawHTTP are request byte strings that net/http's client would refuse to send.
func rawHTTP(rng *rand.Rand) []namedBytes {
	g := make([]byte, 200)
	rng.Read(g)
	return []namedBytes{
		{"raw.garbage", g},
		{"raw.badescape", []byte("GET /api/v1/all-device-stats?timeslot_offset=%zz HTTP/1.1\r\nHost: x\r\n\r\n")},
		{"raw.http10", []byte("GET /api/v1/equipment HTTP/1.0\r\n\r\n")},
		{"raw.nohost", []byte("GET /api/v1/equipment HTTP/1.1\r\n\r\n")},
		{"raw.badversion", []byte("GET /api/v1/equipment HTTP/9.9\r\nHost: x\r\n\r\n")},
		{"raw.longline", []byte("GET /api/v1/equipment?" + strings.Repeat("a", 2<<20) + " HTTP/1.1\r\nHost: x\r\n\r\n")},
		{"raw.manyheaders", []byte("GET /api/v1/equipment HTTP/1.1\r\nHost: x\r\n" + strings.Repeat("X-A: b\r\n", 50000) + "\r\n")},
		{"raw.negativelength", []byte("POST /api/v1/authorize-equipment HTTP/1.1\r\nHost: x\r\nContent-Length: -5\r\n\r\n{}")},
		{"raw.hugelength", []byte("POST /api/v1/register-gca HTTP/1.1\r\nHost: x\r\nContent-Length: 99999999999999999999\r\n\r\n{}")},
		{"raw.chunked.bad", []byte("POST /api/v1/equipment-migrate HTTP/1.1\r\nHost: x\r\nTransfer-Encoding: chunked\r\n\r\nzz\r\n{}\r\n0\r\n\r\n")},
		{"raw.chunked.ok", []byte("POST /api/v1/authorized-servers HTTP/1.1\r\nHost: x\r\nTransfer-Encoding: chunked\r\n\r\n2\r\n{}\r\n0\r\n\r\n")},
		{"raw.pipelined", []byte("GET /api/v1/equipment HTTP/1.1\r\nHost: x\r\n\r\nGET /api/v1/authorized-servers HTTP/1.1\r\nHost: x\r\n\r\nPOST /api/v1/archive HTTP/1.1\r\nHost: x\r\nContent-Length: 2\r\n\r\n{}")},
		{"raw.connect", []byte("CONNECT 127.0.0.1:1 HTTP/1.1\r\nHost: x\r\n\r\n")},
		{"raw.star", []byte("OPTIONS * HTTP/1.1\r\nHost: x\r\n\r\n")},
		{"raw.dotdot", []byte("GET /api/v1/../../etc/passwd HTTP/1.1\r\nHost: x\r\n\r\n")},
		{"raw.archivebody", []byte("GET /api/v1/archive HTTP/1.1\r\nHost: x\r\nContent-Length: 3\r\n\r\nabc")},
		{"raw.halfheader", []byte("POST /api/v1/authorize-equipment HTTP/1.1\r\nHost: x\r\nContent-Le")},
		{"raw.halfbody", []byte("POST /api/v1/authorize-equipment HTTP/1.1\r\nHost: x\r\nContent-Length: 1000\r\n\r\n{\"ShortID\":")},
	}
}

// ---------------------------------------------------------------- TCP sync

type tcpCase struct {
	class   string
	payload []byte
	mode    string // close | halfclose | rst | hold | slow
	known   bool   // exactly 4 bytes naming an authorized, unbanned device
}

func idBytes(id uint32) []byte {
	return []byte{byte(id), byte(id >> 8), byte(id >> 16), byte(id >> 24)}
}

func tcpCases(k *keys, probeID uint32, rng *rand.Rand, n int) []tcpCase {
	var base []tcpCase
	add := func(c tcpCase) { base = append(base, c) }
	for l := 0; l <= 3; l++ {
		p := idBytes(k.A.ID)[:l]
		add(tcpCase{class: fmt.Sprintf("short%d.close", l), payload: p, mode: "close"})
		add(tcpCase{class: fmt.Sprintf("short%d.halfclose", l), payload: p, mode: "halfclose"})
		add(tcpCase{class: fmt.Sprintf("short%d.rst", l), payload: p, mode: "rst"})
		add(tcpCase{class: fmt.Sprintf("short%d.hold", l), payload: p, mode: "hold"})
	}
	ids := []struct {
		n     string
		id    uint32
		known bool
	}{{"authorized", k.A.ID, true}, {"probe", probeID, true}, {"banned", k.X.ID, false}, {"unknown", k.U.ID, false}, {"zero", 0, false}, {"max", 0xffffffff, false}, {"random", rng.Uint32() | 0x40000000, false}}
	for _, x := range ids {
		add(tcpCase{class: "id." + x.n, payload: idBytes(x.id), mode: "halfclose", known: x.known})
		add(tcpCase{class: "id." + x.n + ".noclose", payload: idBytes(x.id), mode: "close", known: x.known})
		add(tcpCase{class: "id." + x.n + ".slow", payload: idBytes(x.id), mode: "slow", known: x.known})
		add(tcpCase{class: "id." + x.n + ".rst", payload: idBytes(x.id), mode: "rst"})
		for _, extra := range []int{1, 4, 100, 70000} {
			p := append(idBytes(x.id), make([]byte, extra)...)
			rng.Read(p[4:])
			add(tcpCase{class: fmt.Sprintf("long.%s+%d", x.n, extra), payload: p, mode: "close"})
		}
	}
	var out []tcpCase
	for len(out) < n {
		perm := rng.Perm(len(base))
		for _, i := range perm {
			out = append(out, base[i])
			if len(out) >= n {
				break
			}
		}
	}
	return out
}
