//go:build test

// World, liveness probes, stderr witness and the judged shutdown of C12.
package main

import (
	"bufio"
	"bytes"
	"encoding/hex"
	"errors"
	"fmt"
	"io"
	"math"
	"math/rand"
	"net"
	"net/http"
	"os"
	"path/filepath"
	"regexp"
	"runtime"
	"sort"
	"strings"
	"syscall"
	"time"

	"github.com/glowlabs-org/gca-backend/server"

	"verifharness/lib/drv"
	"verifharness/lib/ev"
	"verifharness/lib/refenc"
	"verifharness/lib/run"
)

// keys is what the generators need to know about the world.
type keys struct {
	A, B, X, U         *drv.Dev
	GCAk, Temp, Server refenc.Key
}

type world struct {
	*drv.World
	keys
	b      run.Batch
	r      *ev.Result
	rng    *rand.Rand
	probes []*drv.Dev
	used   map[uint32]map[uint32]bool
	fullAt map[uint32][2]int64
	nextID uint32
	born   time.Time
	hc     *http.Client

	stderrOff int64
	overlong  string // set once an entry the wire format cannot carry was accepted: names the finding class
	closeKey  string // finding class of a Close() panic that the scenario itself provokes
	closeDead bool   // Close() panicked: the instance cannot be closed again
	failed    bool   // a liveness probe failed: stop issuing inputs
	held      []net.Conn
	deltas    map[int]bool
	rm        map[string]bool
	shutdowns []string
	capShift  int // which of probeCapacities the first probe device gets
}

// probeCapacities: structurally valid authorizations at extreme field values.
// The probe devices report small power outputs, which every capacity admits;
// products of the capacity with a percentage or a duration only fit 128 bits.
var probeCapacities = []uint64{1000000, math.MaxUint64/135 + 2, math.MaxUint64, 1 << 63, math.MaxUint64/100 + 7, math.MaxUint64/4032 + 3}

// initialClock is the protocol time at which newWorld starts its server: a
// value ≥ 4000 makes the very first start catch up through device-less weeks.
var initialClock uint32

func newWorld(b run.Batch, r *ev.Result, rng *rand.Rand, name string) (*world, error) {
	drv.SetClock(initialClock)
	drv.GateRotation(true)
	drv.GateImpact(true)
	dw, err := drv.NewWorld(filepath.Join(b.Dir, name), rng)
	if err != nil {
		return nil, err
	}
	w := &world{World: dw, b: b, r: r, rng: rng, used: map[uint32]map[uint32]bool{}, fullAt: map[uint32][2]int64{}, nextID: 5000,
		born: time.Now(), deltas: map[int]bool{}, rm: map[string]bool{}}
	w.hc = &http.Client{Timeout: 30 * time.Second,
		Transport:     &http.Transport{MaxIdleConnsPerHost: 16, IdleConnTimeout: time.Second, DisableCompression: true},
		CheckRedirect: func(*http.Request, []*http.Request) error { return http.ErrUseLastResponse }}
	capacity := uint64(100000 + rng.Intn(100000))
	if w.A, err = dw.AddDevice(10+uint32(rng.Intn(50)), capacity); err != nil {
		return w, err
	}
	if w.B, err = dw.AddDevice(100+uint32(rng.Intn(50)), capacity*2); err != nil {
		return w, err
	}
	if w.X, err = dw.AddDevice(200+uint32(rng.Intn(50)), capacity); err != nil {
		return w, err
	}
	if st, err := dw.BanDevice(w.X.ID); err != nil || st == 200 {
		return w, fmt.Errorf("could not ban device X: status %d err %v", st, err)
	}
	w.U = &drv.Dev{ID: 300 + uint32(rng.Intn(50)), Key: refenc.GenKey(rng)}
	w.GCAk, w.keys.Temp, w.Server = dw.GCA, dw.Temp, dw.Key
	w.capShift = int(b.Seed+int64(b.Index)) & 0xffff
	for i := 0; i < 3; i++ {
		if err := w.addProbe(); err != nil {
			return w, err
		}
	}
	return w, nil
}

func (w *world) newID() uint32 { w.nextID++; return w.nextID }

func (w *world) addProbe() error {
	capacity := probeCapacities[(len(w.probes)+w.capShift)%len(probeCapacities)]
	if capacity != probeCapacities[0] {
		w.r.Count("probe.devices_with_extreme_capacity", 1)
	}
	p, err := w.AddDevice(1000+uint32(len(w.probes)), capacity)
	if err != nil {
		return err
	}
	w.probes = append(w.probes, p)
	w.used[p.ID] = map[uint32]bool{}
	return nil
}

func (w *world) offset() uint32 {
	_, _, off, _ := w.S.VerifSlot(0, -1)
	return off
}

// recycle restarts the server when it is getting old (test-mode servers
// panic by design after 120 s). Only called at points where now−offset < 4000.
func (w *world) recycle(maxAge time.Duration) bool {
	if time.Since(w.born) < maxAge {
		return true
	}
	w.dropHeld()
	if !w.closeJudged("recycle", nil, "no held connections") {
		return false
	}
	run.Op("restart server (age limit)")
	if err := w.Start(); err != nil {
		w.r.Inconc("restart failed: " + err.Error())
		w.failed = true
		return false
	}
	w.born = time.Now()
	w.r.Count("server.lifetimes", 1)
	return true
}

// ---------------------------------------------------------------- stderr witness

var panicServing = regexp.MustCompile(`(?m)^.*http: panic serving.*$`)

func handlerPanicKey(line string) string {
	s := line
	if i := strings.Index(s, "panic serving"); i >= 0 {
		s = s[i:]
		if j := strings.Index(s, ": "); j >= 0 {
			s = s[j+2:]
		}
	}
	return "handler-panic:" + run.Normalize(s)
}

// checkStderr looks at what this process wrote to its own stderr since the
// last call; net/http reports swallowed handler panics there.
func (w *world) checkStderr(input interface{}) bool {
	p := filepath.Join(w.b.Dir, "stderr")
	fi, err := os.Stat(p)
	if err != nil || fi.Size() <= w.stderrOff {
		return true
	}
	f, err := os.Open(p)
	if err != nil {
		return true
	}
	defer f.Close()
	f.Seek(w.stderrOff, 0)
	nb, _ := io.ReadAll(io.LimitReader(f, 1<<20))
	w.stderrOff = fi.Size()
	ok := true
	for _, line := range panicServing.FindAllString(string(nb), -1) {
		w.r.Count("stderr.handler_panic_lines", 1)
		ctx := string(nb)
		if len(ctx) > 3000 {
			ctx = ctx[:3000]
		}
		w.r.Violationf(handlerPanicKey(line), map[string]interface{}{"input": input, "stderr": ctx, "batch": w.b}, "an HTTP handler panicked while serving this input: %s", strings.TrimSpace(line))
		ok = false
	}
	return ok
}

// ---------------------------------------------------------------- HTTP access

func isTimeout(err error) bool {
	var ne net.Error
	return errors.As(err, &ne) && ne.Timeout()
}

func (w *world) do(method, pathQuery string, body []byte) (int, []byte, error) {
	var rd io.Reader
	if body != nil {
		rd = bytes.NewReader(body)
	}
	req, err := http.NewRequest(method, fmt.Sprintf("http://127.0.0.1:%d%s", w.HTTP, pathQuery), rd)
	if err != nil {
		return -1, nil, err
	}
	if body != nil {
		req.Header.Set("Content-Type", "application/json")
	}
	resp, err := w.hc.Do(req)
	if err != nil {
		return 0, nil, err
	}
	defer resp.Body.Close()
	b, err := io.ReadAll(resp.Body)
	return resp.StatusCode, b, err
}

func clip(b []byte) string {
	if len(b) <= 600 {
		return hex.EncodeToString(b)
	}
	return hex.EncodeToString(b[:300]) + fmt.Sprintf("...(%d bytes)...", len(b)) + hex.EncodeToString(b[len(b)-60:])
}

// ---------------------------------------------------------------- liveness probes

func stacks() string {
	buf := make([]byte, 16<<20)
	return string(buf[:runtime.Stack(buf, true)])
}

func (w *world) lockProbe(ctx string) bool {
	for i := 0; i < 2000; i++ {
		mf, sf := w.S.VerifTryLock()
		if mf && sf {
			if i > 0 {
				w.r.Count("probe.lock_retries", int64(i))
			}
			w.r.Count("probe.locks_free", 1)
			return true
		}
		time.Sleep(5 * time.Millisecond)
	}
	mf, sf := w.S.VerifTryLock()
	d := stacks()
	if len(d) > 20000 {
		d = d[:20000]
	}
	w.r.Violationf("lock-held-at-quiescence", map[string]interface{}{"after": ctx, "batch": w.b, "goroutines": d},
		"a server mutex stayed locked over 2000 probes (10 s) while no input was in flight (main free=%v, servers free=%v) after: %s", mf, sf, ctx)
	w.failed = true
	w.closeDead = true // Close() needs the same mutex: do not try
	return false
}

// freshSlot hands out a slot of a probe device that is acceptable now and has
// never been used.
func (w *world) freshSlot() (*drv.Dev, uint32, uint32, bool) {
	now, off := int64(drv.Clock()), int64(w.offset())
	lo, hi := now-432, now+432
	if lo < off {
		lo = off
	}
	if hi > off+4031 {
		hi = off + 4031
	}
	if hi > 0xffffffff {
		hi = 0xffffffff
	}
	if lo > hi {
		return nil, 0, uint32(off), false
	}
	for try := 0; try < 2; try++ {
		for _, p := range w.probes {
			if w.fullAt[p.ID] == [2]int64{lo, hi} && len(w.used[p.ID]) > 0 {
				continue
			}
			span := hi - lo + 1
			start := w.rng.Int63n(span)
			for k := int64(0); k < span; k++ {
				s := uint32(lo + (start+k)%span)
				if !w.used[p.ID][s] {
					w.used[p.ID][s] = true
					return p, s, uint32(off), true
				}
			}
			w.fullAt[p.ID] = [2]int64{lo, hi}
		}
		if err := w.addProbe(); err != nil {
			w.r.Inconc("cannot authorize another probe device: " + err.Error())
			return nil, 0, uint32(off), false
		}
	}
	return nil, 0, uint32(off), false
}

// live is the liveness triple plus the lock probe. ctx names the input after
// which it runs.
func (w *world) live(ctx string) bool {
	if w.failed {
		return false
	}
	replay := map[string]interface{}{"after": ctx, "batch": w.b, "now": drv.Clock()}
	if !w.lockProbe(ctx) {
		return false
	}
	// The server's own deadlines (test builds: 2.5 s for a sync handler and for
	// reading an HTTP request) are wall-clock: under heavy CPU contention a
	// single request can be cut off by them. Transport-level failures are
	// therefore retried; a wedged or dead listener fails every attempt, an
	// answer with wrong content is judged at once.
	// 1. GET /equipment
	var st int
	var body []byte
	var err error
	for attempt := 0; attempt < 6; attempt++ {
		st, body, err = w.do("GET", "/api/v1/equipment", nil)
		if err == nil {
			break
		}
		w.r.Count("probe.equipment_transport_retries", 1)
		time.Sleep(time.Duration(100*(attempt+1)) * time.Millisecond)
	}
	switch {
	case err != nil && isTimeout(err):
		w.r.Inconc("liveness GET /equipment timed out after: " + ctx)
		w.failed = true
		return false
	case err != nil || st != 200 || !bytes.Contains(body, []byte("EquipmentDetails")):
		w.checkStderr(ctx)
		w.r.Violationf("liveness:equipment-not-answered", replay, "GET /equipment after the input gave status %d err %v (6 attempts; want 200 with the equipment list)", st, err)
		w.failed = true
		return false
	}
	w.r.Count("probe.equipment_ok", 1)
	// 2. raw TCP sync of a known device
	p0 := w.probes[0]
	raw, err := w.syncRetry(p0.ID)
	if err != nil && isTimeout(err) {
		// nobody answered: decide from the state, not from the clock – is
		// there still a goroutine accepting sync connections?
		d := stacks()
		if !strings.Contains(d, "threadedListenForSyncRequests") && w.S != nil {
			replay["goroutines"] = dumpExcerpt(d)
			w.r.Violationf("liveness:sync-accept-loop-gone", replay, "sync request for authorized device %d is not answered and no goroutine of the process is in threadedListenForSyncRequests any more: the listening socket is open, nobody accepts – permanent (after: %s)", p0.ID, ctx)
		} else if s1 := acceptLoopState(d); s1 != "accepting" {
			// the accept loop exists but is not in Accept: permanent only if a second look 3 s later finds it parked at the same place
			time.Sleep(3 * time.Second)
			d2 := stacks()
			if s2 := acceptLoopState(d2); s2 == s1 {
				replay["goroutines"] = dumpExcerpt(d2)
				replay["accept_loop"] = s2
				w.r.Violationf("liveness:sync-accept-loop-stalled", replay, "sync request for authorized device %d is not answered and in two goroutine dumps 3 s apart the goroutine that accepts sync connections is %q instead of waiting in Accept: no sync request is served any more (after: %s)", p0.ID, s2, ctx)
			} else {
				w.r.Inconc("liveness sync timed out after: " + ctx)
			}
		} else {
			w.r.Inconc("liveness sync timed out after: " + ctx)
		}
		w.failed = true
		return false
	}
	rep, refused, perr := refenc.ParseSyncReply(raw)
	if err != nil || perr != nil || refused || rep.DevKey != p0.Key.Pub {
		key := "liveness:sync-reply-malformed"
		if w.overlong != "" {
			key = w.overlong
		}
		replay["reply_len"] = len(raw)
		replay["reply_head"] = clip(raw)
		w.r.Violationf(key, replay, "sync request for authorized device %d: err=%v parse=%v refused=%v (%d bytes)", p0.ID, err, perr, refused, len(raw))
		if w.overlong == "" {
			w.failed = true
			return false
		}
	} else {
		w.r.Count("probe.sync_ok", 1)
	}
	// 3. an acceptable report changes its (fresh) slot
	p, slot, off, ok := w.freshSlot()
	if !ok {
		w.r.Count("probe.report_no_acceptable_slot_in_config", 1)
		return true
	}
	rp := p.Report(slot, 2+uint64(w.rng.Intn(1000)))
	run.Op("probe report dev=%d slot=%d", p.ID, slot)
	w.Inject(rp.Bytes())
	got, _, off2, present := w.S.VerifSlot(p.ID, int(slot-off))
	if off2 != off {
		w.r.Count("probe.report_offset_moved", 1)
		return true
	}
	if !present || drv.RefReport(got) != rp {
		replay["report"] = hex.EncodeToString(rp.Bytes())
		replay["offset"] = off
		w.r.Violationf("liveness:acceptable-report-not-recorded", replay, "acceptable report (device %d, fresh slot %d, now %d, offset %d) did not change its slot: present=%v stored=%+v", p.ID, slot, drv.Clock(), off, present, drv.RefReport(got))
		w.failed = true
		return false
	}
	w.r.Count("probe.report_changed_slot", 1)
	return true
}

// syncRetry issues a 4-byte sync request; an attempt that ends without a
// single reply byte (cut off by the handler's wall-clock deadline under
// contention) is repeated, any reply bytes are returned for judgement.
func (w *world) syncRetry(id uint32) (raw []byte, err error) {
	for attempt := 0; attempt < 6; attempt++ {
		raw, err = w.SyncRaw(idBytes(id))
		if len(raw) > 0 {
			return raw, nil
		}
		if err != nil && isTimeout(err) {
			return raw, err
		}
		w.r.Count("probe.sync_transport_retries", 1)
		time.Sleep(time.Duration(100*(attempt+1)) * time.Millisecond)
	}
	if err == nil {
		err = errors.New("connection closed without a reply (6 attempts)")
	}
	return raw, err
}

// ---------------------------------------------------------------- datagram delivery

func (w *world) deliver(d dg, i int) {
	now := drv.Clock()
	viaSocket := len(d.b) != 80 || i%5 == 3
	run.Op("datagram class=%s now=%d socket=%v bytes=%s", d.class, now, viaSocket, clip(d.b))
	if viaSocket {
		if err := w.SendUDP(d.b); err != nil {
			w.udpFailure(fmt.Sprintf("datagram class=%s len=%d now=%d", d.class, len(d.b), now), err)
			return
		}
		w.r.Count("delivery.socket", 1)
	} else {
		w.Inject(d.b)
		w.r.Count("delivery.hook", 1)
	}
	w.r.Eval(1)
	w.r.Count("inputs.datagram", 1)
	w.r.Count("inputs.datagram."+d.class, 1)
	if len(d.b) >= 80 {
		w.r.Nontrivial(fmt.Sprintf("dg/%x/%d", d.b[:80], now))
	}
	if i == 7 {
		w.r.Sample(map[string]interface{}{"kind": "datagram", "class": d.class, "now": now, "offset": w.offset(), "socket": viaSocket, "bytes": clip(d.b)})
	}
}

// udpFailure: a datagram sent through the real socket was not taken off it.
// Loss on loopback would be inconclusive; the listener's own state decides:
// in two dumps 3 s apart the listener goroutine is either gone or parked
// somewhere else than in its socket read while a datagram is waiting – it
// will not come back by itself.
func listenerState(d string) string {
	for _, blk := range strings.Split(d, "\n\n") {
		if strings.Contains(blk, "threadedListenUDP") {
			if strings.Contains(blk, "ReadFromUDP") || strings.Contains(blk, "readFrom") {
				return "reading"
			}
			hdr := strings.SplitN(strings.TrimLeft(blk, "\n"), "\n", 2)[0]
			return "parked: " + hdr
		}
	}
	return "gone"
}

// acceptLoopState: where the goroutine that accepts sync connections is.
func acceptLoopState(d string) string {
	for _, blk := range strings.Split(d, "\n\n") {
		if strings.Contains(blk, "threadedListenForSyncRequests") {
			if strings.Contains(blk, ".Accept(") || strings.Contains(blk, ".accept(") {
				return "accepting"
			}
			lines := strings.Split(strings.TrimLeft(blk, "\n"), "\n")
			st := lines[0]
			if i, j := strings.Index(st, "["), strings.Index(st, "]"); i >= 0 && j > i {
				st = st[i+1 : j] // the wait state without the goroutine number
				if k := strings.Index(st, ","); k >= 0 {
					st = st[:k] // ... and without "N minutes"
				}
			}
			if len(lines) > 1 {
				st += " at " + strings.TrimSpace(lines[1])
			}
			return "parked: " + st
		}
	}
	return "gone"
}

func (w *world) udpFailure(what string, err error) {
	w.failed = true
	d1 := stacks()
	s1 := listenerState(d1)
	time.Sleep(3 * time.Second)
	d2 := stacks()
	s2 := listenerState(d2)
	if s1 != "reading" && s1 == s2 {
		w.closeDead = true // a listener that never returns to its loop cannot be stopped either
		w.r.Violationf("udp-listener-stalled", map[string]interface{}{"input": what, "batch": w.b, "listener": s2, "goroutines": dumpExcerpt(d2)},
			"a datagram sent to the report socket was not processed (%v) and in two goroutine dumps 3 s apart the UDP listener goroutine is %q instead of reading its socket: no report is processed any more (input: %s)", err, s2, what)
		return
	}
	w.r.Inconc(fmt.Sprintf("socket delivery: %v (listener state %q / %q)", err, s1, s2))
}

// fdCount is the number of open descriptors of this process (server and
// harness share it).
func fdCount() int {
	ents, err := os.ReadDir("/proc/self/fd")
	if err != nil {
		return -1
	}
	return len(ents) - 1 // minus the handle of the listing itself
}

// settledFdCount waits until the descriptor count has stopped changing (15
// equal readings 100 ms apart, at most 20 s) and returns it.
func (w *world) settledFdCount() (int, bool) {
	w.hc.CloseIdleConnections()
	churnClient.CloseIdleConnections()
	last, same := fdCount(), 0
	for i := 0; i < 200; i++ {
		time.Sleep(100 * time.Millisecond)
		n := fdCount()
		if n == last {
			same++
			if same >= 15 {
				return n, true
			}
		} else {
			last, same = n, 0
		}
	}
	return last, false
}

// ---------------------------------------------------------------- raw connections

func (w *world) dial(port uint16) (net.Conn, error) {
	return net.DialTimeout("tcp", fmt.Sprintf("127.0.0.1:%d", port), 5*time.Second)
}

func (w *world) hold(c net.Conn) {
	w.held = append(w.held, c)
	for len(w.held) > 40 {
		w.held[0].Close()
		w.held = w.held[1:]
	}
}

func (w *world) dropHeld() {
	for _, c := range w.held {
		c.Close()
	}
	w.held = nil
}

// closedPort returns a loopback TCP port that is bound but not listening:
// connections are refused and nobody else can take the port meanwhile.
func closedPort() (uint16, func(), error) {
	fd, err := syscall.Socket(syscall.AF_INET, syscall.SOCK_STREAM, 0)
	if err != nil {
		return 0, nil, err
	}
	if err := syscall.Bind(fd, &syscall.SockaddrInet4{Port: 0, Addr: [4]byte{127, 0, 0, 1}}); err != nil {
		syscall.Close(fd)
		return 0, nil, err
	}
	sa, err := syscall.Getsockname(fd)
	if err != nil {
		syscall.Close(fd)
		return 0, nil, err
	}
	return uint16(sa.(*syscall.SockaddrInet4).Port), func() { syscall.Close(fd) }, nil
}

// ---------------------------------------------------------------- judged shutdown

var goroutineHdr = regexp.MustCompile(`^goroutine (\d+) \[`)

// classifyDump finds (a) a goroutine inside GCAServer.Close → ThreadGroup.Stop
// waiting for the group, (b) goroutines parked in managedHandleSyncConn →
// io.ReadFull on a connection.
func classifyDump(d string) (closeWaiting bool, readers map[string]bool) {
	closeWaiting, readers, _ = classifyDump3(d)
	return
}

// syncWriters returns the sync handler goroutines parked in conn.Write.
func syncWriters(d string) map[string]bool {
	_, _, w := classifyDump3(d)
	return w
}

func classifyDump3(d string) (closeWaiting bool, readers, writers map[string]bool) {
	readers, writers = map[string]bool{}, map[string]bool{}
	for _, blk := range strings.Split(d, "\n\n") {
		if strings.Contains(blk, "(*GCAServer).Close") && strings.Contains(blk, "(*ThreadGroup).Stop") && strings.Contains(blk, "(*WaitGroup).Wait") {
			closeWaiting = true
		}
		if strings.Contains(blk, "managedHandleSyncConn") && (strings.Contains(blk, "io.ReadFull") || strings.Contains(blk, "io.ReadAtLeast")) && strings.Contains(blk, "net.(*conn).Read") {
			if m := goroutineHdr.FindStringSubmatch(strings.TrimLeft(blk, "\n")); m != nil {
				readers[m[1]] = true
			}
		}
		if strings.Contains(blk, "managedHandleSyncConn") && strings.Contains(blk, "net.(*conn).Write") {
			if m := goroutineHdr.FindStringSubmatch(strings.TrimLeft(blk, "\n")); m != nil {
				writers[m[1]] = true
			}
		}
	}
	return
}

// chanSenders: goroutines in state "chan send" with a frame of the server package.
func chanSenders(d string) map[string]bool {
	out := map[string]bool{}
	for _, blk := range strings.Split(d, "\n\n") {
		t := strings.TrimLeft(blk, "\n")
		hdr := strings.SplitN(t, "\n", 2)[0]
		if strings.Contains(hdr, "[chan send") && strings.Contains(blk, "gca-backend/server.") {
			if m := goroutineHdr.FindStringSubmatch(t); m != nil {
				out[m[1]] = true
			}
		}
	}
	return out
}

// threadsInHTTPClient: goroutines launched through the server's thread group (the ones Close waits
// for) that are inside an outbound net/http client request.
func threadsInHTTPClient(d string) map[string]bool {
	out := map[string]bool{}
	for _, blk := range strings.Split(d, "\n\n") {
		if strings.Contains(blk, "(*ThreadGroup).Launch") && strings.Contains(blk, "gca-backend/server.") &&
			(strings.Contains(blk, "net/http.(*Client).") || strings.Contains(blk, "net/http.(*persistConn).roundTrip") || strings.Contains(blk, "net/http.(*Transport).roundTrip")) {
			if m := goroutineHdr.FindStringSubmatch(strings.TrimLeft(blk, "\n")); m != nil {
				out[m[1]] = true
			}
		}
	}
	return out
}

func commonKeys(a, b map[string]bool) []string {
	var out []string
	for k := range a {
		if b[k] {
			out = append(out, k)
		}
	}
	sort.Strings(out)
	return out
}

func dumpExcerpt(d string) string {
	var keep []string
	for _, blk := range strings.Split(d, "\n\n") {
		if strings.Contains(blk, "gca-backend/server") || strings.Contains(blk, "threadgroup") {
			if len(blk) > 1500 {
				blk = blk[:1500]
			}
			keep = append(keep, blk)
		}
		if len(keep) >= 12 {
			break
		}
	}
	return strings.Join(keep, "\n\n")
}

type closePanic struct{ msg, stack string }

func (c closePanic) Error() string { return "panic: " + c.msg }

// closeJudged calls Close() while the harness keeps `held` connections open.
// The verdict on a shutdown that does not finish comes from two goroutine
// dumps, not from the clock: Close waiting for the thread group while the same
// sync handler goroutines stay parked in io.ReadFull on connections whose
// peer (the harness) stays idle is a permanent state.
func (w *world) closeJudged(ctx string, held []net.Conn, desc string) bool {
	if w.S == nil || w.closeDead {
		return true
	}
	run.Op("shutdown (%s) with %s held open", ctx, desc)
	wait := 4 * server.VerifConsts().ServerShutdownTime
	t0 := time.Now()
	done := make(chan error, 1)
	srv := w.Srv
	go func() {
		defer func() {
			if p := recover(); p != nil {
				done <- closePanic{fmt.Sprint(p), stacks()}
			}
		}()
		done <- srv.Close()
	}()
	closePanicked := func(err error) bool {
		cp, ok := err.(closePanic)
		if !ok {
			return false
		}
		key := "panic-in-close:" + run.Normalize(cp.msg)
		if w.closeKey != "" {
			key = w.closeKey
		}
		st := cp.stack
		if len(st) > 3000 {
			st = st[:3000]
		}
		w.r.Violationf(key, map[string]interface{}{"context": ctx, "scenario": desc, "batch": w.b, "panic": cp.msg, "stack": st}, "Close() panicked: %s", cp.msg)
		w.closeDead, w.failed = true, true
		return true
	}
	finish := func(err error, released bool) {
		ms := time.Since(t0).Milliseconds()
		w.r.Max("max.shutdown_ms", ms)
		w.r.Count("shutdown.completed", 1)
		if err != nil {
			w.r.Count("shutdown.returned_error", 1)
			w.r.Note("Close() returned an error after %d ms with %s: %.200s", ms, desc, err.Error())
		}
		w.shutdowns = append(w.shutdowns, fmt.Sprintf("%s: %d ms%s", desc, ms, map[bool]string{true: " (after release)", false: ""}[released]))
	}
	select {
	case err := <-done:
		if closePanicked(err) {
			return false
		}
		finish(err, false)
		return true
	case <-time.After(wait):
	}
	d1 := stacks()
	c1, r1 := classifyDump(d1)
	select {
	case err := <-done:
		if closePanicked(err) {
			return false
		}
		w.r.Count("shutdown.slow_but_finished", 1)
		finish(err, false)
		return true
	case <-time.After(wait/2 + 2*time.Second):
	}
	d2 := stacks()
	c2, r2 := classifyDump(d2)
	var common []string
	for g := range r1 {
		if r2[g] {
			common = append(common, g)
		}
	}
	sort.Strings(common)
	var commonW []string
	w1, w2 := syncWriters(d1), syncWriters(d2)
	for g := range w1 {
		if w2[g] {
			commonW = append(commonW, g)
		}
	}
	sort.Strings(commonW)
	ok := true
	if c1 && c2 && len(commonW) > 0 && len(common) == 0 && len(held) > 0 {
		w.r.Violationf("shutdown-blocked-by-non-reading-sync-peer", map[string]interface{}{"scenario": desc, "context": ctx, "batch": w.b, "goroutines": dumpExcerpt(d2), "parked_handlers": commonW},
			"Close() has not returned after %.0f s: it waits in ThreadGroup.Stop while %d sync handler goroutine(s) (ids %v, same in two dumps %v apart) are parked in conn.Write towards peers that sent a valid request and do not read the response – permanent while the peer does not read", time.Since(t0).Seconds(), len(commonW), commonW, wait/2+2*time.Second)
		ok = false
	} else if c1 && c2 && len(common) > 0 && len(held) > 0 {
		w.r.Violationf("shutdown-blocked-by-idle-sync-connection", map[string]interface{}{"scenario": desc, "context": ctx, "batch": w.b, "goroutines": dumpExcerpt(d2), "parked_handlers": common},
			"Close() has not returned after %.0f s: it waits in ThreadGroup.Stop while %d sync handler goroutine(s) (ids %v, same in two dumps %v apart) are parked in io.ReadFull on connections the peer keeps idle – permanent while the peer stays idle", time.Since(t0).Seconds(), len(common), common, wait/2+2*time.Second)
		ok = false
	} else {
		if ts := commonKeys(threadsInHTTPClient(d1), threadsInHTTPClient(d2)); c1 && c2 && len(ts) > 0 {
			w.r.Violationf("shutdown-blocked-by-thread-waiting-for-peer-answer", map[string]interface{}{"scenario": desc, "context": ctx, "batch": w.b, "goroutines": dumpExcerpt(d2), "parked": ts},
				"Close() has not returned after %.0f s: it waits in ThreadGroup.Stop while %d thread(s) of the server's thread group (ids %v, same in two dumps %v apart) sit in an outbound HTTP request to a peer that does not answer (no timeout): permanent while the peer stays silent", time.Since(t0).Seconds(), len(ts), ts, wait/2+2*time.Second)
			w.closeDead, w.failed = true, true
			return false
		}
		if cs := commonKeys(chanSenders(d1), chanSenders(d2)); c1 && c2 && len(cs) > 0 {
			w.r.Violationf("shutdown-blocked-by-goroutine-parked-in-channel-send", map[string]interface{}{"scenario": desc, "context": ctx, "batch": w.b, "goroutines": dumpExcerpt(d2), "parked": cs},
				"Close() has not returned after %.0f s: it waits in ThreadGroup.Stop while %d goroutine(s) of the server (ids %v, same in two dumps %v apart) are parked in a channel send that nobody receives any more", time.Since(t0).Seconds(), len(cs), cs, wait/2+2*time.Second)
			w.closeDead, w.failed = true, true
			return false
		}
		w.r.Inconc(fmt.Sprintf("Close() did not return within %.0f s (%s) and the goroutine dumps do not show the idle-sync pattern (close waiting: %v/%v, parked handlers: %d/%d, held: %d); dump: %.1500s", time.Since(t0).Seconds(), desc, c1, c2, len(r1), len(r2), len(held), dumpExcerpt(d2)))
		ok = false
	}
	for _, c := range held {
		c.Close()
	}
	if len(held) == 0 {
		wait = time.Second // nothing was released: no reason to expect a change
		w.closeDead = true
	}
	select {
	case err := <-done:
		if !closePanicked(err) {
			finish(err, true)
		}
	case <-time.After(2 * wait):
		w.r.Inconc("Close() still blocked after the held connections were released")
	}
	w.failed = w.failed || !ok
	return ok
}

// ---------------------------------------------------------------- small helpers

func readHTTPResponse(c net.Conn) (int, error) {
	c.SetReadDeadline(time.Now().Add(10 * time.Second))
	resp, err := http.ReadResponse(bufio.NewReader(c), nil)
	if err != nil {
		return 0, err
	}
	io.Copy(io.Discard, resp.Body)
	resp.Body.Close()
	return resp.StatusCode, nil
}

func (w *world) saveLists() {
	var ds []int
	for d := range w.deltas {
		ds = append(ds, d)
	}
	sort.Ints(ds)
	w.r.SetExtra("deltas", ds)
	var rm []string
	for k := range w.rm {
		rm = append(rm, k)
	}
	sort.Strings(rm)
	w.r.SetExtra("routes_methods", rm)
	w.r.SetExtra("shutdowns", w.shutdowns)
}

// finish: final judged shutdown and clean-up of a child.
func (w *world) finish() {
	w.dropHeld()
	if w.S != nil && !w.closeDead {
		w.closeJudged("end of batch", nil, "no held connections")
	}
	w.checkStderr("end of batch")
	w.saveLists()
	os.RemoveAll(w.Dir)
}
