//go:build test

// Two interleavings in which "other requests keep being answered" is at
// stake: a device banned while the impact job is between "list devices" and
// "update device", and an authorized peer that accepts connections but never
// answers while an authorization is being forwarded to it.
package main

import (
	"bytes"
	"fmt"
	"math/rand"
	"net"
	"net/http"
	"sort"
	"strings"
	"sync"
	"sync/atomic"
	"time"

	"github.com/glowlabs-org/gca-backend/server"

	"verifharness/lib/drv"
	"verifharness/lib/ev"
	"verifharness/lib/refenc"
	"verifharness/lib/run"
)

// ---------------------------------------------------------------- ban in the middle of an impact round

var wtAfterList, wtBeforeUpdate atomic.Value // func()

func installImpactHooks() {
	wtAfterList.Store(func() {})
	wtBeforeUpdate.Store(func() {})
	server.VerifSetHook("wt.afterList", func(*server.GCAServer) { wtAfterList.Load().(func())() })
	server.VerifSetHook("wt.beforeUpdate", func(*server.GCAServer) { wtBeforeUpdate.Load().(func())() })
}

func childBanMid(b run.Batch, r *ev.Result, rng *rand.Rand) {
	w, err := newWorld(b, r, rng, "srv")
	if err != nil {
		r.Inconc("cannot start world: " + err.Error())
		if w != nil {
			w.finish()
		}
		return
	}
	defer w.finish()
	installImpactHooks()
	drv.SetClock(600)
	for round := 0; round < b.N && !w.failed; round++ {
		var victims []*drv.Dev
		for i := 0; i < 2+rng.Intn(2); i++ {
			d, err := w.AddDevice(w.newID(), 5000)
			if err != nil {
				r.Inconc("cannot authorize victim device: " + err.Error())
				return
			}
			victims = append(victims, d)
		}
		site := []string{"wt.afterList", "wt.beforeUpdate"}[round%2]
		nth := rng.Intn(3) // which passage of wt.beforeUpdate carries the ban
		calls, banned := 0, 0
		ban := func() {
			for _, v := range victims[:1+rng.Intn(len(victims))] {
				run.Op("ban device %d (conflicting authorization) from inside the impact job at %s", v.ID, site)
				if st, err := w.BanDevice(v.ID); err == nil && st != 200 {
					banned++
				}
			}
		}
		if site == "wt.afterList" {
			wtAfterList.Store(func() { ban() })
		} else {
			wtBeforeUpdate.Store(func() {
				if calls == nth {
					ban()
				}
				calls++
			})
		}
		run.Op("impact job round %d with a ban injected at %s", round, site)
		drv.StepImpact()
		wtAfterList.Store(func() {})
		wtBeforeUpdate.Store(func() {})
		r.Eval(1)
		r.Count("inputs.ban_during_impact_round", 1)
		r.Count("banmid.bans_during_round", int64(banned))
		r.Nontrivial(fmt.Sprintf("banmid/%s/%d/%d", site, nth, len(victims)))
		if banned == 0 {
			r.Inconc("the ban inside the impact round did not happen at " + site)
			return
		}
		if !w.live(fmt.Sprintf("device banned at %s while the impact job was in its round", site)) {
			return
		}
	}
}

// ---------------------------------------------------------------- a peer that accepts and stays silent

type silentPeer struct {
	l        net.Listener
	mu       sync.Mutex
	conns    []net.Conn
	seen     []*bytes.Buffer
	released bool
}

func startSilentPeer() (*silentPeer, uint16, error) {
	l, err := net.Listen("tcp", "127.0.0.1:0")
	if err != nil {
		return nil, 0, err
	}
	p := &silentPeer{l: l}
	go func() {
		for {
			c, err := l.Accept()
			if err != nil {
				return
			}
			p.mu.Lock()
			if p.released {
				p.mu.Unlock()
				c.Close()
				continue
			}
			buf := &bytes.Buffer{}
			p.conns = append(p.conns, c)
			p.seen = append(p.seen, buf)
			p.mu.Unlock()
			go func() { // swallow what the server sends, never answer
				tmp := make([]byte, 4096)
				for {
					n, err := c.Read(tmp)
					p.mu.Lock()
					buf.Write(tmp[:n])
					p.mu.Unlock()
					if err != nil {
						return
					}
				}
			}()
		}
	}()
	return p, uint16(l.Addr().(*net.TCPAddr).Port), nil
}

func (p *silentPeer) sawRequestFor(id uint32) bool {
	p.mu.Lock()
	defer p.mu.Unlock()
	needle := fmt.Sprintf(`"ShortID":%d,`, id)
	for _, b := range p.seen {
		if strings.Contains(b.String(), "/api/v1/authorize-equipment") && strings.Contains(b.String(), needle) {
			return true
		}
	}
	return false
}

func (p *silentPeer) release() int {
	p.mu.Lock()
	defer p.mu.Unlock()
	p.released = true
	for _, c := range p.conns {
		c.Close()
	}
	p.l.Close()
	return len(p.conns)
}

// dumpPeerSilence: (a) the forwarding handler parked inside the HTTP client,
// (b) goroutines waiting for a mutex in the server-list / sync paths.
func dumpPeerSilence(d string) (forwarding map[string]bool, blocked map[string]bool) {
	forwarding, blocked = map[string]bool{}, map[string]bool{}
	for _, blk := range strings.Split(d, "\n\n") {
		m := goroutineHdr.FindStringSubmatch(strings.TrimLeft(blk, "\n"))
		if m == nil {
			continue
		}
		if strings.Contains(blk, "AuthorizeEquipmentHandler") && (strings.Contains(blk, "net/http.(*Transport).roundTrip") || strings.Contains(blk, "net/http.(*persistConn).roundTrip") || strings.Contains(blk, "net/http.(*Client).do")) {
			forwarding[m[1]] = true
		}
		if strings.Contains(blk, "sync.(*Mutex).Lock") && (strings.Contains(blk, ").AuthorizedServers") || strings.Contains(blk, "managedHandleSyncConn") || strings.Contains(blk, "AuthorizedServersHandler")) {
			blocked[m[1]] = true
		}
	}
	return
}

func common(a, b map[string]bool) []string {
	var out []string
	for k := range a {
		if b[k] {
			out = append(out, k)
		}
	}
	sort.Strings(out)
	return out
}

func childSilentPeer(b run.Batch, r *ev.Result, rng *rand.Rand) {
	w, err := newWorld(b, r, rng, "srv")
	if err != nil {
		r.Inconc("cannot start world: " + err.Error())
		if w != nil {
			w.finish()
		}
		return
	}
	defer w.finish()
	drv.SetClock(650)
	bg := &http.Client{} // background requests that are expected to hang: no timeout
	post := func(path string, body []byte) chan error {
		ch := make(chan error, 1)
		url := fmt.Sprintf("http://127.0.0.1:%d%s", w.HTTP, path)
		go func() {
			resp, err := bg.Post(url, "application/json", bytes.NewReader(body))
			if err == nil {
				resp.Body.Close()
			}
			ch <- err
		}()
		return ch
	}
	for round := 0; round < b.N && !w.failed; round++ {
		peer, port, err := startSilentPeer()
		if err != nil {
			r.Inconc("silent peer: " + err.Error())
			return
		}
		srv := refenc.AuthServer{Pub: refenc.GenKey(rng).Pub, Location: "127.0.0.1", HTTP: port, TCP: 1, UDP: 2}.Signed(w.GCAk.Priv)
		run.Op("authorize a peer that accepts connections and never answers (port %d) – request left pending", port)
		srvDone := post("/api/v1/authorized-servers", srv.JSON())
		listed := false
		for i := 0; i < 400 && !listed; i++ {
			if _, l, err := w.AuthorizedServers(); err == nil {
				for _, s := range l {
					listed = listed || s.Pub == srv.Pub
				}
			}
			if !listed {
				time.Sleep(10 * time.Millisecond)
			}
		}
		if !listed {
			peer.release()
			r.Inconc("the silent peer never appeared in the server list")
			return
		}
		a := w.MkAuth(w.newID(), refenc.GenKey(rng).Pub, 1000)
		run.Op("authorize new equipment id=%d while the silent peer is listed – request left pending", a.ID)
		eqDone := post("/api/v1/authorize-equipment", a.JSON())
		// precondition, from the state itself: the forwarding handler is parked in the HTTP client
		parked := false
		var fw1 map[string]bool
		for i := 0; i < 400 && !parked; i++ {
			if peer.sawRequestFor(a.ID) {
				fw1, _ = dumpPeerSilence(stacks())
				parked = len(fw1) > 0
			}
			if !parked {
				time.Sleep(10 * time.Millisecond)
			}
		}
		if !parked {
			peer.release()
			r.Inconc("the equipment authorization never reached its forwarding step towards the silent peer")
			return
		}
		r.Eval(1)
		r.Count("inputs.silent_peer_rounds", 1)
		r.Count("inputs.http", 2)
		w.rm["authorized-servers POST"], w.rm["authorize-equipment POST"] = true, true
		r.Nontrivial(fmt.Sprintf("silentpeer/%d", a.ID))
		desc := fmt.Sprintf("equipment %d being forwarded to a peer that accepted the connection and stays silent", a.ID)
		// GET /authorized-servers must be answered meanwhile
		type res struct {
			st  int
			err error
		}
		got := make(chan res, 1)
		go func() {
			st, _, err := w.do("GET", "/api/v1/authorized-servers", nil)
			got <- res{st, err}
		}()
		ok := true
		select {
		case g := <-got:
			if g.err != nil || g.st != 200 {
				r.Violationf("liveness:authorized-servers-not-answered", map[string]interface{}{"batch": b, "while": desc}, "GET /authorized-servers while %s: status %d err %v", desc, g.st, g.err)
				ok = false
			} else {
				r.Count("silentpeer.authorized_servers_answered", 1)
			}
		case <-time.After(10 * time.Second):
			d1 := stacks()
			f1, b1 := dumpPeerSilence(d1)
			time.Sleep(4 * time.Second)
			d2 := stacks()
			f2, b2 := dumpPeerSilence(d2)
			fc, bc := common(f1, f2), common(b1, b2)
			select {
			case <-got:
				r.Count("silentpeer.authorized_servers_slow", 1)
			default:
				ok = false
				if len(fc) > 0 && len(bc) > 0 {
					r.Violationf("peer-silence-blocks-other-requests", map[string]interface{}{"batch": b, "while": desc, "forwarding_goroutines": fc, "blocked_goroutines": bc, "goroutines": dumpExcerpt(d2)},
						"GET /authorized-servers is not answered while %s: in two dumps 4 s apart the forwarding handler (goroutine %v) is parked inside the HTTP client and %d goroutine(s) %v wait in sync.(*Mutex).Lock in the server-list / sync paths – permanent while the peer stays silent", desc, fc, len(bc), bc)
				} else {
					r.Inconc(fmt.Sprintf("GET /authorized-servers not answered within 14 s while %s, but the dumps do not show the lock pattern (forwarding %v, blocked %v)", desc, fc, bc))
				}
			}
		}
		if ok {
			if live := w.live(desc); live {
				r.Count("silentpeer.rounds_judged", 1)
			}
		}
		// let the parked requests finish: the peer goes away
		run.Op("silent peer releases its connections")
		held := peer.release()
		r.Count("silentpeer.connections_held", int64(held))
		for _, ch := range []chan error{eqDone, srvDone} {
			select {
			case <-ch:
			case <-time.After(40 * time.Second):
				r.Inconc("a pending authorization request did not finish after the silent peer went away")
				w.failed = true
			}
		}
		if !ok {
			w.failed = true
			return
		}
		w.checkStderr(desc)
		if !w.live("silent peer released") {
			return
		}
		// next round starts with an empty server list
		if round+1 < b.N {
			if !w.closeJudged("silent peer round", nil, "no held connections") {
				return
			}
			if err := w.Start(); err != nil {
				r.Inconc("restart: " + err.Error())
				return
			}
			w.born = time.Now()
		}
	}
}
