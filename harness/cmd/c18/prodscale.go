//go:build test

package main

// prodscale: the logger in the client's PRODUCTION configuration (10 000 000
// bytes, 500-byte lines: every other history here stores at most a few hundred
// lines) filled to its limit - more than 10 000 stored lines - by unobserved
// calls, then judged step by step like any other history: fresh lines into
// the full log (exactly as many of the least recently updated lines leave as
// are needed), repeats, an expiry of the older half, refill.

import (
	"fmt"
	"math/rand"
	"time"

	"github.com/glowlabs-org/gca-backend/glow"

	"verifharness/lib/ev"
	"verifharness/lib/run"
)

func childProdScale(b run.Batch, r *ev.Result) {
	seed := b.Seed*1000003 + 424243
	rng := rand.New(rand.NewSource(seed))
	h := &hist{r: r, b: b, rng: rng, c: cfg{10000000, 500}, seed: seed, s: state{}}
	run.Op("production-scale history seed=%d max=%d limit=%d", seed, h.c.Max, h.c.Limit)
	h.t0 = time.Now()
	h.l = glow.NewEventLogger(expiry, h.c.Max, h.c.Limit)
	h.makePool()
	// unobserved fill: lines of 400-500 bytes until the log is nearly full
	stored := 0
	h.guard("Printf (bulk fill)", func() {
		for stored+2*500 < h.c.Max {
			line := fmt.Sprintf("%08d-%s", h.ctr, randText(rng, 391+rng.Intn(100)))
			h.ctr++
			h.l.Printf("%s", line)
			stored += 2 * len(line)
		}
	})
	if h.dead {
		return
	}
	h.ops = append(h.ops, opRec{Op: "bulk-fill", Note: fmt.Sprintf("%d bytes of distinct lines of 400-500 bytes, unobserved", stored)})
	if h.s = h.observe(); h.dead {
		return
	}
	r.Max("max.prodscale_stored_lines", int64(len(h.s)))
	if len(h.s) < 4097 {
		r.Inconc(fmt.Sprintf("production-scale fill stored only %d lines", len(h.s)))
		return
	}
	for i := 0; i < 24 && !h.dead; i++ {
		switch {
		case i%6 == 5:
			ks := orderByLast(h.s)
			h.doPrintf(ks[rng.Intn(len(ks)/2)], nil, "prodscale-refresh")
		default:
			line := h.fresh(100 + rng.Intn(400))
			h.doPrintf("%s", []interface{}{line}, "prodscale-fresh")
		}
	}
	if !h.dead {
		ks := orderByLast(h.s)
		k := len(ks) / 2
		h.doExpire(last(h.s[ks[k-1]]).Add(time.Nanosecond), fmt.Sprintf("prodscale: oldest %d of %d lines", k, len(ks)))
	}
	for i := 0; i < 6 && !h.dead; i++ {
		line := h.fresh(100 + rng.Intn(400))
		h.doPrintf("%s", []interface{}{line}, "prodscale-after-expiry")
	}
	r.Count("prodscale.histories", 1)
	r.Count("histories", 1)
	r.Count("operations", int64(len(h.ops)))
	r.Nontrivial(fmt.Sprintf("prodscale/%d", seed))
}
