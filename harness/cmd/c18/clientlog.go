//go:build test

package main

// clientlog: the logger a real client constructs (NewClient, test-mode
// constants 1000 bytes / 200-byte lines) instead of one made by
// NewEventLogger directly - whatever a client configures on its logger at
// start-up is part of what is judged. The client is started on a directory
// provisioned like a technician's, closed again (its loops must not log
// between two observations), and its logger is then driven and judged step by
// step like any other history. The lines are the client's own status lines
// ("udp report to …", "successful sync …", "sync failed …", "unable to …") in
// lengths up to beyond the line limit, mixed with arbitrary lines, so the log
// is full most of the time.

import (
	"fmt"
	"math/rand"
	"os"
	"path/filepath"
	"time"

	"verifharness/lib/drv"
	"verifharness/lib/ev"
	"verifharness/lib/refenc"
	"verifharness/lib/run"
)

func childClientLog(b run.Batch, r *ev.Result) {
	for idx := 0; idx < b.N && r.NumViolations() == 0; idx++ {
		clientLogHistory(b, r, idx)
	}
}

func clientLogHistory(b run.Batch, r *ev.Result, idx int) {
	seed := b.Seed*1000003 + 77000 + int64(idx)
	rng := rand.New(rand.NewSource(seed))
	dir := filepath.Join(b.Dir, fmt.Sprintf("cl%d", idx))
	defer os.RemoveAll(dir)
	var gca [32]byte
	rng.Read(gca[:])
	srvKey := refenc.GenKey(rng)
	energy := "timestamp,energy (mWh)\n"
	env := &drv.ClientEnv{Dir: dir, Key: refenc.GenKey(rng), GCA: gca, ShortID: uint32(1 + rng.Intn(60000)),
		Servers: []refenc.MapEntry{{Pub: srvKey.Pub, Location: "127.0.0.1", HTTP: 1, TCP: 1, UDP: 1}}, Energy: &energy, LastSync: drv.FreshSyncStamp()}
	if err := env.Write(); err != nil {
		r.Inconc("clientlog: " + err.Error())
		return
	}
	c, err := drv.StartClient(dir)
	if err != nil {
		r.Inconc("clientlog: NewClient: " + err.Error())
		return
	}
	c.Close()
	h := &hist{r: r, b: b, rng: rng, c: cfg{1000, 200}, seed: seed, s: state{}}
	run.Op("client-logger history %d seed=%d", idx, seed)
	h.t0 = time.Now()
	h.l = c.EventLog
	h.makePool()
	if h.s = h.observe(); h.dead { // whatever the client itself logged while it ran is the initial state
		return
	}
	h.buggy = size(h.s)
	prefixes := []string{"udp report to ", "successful sync", "sync failed", "unable to read monitoring file: ", "unable to update report file: ", "energy file row has too few columns: "}
	var mine []string
	for i := 0; i < 70 && !h.dead; i++ {
		switch x := rng.Intn(10); {
		case x < 5: // a status line of one of the client's kinds, short to over-long
			n := []int{20, 60, 150, 199, 200, 260}[rng.Intn(6)]
			line := prefixes[rng.Intn(len(prefixes))] + h.fresh(n)
			mine = append(mine, line)
			h.doPrintf("%s", []interface{}{line}, "clientlog-status")
		case x < 7 && len(mine) > 0: // the same status again (a repeat)
			h.doPrintf("%s", []interface{}{mine[rng.Intn(len(mine))]}, "clientlog-status-repeat")
		case x < 9:
			h.doPrintf("%s", []interface{}{h.fresh(10 + rng.Intn(250))}, "clientlog-other")
		default:
			h.doDump()
		}
	}
	r.Count("clientlog.histories", 1)
	r.Count("histories", 1)
	r.Count("operations", int64(len(h.ops)))
	r.Nontrivial(fmt.Sprintf("clientlog/%d", seed))
}
