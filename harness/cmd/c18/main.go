//go:build test

// C18 — Event log stays within its memory bound, keeps the newest events,
// never panics.
//
// Monitor: the real glow.EventLogger driven in child processes by generated
// histories of Printf / ExpireLogs / DumpLogEntries. Expiry is 1000 h so the
// wall clock never expires anything by itself; expirations are issued
// explicitly with ExpireLogs(cut+expiry) where cut is placed before / between /
// on / after the timestamps that the previous dump returned. After every
// operation the logger is dumped and the transition (previous dump → this
// dump) is judged by a reference model written here. The model never predicts
// a clock value: it learns the real timestamps from the dump and only uses
// the harness's own clock reads taken before and after a call as bounds.
package main

import (
	"fmt"
	"math/rand"
	"os"
	"sort"
	"strings"
	"sync"
	"time"

	"github.com/glowlabs-org/gca-backend/glow"

	"verifharness/lib/ev"
	"verifharness/lib/run"
)

const expiry = 1000 * time.Hour

func main() {
	run.Main(run.Spec{
		ID:    "C18",
		Level: "exploration",
		Pkg:   "./cmd/c18",
		Rule: "histories of 60 (10%: 300, 1%: 1500) operations are generated per (max bytes, line limit) configuration (fixed list incl. max < one line, max == exactly k lines, odd max, line limit 1, max < line limit, the client's test and production constants; plus random ones): " +
			"Printf 70% (pool lines of lengths 0..2x limit with shared prefixes so that truncations collide; fresh lines; lines sized to fit the free space exactly, with and without eviction of k oldest lines; strings with format verbs as format and as argument), " +
			"ExpireLogs 18% (cut before all / after all / between / exactly on / 1 ns around stored timestamps, oldest-line-only, partial expiry of a repeated line), DumpLogEntries 12%. " +
			"Every 100th history is staged on a large configuration (max 900..6000 bytes, line limit 3..20): 64..183 short lines are stored (old lines refreshed now and then), one ExpireLogs removes the oldest 30/50/51/60/75/90/100% of the stored lines, then fresh lines (full-length, random, exact-fit) fill the log to the byte limit and 10..40 lines beyond; once or twice, followed by 20 random operations. " +
			"One history per child (and every 1000th) is a hot-line history: one stored line is logged 4100..9100 more times (in bulks without a dump in between, judged afterwards: one new timestamp per call inside its call, nothing else changed), then other lines, the hot line again, fills, evictions, expiries. " +
			"Every 100th history is huge: line limit 32767/32768/40000/65535/65536/70000 with max 140 KB..1 MB, 50 operations with lines of 32767/32768/32769/40000/65535/65536/65537/70000 bytes (cut to the limit), repeats, exact fits, expiries. " +
			"Natural-expiry scenarios (expiry 15 / 40 ms, real sleep >= 3x expiry): a filled log ending with line X, the sleep, then with no other call in between a repeat of X / an input that truncates to X / a fresh line that only fits if the expired bytes were given back / a fresh line then X, optionally followed by lines filling the log to exactly max, then a dump. " +
			"Non-trivial = a history in which an expiry removed at least one line and a later fresh line was stored into space that only exists if the expired bytes were given back, or a later Printf needed an eviction; distinct by (configuration, history seed).",
		Assumptions: []string{
			"in the generated histories expiry is 1000 h, so the logger's own calls of ExpireLogs(time.Now()) inside Printf and DumpLogEntries remove nothing; every expiration is an explicit ExpireLogs call with a cut chosen by the harness",
			"the oracle uses fmt.Sprintf and time.Time comparisons of the standard library as trusted base; the Go monotonic clock is non-decreasing across goroutines",
			"a timestamp exactly equal to the cut may be kept or removed (the property text names cuts before, between and after only); equal last-update timestamps may be ordered / evicted either way",
			"natural-expiry scenarios: the sleep only makes the old timestamps certainly expired (a longer sleep changes nothing); a scenario is judged only if the harness's clock read after the final dump is less than one expiry later than its read before the first call after the sleep (otherwise the new timestamps may legitimately have expired too: counted as undecidable)",
			"the concurrent batches judge only the size bound, the line limit, dump self-consistency, panics and data races",
			"memory taken by the timestamp lists of repeated lines is outside the property (it bounds the stored lines only)",
		},
		RaceIsViolation: true,
		Plan:            plan,
		Child:           child,
		Post: func(c *ev.Check, outs []*run.Outcome) {
			if os.Getenv("VERIF_REPLAY") != "" {
				return // a replay runs one batch: the coverage floors below are for whole runs
			}
			c.Require("histories", 100)
			c.Require("max.prodscale_stored_lines", 10000)
			c.Require("clientlog.histories", 10)
			c.Require("bigdump.fresh_lines_logged_during_dumps", 100)
			c.Require("printf.fresh_fits", 500)
			c.Require("printf.fresh_evicts", 200)
			c.Require("printf.repeat", 200)
			c.Require("printf.unloggable", 50)
			c.Require("printf.truncated", 200)
			c.Require("printf.exact_fit", 50)
			c.Require("printf.verbs_as_format", 20)
			c.Require("printf.verbs_as_arg", 20)
			c.Require("expire.lines_removed", 200)
			c.Require("expire.partial", 5)
			c.Require("accounting_clause_cases", 100)
			c.Require("eviction_order_checks", 200)
			c.Require("concurrent.dumps", 100)
			c.Require("concurrent.printfs", 1000)
			c.Require("staged.histories", 20)
			c.Require("expire.majority_of_large_log", 20)
			c.Require("printf.evicts_after_majority_expiry_of_large_log", 200)
			c.Require("hot.histories", 4)
			c.Require("max.timestamps_of_one_line", 4100)
			c.Require("huge.histories", 20)
			c.Require("huge.lines_over_32767_bytes", 100)
			c.Require("natural.decided", 12)
			c.Require("natural.repeat_of_expired_line_decided", 4)
			c.Require("natural.fresh_into_expired_space_decided", 4)
		},
	})
}

func plan(tier string, seed int64) []run.Batch {
	var bs []run.Batch
	add := func(kind, variant string, n int, k int) {
		bs = append(bs, run.Batch{Kind: kind, Variant: variant, Seed: seed*100000 + int64(len(bs))*1000 + int64(k), N: n, TimeoutS: 100})
	}
	if tier == "thorough" {
		// many short children: a loaded machine must not push one into the watchdog
		for i := 0; i < 4; i++ {
			add("prodscale", []string{"", "race"}[i%2], 1, i)
		}
		for i := 0; i < 4; i++ {
			add("clientlog", []string{"", "race"}[i%2], 40, i)
		}
		for i := 0; i < 3; i++ {
			add("bigdump", "", 1, i)
		}
		for i := 0; i < 16; i++ {
			add("seq", "race", 1250, i)
		}
		for i := 0; i < 64; i++ {
			add("seq", "", 3000, i)
		}
		for i := 0; i < 6; i++ {
			add("conc", "race", 12, i)
		}
		for i := 0; i < 16; i++ {
			add("natural", []string{"race", ""}[i%2], 40, i)
		}
		return bs
	}
	add("prodscale", "", 1, 0)
	add("clientlog", "", 25, 0)
	add("bigdump", "", 1, 0)
	for i := 0; i < 8; i++ {
		add("seq", "race", 500, i)
	}
	for i := 0; i < 6; i++ {
		add("seq", "", 2500, i)
	}
	for i := 0; i < 2; i++ {
		add("conc", "race", 6, i)
	}
	for i := 0; i < 4; i++ {
		add("natural", []string{"race", ""}[i%2], 14, i)
	}
	return bs
}

func child(b run.Batch, r *ev.Result) {
	switch b.Kind {
	case "prodscale":
		childProdScale(b, r)
	case "clientlog":
		childClientLog(b, r)
	case "bigdump": // plain build: under the race detector a dump of ten thousand lines takes long enough to starve the batch
		bigDump(b, r, rand.New(rand.NewSource(b.Seed)))
	case "seq":
		childSeq(b, r)
	case "conc":
		childConc(b, r)
	case "natural":
		childNatural(b, r)
	}
}

// ---------------------------------------------------------------- configurations

type cfg struct {
	Max   int `json:"max_bytes"`
	Limit int `json:"line_limit"`
}

var fixedCfgs = []cfg{
	{1, 10}, {7, 10}, {19, 10}, // max smaller than one full line
	{20, 10}, {40, 10}, {60, 10}, {100, 10}, // exactly k lines
	{61, 10}, {33, 8}, // odd
	{2, 1}, {6, 1}, {1, 1}, {52, 1}, // line limit 1
	{400, 500}, {30, 40}, // max smaller than the line limit
	{64, 8}, {160, 8}, {48, 3}, {600, 4}, {2000, 12},
	{1000, 200}, // client test-mode constants
}

func pickCfg(rng *rand.Rand, i int) cfg {
	if i%200 == 199 {
		return cfg{10000000, 500} // client production constants
	}
	if rng.Intn(3) == 0 {
		l := 1 + rng.Intn(40)
		return cfg{1 + rng.Intn(12*l+20), l}
	}
	return fixedCfgs[rng.Intn(len(fixedCfgs))]
}

// ---------------------------------------------------------------- history driver

type opRec struct {
	Op     string        `json:"op"`
	Format string        `json:"format,omitempty"`
	Args   []interface{} `json:"args,omitempty"`
	Cut    string        `json:"cut,omitempty"`    // how the cut was chosen
	CutNs  int64         `json:"cut_ns,omitempty"` // cut relative to the creation of the logger
	Note   string        `json:"note,omitempty"`
}

type state map[string][]time.Time

type hist struct {
	r     *ev.Result
	b     run.Batch
	rng   *rand.Rand
	c     cfg
	seed  int64
	l     *glow.EventLogger
	t0    time.Time
	ops   []opRec
	s     state // last observed state
	pool  []string
	ctr   int
	buggy int // what the size counter would be if expiry never gave bytes back
	dead  bool

	sawExpiryRemoval bool
	sawMajority      bool // an expiry removed more than half of a log of >= 64 lines
	staged           bool
	kind             string // "", "hot", "huge"
	nontrivial       bool
}

func (h *hist) replay() interface{} {
	ops := h.ops
	cutNote := ""
	if len(ops) > 400 {
		cutNote = fmt.Sprintf("first %d operations omitted; the batch replays all of them", len(ops)-400)
		ops = ops[len(ops)-400:]
	}
	st := map[string][]int64{}
	for k, v := range h.s {
		if len(v) > 8 {
			st[abbr(k)] = []int64{int64(v[0].Sub(h.t0)), int64(len(v) - 2), int64(last(v).Sub(h.t0))} // first, number omitted, last
			continue
		}
		for _, t := range v {
			st[abbr(k)] = append(st[abbr(k)], int64(t.Sub(h.t0)))
		}
	}
	return map[string]interface{}{"batch": h.b, "config": h.c, "history_seed": h.seed, "operations": ops, "omitted": cutNote,
		"state_before_last_op_ns": st, "expiry": expiry.String()}
}

func (h *hist) fail(key, format string, a ...interface{}) {
	h.r.Violationf(key, h.replay(), "config max=%d limit=%d: %s", h.c.Max, h.c.Limit, fmt.Sprintf(format, a...))
	h.dead = true
}

// guard runs f and converts a panic into a violation carrying the history.
func (h *hist) guard(what string, f func()) {
	defer func() {
		if p := recover(); p != nil {
			msg := fmt.Sprint(p)
			h.fail("panic:"+run.Normalize(msg), "%s panicked: %s", what, msg)
		}
	}()
	f()
}

func size(s state) int {
	n := 0
	for k := range s {
		n += 2 * len(k)
	}
	return n
}

func last(ts []time.Time) time.Time { return ts[len(ts)-1] }

// grewBy: got is what the earlier timestamps prev plus k new ones may look like. The property
// says nothing about how many update times of a repeated line are kept, so an implementation
// may drop a line's OLDEST timestamps (a cap on the per-line history) at any call: got must be
// a non-empty suffix of prev ++ (k new timestamps) that contains at least the newest one, in
// the same order. Returns the number of new timestamps present at the end of got (0 = wrong).
func grewBy(prev, got []time.Time, k int) int {
	if len(got) == 0 || len(got) > len(prev)+k {
		return 0
	}
	nNew := k
	if len(got) < k {
		nNew = len(got)
	}
	old := got[:len(got)-nNew]
	if len(old) > 0 && !sameStamps(prev[len(prev)-len(old):], old) {
		return 0
	}
	return nNew
}

func sameStamps(a, b []time.Time) bool {
	if len(a) != len(b) {
		return false
	}
	for i := range a {
		if !a[i].Equal(b[i]) {
			return false
		}
	}
	return true
}

func q(s string) string {
	if len(s) > 60 {
		return fmt.Sprintf("%q…(%d bytes)", s[:60], len(s))
	}
	return fmt.Sprintf("%q", s)
}

// observe dumps the logger and checks everything a dump must satisfy on its own.
func (h *hist) observe() state {
	var m map[string][]time.Time
	var order []string
	h.guard("DumpLogEntries", func() { m, order = h.l.DumpLogEntries() })
	if h.dead {
		return nil
	}
	h.r.Eval(1)
	s := state(m)
	if sz := size(s); sz > h.c.Max {
		h.fail("size-bound-exceeded", "stored lines take %d bytes (sum of 2*len) which exceeds the maximum %d", sz, h.c.Max)
		return nil
	}
	for k, ts := range s {
		if len(k) > h.c.Limit {
			h.fail("line-over-limit", "stored line %s is longer than the line limit", q(k))
			return nil
		}
		if len(ts) == 0 {
			h.fail("dump-line-without-timestamp", "dump lists line %s with no timestamp", q(k))
			return nil
		}
	}
	if len(order) != len(s) {
		h.fail("dump-order-map-mismatch", "dump order lists %d lines, dump map has %d", len(order), len(s))
		return nil
	}
	seen := map[string]bool{}
	for i, k := range order {
		ts, ok := s[k]
		if !ok || seen[k] {
			h.fail("dump-order-map-mismatch", "dump order entry %d (%s) is missing from the dump map or listed twice", i, q(k))
			return nil
		}
		seen[k] = true
		if i > 0 && last(ts).Before(last(s[order[i-1]])) {
			h.fail("dump-order-not-by-last-update", "dump order position %d (%s, last update %v) was updated before position %d (%s, %v)",
				i, q(k), last(ts).Sub(h.t0), i-1, q(order[i-1]), last(s[order[i-1]]).Sub(h.t0))
			return nil
		}
		if i > 0 && last(ts).Equal(last(s[order[i-1]])) {
			h.r.Count("ties.equal_last_update_in_dump", 1)
		}
	}
	h.r.Max("max.lines_stored", int64(len(s)))
	return s
}

// ---------------------------------------------------------------- Printf

func (h *hist) doPrintf(format string, args []interface{}, note string) {
	h.ops = append(h.ops, opRec{Op: "printf", Format: abbr(format), Args: abbrArgs(args), Note: note})
	want := fmt.Sprintf(format, args...)
	key := want
	if len(key) > h.c.Limit {
		key = key[:h.c.Limit]
		h.r.Count("printf.truncated", 1)
	}
	need := 2 * len(key)
	s0 := h.s
	tb := time.Now()
	h.guard("Printf", func() { h.l.Printf(format, args...) })
	te := time.Now()
	if h.dead {
		return
	}
	s1 := h.observe()
	if h.dead {
		return
	}
	h.r.Count("printf.calls", 1)
	_, repeat := s0[key]
	loggable := need <= h.c.Max
	sz0 := size(s0)

	// Everything in the new dump except the logged line must be an unchanged old line.
	for k, ts := range s1 {
		if k == key {
			continue
		}
		old, ok := s0[k]
		if !ok {
			h.fail("phantom-line", "after logging %s the dump holds %s, which was neither stored before nor is the truncated input", q(want), q(k))
			return
		}
		if !sameStamps(old, ts) {
			h.fail("timestamps-changed", "logging %s changed the timestamps of the other line %s", q(want), q(k))
			return
		}
	}
	var evicted []string
	for k := range s0 {
		if _, ok := s1[k]; !ok {
			evicted = append(evicted, k)
		}
	}
	sort.Strings(evicted)

	if !loggable {
		h.r.Count("printf.unloggable", 1)
		if len(evicted) > 0 {
			h.fail("unloggable-line-changed-state", "line %s can never be stored (2*%d > max) but logging it evicted %d line(s), e.g. %s", q(key), len(key), len(evicted), q(evicted[0]))
			return
		}
		if _, ok := s1[key]; ok { // unreachable given the bound check, kept for clarity
			h.fail("size-bound-exceeded", "unloggable line %s was stored", q(key))
			return
		}
		h.s = s1
		return
	}

	// The most recent loggable line must be there, with exactly one new timestamp taken during the call.
	got, ok := s1[key]
	if !ok {
		h.fail("newest-line-missing", "line %s (truncated input of %s, %d bytes, fits the maximum) is not in the dump right after it was logged", q(key), q(want), need)
		return
	}
	prev := s0[key]
	if grewBy(prev, got, 1) != 1 {
		h.fail("newest-line-wrong-timestamps", "line %s had %d timestamps, after logging it once more it has %d (or older ones changed)", q(key), len(prev), len(got))
		return
	}
	if len(got) != len(prev)+1 {
		h.r.Count("obs.timestamp_history_shortened", 1)
	}
	tn := last(got)
	if tn.Before(tb) || tn.After(te) {
		h.fail("update-time-outside-call", "new timestamp of %s is %v, the call ran from %v to %v", q(key), tn.Sub(h.t0), tb.Sub(h.t0), te.Sub(h.t0))
		return
	}

	if repeat {
		h.r.Count("printf.repeat", 1)
		if len(evicted) > 0 {
			h.fail("evicted-on-repeat", "logging the already stored line %s evicted %d line(s), e.g. %s", q(key), len(evicted), q(evicted[0]))
			return
		}
		h.s = s1
		return
	}

	// fresh line
	exposes := need+h.buggy > h.c.Max && need+sz0 <= h.c.Max
	if need+sz0 <= h.c.Max {
		h.r.Count("printf.fresh_fits", 1)
		if need+sz0 == h.c.Max && need > 0 {
			h.r.Count("printf.exact_fit", 1)
		}
		if exposes {
			h.r.Count("accounting_clause_cases", 1)
			h.nontrivial = true
		}
		if len(evicted) > 0 {
			k := "evicted-although-line-fits"
			if exposes {
				k = "evicted-although-line-fits-after-expiry"
			}
			h.fail(k, "%d bytes were stored and the new line %s needs %d (maximum %d): it fits, but %d line(s) were evicted, e.g. %s (bytes expired so far without eviction: %d)",
				sz0, q(key), need, h.c.Max, len(evicted), q(evicted[0]), h.buggy-sz0)
			return
		}
		h.buggy += need
		h.s = s1
		return
	}

	// eviction needed: evicted set = shortest prefix of the least-recently-updated order that makes room
	h.r.Count("printf.fresh_evicts", 1)
	h.r.Count("eviction_order_checks", 1)
	h.r.Count("evicted_lines", int64(len(evicted)))
	if h.sawExpiryRemoval {
		h.nontrivial = true
	}
	if h.sawMajority {
		h.r.Count("printf.evicts_after_majority_expiry_of_large_log", 1)
	}
	if len(evicted) == 0 { // unreachable given the bound check
		h.fail("size-bound-exceeded", "no line evicted although %d+%d > %d", sz0, need, h.c.Max)
		return
	}
	var newestEv time.Time
	for i, k := range evicted {
		if t := last(s0[k]); i == 0 || t.After(newestEv) {
			newestEv = t
		}
	}
	for k, ts := range s0 {
		if _, kept := s1[k]; kept {
			if last(ts).Before(newestEv) {
				var ex string
				for _, e := range evicted {
					if last(s0[e]).After(last(ts)) {
						ex = e
					}
				}
				h.fail("evicted-not-least-recent", "line %s (last update %v) was evicted while the less recently updated line %s (%v) was kept", q(ex), last(s0[ex]).Sub(h.t0), q(k), last(ts).Sub(h.t0))
				return
			}
			if last(ts).Equal(newestEv) {
				h.r.Count("ties.equal_last_update_at_eviction_edge", 1)
			}
		}
	}
	// minimality: without the largest of the most recently updated evicted lines there must not be room
	freed, big := 0, 0
	for _, k := range evicted {
		freed += 2 * len(k)
		if last(s0[k]).Equal(newestEv) && 2*len(k) > big {
			big = 2 * len(k)
		}
	}
	if sz0-freed+big+need <= h.c.Max {
		h.fail("evicted-more-than-needed", "%d bytes stored, new line needs %d, maximum %d: evicting %d line(s) freed %d bytes, but there was already room without the most recently updated evicted line (%d bytes)",
			sz0, need, h.c.Max, len(evicted), freed, big)
		return
	}
	if sz0-freed+need == h.c.Max {
		h.r.Count("printf.exact_fit", 1)
	}
	h.buggy += need - freed
	h.s = s1
}

// ---------------------------------------------------------------- ExpireLogs / Dump

func (h *hist) doExpire(cut time.Time, how string) {
	h.ops = append(h.ops, opRec{Op: "expire", Cut: how, CutNs: int64(cut.Sub(h.t0))})
	s0 := h.s
	h.guard("ExpireLogs", func() { h.l.ExpireLogs(cut.Add(expiry)) })
	if h.dead {
		return
	}
	s1 := h.observe()
	if h.dead {
		return
	}
	h.r.Count("expire.calls", 1)
	for k := range s1 {
		if _, ok := s0[k]; !ok {
			h.fail("phantom-line", "after ExpireLogs the dump holds %s which was not stored before", q(k))
			return
		}
	}
	removedLines, removedStamps := 0, 0
	for k, ts := range s0 {
		got := s1[k] // nil if the line is gone
		if len(got) > len(ts) || !sameStamps(ts[len(ts)-len(got):], got) {
			h.fail("timestamps-changed", "ExpireLogs changed the timestamps of %s other than by removing the oldest ones", q(k))
			return
		}
		gone := ts[:len(ts)-len(got)]
		for _, t := range gone {
			if t.After(cut) {
				h.fail("expire-removed-live-timestamp", "ExpireLogs with cut %v removed timestamp %v of line %s, which is newer than the cut", cut.Sub(h.t0), t.Sub(h.t0), q(k))
				return
			}
			if t.Equal(cut) {
				h.r.Count("expire.on_cut_removed", 1)
			}
		}
		for _, t := range got {
			if t.Before(cut) {
				h.fail("expire-kept-expired-timestamp", "ExpireLogs with cut %v kept timestamp %v of line %s, which is older than the cut", cut.Sub(h.t0), t.Sub(h.t0), q(k))
				return
			}
			if t.Equal(cut) {
				h.r.Count("expire.on_cut_kept", 1)
			}
		}
		removedStamps += len(gone)
		if len(got) == 0 {
			removedLines++
		} else if len(gone) > 0 {
			h.r.Count("expire.partial", 1)
		}
	}
	if len(s0) >= 64 && removedLines > len(s0)/2 {
		h.sawMajority = true
		h.r.Count("expire.majority_of_large_log", 1)
		if removedLines == len(s0) {
			h.r.Count("expire.all_of_large_log", 1)
		}
	}
	if removedLines > 0 {
		h.sawExpiryRemoval = true
		h.r.Count("expire.lines_removed", int64(removedLines))
		if len(s1) == 0 {
			h.r.Count("expire.emptied_log", 1)
		}
	} else if removedStamps == 0 {
		h.r.Count("expire.noop", 1)
	}
	h.s = s1
}

func (h *hist) doDump() {
	h.ops = append(h.ops, opRec{Op: "dump"})
	s0 := h.s
	s1 := h.observe()
	if h.dead {
		return
	}
	h.r.Count("dump.calls", 1)
	if len(s0) != len(s1) {
		h.fail("dump-changed-state", "two dumps in a row list %d and %d lines", len(s0), len(s1))
		return
	}
	for k, ts := range s0 {
		if !sameStamps(ts, s1[k]) {
			h.fail("dump-changed-state", "two dumps in a row differ for line %s", q(k))
			return
		}
	}
	h.s = s1
}

// ---------------------------------------------------------------- generator

const letters = "abcdefghijklmnopqrstuvwxyzABCDEFGHIJKLMNOPQRSTUVWXYZ0123456789 _-:/"

func randText(rng *rand.Rand, n int) string {
	b := make([]byte, n)
	for i := range b {
		b[i] = letters[rng.Intn(len(letters))]
	}
	return string(b)
}

var verbStrings = []string{"%d", "100%", "%s and %s", "%%", "%v", "%!", "%[3]*.[2]*[1]f", "%x%x%x", "load 50% done", "%", "%z", "%+v|%#v", "%08.3f%%", "%c%c", "%q", "a%-5sb", "%[2]d", "%T", "%*d", "%.*s"}

// abbr shortens very long lines in replays (the batch seed regenerates them).
func abbr(s string) string {
	if len(s) <= 300 {
		return s
	}
	return fmt.Sprintf("%s...[%d bytes in all]...%s", s[:80], len(s), s[len(s)-20:])
}

func abbrArgs(args []interface{}) []interface{} {
	long := false
	for _, a := range args {
		if x, ok := a.(string); ok && len(x) > 300 {
			long = true
		}
	}
	if !long {
		return args
	}
	out := make([]interface{}, len(args))
	for i, a := range args {
		if x, ok := a.(string); ok {
			out[i] = abbr(x)
		} else {
			out[i] = a
		}
	}
	return out
}

func (h *hist) fresh(n int) string {
	h.ctr++
	s := fmt.Sprintf("%d.", h.ctr)
	if n > 600 { // long lines: a repeated random chunk is enough and cheap
		chunk := randText(h.rng, 61)
		return (s + strings.Repeat(chunk, n/61+1))[:n]
	}
	if n <= len(s) {
		// too short for a counter: random text of that length (may repeat a stored line; the model does not care)
		return randText(h.rng, n)
	}
	return s + randText(h.rng, n-len(s))
}

func (h *hist) makePool() {
	rng := h.rng
	lim := h.c.Limit
	if lim > 600 {
		lim = 600
	}
	lens := []int{0, 1, lim - 1, lim, lim + 1, 2 * lim, lim / 2}
	base := randText(rng, 2*lim)
	n := 8 + rng.Intn(9)
	for i := 0; i < n; i++ {
		l := lens[rng.Intn(len(lens))]
		if rng.Intn(3) == 0 {
			l = rng.Intn(2*lim + 1)
		}
		if l < 0 {
			l = 0
		}
		if rng.Intn(3) == 0 {
			h.pool = append(h.pool, base[:l]) // prefix family: truncations collide
		} else {
			h.pool = append(h.pool, randText(rng, l))
		}
	}
	// lines that are loggable when max is smaller than one full line
	for _, l := range []int{h.c.Max / 2, h.c.Max/2 + 1, h.c.Max / 4} {
		if l >= 0 && l <= 2*lim {
			h.pool = append(h.pool, randText(rng, l))
		}
	}
}

// orderByLast returns the stored lines ordered by last update (ties in key order: generator only).
func orderByLast(s state) []string {
	var ks []string
	for k := range s {
		ks = append(ks, k)
	}
	sort.Slice(ks, func(i, j int) bool {
		a, b := last(s[ks[i]]), last(s[ks[j]])
		if a.Equal(b) {
			return ks[i] < ks[j]
		}
		return a.Before(b)
	})
	return ks
}

func (h *hist) genPrintf() {
	rng := h.rng
	lim := h.c.Limit
	if lim > 600 {
		lim = 600
	}
	var line, note string
	switch x := rng.Intn(100); {
	case x < 42 && len(h.pool) > 0:
		line, note = h.pool[rng.Intn(len(h.pool))], "pool"
	case x < 50 && len(h.s) > 0: // a stored line again
		ks := orderByLast(h.s)
		line, note = ks[rng.Intn(len(ks))], "stored"
	case x < 64: // sized to fill the free space exactly
		room := h.c.Max - size(h.s)
		if room >= 2 && room%2 == 0 && room/2 <= lim {
			line, note = h.fresh(room/2), "exact-fit"
		} else {
			line, note = h.fresh(rng.Intn(2*lim+1)), "fresh"
		}
	case x < 74 && len(h.s) > 0: // sized to fit exactly after evicting the k oldest lines
		ks := orderByLast(h.s)
		k := 1 + rng.Intn(len(ks))
		room := h.c.Max - size(h.s)
		for _, e := range ks[:k] {
			room += 2 * len(e)
		}
		room += 2 * (rng.Intn(3) - 1) // exactly, one byte less, one byte more
		if room >= 2 && room%2 == 0 && room/2 <= lim {
			line, note = h.fresh(room/2), "exact-fit-after-eviction"
		} else {
			line, note = h.fresh(rng.Intn(2*lim+1)), "fresh"
		}
	case x < 80:
		v := verbStrings[rng.Intn(len(verbStrings))]
		if rng.Intn(2) == 0 {
			v = randText(rng, rng.Intn(lim+1)) + v
		}
		switch rng.Intn(3) {
		case 0:
			h.r.Count("printf.verbs_as_format", 1)
			h.doPrintf(v, nil, "verbs-as-format-no-args")
		case 1:
			h.r.Count("printf.verbs_as_format", 1)
			args := []interface{}{rng.Intn(1000), randText(rng, rng.Intn(5)), rng.Intn(7)}
			h.doPrintf(v, args[:1+rng.Intn(3)], "verbs-as-format-with-args")
		default:
			h.r.Count("printf.verbs_as_arg", 1)
			if rng.Intn(2) == 0 {
				h.doPrintf("%s", []interface{}{v}, "verbs-as-argument")
			} else {
				h.doPrintf("%v: %s", []interface{}{rng.Intn(10), v}, "verbs-as-argument")
			}
		}
		return
	default:
		line, note = h.fresh(rng.Intn(2*lim+1)), "fresh"
	}
	// the same line through different call shapes
	switch rng.Intn(4) {
	case 0:
		h.doPrintf("%s", []interface{}{line}, note)
	case 1:
		cutAt := rng.Intn(len(line) + 1)
		h.doPrintf("%s%v", []interface{}{line[:cutAt], line[cutAt:]}, note)
	default:
		h.doPrintf(line, nil, note) // generated lines carry no '%'
	}
}

func (h *hist) genExpire() {
	rng := h.rng
	var all []time.Time
	for _, ts := range h.s {
		all = append(all, ts...)
	}
	sort.Slice(all, func(i, j int) bool { return all[i].Before(all[j]) })
	if len(all) == 0 {
		switch rng.Intn(3) {
		case 0:
			h.doExpire(time.Now(), "empty-log:now")
		case 1:
			h.doExpire(h.t0.Add(-time.Hour), "empty-log:past")
		default:
			h.doExpire(time.Now().Add(time.Hour), "empty-log:future")
		}
		return
	}
	i := rng.Intn(len(all))
	switch rng.Intn(11) {
	case 0:
		h.doExpire(all[0].Add(-time.Nanosecond), "before-all-1ns")
	case 1:
		h.doExpire(all[0].Add(-time.Duration(1+rng.Int63n(int64(time.Hour)))), "before-all")
	case 2:
		h.doExpire(last(all).Add(time.Nanosecond), "after-all-1ns")
	case 3:
		h.doExpire(time.Now().Add(time.Duration(rng.Int63n(int64(time.Hour)))), "after-all")
	case 4:
		h.doExpire(all[i], "exactly-on-timestamp")
	case 5:
		h.doExpire(all[i].Add(time.Nanosecond), "timestamp+1ns")
	case 6:
		h.doExpire(all[i].Add(-time.Nanosecond), "timestamp-1ns")
	case 7, 8:
		if i+1 < len(all) {
			h.doExpire(all[i].Add(all[i+1].Sub(all[i])/2), "between")
		} else {
			h.doExpire(all[i].Add(time.Nanosecond), "timestamp+1ns")
		}
	case 9: // exactly the least recently updated line
		ks := orderByLast(h.s)
		h.doExpire(last(h.s[ks[0]]).Add(time.Nanosecond), "oldest-line-only")
	default: // partial expiry of a repeated line if there is one
		for _, k := range orderByLast(h.s) {
			if ts := h.s[k]; len(ts) > 1 {
				j := rng.Intn(len(ts) - 1)
				h.doExpire(ts[j].Add(ts[j+1].Sub(ts[j])/2+time.Nanosecond), "inside-repeated-line")
				return
			}
		}
		h.doExpire(all[i].Add(time.Nanosecond), "timestamp+1ns")
	}
}

// Hot-line histories: one line is repeated thousands of times (a long-lived
// client repeating the same failure line), then other lines, the hot line
// again, evictions and dumps. The bulk of the repeats is issued without a dump
// in between and judged afterwards by the same rule as a single repeat: state
// unchanged except one new timestamp per call, each inside its call.
var hotCfgs = []cfg{{60, 10}, {100, 10}, {2000, 8}, {1000, 200}, {40, 10}, {64, 8}}

func (h *hist) doRepeatBulk(line string, k int) {
	s0 := h.s
	if _, ok := s0[line]; !ok || strings.Contains(line, "%") {
		return
	}
	h.ops = append(h.ops, opRec{Op: fmt.Sprintf("printf x %d", k), Format: abbr(line), Note: "the same stored line again and again, no other call in between"})
	marks := make([]time.Time, k+1)
	h.guard("Printf", func() {
		for i := 0; i < k; i++ {
			marks[i] = time.Now()
			h.l.Printf(line)
		}
		marks[k] = time.Now()
	})
	if h.dead {
		return
	}
	s1 := h.observe()
	if h.dead {
		return
	}
	h.r.Count("printf.calls", int64(k))
	h.r.Count("printf.repeat", int64(k))
	for key, ts := range s1 {
		if key == line {
			continue
		}
		old, ok := s0[key]
		if !ok {
			h.fail("phantom-line", "after repeating %s %d times the dump holds %s, which was not stored before", q(line), k, q(key))
			return
		}
		if !sameStamps(old, ts) {
			h.fail("timestamps-changed", "repeating %s %d times changed the timestamps of the other line %s", q(line), k, q(key))
			return
		}
	}
	for key := range s0 {
		if _, ok := s1[key]; !ok {
			if key == line {
				h.fail("newest-line-missing", "line %s is not in the dump after it was logged %d more times", q(line), k)
			} else {
				h.fail("evicted-on-repeat", "logging the already stored line %s %d more times evicted %s", q(line), k, q(key))
			}
			return
		}
	}
	prev, got := s0[line], s1[line]
	nNew := grewBy(prev, got, k)
	if nNew == 0 {
		h.fail("newest-line-wrong-timestamps", "line %s had %d timestamps, after logging it %d more times it has %d (or older ones changed)", q(line), len(prev), k, len(got))
		return
	}
	if len(got) != len(prev)+k {
		h.r.Count("obs.timestamp_history_shortened", 1)
	}
	// the last nNew timestamps are those of the last nNew calls
	for j := 0; j < nNew; j++ {
		i := k - nNew + j
		if t := got[len(got)-nNew+j]; t.Before(marks[i]) || t.After(marks[i+1]) {
			h.fail("update-time-outside-call", "timestamp %d of %s is %v, the call ran from %v to %v", len(got)-nNew+j, q(line), t.Sub(h.t0), marks[i].Sub(h.t0), marks[i+1].Sub(h.t0))
			return
		}
	}
	h.r.Max("max.timestamps_of_one_line", int64(len(got)))
	h.s = s1
}

func (h *hist) genHot() {
	rng := h.rng
	h.r.Count("hot.histories", 1)
	maxLen := h.c.Limit
	if h.c.Max/4 < maxLen {
		maxLen = h.c.Max / 4
	}
	for i := rng.Intn(3); i > 0; i-- {
		h.doPrintf(h.fresh(1+rng.Intn(maxLen)), nil, "hot:before")
	}
	hot := "H" + randText(rng, rng.Intn(maxLen))
	h.doPrintf(hot, nil, "hot")
	total := 4100 + rng.Intn(900)
	if rng.Intn(4) == 0 {
		total += 4096 // beyond twice the first power of two above 4000
	}
	for total > 0 && !h.dead {
		k := total
		if rng.Intn(2) == 0 && k > 1000 {
			k = 500 + rng.Intn(k-500)
		}
		h.doRepeatBulk(hot, k)
		total -= k
		if rng.Intn(2) == 0 && !h.dead {
			h.doDump()
		}
	}
	// other lines, the hot line again, room needed, dumps: order and eviction are judged as always
	for round := 0; round < 3 && !h.dead; round++ {
		for i := 1 + rng.Intn(3); i > 0 && !h.dead; i-- {
			h.doPrintf(h.fresh(1+rng.Intn(maxLen)), nil, "hot:other")
		}
		if h.dead {
			return
		}
		h.doPrintf("%s", []interface{}{hot}, "hot:again")
		for i := 0; i < 12 && !h.dead && size(h.s)+2*h.c.Limit <= h.c.Max; i++ {
			h.doPrintf(h.fresh(h.c.Limit), nil, "hot:fill")
		}
		for i := 1 + rng.Intn(3); i > 0 && !h.dead; i-- {
			h.doPrintf(h.fresh(1+rng.Intn(h.c.Limit)), nil, "hot:evict")
		}
		if !h.dead && rng.Intn(2) == 0 {
			h.genExpire()
		}
	}
}

// Huge histories: line limits around 2^15 and 2^16 and a maximum of a few
// hundred KB, lines of lengths around 32767/32768/65535/65536 that are stored,
// expire and get evicted.
const hugeEvery = 100

var hugeCfgs = []cfg{{200000, 32767}, {300000, 32768}, {400000, 40000}, {1000000, 70000}, {262144, 65536}, {140000, 70000}, {524288, 65535}}

func (h *hist) genHuge() {
	rng := h.rng
	h.r.Count("huge.histories", 1)
	lens := []int{32767, 32768, 32769, 40000, 65535, 65536, 65537, 70000, 70001, 20000, 50000, 100, 1}
	for i := 0; i < 50 && !h.dead; i++ {
		switch x := rng.Intn(100); {
		case x < 55:
			n := lens[rng.Intn(len(lens))]
			if n > h.c.Limit+2 {
				n = h.c.Limit - 2 + rng.Intn(5) // around the limit, a little above is cut
			}
			if rng.Intn(6) == 0 {
				n = 1 + rng.Intn(h.c.Limit)
			}
			line := h.fresh(n)
			if n > 32767 && n <= h.c.Limit {
				h.r.Count("huge.lines_over_32767_bytes", 1)
			}
			if rng.Intn(2) == 0 {
				h.doPrintf(line, nil, "huge")
			} else {
				h.doPrintf("%s", []interface{}{line}, "huge")
			}
		case x < 65 && len(h.s) > 0:
			ks := orderByLast(h.s)
			h.doPrintf(ks[rng.Intn(len(ks))], nil, "huge:stored")
		case x < 75:
			room := h.c.Max - size(h.s)
			if room >= 2 && room%2 == 0 && room/2 <= h.c.Limit {
				h.doPrintf(h.fresh(room/2), nil, "huge:exact-fit")
			} else {
				h.doPrintf(h.fresh(1+rng.Intn(h.c.Limit)), nil, "huge")
			}
		case x < 92:
			h.genExpire()
		default:
			h.doDump()
		}
	}
}

// Staged histories: large limits so that hundreds of short lines are stored,
// cohorts of lines, one ExpireLogs that removes a chosen share of the stored
// lines (more than half, exactly half, less), then fresh lines up to the
// byte limit and beyond.
const stagedEvery = 100

var stagedCfgs = []cfg{{2000, 8}, {4000, 12}, {1500, 5}, {3000, 10}, {6000, 20}, {1000, 4}, {2016, 8}, {900, 3}}

func (h *hist) genStaged() {
	rng := h.rng
	h.r.Count("staged.histories", 1)
	logFresh := func(n int) {
		if n < 1 {
			n = 1
		}
		line := h.fresh(n)
		if rng.Intn(2) == 0 {
			h.doPrintf(line, nil, "staged")
		} else {
			h.doPrintf("%s", []interface{}{line}, "staged")
		}
	}
	for round, rounds := 0, 1+rng.Intn(2); round < rounds && !h.dead; round++ {
		// cohorts: short lines until at least `target` lines are stored
		target := 64 + rng.Intn(120)
		for i := 0; i < 400 && len(h.s) < target && !h.dead; i++ {
			if rng.Intn(12) == 0 && len(h.s) > 0 {
				ks := orderByLast(h.s) // refresh an old line: it moves to the young end
				h.doPrintf(ks[rng.Intn(len(ks))], nil, "staged-refresh")
				continue
			}
			logFresh(2 + rng.Intn(h.c.Limit))
			if size(h.s)+2*h.c.Limit > h.c.Max { // full before the target: go on with what is stored
				break
			}
		}
		if h.dead || len(h.s) == 0 {
			return
		}
		// one expiry that removes the share f of the stored lines (oldest first)
		ks := orderByLast(h.s)
		f := []float64{0.51, 0.6, 0.75, 0.9, 1.0, 1.0, 0.5, 0.3}[rng.Intn(8)]
		k := int(f*float64(len(ks)) + 0.999)
		if k > len(ks) {
			k = len(ks)
		}
		if k < 1 {
			k = 1
		}
		h.doExpire(last(h.s[ks[k-1]]).Add(time.Nanosecond), fmt.Sprintf("staged: oldest %d of %d lines", k, len(ks)))
		if h.dead {
			return
		}
		if rng.Intn(3) == 0 {
			h.doDump()
		}
		// refill to the byte limit and beyond
		over := 10 + rng.Intn(30)
		for i := 0; i < 700 && over > 0 && !h.dead; i++ {
			room := h.c.Max - size(h.s)
			switch {
			case room >= 2 && room/2 <= h.c.Limit && room%2 == 0 && rng.Intn(2) == 0:
				logFresh(room / 2) // exact fit
			case rng.Intn(3) == 0:
				logFresh(1 + rng.Intn(h.c.Limit))
			default:
				logFresh(h.c.Limit)
			}
			if room < 2*h.c.Limit {
				over--
			}
		}
	}
}

func runHistory(b run.Batch, r *ev.Result, idx int) {
	seed := b.Seed*1000003 + int64(idx)
	rng := rand.New(rand.NewSource(seed))
	h := &hist{r: r, b: b, rng: rng, c: pickCfg(rng, idx), seed: seed, s: state{}}
	switch {
	case idx%stagedEvery == 7:
		h.staged = true
		h.c = stagedCfgs[rng.Intn(len(stagedCfgs))]
	case idx == 3 || idx%1000 == 503:
		h.kind = "hot"
		h.c = hotCfgs[rng.Intn(len(hotCfgs))]
	case idx%hugeEvery == 57:
		h.kind = "huge"
		h.c = hugeCfgs[rng.Intn(len(hugeCfgs))]
	}
	n := 60
	switch x := rng.Intn(100); {
	case x == 0:
		n = 1500
	case x < 11:
		n = 300
	}
	run.Op("history %d seed=%d max=%d limit=%d ops=%d", idx, seed, h.c.Max, h.c.Limit, n)
	h.t0 = time.Now()
	h.l = glow.NewEventLogger(expiry, h.c.Max, h.c.Limit)
	h.makePool()
	if s := h.observe(); h.dead || len(s) != 0 {
		if !h.dead {
			h.fail("phantom-line", "a new logger dumps %d lines", len(s))
		}
		return
	}
	if h.staged {
		h.genStaged()
		n = 20
	}
	if h.kind == "hot" {
		h.genHot()
		n = 15
	}
	if h.kind == "huge" {
		h.genHuge()
		n = 0
	}
	for i := 0; i < n && !h.dead; i++ {
		switch x := rng.Intn(100); {
		case x < 70:
			h.genPrintf()
		case x < 88:
			h.genExpire()
		default:
			h.doDump()
		}
	}
	r.Count("histories", 1)
	r.Count("operations", int64(len(h.ops)))
	if h.nontrivial {
		r.Nontrivial(fmt.Sprintf("%d/%d/%d", h.c.Max, h.c.Limit, seed))
	}
	if idx%97 == 3 && len(h.ops) > 0 {
		k := len(h.ops)
		if k > 12 {
			k = 12
		}
		r.Sample(map[string]interface{}{"config": h.c, "history_seed": seed, "first_operations": h.ops[:k], "lines_at_end": len(h.s)})
	}
}

func childSeq(b run.Batch, r *ev.Result) {
	for i := 0; i < b.N; i++ {
		runHistory(b, r, i)
		if r.NumViolations() >= 12 {
			r.Note("stopped after %d histories: enough violations", i+1)
			return
		}
	}
}

// ---------------------------------------------------------------- natural expiry

type nop struct {
	Raw  string `json:"input"`
	Key  string `json:"line"`
	TbNs int64  `json:"before_ns"`
	TeNs int64  `json:"after_ns"`
	tb   time.Time
	te   time.Time
}

// naturalScenario exercises the logger's own time-based expiry inside Printf:
// a log filled before a real sleep of >= 3 expiries, then calls whose first
// one is the first to notice the expiry.
func naturalScenario(b run.Batch, r *ev.Result, idx int) {
	seed := b.Seed*1000003 + int64(idx)
	rng := rand.New(rand.NewSource(seed))
	E := []time.Duration{15 * time.Millisecond, 40 * time.Millisecond}[idx%2]
	c := []cfg{{60, 10}, {40, 10}, {1000, 200}, {20, 10}, {64, 8}, {61, 10}, {200, 7}}[rng.Intn(7)]
	variant := []string{"repeat", "repeat-truncated", "fresh-big", "repeat-then-fill", "fresh-then-repeat", "repeat-twice", "fresh-then-fill"}[(idx/2)%7]
	run.Op("natural scenario %d seed=%d expiry=%v max=%d limit=%d variant=%s", idx, seed, E, c.Max, c.Limit, variant)
	t0 := time.Now()
	l := glow.NewEventLogger(E, c.Max, c.Limit)
	var phase1, phase2 []*nop
	failed := false
	replay := func() interface{} {
		return map[string]interface{}{"batch": b, "scenario": idx, "scenario_seed": seed, "expiry": E.String(), "config": c, "variant": variant,
			"calls_before_sleep": phase1, "calls_after_sleep_then_dump": phase2}
	}
	fail := func(key, format string, a ...interface{}) {
		if !failed {
			r.Violationf(key, replay(), "natural expiry %v, config max=%d limit=%d, variant %s: %s", E, c.Max, c.Limit, variant, fmt.Sprintf(format, a...))
		}
		failed = true
	}
	printf := func(list *[]*nop, raw string) {
		key := raw
		if len(key) > c.Limit {
			key = key[:c.Limit]
		}
		o := &nop{Raw: raw, Key: key}
		*list = append(*list, o)
		func() {
			defer func() {
				if p := recover(); p != nil {
					fail("panic:"+run.Normalize(fmt.Sprint(p)), "Printf(%s) panicked: %v", q(raw), p)
				}
			}()
			o.tb = time.Now()
			l.Printf("%s", raw)
			o.te = time.Now()
		}()
		o.TbNs, o.TeNs = int64(o.tb.Sub(t0)), int64(o.te.Sub(t0))
	}
	ctr := 0
	fresh := func(n int) string {
		ctr++
		s := fmt.Sprintf("%d", ctr)
		if n <= len(s) {
			return s[:n]
		}
		return s + randText(rng, n-len(s))
	}
	maxLen := c.Limit
	if c.Max/2 < maxLen {
		maxLen = c.Max / 2
	}
	// X: at most half of what fits so that it can be stored next to other lines
	xl := 1 + rng.Intn(maxLen)
	X := "X" + randText(rng, xl-1)

	// phase 1: fill the log (evictions may happen), X possibly repeated, X last so that it is certainly stored
	printf(&phase1, X)
	for i, n := 0, 2+rng.Intn(5); i < n && !failed; i++ {
		if rng.Intn(4) == 0 {
			printf(&phase1, X)
		} else {
			printf(&phase1, fresh(1+rng.Intn(maxLen)))
		}
	}
	printf(&phase1, X)
	if failed {
		return
	}
	if rng.Intn(2) == 0 { // a dump before the sleep removes nothing; X must be there
		m, _ := l.DumpLogEntries()
		if _, ok := m[X]; !ok && time.Since(phase1[len(phase1)-1].tb) < E {
			fail("newest-line-missing", "line %s is not in the dump taken right after it was logged", q(X))
			return
		}
	}
	end1 := time.Now()
	time.Sleep(3*E + time.Duration(rng.Intn(3))*E/2)
	for time.Since(end1) < 3*E {
		time.Sleep(E)
	}

	// phase 2: no call other than these touches the logger
	fill := func(used map[string]bool) {
		room := c.Max
		for k := range used {
			room -= 2 * len(k)
		}
		for i := 0; i < 6 && room >= 2 && !failed; i++ {
			n := room / 2
			if n > c.Limit {
				n = c.Limit
			}
			if i < 5 && n > 1 && rng.Intn(2) == 0 {
				n = 1 + rng.Intn(n)
			}
			ln := fresh(n)
			if used[ln] {
				continue
			}
			used[ln] = true
			printf(&phase2, ln)
			room -= 2 * len(ln)
		}
	}
	big := fresh(maxLen) // needs room that exists only if expired bytes were given back (the log was filled before the sleep)
	switch variant {
	case "repeat":
		printf(&phase2, X)
	case "repeat-truncated":
		if len(X) == c.Limit {
			printf(&phase2, X+"-tail that is cut off")
		} else {
			printf(&phase2, X)
		}
	case "fresh-big":
		printf(&phase2, big)
	case "repeat-then-fill":
		printf(&phase2, X)
		fill(map[string]bool{X: true})
	case "fresh-then-repeat":
		z := fresh(1 + rng.Intn(maxLen))
		if 2*len(z)+2*len(X) > c.Max {
			z = z[:0]
		}
		printf(&phase2, z)
		printf(&phase2, X)
	case "repeat-twice":
		printf(&phase2, X)
		printf(&phase2, X)
	case "fresh-then-fill":
		printf(&phase2, big)
		fill(map[string]bool{big: true})
	}
	if failed {
		return
	}
	var m map[string][]time.Time
	var order []string
	func() {
		defer func() {
			if p := recover(); p != nil {
				fail("panic:"+run.Normalize(fmt.Sprint(p)), "DumpLogEntries panicked: %v", p)
			}
		}()
		m, order = l.DumpLogEntries()
	}()
	de := time.Now()
	if failed {
		return
	}
	r.Eval(1)
	r.Count("natural.scenarios", 1)
	first := phase2[0]
	if !de.Add(-E).Before(first.tb) {
		// the calls after the sleep took longer than one expiry: their own timestamps may have expired
		r.Count("natural.undecidable_slow", 1)
		return
	}
	r.Count("natural.decided", 1)
	switch variant {
	case "repeat", "repeat-truncated", "repeat-then-fill", "repeat-twice":
		r.Count("natural.repeat_of_expired_line_decided", 1)
	case "fresh-big", "fresh-then-fill":
		r.Count("natural.fresh_into_expired_space_decided", 1)
	}
	r.Nontrivial(fmt.Sprintf("natural/%d/%d/%s/%d", c.Max, c.Limit, variant, seed))

	// expected: exactly the lines logged after the sleep (they fit together by construction), one timestamp per call, each inside its call
	want := map[string][]*nop{}
	sum := 0
	for _, o := range phase2 {
		if _, ok := want[o.Key]; !ok {
			sum += 2 * len(o.Key)
		}
		want[o.Key] = append(want[o.Key], o)
	}
	if sum > c.Max {
		r.Inconc(fmt.Sprintf("natural scenario generator error: lines after the sleep take %d > %d bytes", sum, c.Max))
		return
	}
	got := 0
	for k := range m {
		got += 2 * len(k)
	}
	if got > c.Max {
		fail("size-bound-exceeded", "dump holds %d bytes of lines, maximum %d", got, c.Max)
		return
	}
	limitT := first.tb.Add(-E)
	for k, ts := range m {
		for _, t := range ts {
			if t.Before(limitT) {
				fail("expire-kept-expired-timestamp", "dump lists line %s with timestamp %v, more than one expiry older than the first call after the sleep (%v)", q(k), t.Sub(t0), first.tb.Sub(t0))
				return
			}
		}
		if _, ok := want[k]; !ok {
			fail("phantom-line", "dump lists line %s which was not logged after the sleep", q(k))
			return
		}
	}
	last := phase2[len(phase2)-1]
	for k, ops := range want {
		ts, ok := m[k]
		if !ok {
			if k == last.Key {
				fail("newest-line-missing", "line %s was logged again after all its earlier timestamps had expired (sleep >= 3 x %v, no other call in between) and is not in the dump taken %v later", q(k), E, de.Sub(last.tb))
			} else {
				fail("evicted-although-line-fits-after-expiry", "line %s logged after the sleep is missing from the dump although all lines logged after the sleep fit together (%d <= %d bytes): expired bytes were not reusable", q(k), sum, c.Max)
			}
			return
		}
		if len(ts) == 0 || len(ts) > len(ops) {
			fail("newest-line-wrong-timestamps", "line %s was logged %d time(s) after the sleep and has %d timestamps", q(k), len(ops), len(ts))
			return
		}
		// (an implementation may keep only the newest timestamps of a line: the ones present belong to the last calls)
		ops = ops[len(ops)-len(ts):]
		for i, o := range ops {
			if ts[i].Before(o.tb) || ts[i].After(o.te) {
				fail("update-time-outside-call", "timestamp %d of %s is %v, the call ran from %v to %v", i, q(k), ts[i].Sub(t0), o.tb.Sub(t0), o.te.Sub(t0))
				return
			}
		}
	}
	if len(order) != len(m) {
		fail("dump-order-map-mismatch", "dump order lists %d lines, dump map has %d", len(order), len(m))
		return
	}
	for i := 1; i < len(order); i++ {
		a, bb := m[order[i-1]], m[order[i]]
		if len(a) == 0 || len(bb) == 0 || last2(bb).Before(last2(a)) {
			fail("dump-order-not-by-last-update", "dump order position %d was updated before position %d", i, i-1)
			return
		}
	}
}

func last2(ts []time.Time) time.Time { return ts[len(ts)-1] }

func childNatural(b run.Batch, r *ev.Result) {
	for i := 0; i < b.N; i++ {
		naturalScenario(b, r, i)
		if r.NumViolations() >= 6 {
			return
		}
	}
}

// ---------------------------------------------------------------- concurrent batch

type concStats struct {
	printfs, expires, dumps int64
	maxLines                int64
	violKey, violDesc       string
}

func childConc(b run.Batch, r *ev.Result) {
	rng := rand.New(rand.NewSource(b.Seed))
	cfgs := []cfg{{60, 10}, {20, 10}, {1000, 200}, {6, 1}, {61, 10}, {7, 10}, {160, 8}}
	const G = 8
	opsPer := 3000
	if b.Tier == "thorough" {
		opsPer = 12000
	}
	for round := 0; round < b.N; round++ {
		c := cfgs[(round+int(b.Seed))%len(cfgs)]
		if round >= len(cfgs) {
			l := 1 + rng.Intn(30)
			c = cfg{1 + rng.Intn(10*l+10), l}
		}
		run.Op("concurrent round %d max=%d limit=%d goroutines=%d ops=%d", round, c.Max, c.Limit, G, opsPer)
		l := glow.NewEventLogger(expiry, c.Max, c.Limit)
		pool := make([]string, 24)
		for i := range pool {
			pool[i] = randText(rng, rng.Intn(2*c.Limit+1))
		}
		pool[0] = "%d%s%"
		seeds := make([]int64, G)
		for i := range seeds {
			seeds[i] = rng.Int63()
		}
		stats := make([]concStats, G)
		start := make(chan struct{})
		var wg sync.WaitGroup
		for g := 0; g < G; g++ {
			wg.Add(1)
			// No harness-side synchronisation inside the loop: it would order the
			// accesses and hide races from the detector.
			go func(g int) {
				defer wg.Done()
				st := &stats[g]
				defer func() {
					if p := recover(); p != nil && st.violKey == "" {
						st.violKey = "panic:" + run.Normalize(fmt.Sprint(p))
						st.violDesc = fmt.Sprintf("goroutine %d panicked: %v", g, p)
					}
				}()
				gr := rand.New(rand.NewSource(seeds[g]))
				<-start
				n := 0
				for i := 0; i < opsPer && st.violKey == ""; i++ {
					switch x := gr.Intn(100); {
					case x < 70:
						s := pool[gr.Intn(len(pool))]
						if gr.Intn(3) == 0 {
							n++
							l.Printf("%d.%d.%s", g, n, s)
						} else if strings.Contains(s, "%") {
							l.Printf(s, g)
						} else {
							l.Printf("%s", s)
						}
						st.printfs++
					case x < 80:
						// everything older than d expires (d = 0: everything)
						d := time.Duration(gr.Intn(4)) * 50 * time.Microsecond
						l.ExpireLogs(time.Now().Add(expiry - d))
						st.expires++
					default:
						m, order := l.DumpLogEntries()
						st.dumps++
						sz := 0
						for k, ts := range m {
							sz += 2 * len(k)
							if len(k) > c.Limit {
								st.violKey, st.violDesc = "line-over-limit", fmt.Sprintf("concurrent use: stored line %s longer than limit %d", q(k), c.Limit)
							}
							if len(ts) == 0 {
								st.violKey, st.violDesc = "dump-line-without-timestamp", "concurrent use: line without timestamp in dump"
							}
						}
						if sz > c.Max {
							st.violKey, st.violDesc = "size-bound-exceeded", fmt.Sprintf("concurrent use: dump holds %d bytes of lines, maximum %d", sz, c.Max)
						}
						if len(order) != len(m) {
							st.violKey, st.violDesc = "dump-order-map-mismatch", fmt.Sprintf("concurrent use: order lists %d lines, map %d", len(order), len(m))
						}
						for _, k := range order {
							if _, ok := m[k]; !ok {
								st.violKey, st.violDesc = "dump-order-map-mismatch", "concurrent use: order names a line missing from the map"
							}
						}
						if int64(len(m)) > st.maxLines {
							st.maxLines = int64(len(m))
						}
					}
				}
			}(g)
		}
		close(start)
		wg.Wait()
		for g := range stats {
			st := &stats[g]
			r.Count("concurrent.printfs", st.printfs)
			r.Count("concurrent.expires", st.expires)
			r.Count("concurrent.dumps", st.dumps)
			r.Eval(int(st.dumps))
			r.Max("max.concurrent_lines_stored", st.maxLines)
			if st.violKey != "" {
				r.Violationf(st.violKey, map[string]interface{}{"batch": b, "round": round, "config": c, "goroutines": G, "ops_per_goroutine": opsPer}, "config max=%d limit=%d: %s", c.Max, c.Limit, st.violDesc)
			}
		}
		r.Count("concurrent.rounds", 1)
		if r.NumViolations() > 0 {
			return
		}
	}
}
