//go:build test

package main

// bigdump (a batch of its own, plain build): a log in the production
// configuration holding about ten thousand lines is dumped in a loop by two
// goroutines (what the client's status dump does) while a third logs 100
// fresh lines. The log stays far below its limit and nothing expires, so every
// one of those lines is loggable without any eviction: all 100 must be in the
// log afterwards.

import (
	"fmt"
	"math/rand"
	"sync"
	"sync/atomic"

	"github.com/glowlabs-org/gca-backend/glow"

	"verifharness/lib/ev"
	"verifharness/lib/run"
)

func bigDump(b run.Batch, r *ev.Result, rng *rand.Rand) {
	run.Op("bigdump: 10000 stored lines, 2 dumping goroutines, 100 fresh lines")
	l := glow.NewEventLogger(expiry, 10000000, 500)
	for i := 0; i < 10000; i++ {
		l.Printf("%s", fmt.Sprintf("fill-%06d-%s", i, randText(rng, 200+rng.Intn(80))))
	}
	var stop atomic.Bool
	var dumps atomic.Int64
	var wg sync.WaitGroup
	for g := 0; g < 2; g++ {
		wg.Add(1)
		go func() {
			defer wg.Done()
			for !stop.Load() {
				l.DumpLogEntries()
				dumps.Add(1)
			}
		}()
	}
	fresh := make([]string, 100)
	for i := range fresh {
		fresh[i] = fmt.Sprintf("fresh-%03d-%s", i, randText(rng, 40+rng.Intn(300)))
		l.Printf("%s", fresh[i])
	}
	stop.Store(true)
	wg.Wait()
	m, _ := l.DumpLogEntries()
	missing := 0
	first := ""
	for _, f := range fresh {
		if _, ok := m[f]; !ok {
			missing++
			if first == "" {
				first = f
			}
		}
	}
	r.Eval(len(fresh))
	r.Count("bigdump.fresh_lines_logged_during_dumps", int64(len(fresh)-missing))
	r.Count("bigdump.dumps_meanwhile", dumps.Load())
	r.Max("max.bigdump_stored_lines", int64(len(m)))
	if missing > 0 {
		r.Violationf("loggable-line-dropped", map[string]interface{}{"batch": b, "missing": missing, "first_missing": first, "stored_lines": len(m)},
			"%d of 100 lines logged while two goroutines were dumping a log of %d lines (limit 10000000 bytes, nothing to evict, nothing expired) are not in the log afterwards; first: %s", missing, len(m), q(first))
	}
}
