//go:build test

// C07 — GCA registration is one-shot, gated by the temporary key, irreversible.
//
// Monitor: real servers (fresh, unregistered) in child processes.
//   - "seq":   sequential histories judged call by call against the sequential
//     model state ∈ {unset, K}, with the server's key state, gcaPubKey.dat and
//     the public lists inspected after every call.
//   - "conc":  concurrent batches (race build): k ∈ 2..32 clients register
//     distinct candidate keys while others submit orders signed by every
//     candidate, by the temporary key and by nobody; every call is recorded at
//     the client boundary from one monotonic clock and the history is checked
//     with porcupine against the same model; then winner/file/snapshot/restart.
//   - "delay": delay injections (race build): the goroutine that reaches a
//     handler's ".ready" point starts the interfering request in a new
//     goroutine and only sleeps, so an access to the GCA key that is not
//     ordered by the server's own lock is reported by the race detector.
//
// The model, the signatures and the encodings are written here / in refenc,
// independent of the repository's code.
package main

import (
	"bytes"
	"encoding/hex"
	"encoding/json"
	"fmt"
	"io"
	"math/rand"
	"net"
	"net/http"
	"os"
	"os/signal"
	"path/filepath"
	"sort"
	"strconv"
	"strings"
	"sync"
	"sync/atomic"
	"syscall"
	"time"

	"github.com/anishathalye/porcupine"
	"github.com/glowlabs-org/gca-backend/server"

	"verifharness/lib/drv"
	"verifharness/lib/ev"
	"verifharness/lib/refenc"
	"verifharness/lib/run"
)

func main() {
	run.Main(run.Spec{
		ID:    "C07",
		Level: "exploration",
		Pkg:   "./cmd/c07",
		Rule: "evaluation = one history checked (sequential history judged call by call, or concurrent/delay history checked by porcupine plus the winner/file/snapshot/restart checks). " +
			"Non-trivial = a concurrent batch in which at least two VALID registrations (distinct keys, signed by the temporary key) had overlapping call/return intervals (measured from the recorded client-side times), " +
			"or a delay cell whose hook fired (the interfering request was issued from inside the hooked handler); distinct by batch seed.",
		Assumptions: []string{
			"call and return times are taken in the client goroutine from one monotonic clock immediately before the request is written and after the response was read; a call whose HTTP exchange failed stays open to the end of the history with unknown result",
			"every order uses a fresh device id / device key / server key, so the only reason the model knows for refusing a validly signed order is the signer",
			"peer servers named in authorized-server records point to a sink HTTP server inside the child (the server's fan-out is answered with 200 and ignored)",
			"an empty gcaPubKey.dat placed before the first start stands for the residue of a crash during a registration that never completed; such a server counts as unregistered",
			"a registration issued while a directory occupies the path gcaPubKey.dat (write fault injected from outside, removed right after the call) may be refused; whatever it answers, the model state, the server's key state and every later answer must agree",
			"a registration issued under RLIMIT_FSIZE = 1..31 (process wide, restored right after the call, SIGXFSZ ignored) has its key file write cut short; it may be refused and may leave bytes in gcaPubKey.dat (counted, not judged, and no restart happens in that state); the next accepted registration must leave exactly its 32 bytes, also after restarts",
			"lost key file (conditional): after a clean close gcaPubKey.dat is emptied or deleted while equipment-authorizations.dat survives; a server that refuses to start is counted, one that starts is judged (unregistered implies no equipment; after a new registration nothing signed by the old key is listed)",
			"transient fault: a directory occupies gcaPubKey.dat when the first valid registration arrives and is removed by the harness when that call has returned or after 80-250 ms (timing only decides what is exercised); the first registration may be refused, a second valid one follows at once",
			"a migration order is well formed only if the server entries it lists are signed by the NewGCA it names; an order signed by the registered key whose list re-uses entries signed by another key is expected to be refused",
			"the all-zero key is a legitimate GCA key (one sequential history in five registers it, one concurrent batch in five has it among the candidates); nobody can sign for it, so after it is registered nothing at all is honoured",
			"records that name an existing server key are judged by their effect on the server list (snapshot and GET), not by the HTTP status; what the registered key itself may change about an existing entry is C17's subject, here only a ban by it must take effect",
			"archive downloads are not part of the model (any answer accepted); they are only used as interference around the registration, whose durability (file, memory, restart, later registrations) is what is judged",
			"race reports are raised for the operations of this property only: registration against equipment authorization, server authorization and migration orders (plus the GET handlers used for inspection)",
			"delay injections rely on wall-clock sleeps of 60-100 ms only to widen the window; a too short sleep loses detection, not soundness",
		},
		Plan:            plan,
		Child:           child,
		RaceIsViolation: true,
		Post: func(c *ev.Check, outs []*run.Outcome) {
			for _, o := range outs {
				if len(o.Races) > 0 {
					name := o.Batch.Kind
					if name == "delay" {
						name += "." + o.Batch.P("site") + "." + o.Batch.P("dir")
					}
					c.AddCounter("race_reports.in."+name, int64(len(o.Races)))
				}
			}
			c.Require("seq.histories", 10)
			c.Require("seq.registration_accepted", 10)
			c.Require("seq.prereg_orders_refused", 30)
			c.Require("seq.winner_orders_accepted", 10)
			c.Require("existing_server_probes_without_effect", 100)
			c.Require("existing_server_bans_by_registered_gca_applied", 5)
			c.Require("arch.trials.hook", 20)
			c.Require("arch.trials.stress", 5)
			c.Require("arch.trials_with_download_overlapping_registration", 10)
			c.Require("arch.restarts", 20)
			c.Require("seq.restarts", 5)
			c.Require("seq.winner_is_zero_key", 3)
			c.Require("seq.failed_persist_registration_refused", 3)
			c.Require("seq.cut_write_registrations", 3)
			c.Require("lostkey.trials.emptied", 3)
			c.Require("lostkey.trials.deleted", 3)
			c.Require("slowbody.trials", 4)
			c.Require("transient.trials", 6)
			c.Require("transient.winners.1", 6)
			c.Require("copied_signature.altered_orders_refused", 20)
			c.Require("laundering.orders_with_foreign_list_accepted", 5)
			c.Require("laundering.foreign_entries_refused", 10)
			c.Require("laundering.orders_reusing_own_entries_refused", 5)
			c.Require("conc.batches_with_zero_key_candidate", 3)
			c.Require("conc.batches", 10)
			c.Require("conc.nontrivial_batches", 5)
			c.Require("conc.winner_orders_accepted", 10)
			c.Require("lin.ok", 10)
			for _, h := range []string{"auth.ready", "as.post.ready", "order.ready"} {
				c.Require("delay.fired."+h+">register", 1)
				c.Require("delay.fired.register.ready>"+h, 1)
			}
		},
	})
}

// ---------------------------------------------------------------- plan

var delaySites = []string{"auth.ready", "as.post.ready", "order.ready"}

func planBase(tier string, seed int64) []run.Batch {
	seqChildren, seqPer := 6, 5
	concChildren, concPer := 8, 5
	delayRounds := 1
	archChildren, archPer := 6, 20
	if tier == "thorough" {
		archChildren = 60
		seqChildren, seqPer = 80, 5
		concChildren, concPer = 400, 5
		delayRounds = 5
	}
	var bs []run.Batch
	n := int64(0)
	next := func() int64 { n++; return seed*1000003 + n*7919 }
	// delay cells first: they are short and the race binary is built once for all
	for rd := 0; rd < delayRounds; rd++ {
		for _, site := range delaySites {
			for _, dir := range []string{"into-handler", "into-register"} {
				bs = append(bs, run.Batch{Kind: "delay", Seed: next(), N: 1, Variant: "race", TimeoutS: 90,
					Params: map[string]string{"site": site, "dir": dir}})
			}
		}
	}
	for i := 0; i < concChildren; i++ {
		bs = append(bs, run.Batch{Kind: "conc", Seed: next(), N: concPer, Variant: "race", TimeoutS: 240})
	}
	for i := 0; i < seqChildren; i++ {
		bs = append(bs, run.Batch{Kind: "seq", Seed: next(), N: seqPer, TimeoutS: 240})
	}
	// archive downloads racing the registration; half of the children in the race build
	// (slower critical sections), half plain (real timing)
	for i := 0; i < archChildren; i++ {
		v := ""
		if i%2 == 0 {
			v = "race"
		}
		bs = append(bs, run.Batch{Kind: "arch", Seed: next(), N: archPer, Variant: v, TimeoutS: 240})
	}
	return bs
}

// ---------------------------------------------------------------- model

const (
	outFail    = 0
	outOK      = 1
	outUnknown = 2
)

var outName = []string{"refused", "200", "unknown"}

// call is one request together with what the reference knows about it.
type call struct {
	Kind     string // register | auth | server | migrate
	Label    string // who/mode, stable class name
	Path     string
	Body     []byte
	Key      [32]byte // register: the key submitted in the body
	Signer   [32]byte // key whose valid signature the body carries (if Signed)
	Signed   bool     // body is well-formed and carries a valid signature of Signer over the reference signing bytes
	ValidReg bool     // register: well-formed, signed by the temporary key over exactly the submitted key
	Faulted  bool     // register: issued while gcaPubKey.dat cannot be written; a refusal is then legal
	Auth     refenc.Auth
}

func keyState(k [32]byte) string { return hex.EncodeToString(k[:]) }

// step is the sequential specification. state "" = unset, otherwise the hex
// of the registered key. It returns every possible next state; none = the
// (input, output) pair is impossible in this state.
func step(state string, c *call, out int) []string {
	if c.Kind == "read" {
		// observation of the server's key state: Signed = a key is registered, Key = that key
		if (state == "" && !c.Signed && c.Key == [32]byte{}) || (state != "" && c.Signed && state == keyState(c.Key)) {
			return []string{state}
		}
		return nil
	}
	if c.Kind == "register" {
		if c.ValidReg && state == "" {
			switch out {
			case outOK:
				return []string{keyState(c.Key)}
			case outFail:
				if c.Faulted {
					return []string{state} // the key could not be persisted: refusing is the only honest answer
				}
				return nil
			default: // may or may not have been executed
				return []string{state, keyState(c.Key)}
			}
		}
		if out == outOK {
			return nil
		}
		return []string{state}
	}
	honoured := c.Signed && state != "" && state == keyState(c.Signer)
	switch out {
	case outOK:
		if !honoured {
			return nil
		}
	case outFail:
		if honoured {
			return nil
		}
	}
	return []string{state}
}

// partition splits a history into sub-histories that are each linearizable if
// the whole is, and together exactly as strong.
//
// Soundness (no false "illegal"): every sub-history is obtained by REMOVING
// calls that cannot change the state (the only state change of the model is a
// valid registration answered 200/unknown, and those are kept everywhere);
// dropping such calls from a linearization leaves a linearization.
//
// Strength: the state can only ever become the key of a valid registration
// that was answered 200/unknown ("possible winners"). A refused call that no
// reachable state honours (invalid registration, order signed by nobody or by
// a key that is no possible winner) is legal at every point and constrains
// nothing, so it is dropped; answered 200 it stays and makes every part
// illegal. What remains constrains one instant t* (the winner's linearization
// point) from below (refused orders of the winner: called before t*) and from
// above (accepted orders of the winner, refused valid registrations: returned
// after t*). Bounds on one instant are jointly satisfiable iff they are
// pairwise, so it suffices that every upper bound meets all lower bounds in
// one part: part i = possible winners + all answered orders of possible
// winners + all observations of the key state + the i-th refused valid
// registration. Calls whose exchange failed constrain nothing (any outcome is
// allowed) and only a registration among them can change the state. Without this the k-1 refused registrations
// that are pending at the same time commute and the search visits 2^(k-1)
// subsets whenever it has to backtrack.
func partition(h []porcupine.Operation) [][]porcupine.Operation {
	answered := false // a valid registration was answered 200
	for _, o := range h {
		if c := o.Input.(*call); c.ValidReg && o.Output.(int) == outOK {
			answered = true
		}
	}
	// possible winners: valid registrations answered 200; if there is none,
	// those whose exchange failed (may have been executed). Once one was
	// answered 200 no other registration can have had an effect in any legal
	// order (it would have made the 200 impossible), so the failed exchanges
	// are calls without effect and are dropped like the other unconstrained ones.
	reach := map[string]bool{}
	for _, o := range h {
		c, out := o.Input.(*call), o.Output.(int)
		if c.ValidReg && (out == outOK || (out == outUnknown && !answered)) {
			reach[keyState(c.Key)] = true
		}
	}
	var core, refused []porcupine.Operation
	for _, o := range h {
		c, out := o.Input.(*call), o.Output.(int)
		switch {
		case c.Kind == "read":
			core = append(core, o)
		case c.ValidReg && out == outFail && c.Faulted:
			// legal in every state, no effect
		case c.ValidReg && out == outFail:
			refused = append(refused, o)
		case c.ValidReg && out == outUnknown:
			if !answered {
				core = append(core, o)
			}
		case out == outOK:
			core = append(core, o)
		case out == outFail && c.Kind != "register" && c.Signed && reach[keyState(c.Signer)]:
			core = append(core, o)
		}
	}
	if len(refused) == 0 {
		return [][]porcupine.Operation{core}
	}
	parts := make([][]porcupine.Operation, 0, len(refused))
	for _, o := range refused {
		parts = append(parts, append(append([]porcupine.Operation(nil), core...), o))
	}
	return parts
}

var model = (&porcupine.NondeterministicModel{
	Partition: partition,
	Init:      func() []interface{} { return []interface{}{""} },
	Step: func(st interface{}, in interface{}, out interface{}) []interface{} {
		var res []interface{}
		for _, s := range step(st.(string), in.(*call), out.(int)) {
			res = append(res, s)
		}
		return res
	},
	Equal: func(a, b interface{}) bool { return a.(string) == b.(string) },
	DescribeOperation: func(in interface{}, out interface{}) string {
		c := in.(*call)
		if c.Kind == "read" {
			return fmt.Sprintf("read -> %x registered=%v", c.Key[:6], c.Signed)
		}
		return fmt.Sprintf("%s[%s] -> %s", c.Kind, c.Label, outName[out.(int)])
	},
}).ToModel()

// violationKey names the class of an impossible (state, call, output).
func violationKey(state string, c *call, out int) string {
	if c.Kind == "register" {
		switch {
		case out == outOK && state != "":
			return "second-registration-accepted:" + c.Label
		case out == outOK:
			return "invalid-registration-accepted:" + c.Label
		default:
			return "valid-registration-refused"
		}
	}
	switch {
	case out == outOK && state == "":
		return c.Kind + "-honoured-before-registration:" + c.Label
	case out == outOK:
		return c.Kind + "-honoured-for-wrong-signer:" + c.Label
	default:
		return c.Kind + "-signed-by-registered-gca-refused"
	}
}

// ---------------------------------------------------------------- generator

type gen struct {
	rng    *rand.Rand
	temp   refenc.Key
	srvKey refenc.Key
	sink   uint16
	nextID uint32
}

func (g *gen) bytes(n int) []byte {
	b := make([]byte, n)
	g.rng.Read(b)
	return b
}

// register builds a registration of key signed by signer. mode: valid (signature
// as is), altered (key changed after signing), zero, random.
func (g *gen) register(key [32]byte, signer refenc.Key, who, mode string) *call {
	if signer.Priv == [32]byte{} && (mode == "valid" || mode == "altered" || mode == "prefix") {
		// nobody holds a private key for this public key (the all-zero key)
		who, mode = who+"-unsignable", "zero"
	}
	reg := refenc.Registration{GCAKey: key}
	c := &call{Kind: "register", Label: who + "/" + mode, Path: "/api/v1/register-gca"}
	switch mode {
	case "valid":
		reg.Sig = refenc.Sign(signer.Priv, reg.SigningBytes())
		c.Signed, c.Signer = true, signer.Pub
	case "altered":
		reg.Sig = refenc.Sign(signer.Priv, reg.SigningBytes())
		reg.GCAKey[g.rng.Intn(32)] ^= 1 << uint(g.rng.Intn(8))
	case "prefix": // signature of the signer over the bare key (no domain prefix)
		reg.Sig = refenc.Sign(signer.Priv, reg.GCAKey[:])
	case "zero":
	case "random":
		copy(reg.Sig[:], g.bytes(64))
	}
	c.Key = reg.GCAKey
	c.Body = reg.JSON()
	c.ValidReg = c.Signed && c.Signer == g.temp.Pub
	return c
}

// garbage builds a registration body that is not a well-formed request.
func (g *gen) garbage(key [32]byte) *call {
	good := g.register(key, g.temp, "temp", "valid").Body
	var body []byte
	var name string
	switch g.rng.Intn(5) {
	case 0:
		body, name = g.bytes(1+g.rng.Intn(150)), "bytes"
	case 1:
		body, name = good[:1+g.rng.Intn(len(good)-1)], "truncated"
	case 2:
		body, name = []byte(`{}`), "empty-object"
	case 3:
		body, name = []byte(`{"GCAKey":"`+hex.EncodeToString(key[:])+`","Signature":"00"}`), "strings"
	default:
		body, name = []byte(`[`+string(good)+`]`), "array"
	}
	return &call{Kind: "register", Label: "garbage/" + name, Path: "/api/v1/register-gca", Body: body, Key: key}
}

// order builds an equipment authorization, an authorized-server record or a
// migration order. signer nil = nobody (mode must be zero or random).
func (g *gen) order(kind string, signer *refenc.Key, who, mode string) *call {
	c := &call{Kind: kind, Label: who + "/" + mode}
	var zero refenc.Key
	sk := zero
	if signer != nil {
		sk = *signer
	}
	fix := func(sig *[64]byte) {
		switch mode {
		case "zero":
			*sig = [64]byte{}
		case "random":
			copy(sig[:], g.bytes(64))
		}
	}
	signedModes := mode == "valid" || mode == "altered"
	if signedModes && signer == nil {
		panic("order: signed mode without signer")
	}
	if signedModes && sk.Priv == [32]byte{} {
		// nobody holds a private key for this public key (the all-zero key)
		who, mode, signedModes = who+"-unsignable", "zero", false
		c.Label = who + "/" + mode
	}
	switch kind {
	case "auth":
		g.nextID++
		a := refenc.Auth{ID: g.nextID, Pub: refenc.GenKey(g.rng).Pub, Lat: float64(g.rng.Intn(120) - 60), Long: float64(g.rng.Intn(300) - 150),
			Capacity: 1000 + uint64(g.rng.Intn(100000)), Debt: uint64(g.rng.Intn(1000)), Expiration: 100000 + uint32(g.rng.Intn(1000)),
			Initialization: uint32(g.rng.Intn(100)), Fee: uint64(g.rng.Intn(100000))}
		if signedModes {
			a = a.Signed(sk.Priv)
		}
		if mode == "altered" {
			a.Capacity++
		}
		fix(&a.Sig)
		c.Path, c.Body, c.Auth = "/api/v1/authorize-equipment", a.JSON(), a
	case "server":
		s := refenc.AuthServer{Pub: refenc.GenKey(g.rng).Pub, Banned: g.rng.Intn(4) == 0, Location: "127.0.0.1", HTTP: g.sink,
			TCP: uint16(1 + g.rng.Intn(60000)), UDP: uint16(1 + g.rng.Intn(60000))}
		if signedModes {
			s = s.Signed(sk.Priv)
		}
		if mode == "altered" {
			s.TCP++
		}
		fix(&s.Sig)
		c.Path, c.Body = "/api/v1/authorized-servers", s.JSON()
	case "migrate":
		ng := refenc.GenKey(g.rng)
		m := refenc.Migration{Equipment: refenc.GenKey(g.rng).Pub, NewGCA: ng.Pub, NewID: uint32(g.rng.Intn(1 << 20))}
		for i := g.rng.Intn(3); i > 0; i-- {
			m.Servers = append(m.Servers, refenc.AuthServer{Pub: refenc.GenKey(g.rng).Pub, Location: "127.0.0.1", HTTP: g.sink, TCP: 2, UDP: 3}.Signed(ng.Priv))
		}
		if signedModes {
			m = m.Signed(sk.Priv)
		}
		if mode == "altered" {
			m.NewID++
		}
		fix(&m.Sig)
		c.Path, c.Body = "/api/v1/equipment-migrate", m.JSON()
	default:
		panic("unknown kind " + kind)
	}
	if mode == "valid" {
		c.Signed, c.Signer = true, sk.Pub
	}
	return c
}

var orderKinds = []string{"auth", "server", "migrate"}

func (g *gen) kind() string { return orderKinds[g.rng.Intn(3)] }

// ---------------------------------------------------------------- execution context

type rec struct {
	Client int
	C      *call
	Call   int64
	Out    int
	Ret    int64
	Status int
}

type ctx struct {
	restarts int
	b     run.Batch
	r     *ev.Result
	srv   *drv.Srv
	g     *gen
	name  string // history name for replays
	start time.Time
	mu    sync.Mutex
	hist  []rec
	// states lists the model states that are possible at this point of a
	// sequentially judged part ("" = unset). It has one element unless a call's
	// HTTP exchange failed (outcome unknown); inspect narrows it again.
	states []string
	reader int // client id under which observations of the key state are recorded
	// residue: a registration attempt was cut short inside the key file write; until a
	// registration is accepted the file may hold what that attempt left behind
	residue bool
	bad     bool // a violation was raised in this history
}

// do issues the call and records it at the client boundary.
func (x *ctx) do(client int, c *call) rec {
	t0 := time.Since(x.start).Nanoseconds()
	st, err := post(x.srv.HTTP, c.Path, c.Body)
	t1 := time.Since(x.start).Nanoseconds()
	out := outFail
	if err != nil {
		out = outUnknown
		x.r.Note("[%s] exchange failed: %s %s: %v (after %d ms)", x.name, c.Kind, c.Label, err, (t1-t0)/1e6)
	} else if st == 200 {
		out = outOK
	}
	rc := rec{Client: client, C: c, Call: t0, Out: out, Ret: t1, Status: st}
	x.mu.Lock()
	x.hist = append(x.hist, rc)
	x.mu.Unlock()
	return rc
}

// The server closes idle connections after 2.5 s (test constants); a POST
// written to a connection at that instant fails at the client without telling
// whether it was executed. The client therefore gives idle connections up
// after 1 s.
var client = &http.Client{Timeout: 20 * time.Second, Transport: &http.Transport{MaxIdleConnsPerHost: 128, IdleConnTimeout: time.Second}}

func post(port uint16, path string, body []byte) (int, error) {
	resp, err := client.Post(fmt.Sprintf("http://127.0.0.1:%d%s", port, path), "application/json", bytes.NewReader(body))
	if err != nil {
		return 0, err
	}
	defer resp.Body.Close()
	if _, err := io.Copy(io.Discard, resp.Body); err != nil {
		return 0, err
	}
	return resp.StatusCode, nil
}

type recJSON struct {
	Client int    `json:"client"`
	Op     string `json:"op"`
	Class  string `json:"class"`
	Key    string `json:"key,omitempty"`
	Signer string `json:"signer,omitempty"`
	Call   int64  `json:"call_ns"`
	Ret    int64  `json:"return_ns"`
	Result string `json:"result"`
	Body   string `json:"body,omitempty"`
}

func (x *ctx) dump(withBodies bool) []recJSON {
	x.mu.Lock()
	defer x.mu.Unlock()
	h := append([]rec(nil), x.hist...)
	sort.Slice(h, func(i, j int) bool { return h[i].Call < h[j].Call })
	var out []recJSON
	for _, rc := range h {
		j := recJSON{Client: rc.Client, Op: rc.C.Kind, Class: rc.C.Label, Call: rc.Call, Ret: rc.Ret, Result: outName[rc.Out]}
		if rc.C.Kind == "register" || rc.C.Kind == "read" {
			j.Key = hex.EncodeToString(rc.C.Key[:6])
		}
		if rc.C.Signed && rc.C.Kind != "read" {
			j.Signer = hex.EncodeToString(rc.C.Signer[:6])
		}
		if withBodies && rc.C.Kind == "register" {
			j.Body = string(rc.C.Body)
		}
		out = append(out, j)
	}
	return out
}

func (x *ctx) head(n int) []recJSON {
	d := x.dump(false)
	if len(d) > n {
		d = d[:n]
	}
	return d
}

func (x *ctx) replay(extra map[string]interface{}) map[string]interface{} {
	m := map[string]interface{}{"batch": x.b, "history_name": x.name, "temp_key": hex.EncodeToString(x.g.temp.Pub[:6]), "history": x.dump(len(x.hist) <= 60)}
	for k, v := range extra {
		m[k] = v
	}
	return m
}

func (x *ctx) violation(key string, extra map[string]interface{}, format string, a ...interface{}) {
	x.bad = true
	x.r.Violationf(key, x.replay(extra), "["+x.name+"] "+format, a...)
}

// judge issues one call in a sequential part and compares the answer with the
// model. It returns false when the history must stop.
func (x *ctx) judge(client int, c *call) bool {
	run.Op("%s %s %s state=%.12s", x.name, c.Kind, c.Label, x.states[0])
	rc := x.do(client, c)
	if rc.Out == outUnknown {
		// not executed, or executed without the answer reaching the client
		x.r.Count("sequential_calls_with_unknown_outcome", 1)
	}
	var next []string
	for _, st := range x.states {
		for _, n := range step(st, c, rc.Out) {
			dup := false
			for _, m := range next {
				dup = dup || m == n
			}
			if !dup {
				next = append(next, n)
			}
		}
	}
	x.r.Count("calls."+c.Kind+"."+outName[rc.Out], 1)
	if len(next) == 0 {
		x.violation(violationKey(x.states[0], c, rc.Out), map[string]interface{}{"call": c.Kind + " " + c.Label, "status": rc.Status, "model_states": x.states, "body": string(c.Body)},
			"%s %s answered %s (HTTP %d) in model state %s", c.Kind, c.Label, outName[rc.Out], rc.Status, x.describe())
		return false
	}
	x.states = next
	return true
}

func (x *ctx) describe() string {
	var l []string
	for _, st := range x.states {
		l = append(l, short(st))
	}
	return strings.Join(l, " or ")
}

func short(s string) string {
	if s == "" {
		return "unset"
	}
	if len(s) > 12 {
		return s[:12]
	}
	return s
}

// inspect compares the server's key state, gcaPubKey.dat and the public lists
// with the model state.
func (x *ctx) inspect(where string) {
	t0 := time.Since(x.start).Nanoseconds()
	snap := x.srv.S.VerifSnapshot(false)
	t1 := time.Since(x.start).Nanoseconds()
	// the observation is part of the history (taken under the server's own lock)
	x.mu.Lock()
	x.hist = append(x.hist, rec{Client: x.reader, C: &call{Kind: "read", Label: where, Key: snap.GCAKey, Signed: snap.GCAAvailable}, Call: t0, Out: outOK, Ret: t1})
	x.mu.Unlock()
	extra := map[string]interface{}{"where": where, "model_states": x.states}
	// which of the possible model states does the server show?
	match := -1
	for i, st := range x.states {
		if st == "" && !snap.GCAAvailable && snap.GCAKey == [32]byte{} {
			match = i
		}
		if st != "" && snap.GCAAvailable && keyState(snap.GCAKey) == st {
			match = i
		}
	}
	if match < 0 {
		x.violation("server-key-differs-from-model", extra, "%s: server holds key %x (available=%v), the history determines %s", where, snap.GCAKey[:6], snap.GCAAvailable, x.describe())
		return
	}
	x.states = []string{x.states[match]}
	state := x.states[0]
	var want [32]byte
	set := state != ""
	if set {
		b, _ := hex.DecodeString(state)
		copy(want[:], b)
	}
	if [32]byte(snap.TempKey) != x.g.temp.Pub {
		x.violation("temporary-key-changed", extra, "%s: the temporary key in memory is %x, installed was %x", where, snap.TempKey[:6], x.g.temp.Pub[:6])
	}
	file, err := os.ReadFile(filepath.Join(x.srv.Dir, "gcaPubKey.dat"))
	switch {
	case !set && x.residue:
		x.r.Count(fmt.Sprintf("obs.key_file_bytes_left_by_cut_write.%d", len(file)), 1)
	case !set && err == nil && len(file) != 0:
		x.violation("key-file-written-without-registration", extra, "%s: gcaPubKey.dat holds %d bytes although no registration was accepted", where, len(file))
	case set && (err != nil || !bytes.Equal(file, want[:])):
		x.violation("key-file-differs-from-winner", extra, "%s: gcaPubKey.dat is %x (err %v), the accepted registration carried %x", where, file, err, want[:])
	}
	// Everything the server lists must carry the registered key's signature.
	verify := func(msg []byte, sig [64]byte) bool { return set && refenc.Verify(want, msg, sig) }
	for id, a := range snap.Equipment {
		ra := drv.RefAuth(a)
		if !verify(ra.SigningBytes(), ra.Sig) {
			x.violation("listed-equipment-not-signed-by-registered-gca", extra, "%s: equipment %d in server state is not signed by %s", where, id, short(state))
		}
	}
	st, eq, err := x.srv.Equipment()
	for try := 0; try < 3 && (err != nil || st != 200); try++ {
		st, eq, err = x.srv.Equipment()
	}
	if err != nil || st != 200 {
		x.r.Count("inspect_get_failed", 1) // the same list was checked in the snapshot above
	} else {
		for id, a := range eq {
			if !verify(a.SigningBytes(), a.Sig) {
				x.violation("listed-equipment-not-signed-by-registered-gca", extra, "%s: GET equipment lists device %d which is not signed by %s", where, id, short(state))
			}
		}
		if !set {
			x.r.Count("unregistered_equipment_lists_empty", 1)
		}
	}
	publishForgedOffer(snap.Servers, x.g.rng)
	for _, s := range snap.Servers {
		rs := refenc.AuthServer{Pub: s.PublicKey, Banned: s.Banned, Location: s.Location, HTTP: s.HttpPort, TCP: s.TcpPort, UDP: s.UdpPort, Sig: s.GCAAuthorization}
		if !verify(rs.SigningBytes(), rs.Sig) {
			x.violation("listed-server-not-signed-by-registered-gca", extra, "%s: authorized server %x in server state is not signed by %s", where, s.PublicKey[:6], short(state))
		}
	}
	st, as, err := x.srv.AuthorizedServers()
	for try := 0; try < 3 && (err != nil || st != 200); try++ {
		st, as, err = x.srv.AuthorizedServers()
	}
	if err != nil || st != 200 {
		x.r.Count("inspect_get_failed", 1)
	} else {
		for _, s := range as {
			if !verify(s.SigningBytes(), s.Sig) {
				x.violation("listed-server-not-signed-by-registered-gca", extra, "%s: GET authorized-servers lists %x which is not signed by %s", where, s.Pub[:6], short(state))
			}
		}
	}
	for k, m := range snap.Migrations {
		rm := refenc.Migration{Equipment: m.Equipment, NewGCA: m.NewGCA, NewID: m.NewShortID, Sig: m.Signature}
		for _, s := range m.NewServers {
			rm.Servers = append(rm.Servers, refenc.AuthServer{Pub: s.PublicKey, Banned: s.Banned, Location: s.Location, HTTP: s.HttpPort, TCP: s.TcpPort, UDP: s.UdpPort, Sig: s.GCAAuthorization})
		}
		if !verify(rm.SigningBytes(), rm.Sig) {
			x.violation("stored-migration-not-signed-by-registered-gca", extra, "%s: migration order for %x in server state is not signed by %s", where, k[:6], short(state))
		}
	}
	x.r.Count("inspections", 1)
}

// restart closes and restarts the server. A shutdown that does not finish
// within the server's own 5 s limit (loaded machine) ends the history; it says
// nothing about the property.
func (x *ctx) restart() bool {
	run.Op("%s restart", x.name)
	client.CloseIdleConnections()
	// permission bits are not part of what was registered: every other restart finds the key file
	// group- and world-writable (a restored backup, a different umask)
	if x.restarts++; x.restarts%2 == 1 {
		if os.Chmod(filepath.Join(x.srv.Dir, "gcaPubKey.dat"), 0666) == nil {
			x.r.Count("restarts_with_loose_key_file_mode", 1)
		}
	}
	if err := x.srv.Restart(); err != nil {
		x.srv.S = nil
		if strings.HasPrefix(err.Error(), "close:") {
			x.r.Count("history_ended_by_slow_shutdown", 1)
			x.r.Note("[%s] %v", x.name, err)
			return false
		}
		x.violation("server-does-not-start-after-restart", map[string]interface{}{"error": err.Error()}, "server did not come back after a restart: %v", err)
		return false
	}
	return true
}

// linearizable checks the recorded history with porcupine.
func (x *ctx) linearizable(timeout time.Duration) {
	x.mu.Lock()
	h := append([]rec(nil), x.hist...)
	x.mu.Unlock()
	var end int64
	for _, rc := range h {
		if rc.Ret > end {
			end = rc.Ret
		}
	}
	ops := make([]porcupine.Operation, 0, len(h))
	for _, rc := range h {
		ret := rc.Ret
		if rc.Out == outUnknown {
			ret = end + 1 // stays open to the end of the history
			x.r.Count("calls_left_open", 1)
		}
		ops = append(ops, porcupine.Operation{ClientId: rc.Client, Input: rc.C, Call: rc.Call, Output: rc.Out, Return: ret})
	}
	res, _ := porcupine.CheckOperationsVerbose(model, ops, timeout)
	x.r.Max("max.history_len", int64(len(ops)))
	switch res {
	case porcupine.Ok:
		x.r.Count("lin.ok", 1)
	case porcupine.Illegal:
		x.r.Count("lin.illegal", 1)
		x.violation("non-linearizable-history", nil, "the recorded history of %d calls has no linearization in the model state ∈ {unset, K}", len(ops))
	default:
		x.r.Count("lin.unknown", 1)
		x.r.Inconc(fmt.Sprintf("[%s] porcupine did not finish within %v on %d calls", x.name, timeout, len(ops)))
	}
}

// ---------------------------------------------------------------- sink for the server's fan-out

var sinkHits, sinkGets atomic.Int64
var sinkOffer atomic.Value

func publishForgedOffer(list []server.AuthorizedServer, rng *rand.Rand) {
	var forged []server.AuthorizedServer
	for _, s := range list {
		s.Banned = true // keeps the signature made for the un-banned record (or the ban's own, which changes nothing)
		forged = append(forged, s)
	}
	var nk [32]byte
	rng.Read(nk[:])
	forged = append(forged, server.AuthorizedServer{PublicKey: nk, Location: "127.0.0.1", HttpPort: 1, TcpPort: 2, UdpPort: 3})
	if b, err := json.Marshal(map[string]interface{}{"AuthorizedServers": forged}); err == nil {
		sinkOffer.Store(b)
	}
}

func startSink() (uint16, func(), error) {
	l, err := net.Listen("tcp", "127.0.0.1:0")
	if err != nil {
		return 0, nil, err
	}
	hs := &http.Server{Handler: http.HandlerFunc(func(w http.ResponseWriter, r *http.Request) {
		io.Copy(io.Discard, r.Body)
		sinkHits.Add(1)
		if r.Method == http.MethodGet {
			// a peer that is asked for anything answers with a forged list of authorized servers: the records the
			// server under test holds, each turned into a ban without a new signature, plus an unsigned newcomer
			// (the unchanged server never asks its peers; one that does must verify what it is told)
			sinkGets.Add(1)
			if b, ok := sinkOffer.Load().([]byte); ok {
				w.Header().Set("Content-Type", "application/json")
				w.Write(b)
				return
			}
		}
		w.WriteHeader(200)
	})}
	go hs.Serve(l)
	return uint16(l.Addr().(*net.TCPAddr).Port), func() { hs.Close() }, nil
}

// ---------------------------------------------------------------- child

func childBase(b run.Batch, r *ev.Result) {
	drv.SetClock(0)
	sink, stop, err := startSink()
	if err != nil {
		r.Inconc("cannot start sink: " + err.Error())
		return
	}
	defer stop()
	switch b.Kind {
	case "seq":
		for i := 0; i < b.N && r.NumViolations() < 5; i++ {
			seqHistory(b, r, sink, i)
		}
		for i := 0; i < 2 && r.NumViolations() < 5; i++ {
			transientFault(b, r, sink, i)
		}
		for i := 0; i < 2 && r.NumViolations() < 5; i++ {
			lostKeyFile(b, r, sink, i)
		}
		for i := 0; i < 2 && r.NumViolations() < 5; i++ {
			slowBody(b, r, sink, i)
		}
	case "conc":
		for i := 0; i < b.N && r.NumViolations() < 5; i++ {
			concBatch(b, r, sink, i)
		}
	case "arch":
		for i := 0; i < b.N && r.NumViolations() < 5; i++ {
			archiveRace(b, r, sink, i)
		}
	case "delay":
		drv.GateRotation(true)
		drv.GateImpact(true)
		delayCell(b, r, sink)
	}
	r.Count("sink_requests", sinkHits.Load())
	r.Count("sink_get_requests_answered_with_a_forged_list", sinkGets.Load())
}

func newCtx(b run.Batch, r *ev.Result, sink uint16, name string, seed int64) (*ctx, error) {
	rng := rand.New(rand.NewSource(seed))
	dir := filepath.Join(b.Dir, name)
	srv, err := drv.NewServerDir(dir, rng, true)
	if err != nil {
		return nil, err
	}
	x := &ctx{b: b, r: r, srv: srv, name: name, start: time.Now(), states: []string{""},
		g: &gen{rng: rng, temp: srv.Temp, srvKey: srv.Key, sink: sink}}
	return x, nil
}

func (x *ctx) close() {
	client.CloseIdleConnections()
	if x.srv.S != nil {
		run.Op("%s close", x.name)
		x.srv.Close()
	}
	os.RemoveAll(x.srv.Dir)
}

// ---------------------------------------------------------------- (a) sequential histories

var failModes = []string{"zero", "random", "altered"}

func (x *ctx) invalidRegistration(cands []refenc.Key, winner *refenc.Key) *call {
	g := x.g
	k := cands[g.rng.Intn(len(cands))]
	switch g.rng.Intn(9) {
	case 0:
		return g.register(k.Pub, k, "self", "valid")
	case 1:
		return g.register(k.Pub, g.srvKey, "server-key", "valid")
	case 2:
		return g.register(k.Pub, refenc.GenKey(g.rng), "random-key", "valid")
	case 3:
		return g.register(k.Pub, g.temp, "temp", "altered")
	case 4:
		return g.register(k.Pub, g.temp, "temp", "zero")
	case 5:
		return g.register(k.Pub, g.temp, "temp", "random")
	case 6:
		return g.register(k.Pub, g.temp, "temp", "prefix")
	case 7:
		if winner != nil {
			return g.register(k.Pub, *winner, "registered-gca", "valid")
		}
		o := cands[g.rng.Intn(len(cands))]
		if o.Pub == k.Pub {
			return g.register(k.Pub, k, "self", "valid")
		}
		return g.register(k.Pub, o, "other-candidate", "valid")
	default:
		return g.garbage(k.Pub)
	}
}

// foreignOrder is an order that no state of this history honours, or (with
// winner set and signer == winner) the positive control.
func (x *ctx) foreignOrder(cands []refenc.Key) *call {
	g := x.g
	kind := g.kind()
	switch g.rng.Intn(6) {
	case 0:
		return g.order(kind, &g.temp, "temp", "valid")
	case 1:
		return g.order(kind, &cands[g.rng.Intn(len(cands))], "candidate", "valid")
	case 2:
		return g.order(kind, nil, "nobody", "zero")
	case 3:
		return g.order(kind, nil, "nobody", "random")
	case 4:
		return g.order(kind, &g.srvKey, "server-key", "valid")
	default:
		return g.order(kind, &g.temp, "temp", failModes[g.rng.Intn(3)])
	}
}

var ignoreXFSZ sync.Once

func seqHistory(b run.Batch, r *ev.Result, sink uint16, idx int) {
	x, err := newCtx(b, r, sink, fmt.Sprintf("seq%d", idx), b.Seed+int64(idx)*104729)
	if err != nil {
		r.Inconc("cannot prepare server directory: " + err.Error())
		return
	}
	defer x.close()
	g := x.g
	residue := g.rng.Intn(4) == 0
	if residue {
		// residue of a crash between truncate and write of a registration that never completed
		os.WriteFile(filepath.Join(x.srv.Dir, "gcaPubKey.dat"), nil, 0644)
		r.Count("seq.started_with_empty_key_file", 1)
	}
	if err := x.srv.Start(); err != nil {
		if residue {
			x.violation("start-failed-with-empty-key-file", map[string]interface{}{"error": err.Error()}, "server does not start with an empty gcaPubKey.dat: %v", err)
		} else {
			r.Inconc("server start: " + err.Error())
		}
		return
	}
	r.Eval(1)
	r.Count("seq.histories", 1)
	cands := make([]refenc.Key, 3+g.rng.Intn(3))
	for i := range cands {
		cands[i] = refenc.GenKey(g.rng)
	}
	winner := cands[0]
	zeroWinner := idx%5 == 1
	failedPersist := idx%5 == 2 || idx%5 == 4
	if zeroWinner {
		// the all-zero key is a legitimate 32-byte GCA key; nobody can sign for it
		winner = refenc.Key{}
		r.Count("seq.winner_is_zero_key", 1)
	} else if g.rng.Intn(12) == 0 {
		winner = g.temp // the temporary key holder registers its own key: legal, that key is then the GCA
		r.Count("seq.winner_is_temp_key", 1)
	}
	x.inspect("fresh")

	// phase 0: nothing may be honoured on an unregistered server
	n0 := 5 + g.rng.Intn(8)
	for i := 0; i < n0; i++ {
		var c *call
		if g.rng.Intn(3) == 0 {
			c = x.invalidRegistration(cands, nil)
		} else {
			pool := cands
			if !zeroWinner {
				pool = append(cands[:len(cands):len(cands)], winner)
			}
			c = x.foreignOrder(pool)
			r.Count("seq.prereg_orders_refused", 1) // judged below; a 200 is a violation
		}
		if !x.judge(0, c) {
			return
		}
		x.inspect("before registration, after " + c.Kind + " " + c.Label)
		if x.bad {
			return
		}
		if g.rng.Intn(8) == 0 {
			if !x.restart() {
				return
			}
			r.Count("seq.restarts", 1)
			x.inspect("before registration, after restart")
		}
	}
	// all-zero probes: the unregistered server's key is all zeros
	for _, kind := range orderKinds {
		if !x.judge(0, g.order(kind, nil, "nobody", "zero")) {
			return
		}
		r.Count("seq.prereg_orders_refused", 1)
	}
	var zeroKey refenc.Key
	if !x.judge(0, g.register(zeroKey.Pub, g.temp, "temp", "zero")) {
		return
	}
	x.inspect("before registration, after zero probes")
	if x.bad {
		return
	}

	// a valid registration that fails at the write of gcaPubKey.dat must leave no authority behind
	var regs []*call
	partialWrite := idx%5 == 4
	if failedPersist {
		path := filepath.Join(x.srv.Dir, "gcaPubKey.dat")
		failed := cands[len(cands)-1]
		fc := g.register(failed.Pub, g.temp, "temp", "valid")
		fc.Faulted = true
		var ok bool
		if partialWrite {
			// the write of the key file is cut short after k bytes: RLIMIT_FSIZE = k for this one
			// request (process wide; SIGXFSZ ignored, so the write returns a short count, then EFBIG)
			ignoreXFSZ.Do(func() { signal.Ignore(syscall.SIGXFSZ) })
			k := 1 + g.rng.Intn(31)
			fc.Label = "temp/valid-key-file-write-cut"
			var old syscall.Rlimit
			if err := syscall.Getrlimit(syscall.RLIMIT_FSIZE, &old); err != nil {
				r.Inconc("getrlimit: " + err.Error())
				return
			}
			run.Op("%s RLIMIT_FSIZE=%d for the next registration", x.name, k)
			if err := syscall.Setrlimit(syscall.RLIMIT_FSIZE, &syscall.Rlimit{Cur: uint64(k), Max: old.Max}); err != nil {
				r.Inconc("setrlimit: " + err.Error())
				return
			}
			ok = x.judge(0, fc)
			syscall.Setrlimit(syscall.RLIMIT_FSIZE, &old)
			x.residue = true
			r.Count("seq.cut_write_registrations", 1)
		} else {
			run.Op("%s gcaPubKey.dat becomes unwritable (a directory takes its place)", x.name)
			os.Remove(path)
			if err := os.Mkdir(path, 0755); err != nil {
				r.Inconc("cannot inject the write fault: " + err.Error())
				return
			}
			fc.Label = "temp/valid-key-file-unwritable"
			ok = x.judge(0, fc)
			os.Remove(path)
		}
		if !ok {
			return
		}
		if x.states[0] == "" {
			r.Count("seq.failed_persist_registration_refused", 1)
		} else {
			r.Count("seq.failed_persist_registration_accepted", 1)
			x.residue = false
		}
		regs = append(regs, fc)
		for round := 0; round < 2; round++ {
			for _, kind := range orderKinds {
				if !x.judge(0, g.order(kind, &failed, "failed-candidate", "valid")) {
					return
				}
				if x.states[0] == "" {
					r.Count("seq.prereg_orders_refused", 1)
				}
			}
			x.inspect("after a registration whose key file could not be written")
			if x.bad {
				return
			}
			if round == 0 {
				// (no restart on top of a cut key file: what a server does with such a file at start-up is C05's subject)
				if partialWrite || g.rng.Intn(2) == 0 {
					break
				}
				if !x.restart() {
					return
				}
				r.Count("seq.restarts", 1)
				x.inspect("after a registration whose key file could not be written, after restart")
			}
		}
	}

	// phase 1: the registration
	valid := g.register(winner.Pub, g.temp, "temp", "valid")
	if !x.judge(0, valid) {
		return
	}
	r.Count("seq.registration_accepted", 1)
	if len(x.states) == 1 && x.states[0] != "" {
		x.residue = false // from here on the file must hold exactly the accepted key
	}
	x.inspect("after registration")
	if x.bad {
		return
	}

	// phase 2: nothing replaces the key; only the winner's signatures count
	losers := cands[1:]
	regs = append(regs, valid)
	n2 := 10 + g.rng.Intn(14)
	for i := 0; i < n2; i++ {
		var c *call
		switch g.rng.Intn(10) {
		case 0:
			c = valid // exact replay
			r.Count("seq.replays", 1)
		case 1:
			c = g.register(refenc.GenKey(g.rng).Pub, g.temp, "temp-new-key", "valid")
		case 2:
			c = g.register(refenc.GenKey(g.rng).Pub, winner, "registered-gca", "valid")
		case 3:
			c = g.register(losers[g.rng.Intn(len(losers))].Pub, g.temp, "temp-loser-key", "valid")
		case 4:
			c = x.invalidRegistration(losers, &winner)
		case 5, 6, 7:
			c = g.order(g.kind(), &winner, "registered-gca", "valid")
			if c.Signed {
				r.Count("seq.winner_orders_accepted", 1) // judged below; a refusal is a violation
			}
		default:
			c = x.foreignOrder(losers)
		}
		if c.Kind == "register" {
			regs = append(regs, c)
		}
		if !x.judge(0, c) {
			return
		}
		x.inspect("after registration, after " + c.Kind + " " + c.Label)
		if x.bad {
			return
		}
		if g.rng.Intn(7) == 0 {
			if !x.restart() {
				return
			}
			r.Count("seq.restarts", 1)
			x.inspect("after registration, after restart")
		}
	}
	// one probe of every kind by every party
	for _, kind := range orderKinds {
		probes := []*call{g.order(kind, &winner, "registered-gca", "valid"), g.order(kind, &losers[0], "loser", "valid"),
			g.order(kind, nil, "nobody", "zero"), g.order(kind, nil, "nobody", "random"), g.order(kind, &winner, "registered-gca", "altered"),
			g.order(kind, &g.temp, "temp", "valid")}
		for _, c := range probes {
			if !x.judge(0, c) {
				return
			}
		}
		if !zeroWinner {
			r.Count("seq.winner_orders_accepted", 1)
		}
	}
	x.inspect("after probes")
	if x.bad {
		return
	}
	// records that name an EXISTING server key: only the registered key may change an entry
	if !zeroWinner && len(x.states) == 1 && x.states[0] == keyState(winner.Pub) {
		if !x.existingServerProbes(winner, losers[0]) {
			return
		}
		if !x.copiedSignatureProbes(winner) {
			return
		}
	}
	// everything again after a restart: replays of every registration seen so far
	if !x.restart() {
		return
	}
	r.Count("seq.restarts", 1)
	x.inspect("final restart")
	for _, c := range regs {
		if !x.judge(0, c) {
			return
		}
	}
	for _, c := range []*call{g.register(refenc.GenKey(g.rng).Pub, g.temp, "temp-new-key", "valid"), g.register(refenc.GenKey(g.rng).Pub, winner, "registered-gca", "valid"),
		g.order(g.kind(), &winner, "registered-gca", "valid"), g.order(g.kind(), &losers[0], "loser", "valid")} {
		if !x.judge(0, c) {
			return
		}
	}
	if !zeroWinner {
		r.Count("seq.winner_orders_accepted", 1)
	}
	x.inspect("end")
	if idx == 0 {
		r.Sample(map[string]interface{}{"kind": "seq", "calls": len(x.hist), "history_head": x.head(8)})
	}
}

// serverLists returns the server list as the snapshot and as GET
// /authorized-servers show it (ok=false if the GET could not be done).
func (x *ctx) serverLists() ([]server.AuthorizedServer, []refenc.AuthServer, bool) {
	snap := x.srv.S.VerifSnapshot(false)
	st, as, err := x.srv.AuthorizedServers()
	for try := 0; try < 3 && (err != nil || st != 200); try++ {
		st, as, err = x.srv.AuthorizedServers()
	}
	return snap.Servers, as, err == nil && st == 200
}

func sameServers(a, b []server.AuthorizedServer) bool {
	if len(a) != len(b) {
		return false
	}
	for i := range a {
		if a[i] != b[i] {
			return false
		}
	}
	return true
}

func sameRefServers(a, b []refenc.AuthServer) bool {
	if len(a) != len(b) {
		return false
	}
	for i := range a {
		if a[i] != b[i] {
			return false
		}
	}
	return true
}

// existingServerProbes: after the registered GCA has authorized two servers,
// records naming those EXISTING keys (ban, changed ports, ban with changed
// ports, un-ban) that do not carry the registered key's signature must leave
// the server list bit-identical, whatever the endpoint answers; a ban signed
// by the registered key must take effect. Judged by effect, not by status.
func (x *ctx) existingServerProbes(winner, loser refenc.Key) bool {
	g := x.g
	mk := func() refenc.AuthServer {
		return refenc.AuthServer{Pub: refenc.GenKey(g.rng).Pub, Location: "127.0.0.1", HTTP: g.sink, TCP: uint16(1 + g.rng.Intn(60000)), UDP: uint16(1 + g.rng.Intn(60000))}
	}
	post := func(s refenc.AuthServer, label string) rec {
		c := &call{Kind: "server-existing", Label: label, Path: "/api/v1/authorized-servers", Body: s.JSON()}
		run.Op("%s server-existing %s", x.name, label)
		rc := x.do(0, c)
		x.r.Count("existing_server_probes."+outName[rc.Out], 1)
		return rc
	}
	a, b := mk().Signed(winner.Priv), mk().Signed(winner.Priv)
	for _, s := range []refenc.AuthServer{a, b} {
		if rc := post(s, "registered-gca/new"); rc.Out != outOK {
			if rc.Out == outFail {
				x.violation("server-signed-by-registered-gca-refused", map[string]interface{}{"status": rc.Status}, "a new server record signed by the registered GCA was refused (HTTP %d)", rc.Status)
			}
			return false
		}
	}
	type signer struct {
		who  string
		key  *refenc.Key
		mode string
	}
	signers := []signer{{"loser", &loser, "valid"}, {"server-key", &g.srvKey, "valid"}, {"nobody", nil, "zero"}, {"nobody", nil, "random"}}
	if g.temp.Pub != winner.Pub {
		signers = append(signers, signer{"temp", &g.temp, "valid"})
	}
	variants := func(base refenc.AuthServer, banned bool) map[string]refenc.AuthServer {
		m := map[string]refenc.AuthServer{}
		if !banned {
			v := base
			v.Banned = true
			m["ban"] = v
			v.TCP, v.UDP = v.TCP+1, v.UDP+1
			m["ban-changed-ports"] = v
			v = base
			v.TCP, v.HTTP = v.TCP+1, v.HTTP+1
			m["changed-ports"] = v
		} else {
			v := base
			v.Banned = false
			m["unban"] = v
			v.TCP++
			m["unban-changed-ports"] = v
		}
		return m
	}
	unauthorized := func(targets []refenc.AuthServer, banned bool) bool {
		snap0, get0, ok0 := x.serverLists()
		for _, t := range targets {
			vs := variants(t, banned)
			for _, name := range []string{"ban", "ban-changed-ports", "changed-ports", "unban", "unban-changed-ports"} {
				v, ok := vs[name]
				if !ok {
					continue
				}
				for _, sg := range signers {
					rcd := v
					rcd.Sig = [64]byte{}
					switch sg.mode {
					case "valid":
						rcd = rcd.Signed(sg.key.Priv)
					case "random":
						copy(rcd.Sig[:], g.bytes(64))
					}
					label := name + "/" + sg.who + "/" + sg.mode
					rc := post(rcd, label)
					snap1, get1, ok1 := x.serverLists()
					if !sameServers(snap0, snap1) || (ok0 && ok1 && !sameRefServers(get0, get1)) {
						x.violation("existing-server-record-changed-by-unauthorized-order:"+name+"/"+sg.who+"/"+sg.mode,
							map[string]interface{}{"record": string(rcd.JSON()), "status": rc.Status, "servers_before": len(snap0), "servers_after": len(snap1)},
							"a %s record for an existing server signed by %s (%s) changed the server list (answer: %s, HTTP %d)", name, sg.who, sg.mode, outName[rc.Out], rc.Status)
						return false
					}
					x.r.Count("existing_server_probes_without_effect", 1)
				}
			}
		}
		return true
	}
	if !unauthorized([]refenc.AuthServer{a, b}, false) {
		return false
	}
	x.inspect("after unauthorized records for existing servers")
	if x.bad {
		return false
	}
	// the registered key bans b: must take effect
	ban := b
	ban.Banned = true
	ban = ban.Signed(winner.Priv)
	rc := post(ban, "ban/registered-gca/valid")
	if rc.Out == outOK {
		snap1, _, _ := x.serverLists()
		found := false
		for _, e := range snap1 {
			if e.PublicKey == ban.Pub {
				found = e.Banned && e.GCAAuthorization == ban.Sig
			}
		}
		if !found {
			x.violation("ban-signed-by-registered-gca-not-applied", map[string]interface{}{"record": string(ban.JSON())}, "a ban signed by the registered GCA was answered 200 but the stored record is not the ban")
			return false
		}
		x.r.Count("existing_server_bans_by_registered_gca_applied", 1)
		// nobody but (at most) the registered key may lift or alter the ban
		if !unauthorized([]refenc.AuthServer{ban}, true) {
			return false
		}
	} else if rc.Out == outFail {
		x.violation("server-signed-by-registered-gca-refused", map[string]interface{}{"status": rc.Status}, "a ban signed by the registered GCA was refused (HTTP %d)", rc.Status)
		return false
	}
	x.inspect("after records for existing servers")
	if x.bad {
		return false
	}

	// laundering through an accepted order: the registered GCA validly orders a migration to GCA2 and lists
	// GCA2's servers (signed by GCA2, as an order must). The very same entries, byte for byte, are then
	// submitted as server authorizations: they carry a foreign signature and must change nothing.
	gca2 := refenc.GenKey(g.rng)
	e1 := mk().Signed(gca2.Priv)
	e2 := a
	e2.Banned = true
	e2 = e2.Signed(gca2.Priv) // would ban the GCA's own server a
	m := refenc.Migration{Equipment: refenc.GenKey(g.rng).Pub, NewGCA: gca2.Pub, NewID: uint32(g.rng.Intn(1 << 20)), Servers: []refenc.AuthServer{e1, e2}}.Signed(winner.Priv)
	if !x.judge(0, &call{Kind: "migrate", Label: "registered-gca/valid-listing-foreign-servers", Path: "/api/v1/equipment-migrate", Body: m.JSON(), Signed: true, Signer: winner.Pub}) {
		return false
	}
	x.r.Count("laundering.orders_with_foreign_list_accepted", 1)
	for round := 0; round < 2; round++ {
		snap0, get0, ok0 := x.serverLists()
		for i, e := range []refenc.AuthServer{e1, e2} {
			label := []string{"new-server", "ban-of-own-server"}[i] + "/new-gca-of-accepted-order/valid"
			rc := post(e, label)
			snap1, get1, ok1 := x.serverLists()
			if !sameServers(snap0, snap1) || (ok0 && ok1 && !sameRefServers(get0, get1)) {
				x.violation("server-entry-of-accepted-order-honoured-as-authorization:"+[]string{"new-server", "ban-of-own-server"}[i],
					map[string]interface{}{"record": string(e.JSON()), "order": string(m.JSON()), "status": rc.Status},
					"a server entry signed by the new GCA of an accepted migration order, posted as server authorization, changed the server list (answer: %s, HTTP %d)", outName[rc.Out], rc.Status)
				return false
			}
			x.r.Count("laundering.foreign_entries_refused", 1)
		}
		// the order once more (a GCA repeats the list for every device), then the entries again
		m2 := m
		m2.Equipment = refenc.GenKey(g.rng).Pub
		m2 = m2.Signed(winner.Priv)
		if !x.judge(0, &call{Kind: "migrate", Label: "registered-gca/valid-listing-foreign-servers", Path: "/api/v1/equipment-migrate", Body: m2.JSON(), Signed: true, Signer: winner.Pub}) {
			return false
		}
	}
	// reverse direction: entries accepted as authorizations of the registered GCA are re-used, byte for
	// byte, as the server list of an order that names another new GCA
	gca3 := refenc.GenKey(g.rng)
	rm := refenc.Migration{Equipment: refenc.GenKey(g.rng).Pub, NewGCA: gca3.Pub, NewID: uint32(g.rng.Intn(1 << 20)), Servers: []refenc.AuthServer{a, ban}}.Signed(winner.Priv)
	run.Op("%s migrate registered-gca/list-reuses-own-authorizations", x.name)
	rc = x.do(0, &call{Kind: "migrate-reuse", Label: "registered-gca/list-reuses-own-authorizations", Path: "/api/v1/equipment-migrate", Body: rm.JSON()})
	_, stored := x.srv.S.VerifSnapshot(false).Migrations[rm.Equipment]
	if rc.Out == outOK || stored {
		x.violation("migration-order-with-list-not-signed-by-its-new-gca-accepted", map[string]interface{}{"order": string(rm.JSON()), "status": rc.Status, "stored": stored},
			"an order naming a new GCA whose server list is signed by the registered GCA instead (entries accepted earlier as authorizations) was accepted (answer %s, stored=%v)", outName[rc.Out], stored)
		return false
	}
	if rc.Out == outFail {
		x.r.Count("laundering.orders_reusing_own_entries_refused", 1)
	}
	x.inspect("after laundering attempts")
	return !x.bad
}

// copiedSignatureProbes: a genuine order of the registered GCA for an authorized device is accepted; orders
// for the same device that differ in NewGCA / NewShortID / server list but carry the COPIED signature of the
// genuine one are not signed by anybody and must be refused; the order held for the device must stay
// bit-identical in the server state and in what the device is told over the sync connection.
func (x *ctx) copiedSignatureProbes(winner refenc.Key) bool {
	g := x.g
	ac := g.order("auth", &winner, "registered-gca", "valid")
	if !x.judge(0, ac) {
		return false
	}
	dev := ac.Auth
	ng, ng2 := refenc.GenKey(g.rng), refenc.GenKey(g.rng)
	entry := func(k refenc.Key) refenc.AuthServer {
		return refenc.AuthServer{Pub: refenc.GenKey(g.rng).Pub, Location: "127.0.0.1", HTTP: g.sink, TCP: uint16(1 + g.rng.Intn(60000)), UDP: uint16(1 + g.rng.Intn(60000))}.Signed(k.Priv)
	}
	genuine := refenc.Migration{Equipment: dev.Pub, NewGCA: ng.Pub, NewID: uint32(1 + g.rng.Intn(1<<20)), Servers: []refenc.AuthServer{entry(ng)}}.Signed(winner.Priv)
	if !x.judge(0, &call{Kind: "migrate", Label: "registered-gca/valid-for-authorized-device", Path: "/api/v1/equipment-migrate", Body: genuine.JSON(), Signed: true, Signer: winner.Pub}) {
		return false
	}
	type held struct {
		stored []byte
		ok     bool
		sync   string
		syncOK bool
	}
	observe := func() held {
		var h held
		if m, ok := x.srv.S.VerifSnapshot(false).Migrations[dev.Pub]; ok {
			rm := refenc.Migration{Equipment: m.Equipment, NewGCA: m.NewGCA, NewID: m.NewShortID, Sig: m.Signature}
			for _, sv := range m.NewServers {
				rm.Servers = append(rm.Servers, refenc.AuthServer{Pub: sv.PublicKey, Banned: sv.Banned, Location: sv.Location, HTTP: sv.HttpPort, TCP: sv.TcpPort, UDP: sv.UdpPort, Sig: sv.GCAAuthorization})
			}
			h.stored, h.ok = rm.Bytes(), true
		}
		if rep, refused, err := x.srv.Sync(dev.ID); err == nil && !refused {
			var sb []byte
			for _, sv := range rep.Servers {
				sb = append(sb, sv.Bytes()...)
			}
			h.sync, h.syncOK = fmt.Sprintf("%x/%d/%x/%x", rep.NewGCA, rep.NewID, sb, rep.MigSig), true
		}
		return h
	}
	before := observe()
	if !before.ok || !bytes.Equal(before.stored, genuine.Bytes()) {
		x.violation("accepted-order-not-held-as-submitted", map[string]interface{}{"order": string(genuine.JSON())}, "the order accepted for device %d is not held bit-identical in the server state", dev.ID)
		return false
	}
	if before.syncOK {
		x.r.Count("copied_signature.sync_replies_compared", 1)
	}
	variants := map[string]refenc.Migration{}
	v := genuine
	v.NewID++
	variants["new-short-id"] = v
	v = genuine
	v.Servers = append(append([]refenc.AuthServer(nil), genuine.Servers...), entry(ng))
	variants["server-list"] = v
	v = genuine
	v.NewGCA, v.Servers = ng2.Pub, nil
	variants["new-gca"] = v
	v = genuine
	v.NewGCA, v.NewID, v.Servers = ng2.Pub, genuine.NewID+7, []refenc.AuthServer{entry(ng2)}
	variants["all"] = v
	for _, name := range []string{"new-short-id", "server-list", "new-gca", "all"} {
		alt := variants[name] // carries the copied signature of the genuine order
		if !x.judge(0, &call{Kind: "migrate", Label: "copied-signature/" + name, Path: "/api/v1/equipment-migrate", Body: alt.JSON()}) {
			return false
		}
		after := observe()
		if !after.ok || !bytes.Equal(after.stored, before.stored) || (before.syncOK && after.syncOK && after.sync != before.sync) {
			x.violation("held-order-replaced-by-order-with-copied-signature:"+name, map[string]interface{}{"genuine": string(genuine.JSON()), "altered": string(alt.JSON())},
				"an order with altered %s and the copied signature of the held order changed what is held for device %d", name, dev.ID)
			return false
		}
		x.r.Count("copied_signature.altered_orders_refused", 1)
	}
	// the genuine order itself, resubmitted, is still the registered key's order
	if !x.judge(0, &call{Kind: "migrate", Label: "registered-gca/valid-resubmitted", Path: "/api/v1/equipment-migrate", Body: genuine.JSON(), Signed: true, Signer: winner.Pub}) {
		return false
	}
	x.inspect("after orders with a copied signature")
	return !x.bad
}

// lostKeyFile (conditional): K1 is registered and authorizes 1-3 devices; the server is closed and
// gcaPubKey.dat comes back empty (idx 0) or missing (idx 1) while the authorizations survive (power loss
// with nothing synced). A server that refuses to start on such a directory is counted. IF it starts it is
// either still K1's server or unregistered, and then (usual inspection) it must list no equipment; after a
// registration of K2 nothing authorized under K1 may be listed.
func lostKeyFile(b run.Batch, r *ev.Result, sink uint16, idx int) {
	x, err := newCtx(b, r, sink, fmt.Sprintf("lostkey%d", idx), b.Seed+int64(idx)*9173+29)
	if err != nil {
		r.Inconc("cannot prepare server directory: " + err.Error())
		return
	}
	defer x.close()
	if err := x.srv.Start(); err != nil {
		r.Inconc("server start: " + err.Error())
		return
	}
	g := x.g
	k1, k2 := refenc.GenKey(g.rng), refenc.GenKey(g.rng)
	if !x.judge(0, g.register(k1.Pub, g.temp, "temp", "valid")) {
		return
	}
	for n := 1 + g.rng.Intn(3); n > 0; n-- {
		if !x.judge(0, g.order("auth", &k1, "registered-gca", "valid")) {
			return
		}
	}
	x.inspect("before the key file is lost")
	if x.bad || len(x.states) != 1 || x.states[0] == "" {
		return
	}
	mode := []string{"emptied", "deleted"}[idx%2]
	run.Op("%s close; gcaPubKey.dat %s; start", x.name, mode)
	client.CloseIdleConnections()
	if err := x.srv.Close(); err != nil {
		r.Count("history_ended_by_slow_shutdown", 1)
		return
	}
	path := filepath.Join(x.srv.Dir, "gcaPubKey.dat")
	if mode == "emptied" {
		err = os.Truncate(path, 0)
	} else {
		err = os.Remove(path)
	}
	if err != nil {
		r.Inconc("cannot tamper with the key file: " + err.Error())
		return
	}
	r.Eval(1)
	r.Count("lostkey.trials."+mode, 1)
	if err := x.srv.Start(); err != nil {
		x.srv.S = nil
		r.Count("lostkey.refused_to_start."+mode, 1)
		return
	}
	r.Count("lostkey.started."+mode, 1)
	x.states = []string{"", x.states[0]} // unregistered again, or still K1's
	x.inspect("after a start with the key file " + mode)
	if x.bad {
		return
	}
	for _, c := range []*call{g.register(k2.Pub, g.temp, "temp-new-key", "valid"), g.order("auth", &k1, "first-gca", "valid"), g.order("auth", &k2, "second-gca", "valid")} {
		if !x.judge(0, c) {
			return
		}
	}
	x.inspect("after a registration on the server that lost its key file")
}

// transientFault: the key file cannot be written when the first valid registration arrives (a directory
// occupies its path) and becomes writable shortly afterwards, when a second valid registration for another
// key is submitted while the first may still be in progress. Whatever the server does about the fault, at
// most one registration may ever be answered 200 and file, memory and later answers must agree with it.
func transientFault(b run.Batch, r *ev.Result, sink uint16, idx int) {
	x, err := newCtx(b, r, sink, fmt.Sprintf("transient%d", idx), b.Seed+int64(idx)*7717+13)
	if err != nil {
		r.Inconc("cannot prepare server directory: " + err.Error())
		return
	}
	defer x.close()
	if err := x.srv.Start(); err != nil {
		r.Inconc("server start: " + err.Error())
		return
	}
	g := x.g
	cands := []refenc.Key{refenc.GenKey(g.rng), refenc.GenKey(g.rng)}
	ra := g.register(cands[0].Pub, g.temp, "temp", "valid")
	ra.Faulted, ra.Label = true, "temp/valid-key-file-unwritable-at-first"
	rb := g.register(cands[1].Pub, g.temp, "temp", "valid")
	path := filepath.Join(x.srv.Dir, "gcaPubKey.dat")
	if err := os.Mkdir(path, 0755); err != nil {
		r.Inconc("cannot inject the write fault: " + err.Error())
		return
	}
	wait := time.Duration(80+g.rng.Intn(170)) * time.Millisecond
	run.Op("%s first registration with unwritable key file; fault removed after it returned or after %v; then second registration", x.name, wait)
	x.start = time.Now()
	doneA := make(chan rec, 1)
	go func() { doneA <- x.do(0, ra) }()
	var recA rec
	returned := false
	select {
	case recA = <-doneA:
		returned = true
	case <-time.After(wait):
	}
	os.Remove(path)
	recB := x.do(1, rb)
	if !returned {
		recA = <-doneA
		r.Count("transient.first_registration_still_open_when_fault_was_removed", 1)
	}
	r.Eval(1)
	r.Count("transient.trials", 1)
	r.Count("transient.first_registration."+outName[recA.Out], 1)
	r.Count("transient.second_registration."+outName[recB.Out], 1)
	if recA.Call <= recB.Ret && recB.Call <= recA.Ret {
		r.Count("transient.registrations_overlapped", 1)
		r.Nontrivial(fmt.Sprintf("transient/%d/%d", b.Seed, idx))
	}
	if x.settle("transient.") {
		x.afterwards(2, cands, "transient.")
	}
	x.linearizable(10 * time.Second)
}

// ---------------------------------------------------------------- afterwards (shared by conc and delay)

// afterwards runs the sequential tail of a concurrent history: the possible
// states are known (x.states, narrowed by the first inspection), every call is
// judged and also recorded for porcupine.
func (x *ctx) afterwards(client int, cands []refenc.Key, prefix string) {
	g := x.g
	x.reader = client
	x.inspect(prefix + "after the batch")
	if x.bad {
		return
	}
	if x.states[0] == "" {
		// only possible when the exchanges of all valid registrations failed
		x.r.Inconc(fmt.Sprintf("[%s] no registration was executed: every exchange failed", x.name))
		return
	}
	var winner, loser *refenc.Key
	for i := range cands {
		if keyState(cands[i].Pub) == x.states[0] {
			winner = &cands[i]
		} else if loser == nil && cands[i].Priv != [32]byte{} {
			loser = &cands[i]
		}
	}
	if winner == nil {
		x.violation("registered-key-is-not-a-candidate", nil, "the accepted registration does not carry one of the submitted candidate keys")
		return
	}
	if loser == nil {
		k := refenc.GenKey(g.rng)
		loser = &k
	}
	round := func(tag string) bool {
		calls := []*call{
			g.register(refenc.GenKey(g.rng).Pub, g.temp, "temp-new-key", "valid"),
			g.register(loser.Pub, g.temp, "temp-loser-key", "valid"),
			g.register(refenc.GenKey(g.rng).Pub, *winner, "registered-gca", "valid"),
			g.register(loser.Pub, *loser, "self", "valid"),
		}
		for _, kind := range orderKinds {
			calls = append(calls, g.order(kind, winner, "registered-gca", "valid"), g.order(kind, loser, "loser", "valid"),
				g.order(kind, &g.temp, "temp", "valid"), g.order(kind, nil, "nobody", "zero"))
		}
		g.rng.Shuffle(len(calls), func(i, j int) { calls[i], calls[j] = calls[j], calls[i] })
		for _, c := range calls {
			if !x.judge(client, c) {
				return false
			}
			if c.Signed && c.Kind != "register" && c.Signer == winner.Pub {
				x.r.Count(prefix+"winner_orders_accepted", 1)
			}
		}
		x.inspect(prefix + tag)
		return !x.bad
	}
	if !round("after the later calls") {
		return
	}
	if !x.restart() {
		return
	}
	x.r.Count(prefix+"restarts", 1)
	x.inspect(prefix + "after restart")
	if x.bad {
		return
	}
	round("after the calls that followed the restart")
}

// settle derives the possible states from the answers of the concurrent part.
func (x *ctx) settle(prefix string) bool {
	x.mu.Lock()
	h := append([]rec(nil), x.hist...)
	x.mu.Unlock()
	var okRegs, unknownValid []rec
	for _, rc := range h {
		if rc.C.Kind != "register" {
			continue
		}
		switch {
		case rc.Out == outOK:
			okRegs = append(okRegs, rc)
		case rc.Out == outUnknown && rc.C.ValidReg:
			unknownValid = append(unknownValid, rc)
		}
	}
	x.r.Count(fmt.Sprintf("%swinners.%d", prefix, len(okRegs)), 1)
	if len(okRegs) > 1 {
		var ks []string
		for _, rc := range okRegs {
			ks = append(ks, hex.EncodeToString(rc.C.Key[:6])+" "+rc.C.Label)
		}
		x.violation("more-than-one-registration-accepted", map[string]interface{}{"accepted": ks}, "%d registrations were answered with 200: %v", len(okRegs), ks)
		return false
	}
	if len(okRegs) == 1 {
		w := okRegs[0]
		if !w.C.ValidReg {
			x.violation("invalid-registration-accepted:"+w.C.Label, map[string]interface{}{"body": string(w.C.Body)}, "the accepted registration (%s) is not a valid one", w.C.Label)
			return false
		}
		x.states = []string{keyState(w.C.Key)}
		return true
	}
	// no 200: legal only if the exchange of a valid registration failed, which
	// may then have been executed without the answer reaching the client
	x.states = []string{""}
	for _, rc := range unknownValid {
		x.states = append(x.states, keyState(rc.C.Key))
	}
	if len(unknownValid) == 0 {
		x.violation("no-registration-accepted", nil, "valid registrations were submitted to an unregistered server and none was accepted")
		return false
	}
	x.r.Count(prefix+"winner_unknown_to_clients", 1)
	return true
}

// ---------------------------------------------------------------- (b) concurrent batches

func concBatch(b run.Batch, r *ev.Result, sink uint16, idx int) {
	seed := b.Seed + int64(idx)*104729
	x, err := newCtx(b, r, sink, fmt.Sprintf("conc%d", idx), seed)
	if err != nil {
		r.Inconc("cannot prepare server directory: " + err.Error())
		return
	}
	defer x.close()
	if err := x.srv.Start(); err != nil {
		r.Inconc("server start: " + err.Error())
		return
	}
	g := x.g
	gated := idx%2 == 0
	k := 2 + g.rng.Intn(31)
	cands := make([]refenc.Key, k)
	for i := range cands {
		cands[i] = refenc.GenKey(g.rng)
	}
	if idx%5 == 3 {
		// one candidate is the all-zero key (nobody can sign orders for it)
		cands[0] = refenc.Key{}
		r.Count("conc.batches_with_zero_key_candidate", 1)
	}
	// one client per list; each client issues its calls one after the other
	var clients [][]*call
	held := 0 // registrations of the first wave that reach register.ready
	for i := range cands {
		clients = append(clients, []*call{g.register(cands[i].Pub, g.temp, "temp", "valid")})
		held++
	}
	ninv := 1 + k/2
	for i := 0; i < ninv; i++ {
		c := x.invalidRegistration(cands, nil)
		if !strings.HasPrefix(c.Label, "garbage") || c.Label == "garbage/empty-object" {
			held++
		}
		clients = append(clients, []*call{c})
	}
	for i := range cands {
		var l []*call
		for n := 1 + g.rng.Intn(3); n > 0; n-- {
			l = append(l, g.order(g.kind(), &cands[i], "candidate", "valid"))
		}
		clients = append(clients, l)
	}
	for i := 0; i < 1+k/3; i++ {
		var l []*call
		for n := 1 + g.rng.Intn(3); n > 0; n-- {
			l = append(l, g.order(g.kind(), &g.temp, "temp", "valid"))
		}
		clients = append(clients, l)
		l = nil
		for n := 1 + g.rng.Intn(3); n > 0; n-- {
			l = append(l, g.order(g.kind(), nil, "nobody", failModes[g.rng.Intn(2)]))
		}
		clients = append(clients, l)
	}
	pauses := make([][]time.Duration, len(clients))
	for i, l := range clients {
		for range l {
			pauses[i] = append(pauses[i], time.Duration(g.rng.Intn(3000))*time.Microsecond)
		}
	}
	// gate: hold every registration at register.ready until all have arrived
	var arrived atomic.Int64
	var gateTimeouts atomic.Int64
	if gated {
		target := int64(held)
		server.VerifSetHook("register.ready", func(*server.GCAServer) {
			arrived.Add(1)
			deadline := time.Now().Add(2 * time.Second)
			for arrived.Load() < target {
				if time.Now().After(deadline) {
					gateTimeouts.Add(1)
					return
				}
				time.Sleep(100 * time.Microsecond)
			}
		})
	}
	run.Op("%s wave k=%d clients=%d gated=%v", x.name, k, len(clients), gated)
	x.start = time.Now()
	var wg sync.WaitGroup
	begin := make(chan struct{})
	for ci := range clients {
		wg.Add(1)
		go func(ci int) {
			defer wg.Done()
			<-begin
			for j, c := range clients[ci] {
				if clients[ci][0].Kind != "register" {
					time.Sleep(pauses[ci][j])
				}
				x.do(ci, c)
			}
		}(ci)
	}
	close(begin)
	wg.Wait()
	if gated {
		server.VerifSetHook("register.ready", func(*server.GCAServer) {})
		if gateTimeouts.Load() > 0 {
			r.Count("conc.gate_not_filled", 1)
			r.Note("[%s] gate not filled: arrived %d of %d", x.name, arrived.Load(), held)
		} else {
			r.Count("conc.gate_filled", 1)
		}
	}
	r.Eval(1)
	r.Count("conc.batches", 1)
	r.Max("max.conc.k", int64(k))
	// how concurrent was it: valid registrations whose intervals overlap another valid one
	var regs []rec
	for _, rc := range x.hist {
		if rc.C.ValidReg {
			regs = append(regs, rc)
		}
	}
	overlapping := 0
	for i, a := range regs {
		for j, c := range regs {
			if i != j && a.Call <= c.Ret && c.Call <= a.Ret {
				overlapping++
				break
			}
		}
	}
	r.Max("max.conc.overlapping_valid_registrations", int64(overlapping))
	r.Count("conc.overlapping_valid_registrations", int64(overlapping))
	if overlapping >= 2 {
		r.Nontrivial(fmt.Sprintf("conc/%d", seed))
		r.Count("conc.nontrivial_batches", 1)
	}
	during := 0
	for _, rc := range x.hist {
		if rc.C.Kind != "register" && rc.Out == outOK {
			during++
		}
	}
	r.Count("conc.orders_accepted_during_wave", int64(during))

	if x.settle("conc.") {
		x.afterwards(len(clients), cands, "conc.")
	}
	timeout := 10 * time.Second
	if b.Tier == "thorough" {
		timeout = 60 * time.Second
	}
	x.linearizable(timeout)
	if idx == 0 {
		r.Sample(map[string]interface{}{"kind": "conc", "k": k, "gated": gated, "calls": len(x.hist), "overlapping_valid_registrations": overlapping, "history_head": x.head(6)})
	}
}

// ---------------------------------------------------------------- (d) archive downloads racing the registration

func getArchive(port uint16) int {
	resp, err := client.Get(fmt.Sprintf("http://127.0.0.1:%d/api/v1/archive", port))
	if err != nil {
		return 0
	}
	io.Copy(io.Discard, resp.Body)
	resp.Body.Close()
	return resp.StatusCode
}

// archiveRace: on a fresh unregistered server the public archive endpoint is
// hit while the one valid registration commits. The archive endpoint is no
// part of the model (any answer is accepted: an unregistered server has no
// gcaPubKey.dat and answers 500, the limiter answers 429); what is judged is
// the registration's durability: at quiescence gcaPubKey.dat must hold the
// registered key, after a restart the key must still be registered, a further
// registration signed by the temporary key must be refused and the registered
// key's orders accepted. Modes: "hook" (the registration handler, stopped at
// register.ready, starts the downloads in new goroutines, waits d in 0..1.5 ms and
// goes on into its critical section, so the downloads reach the server lock
// while the registration holds it), "stress" (downloads and registration start
// together from the client side with a random offset).
func archiveRace(b run.Batch, r *ev.Result, sink uint16, idx int) {
	seed := b.Seed + int64(idx)*104729
	x, err := newCtx(b, r, sink, fmt.Sprintf("arch%d", idx), seed)
	if err != nil {
		r.Inconc("cannot prepare server directory: " + err.Error())
		return
	}
	defer x.close()
	if err := x.srv.Start(); err != nil {
		r.Inconc("server start: " + err.Error())
		return
	}
	g := x.g
	winner := refenc.GenKey(g.rng)
	reg := g.register(winner.Pub, g.temp, "temp", "valid")
	mode := "hook"
	if idx%4 == 3 {
		mode = "stress"
	}
	const downloads = 3 // the limiter admits 3 per 60 ms window in test builds
	wait := time.Duration(g.rng.Intn(1500)) * time.Microsecond
	// warm connections (the equipment endpoint is not rate limited)
	var wg sync.WaitGroup
	for i := 0; i < downloads+1; i++ {
		wg.Add(1)
		go func() {
			defer wg.Done()
			if resp, err := client.Get(fmt.Sprintf("http://127.0.0.1:%d/api/v1/equipment", x.srv.HTTP)); err == nil {
				io.Copy(io.Discard, resp.Body)
				resp.Body.Close()
			}
		}()
	}
	wg.Wait()
	type span struct {
		t0, t1 int64
		st     int
	}
	spans := make([]span, downloads)
	x.start = time.Now()
	fire := func() {
		for i := 0; i < downloads; i++ {
			wg.Add(1)
			go func(i int) {
				defer wg.Done()
				t0 := time.Since(x.start).Nanoseconds()
				st := getArchive(x.srv.HTTP)
				spans[i] = span{t0, time.Since(x.start).Nanoseconds(), st}
			}(i)
		}
	}
	spin := func(d time.Duration) {
		for t := time.Now(); time.Since(t) < d; {
		}
	}
	var fired atomic.Bool
	if mode == "hook" {
		server.VerifSetHook("register.ready", func(*server.GCAServer) {
			if fired.Swap(true) {
				return
			}
			fire()
			spin(wait)
		})
	} else {
		fire()
		spin(wait)
	}
	ok := x.judge(0, reg)
	wg.Wait()
	if mode == "hook" {
		server.VerifSetHook("register.ready", func(*server.GCAServer) {})
	}
	if !ok {
		return
	}
	r.Eval(1)
	r.Count("arch.trials."+mode, 1)
	var regRec rec
	for _, rc := range x.hist {
		if rc.C == reg {
			regRec = rc
		}
	}
	overl := 0
	for _, sp := range spans {
		r.Count(fmt.Sprintf("arch.download_status.%d", sp.st), 1)
		if sp.st != 429 && sp.st != 0 && sp.t0 <= regRec.Ret && regRec.Call <= sp.t1 {
			overl++
		}
	}
	if overl > 0 {
		r.Count("arch.trials_with_download_overlapping_registration", 1)
		r.Nontrivial(fmt.Sprintf("arch/%d", seed))
	}
	if len(x.states) != 1 || x.states[0] == "" {
		return // the registration's exchange failed and it was not executed
	}
	r.Count("arch.registrations_accepted", 1)
	// (a) quiescence: file against memory against the accepted registration
	x.inspect("after the registration that was raced by archive downloads")
	if x.bad {
		return
	}
	getArchive(x.srv.HTTP)
	x.inspect("after a further archive download")
	if x.bad {
		return
	}
	// (b) restart: still registered, nobody else gets in
	if !x.restart() {
		return
	}
	r.Count("arch.restarts", 1)
	x.inspect("after the restart that followed the raced registration")
	if x.bad {
		return
	}
	loser := refenc.GenKey(g.rng)
	for _, c := range []*call{g.register(loser.Pub, g.temp, "temp-new-key", "valid"), reg,
		g.order(g.kind(), &winner, "registered-gca", "valid"), g.order(g.kind(), &loser, "loser", "valid"), g.order(g.kind(), &g.temp, "temp", "valid")} {
		if !x.judge(0, c) {
			return
		}
	}
	x.inspect("end")
	if idx == 0 {
		r.Sample(map[string]interface{}{"kind": "arch", "mode": mode, "wait_us": int(wait / time.Microsecond), "download_status": []int{spans[0].st, spans[1].st, spans[2].st}, "registration": x.head(1)})
	}
}

// ---------------------------------------------------------------- (c) delay injections

func delayCell(b run.Batch, r *ev.Result, sink uint16) {
	site, dir := b.P("site"), b.P("dir")
	x, err := newCtx(b, r, sink, "delay-"+site+"-"+dir, b.Seed)
	if err != nil {
		r.Inconc("cannot prepare server directory: " + err.Error())
		return
	}
	defer x.close()
	if err := x.srv.Start(); err != nil {
		r.Inconc("server start: " + err.Error())
		return
	}
	g := x.g
	cands := []refenc.Key{refenc.GenKey(g.rng), refenc.GenKey(g.rng)}
	kind := map[string]string{"auth.ready": "auth", "as.post.ready": "server", "order.ready": "migrate"}[site]
	reg := g.register(cands[0].Pub, g.temp, "temp", "valid")
	ord := g.order(kind, &cands[0], "candidate", "valid")
	trigger, interferer, hook := ord, reg, site
	cell := site + ">register"
	if dir == "into-register" {
		trigger, interferer, hook = reg, ord, "register.ready"
		cell = "register.ready>" + site
	}
	pause := time.Duration(60+g.rng.Intn(41)) * time.Millisecond
	var fired atomic.Bool
	done := make(chan struct{})
	run.Op("%s trigger=%s interferer=%s pause=%v", x.name, trigger.Kind, interferer.Kind, pause)
	x.start = time.Now()
	// The hooked goroutine starts the interfering request in a new goroutine and
	// then only sleeps: it performs no synchronising operation between the other
	// request's accesses and its own.
	server.VerifSetHook(hook, func(*server.GCAServer) {
		if fired.Swap(true) {
			return
		}
		go func() {
			x.do(1, interferer)
			close(done)
		}()
		time.Sleep(pause)
	})
	x.do(0, trigger)
	server.VerifSetHook(hook, func(*server.GCAServer) {})
	if !fired.Load() {
		r.Inconc("hook " + hook + " did not fire")
		return
	}
	<-done
	r.Eval(1)
	r.Count("delay.cells", 1)
	r.Count("delay.fired."+cell, 1)
	r.Nontrivial(fmt.Sprintf("delay/%s/%d", cell, b.Seed))
	for _, rc := range x.hist {
		r.Count("delay."+rc.C.Kind+"."+outName[rc.Out], 1)
	}
	if x.settle("delay.") {
		x.afterwards(2, cands, "delay.")
	}
	x.linearizable(10 * time.Second)
	r.Sample(map[string]interface{}{"kind": "delay", "cell": cell, "pause_ms": strconv.Itoa(int(pause / time.Millisecond)), "history_head": x.head(2)})
}
