//go:build test

package main

// slowBody: a valid registration whose body arrives in two halves, with a
// shutdown and an in-process restart on the same directory in between. The
// first half (head + half of the JSON) is with the server when Close() is
// called; the second half follows 500-900 ms later. Then the directory is
// started again and a second valid registration for another key is sent to
// the new instance. In every order of completion at most one of the two may
// be acknowledged, and an acknowledged key is the one in gcaPubKey.dat
// afterwards. (Delays are for reach only; the verdict is on the answers.)

import (
	"bufio"
	"bytes"
	"fmt"
	"net"
	"net/http"
	"os"
	"path/filepath"
	"time"

	"verifharness/lib/ev"
	"verifharness/lib/refenc"
	"verifharness/lib/run"
)

func slowBody(b run.Batch, r *ev.Result, sink uint16, idx int) {
	x, err := newCtx(b, r, sink, fmt.Sprintf("slowbody%d", idx), b.Seed+int64(idx)*7919+53)
	if err != nil {
		r.Inconc("cannot prepare server directory: " + err.Error())
		return
	}
	defer x.close()
	if err := x.srv.Start(); err != nil {
		r.Inconc("server start: " + err.Error())
		return
	}
	g := x.g
	k1, k2 := refenc.GenKey(g.rng), refenc.GenKey(g.rng)
	mk := func(k refenc.Key) []byte {
		reg := refenc.Registration{GCAKey: k.Pub}
		reg.Sig = refenc.Sign(g.temp.Priv, reg.SigningBytes())
		return reg.JSON()
	}
	body := mk(k1)
	conn, err := net.DialTimeout("tcp", fmt.Sprintf("127.0.0.1:%d", x.srv.HTTP), 3*time.Second)
	if err != nil {
		r.Inconc("slow body: " + err.Error())
		return
	}
	defer conn.Close()
	cut := len(body)/3 + g.rng.Intn(len(body)/3)
	delay := time.Duration(500+g.rng.Intn(400)) * time.Millisecond
	run.Op("%s: registration K1 sent up to byte %d of %d; Close(); rest after %v; start; registration K2", x.name, cut, len(body), delay)
	fmt.Fprintf(conn, "POST /api/v1/register-gca HTTP/1.1\r\nHost: gca\r\nContent-Type: application/json\r\nContent-Length: %d\r\nConnection: close\r\n\r\n", len(body))
	conn.Write(body[:cut])
	time.Sleep(80 * time.Millisecond)
	st1 := make(chan int, 1)
	go func() {
		time.Sleep(delay)
		conn.SetDeadline(time.Now().Add(8 * time.Second))
		if _, err := conn.Write(body[cut:]); err != nil {
			st1 <- 0
			return
		}
		resp, err := http.ReadResponse(bufio.NewReader(conn), nil)
		if err != nil {
			st1 <- 0
			return
		}
		resp.Body.Close()
		st1 <- resp.StatusCode
	}()
	client.CloseIdleConnections()
	if err := x.srv.Close(); err != nil {
		r.Count("history_ended_by_slow_shutdown", 1)
		<-st1
		return
	}
	if err := x.srv.Start(); err != nil {
		x.srv.S = nil
		<-st1
		x.violation("server-does-not-start-after-restart", map[string]interface{}{"error": err.Error()}, "server did not come back after a restart: %v", err)
		return
	}
	s1 := <-st1
	s2, err := post(x.srv.HTTP, "/api/v1/register-gca", mk(k2))
	if err != nil {
		r.Inconc("slow body: second registration failed at transport level: " + err.Error())
		return
	}
	r.Eval(1)
	r.Count("slowbody.trials", 1)
	r.Count(fmt.Sprintf("slowbody.first_%d_second_%d", s1, s2), 1)
	file, _ := os.ReadFile(filepath.Join(x.srv.Dir, "gcaPubKey.dat"))
	extra := map[string]interface{}{"first_status": s1, "second_status": s2, "key_file": fmt.Sprintf("%x", file), "k1": fmt.Sprintf("%x", k1.Pub), "k2": fmt.Sprintf("%x", k2.Pub)}
	switch {
	case s1 == 200 && s2 == 200:
		x.violation("two-registrations-acknowledged", extra, "a registration completed across a shutdown (K1) and a registration on the restarted server (K2) were both answered 200; gcaPubKey.dat holds %x", file)
	case s1 == 200 && !bytes.Equal(file, k1.Pub[:]):
		x.violation("acknowledged-registration-not-in-key-file", extra, "registration K1 was answered 200 but gcaPubKey.dat holds %x", file)
	case s2 == 200 && !bytes.Equal(file, k2.Pub[:]):
		x.violation("acknowledged-registration-not-in-key-file", extra, "registration K2 was answered 200 but gcaPubKey.dat holds %x", file)
	case s1 != 200 && s2 != 200 && !bytes.Equal(file, k1.Pub[:]): // (K1 in the file: it took effect and only its answer was lost)
		x.violation("no-registration-possible", extra, "neither the registration completed across the shutdown (status %d) nor a valid registration on the restarted, still unregistered server (status %d) was accepted", s1, s2)
	}
	r.Nontrivial(fmt.Sprintf("slowbody/%d/%d", s1, s2))
}
