//go:build test

package main

// Sanity tests of the sequential model and of the partition function on
// hand-written histories (no server involved):
//   go test -tags "test verif" ./cmd/c07

import (
	"math/rand"
	"testing"
	"time"

	"github.com/anishathalye/porcupine"

	"verifharness/lib/refenc"
)

type hb struct {
	g   *gen
	ops []porcupine.Operation
}

func (h *hb) add(client int, c *call, callT, retT int64, out int) {
	h.ops = append(h.ops, porcupine.Operation{ClientId: client, Input: c, Call: callT, Output: out, Return: retT})
}

func (h *hb) read(client int, key *refenc.Key, t int64) {
	c := &call{Kind: "read"}
	if key != nil {
		c.Key, c.Signed = key.Pub, true
	}
	h.add(client, c, t, t+1, outOK)
}

func check(t *testing.T, name string, h *hb, want porcupine.CheckResult) {
	t.Helper()
	// with and without the partition function the verdict must be the same
	res, _ := porcupine.CheckOperationsVerbose(model, h.ops, 20*time.Second)
	if res != want {
		t.Errorf("%s: partitioned check says %v, want %v", name, res, want)
	}
	plain := model
	plain.Partition = nil
	res, _ = porcupine.CheckOperationsVerbose(plain, h.ops, 20*time.Second)
	if res != want {
		t.Errorf("%s: unpartitioned check says %v, want %v", name, res, want)
	}
}

func TestModel(t *testing.T) {
	rng := rand.New(rand.NewSource(7))
	g := &gen{rng: rng, temp: refenc.GenKey(rng), srvKey: refenc.GenKey(rng), sink: 1}
	a, b, c := refenc.GenKey(rng), refenc.GenKey(rng), refenc.GenKey(rng)
	reg := func(k refenc.Key) *call { return g.register(k.Pub, g.temp, "temp", "valid") }
	ord := func(k *refenc.Key) *call { return g.order("auth", k, "x", "valid") }

	// 1. three overlapping registrations, one winner; loser's and winner's orders around it
	h := &hb{g: g}
	h.add(0, reg(a), 10, 100, outFail)
	h.add(1, reg(b), 12, 90, outOK)
	h.add(2, reg(c), 14, 95, outFail)
	h.add(3, ord(&b), 15, 20, outFail) // before b took effect
	h.add(3, ord(&b), 50, 60, outOK)
	h.add(4, ord(&a), 30, 70, outFail)
	h.add(5, ord(&g.temp), 30, 70, outFail)
	h.read(6, &b, 200)
	check(t, "legal", h, porcupine.Ok)

	// 2. two winners
	h = &hb{g: g}
	h.add(0, reg(a), 10, 100, outOK)
	h.add(1, reg(b), 12, 90, outOK)
	check(t, "two winners", h, porcupine.Illegal)

	// 3. key honoured, then not honoured
	h = &hb{g: g}
	h.add(0, reg(a), 10, 100, outOK)
	h.add(1, ord(&a), 20, 30, outOK)
	h.add(1, ord(&a), 40, 50, outFail)
	check(t, "honoured then refused", h, porcupine.Illegal)

	// 4. refused valid registration that returned before any registration was called
	h = &hb{g: g}
	h.add(0, reg(a), 10, 20, outFail)
	h.add(1, reg(b), 30, 40, outOK)
	check(t, "refused on unset server", h, porcupine.Illegal)

	// 5. temp-signed order honoured
	h = &hb{g: g}
	h.add(0, reg(a), 10, 20, outOK)
	h.add(1, ord(&g.temp), 30, 40, outOK)
	check(t, "temp honoured", h, porcupine.Illegal)

	// 6. loser's order honoured while its registration was pending
	h = &hb{g: g}
	h.add(0, reg(a), 10, 100, outOK)
	h.add(1, reg(b), 10, 100, outFail)
	h.add(2, ord(&b), 20, 30, outOK)
	check(t, "loser honoured", h, porcupine.Illegal)

	// 7. winner's exchange failed: the observation decides
	h = &hb{g: g}
	h.add(0, reg(a), 10, 1000, outUnknown)
	h.add(1, reg(b), 12, 1000, outUnknown)
	h.add(2, reg(c), 14, 80, outFail)
	h.add(3, ord(&a), 100, 110, outOK)
	h.add(3, ord(&b), 120, 130, outFail)
	h.read(4, &a, 200)
	check(t, "unknown winner, consistent", h, porcupine.Ok)
	h.read(4, &b, 300)
	check(t, "unknown winner, two observations disagree", h, porcupine.Illegal)

	// 8. failed exchanges next to an answered winner have no effect
	h = &hb{g: g}
	h.add(0, reg(a), 10, 50, outOK)
	h.add(1, reg(b), 12, 1000, outUnknown)
	h.add(2, ord(&b), 100, 110, outOK)
	check(t, "failed exchange cannot win next to a 200", h, porcupine.Illegal)

	// 9. observation of an unset server after a 200
	h = &hb{g: g}
	h.add(0, reg(a), 10, 50, outOK)
	h.read(1, nil, 60)
	check(t, "key lost", h, porcupine.Illegal)

	// 10. wide legal history: 24 pending refused registrations and a late constraint
	h = &hb{g: g}
	w := refenc.GenKey(rng)
	h.add(0, reg(w), 5, 500, outOK)
	for i := 0; i < 24; i++ {
		h.add(1+i, reg(refenc.GenKey(rng)), int64(6+i), 600, outFail)
	}
	h.add(40, ord(&w), 100, 110, outFail)
	h.add(40, ord(&w), 300, 310, outOK)
	res, _ := porcupine.CheckOperationsVerbose(model, h.ops, 20*time.Second)
	if res != porcupine.Ok {
		t.Errorf("wide legal history: %v", res)
	}
}
