//go:build test

package main

// rot-fault: faults in things the rotation does not need must not stop it.
// With the server running, the WattTime credential files (read once at
// start-up) are removed / made unreadable / replaced by a directory; the clock
// passes the rotation trigger and one rotation-loop iteration is released: the
// window must rotate, and the reports within 432 slots of the clock must then
// be storable. ("The rotation cadence always rotates the window before an
// acceptable report could fall outside it" - not only while every file of the
// installation is in its start-up state.)

import (
	"fmt"
	"os"
	"path/filepath"

	"verifharness/lib/drv"
	"verifharness/lib/ev"
	"verifharness/lib/run"
)

func childRotFault(b run.Batch, r *ev.Result) {
	p, done := startGated(b, r, 0, nil)
	if p == nil {
		return
	}
	defer done()
	if _, err := p.devFor(0); err != nil {
		r.Inconc(err.Error())
		return
	}
	wt := filepath.Join(p.w.Dir, "watttime_data")
	faults := []struct {
		name  string
		apply func() error
		undo  func()
	}{
		{"password-file-removed", func() error { return os.Rename(filepath.Join(wt, "password"), filepath.Join(wt, "password.away")) },
			func() { os.Rename(filepath.Join(wt, "password.away"), filepath.Join(wt, "password")) }},
		{"username-file-unreadable-directory", func() error {
			if err := os.Rename(filepath.Join(wt, "username"), filepath.Join(wt, "username.away")); err != nil {
				return err
			}
			return os.Mkdir(filepath.Join(wt, "username"), 0755)
		}, func() {
			os.Remove(filepath.Join(wt, "username"))
			os.Rename(filepath.Join(wt, "username.away"), filepath.Join(wt, "username"))
		}},
		{"credentials-directory-renamed", func() error { return os.Rename(wt, wt+".away") }, func() { os.Rename(wt+".away", wt) }},
	}
	for i, f := range faults {
		off := p.offset()
		gap := uint32(3201 + p.rng.Intn(300))
		if err := f.apply(); err != nil {
			r.Inconc("cannot apply fault " + f.name + ": " + err.Error())
			return
		}
		drv.SetClock(off + gap)
		run.Op("fault %s; step rotation offset=%d gap=%d", f.name, off, gap)
		n := drv.StepRotation()
		f.undo()
		r.Eval(1)
		if n < 0 {
			r.Inconc("the rotation loop did not come round within the watchdog time (no conclusion)")
			return
		}
		after := p.offset()
		r.Count("rotfault.steps", 1)
		r.Nontrivial(fmt.Sprintf("rotfault/%s/%d", f.name, i))
		if n != 1 || after != off+2016 {
			r.Violationf("rotation-blocked-by-unrelated-fault:"+f.name, map[string]interface{}{"fault": f.name, "offset": off, "gap": gap, "batch": b},
				"with fault %q in place (a file the rotation does not need) a released rotation-loop iteration at now-offset=%d performed %d rotations (offset %d -> %d); the trigger is now-offset > 3200", f.name, gap, n, off, after)
			return
		}
		r.Count("rotfault.rotated", 1)
	}
}
