//go:build test

// C20 — Timeslot arithmetic is exact; production constants keep the window safe.
//
// Two builds are observed:
//
//   - the ordinary child (tags "test verif") drives the real server with gated
//     background jobs and measures *behaviourally* the acceptance half-width,
//     the storage window, the background rotation trigger and the start-up
//     catch-up threshold (they are literals inside functions), and judges
//     (now, slot) pairs at the uint32 extremes against the integer rule
//     |slot-now| <= 432 and offset <= slot < offset+4032;
//   - cmd/c20prod, built WITHOUT the test tag, runs the production
//     glow/timeslot.go, server/consts_p.go and client/consts_p.go: genesis,
//     CurrentTimeslot against the system clock, the conversion functions over
//     the unix-time domain, and the production constants.
//
// The parent finally evaluates trigger + ceil(period/300 s) + half-width <
// window with the measured values and the production period.
package main

import (
	"bytes"
	"encoding/json"
	"fmt"
	"math"
	"math/rand"
	"os"
	"regexp"
	"os/exec"
	"path/filepath"
	"sort"
	"strings"
	"sync"
	"sync/atomic"
	"time"

	"github.com/glowlabs-org/gca-backend/server"

	"verifharness/lib/drv"
	"verifharness/lib/ev"
	"verifharness/lib/refenc"
	"verifharness/lib/run"
)

const (
	docGenesis = int64(1700352000)
	halfWidth  = 432  // property text: +-432 acceptance
	windowLen  = 4032 // property text: 4032-slot window
	two32      = int64(1) << 32
)

func main() {
	run.Main(run.Spec{
		ID:    "C20",
		Level: "exploration",
		Pkg:   "./cmd/c20",
		Rule: "evaluations = conversions judged in the production build + acceptance probes + rotation/start-up observations in the test build. " +
			"Non-trivial = acceptance probe whose slot lies within 2 of an edge of the integer rule (now-432, now+432, offset, offset+4031), distinct by (now, offset, slot); " +
			"conversions at or next to a slot boundary are counted in observed.conv_boundary_conversions (every one of the 14 316 558 slot boundaries in each tier; far too many to hash individually).",
		Assumptions: []string{
			"rotation and impact jobs are parked at their loop heads while probes are judged; a released rotation-loop iteration is exactly what the ungated loop does once per period",
			"the half-width, window, trigger and catch-up numbers are measured on the test-tag build; the arithmetic source files (server/equipment.go, server/report_listener_udp.go, glow/timeslot_u.go) are the same in both builds, only the clock source and the constants files differ, and those are observed in the production-tag build",
			"window offsets near 2^32 are a configuration reached through trusted disk state: allDeviceStats.dat is pre-seeded before the first start with ONE validly signed empty record (zero devices, signed with the pre-seeded server key); no archived week is queried in that configuration (the archive index presupposes contiguity from week 0)",
			"CurrentTimeslot is bracketed by two reads of the system clock; a sample in which the clock went backwards between the reads is discarded (counted), not judged",
			"host time zones are set through $TZ for the production probe (Go honours it; the probe embeds time/tzdata so the zones resolve on any host); the probe reports the zone it resolved and the run is inconclusive unless zones with a non-zero UTC offset on 2023-11-19 were in force",
			"rotation trigger and start-up threshold are also measured for windows that contain a timeslot ceil(k*2^32/300) (k = 1, 2 and a seeded k) and for the highest window below 2^32, reached through the same pre-seeded signed record (trusted disk state); there the clock walks upward until the first rotation (one rotation per directory)",
			"first-check episode (rotation gate open): wall-clock progress bound with a scheduler-responsiveness control. Time is taken from just before NewGCAServer to the first migrateReports (stamped in the rotating goroutine). Held as soon as ONE of up to 30 trials rotates in less than half a check period (a loop that sleeps a period first can never do that); violated only if at least 8 trials ALL took at least one period and a 1 ms watchdog goroutine saw no wake-up gap above period/4 in at least 5 of them; anything else is recorded as not established and fails nothing",
			"start-ups after very long gaps (up to thousands of weeks) use fresh directories (no devices, cheap rotations) and one small populated server; the judgement right after start (rotation loop parked) only demands the current slot, the one after a single released loop iteration the whole acceptance range",
			"start-up replay at window offsets near 2^32: validly signed reports of an authorized device for timeslots far before the window are appended to equipment-reports.dat while the server is down (trusted disk state); after the restart every occupied index k of the window must hold a report for timeslot offset+k",
			"oldest acceptable slots: only when at least one rotation happened in the start-up episode under judgement are the reports for now-432 .. now-1 required to be storable (right after start and after one released loop iteration); a window that legitimately starts less than 432 slots before the clock without any rotation (genesis) is not judged",
			"production build = tags 'verif' without 'test'; the verif tag only adds accessor functions (add-only hooks)",
			"unix times at or beyond genesis+2^32 s and timeslots above floor((2^32-1)/300) are outside the property's quantifier; what the code returns just beyond is recorded, not judged",
			"the inequality uses ceil(period/300 s) slots for the rotation check period and does not model the duration of the rotation itself",
		},
		Plan:  plan,
		Child: child,
		Post:  post,
	})
}

// ---------------------------------------------------------------- production binary

func harnessDir() string {
	if h := os.Getenv("VERIF_HARNESS"); h != "" {
		return h
	}
	return filepath.Join(ev.Root(), "harness")
}

func prodPath() string { return filepath.Join(os.Getenv("VERIF_WORK"), "c20prod") }

// ensureProd builds cmd/c20prod (tags "verif" only) into $VERIF_WORK once.
func ensureProd() (string, error) {
	p := prodPath()
	if os.Getenv("VERIF_WORK") == "" {
		return "", fmt.Errorf("VERIF_WORK is not set")
	}
	if _, err := os.Stat(p); err == nil {
		return p, nil
	}
	tmp := fmt.Sprintf("%s.%d.tmp", p, os.Getpid())
	args := []string{"build", "-tags", "verif"}
	if mf := os.Getenv("VERIF_MODFILE"); mf != "" {
		args = append(args, "-modfile="+mf)
	}
	args = append(args, "-o", tmp, "./cmd/c20prod")
	cmd := exec.Command("go", args...)
	cmd.Dir = harnessDir()
	cmd.Env = append(os.Environ(), "GOFLAGS=-mod=mod", "GOPROXY=off", "GOSUMDB=off", "GOTOOLCHAIN=local")
	if out, err := cmd.CombinedOutput(); err != nil {
		os.Remove(tmp)
		return "", fmt.Errorf("production-tag build failed: %v\n%s", err, out)
	}
	if err := os.Rename(tmp, p); err != nil {
		return "", err
	}
	return p, nil
}

func runProd(r *ev.Result, v interface{}, args ...string) bool {
	return runProdEnv(r, nil, v, args...)
}

// runProdEnv runs the probe with a modified environment: "K=V" sets, "K="
// (empty value) removes the variable.
func runProdEnv(r *ev.Result, env []string, v interface{}, args ...string) bool {
	p, err := ensureProd()
	if err != nil {
		r.Inconc(err.Error())
		return false
	}
	run.Op("exec c20prod %v", args)
	cmd := exec.Command(p, args...)
	if env != nil {
		drop := map[string]bool{}
		for _, kv := range env {
			drop[kv[:strings.Index(kv, "=")]] = true
		}
		for _, kv := range os.Environ() {
			if i := strings.Index(kv, "="); i > 0 && drop[kv[:i]] {
				continue
			}
			cmd.Env = append(cmd.Env, kv)
		}
		for _, kv := range env {
			if !strings.HasSuffix(kv, "=") {
				cmd.Env = append(cmd.Env, kv)
			}
		}
	}
	var so, se bytes.Buffer
	cmd.Stdout, cmd.Stderr = &so, &se
	if err := cmd.Run(); err != nil {
		line := run.CrashLine(se.String())
		if line != "" {
			r.Violationf("crash-production-build:"+run.Normalize(line), map[string]interface{}{"args": args, "stderr": tailStr(se.String(), 3000)}, "production-tag probe died: %s", line)
		} else {
			r.Inconc(fmt.Sprintf("production-tag probe %v failed: %v; stderr: %.300s", args, err, se.String()))
		}
		return false
	}
	if err := json.Unmarshal(so.Bytes(), v); err != nil {
		r.Inconc(fmt.Sprintf("production-tag probe %v printed no JSON: %v", args, err))
		return false
	}
	return true
}

func tailStr(s string, n int) string {
	if len(s) > n {
		return s[len(s)-n:]
	}
	return s
}

// ---------------------------------------------------------------- plan

func planBase(tier string, seed int64) []run.Batch {
	// Build the production-tag probe once, before any child needs it (children
	// fall back to building it themselves, e.g. in a replay).
	if _, err := ensureProd(); err != nil {
		fmt.Fprintln(os.Stderr, "C20:", err)
	}
	var bs []run.Batch
	add := func(kind string, i int, params map[string]string) {
		to := 110
		if strings.HasPrefix(kind, "prod-") {
			to = 300 // hosts no test-mode server (those panic by design after 120 s)
		}
		bs = append(bs, run.Batch{Kind: kind, Seed: seed*1000 + int64(len(bs)), TimeoutS: to, Params: params, N: i})
	}
	if tier == "thorough" {
		for i := 0; i < 16; i++ {
			add("prod-conv", i, map[string]string{"mode": "exhaustive", "slice": fmt.Sprint(i), "of": "16"})
		}
	}
	add("prod-conv", 0, map[string]string{"mode": "quick"})
	add("prod-consts", 0, nil)
	add("measure-window", 0, nil)
	add("measure-startup", 0, nil)
	add("rot-fault", 0, nil)
	add("startup-long", 0, map[string]string{"populated": "no"})
	add("startup-long", 0, map[string]string{"populated": "yes"})
	add("startup-rem", 0, nil)
	add("first-check", 0, nil)
	add("extremes-low", 0, nil)
	// server window offsets near 2^32 (offset = record offset + 2016)
	for _, off := range highOffsets {
		add("extremes-high", 0, map[string]string{"offset": fmt.Sprint(off)})
	}
	// rotation trigger and start-up threshold for windows at other absolute
	// positions: windows that CONTAIN a timeslot k*2^32/300 (where timeslot*300
	// leaves 32 bits) and a window just below 2^32
	for _, off := range atOffsets(seed) {
		add("trigger-at", 0, map[string]string{"offset": fmt.Sprint(off)})
		add("startup-at", 0, map[string]string{"offset": fmt.Sprint(off)})
	}
	if tier == "thorough" {
		for _, off := range atOffsets(seed + 1000) {
			add("trigger-at", 1, map[string]string{"offset": fmt.Sprint(off)})
			add("startup-at", 1, map[string]string{"offset": fmt.Sprint(off)})
		}
	}
	if tier == "thorough" {
		// a second, differently seeded pass over every behavioural kind
		add("measure-window", 1, nil)
		add("measure-startup", 1, nil)
		add("extremes-low", 1, nil)
		for _, off := range highOffsets {
			add("extremes-high", 1, map[string]string{"offset": fmt.Sprint(off)})
		}
	}
	return bs
}

// multiples of 2016 just below 2^32: window end 2^32-256 (fits), and two
// whose window end lies beyond 2^32.
var highOffsets = []uint32{2130438 * 2016, 2130439 * 2016, 2130440 * 2016}

// wrapSlot is the first timeslot whose start, in seconds since genesis,
// needs more than 32 bits for the k-th time: ceil(k*2^32/300).
func wrapSlot(k int64) int64 { return (k*two32 + 299) / 300 }

// atOffsets: for k = 1, 2 and a seed-chosen k the largest multiple of 2016
// below the wrap slot (so the window contains it, and the clock passes it
// before the trigger gap), plus the highest window that still ends below 2^32.
func atOffsets(seed int64) []uint32 {
	ks := []int64{1, 2, 3 + (seed*7919)%296}
	var out []uint32
	for _, k := range ks {
		out = append(out, uint32(wrapSlot(k)/2016*2016))
	}
	return append(out, highOffsets[0])
}

func childBase(b run.Batch, r *ev.Result) {
	switch b.Kind {
	case "startup-long":
		childStartupLong(b, r)
	case "startup-rem":
		childStartupRem(b, r)
	case "first-check":
		childFirstCheck(b, r)
	case "trigger-at":
		childTriggerAt(b, r)
	case "startup-at":
		childStartupAt(b, r)
	case "prod-consts":
		childConsts(b, r)
	case "prod-conv":
		childConv(b, r)
	case "rot-fault":
		childRotFault(b, r)
	case "measure-window":
		childMeasureWindow(b, r)
	case "measure-startup":
		childMeasureStartup(b, r)
	case "extremes-low":
		childExtremesLow(b, r)
	case "extremes-high":
		childExtremesHigh(b, r)
	default:
		r.Inconc("unknown batch kind " + b.Kind)
	}
}

// ---------------------------------------------------------------- production children

type constsOut struct {
	TZ             string                 `json:"tz"`
	ZoneName       string                 `json:"zone_name"`
	ZoneOffsetS    int                    `json:"zone_offset_s"`
	ZoneOffsetGenS int                    `json:"zone_offset_at_genesis_s"`
	GenesisTime    int64                  `json:"genesis_time"`
	DateUnix       int64                  `json:"date_unix"`
	GenesisWeekday string                 `json:"genesis_weekday"`
	Brackets       int                    `json:"brackets"`
	BracketsSkew   int                    `json:"brackets_clock_went_backwards"`
	BracketBad     []interface{}          `json:"bracket_bad"`
	BracketSample  interface{}            `json:"bracket_sample"`
	Server         map[string]interface{} `json:"server"`
	Client         map[string]interface{} `json:"client"`
}

func childConsts(b run.Batch, r *ev.Result) {
	var o constsOut
	if !runProd(r, &o, "consts", "4000") {
		return
	}
	want := time.Date(2023, 11, 19, 0, 0, 0, 0, time.UTC).Unix()
	r.Eval(1)
	if o.GenesisTime != docGenesis || o.GenesisTime != want || o.DateUnix != want {
		r.Violationf("production-genesis-wrong", map[string]interface{}{"genesis_time": o.GenesisTime, "want": want},
			"production glow.GenesisTime is %d, want %d = 2023-11-19 00:00:00 UTC (probe's own time.Date gives %d)", o.GenesisTime, want, o.DateUnix)
	}
	r.Eval(o.Brackets)
	r.Count("prod.current_timeslot_brackets", int64(o.Brackets))
	r.Count("prod.current_timeslot_brackets_discarded", int64(o.BracketsSkew))
	if len(o.BracketBad) > 0 {
		r.Violationf("production-current-timeslot-off-clock", map[string]interface{}{"brackets": o.BracketBad},
			"production CurrentTimeslot() is outside [floor((t0-G)/300), floor((t1-G)/300)] for the bracketing clock reads: %v", o.BracketBad)
	}
	if tm, _ := o.Server["TestMode"].(bool); tm {
		r.Inconc("the production-tag probe reports server TestMode=true: not a production build")
	}
	if tm, _ := o.Client["TestMode"].(bool); tm {
		r.Inconc("the production-tag probe reports client TestMode=true: not a production build")
	}
	period, ok := o.Server["ReportMigrationFrequency"].(float64)
	if !ok || period <= 0 {
		r.Inconc("production ReportMigrationFrequency not reported")
	} else {
		r.SetExtra("prod.report_migration_frequency_ns", period)
		r.Count("prod.consts_reported", 1)
	}
	// The same production clock under other host time zones: the protocol
	// clock is defined in UTC, the process zone must not move it.
	zones := []string{"UTC", "America/New_York", "Asia/Tokyo", "Asia/Kolkata", "Europe/Berlin", "Pacific/Chatham", "America/St_Johns"}
	zones = append(zones, []string{"Australia/Adelaide", "Pacific/Kiritimati", "Pacific/Pago_Pago", "Asia/Kathmandu", "America/Los_Angeles"}[int(b.Seed%5+5)%5])
	seenOffsets := map[int]bool{}
	var zoneLog []string
	for _, tz := range zones {
		var z constsOut
		if !runProdEnv(r, []string{"TZ=" + tz}, &z, "consts", "1500") {
			return
		}
		r.Eval(z.Brackets + 1)
		r.Count("prod.current_timeslot_brackets", int64(z.Brackets))
		r.Count("prod.current_timeslot_brackets_discarded", int64(z.BracketsSkew))
		zoneLog = append(zoneLog, fmt.Sprintf("%s=%s%+ds(genesis%+ds)", tz, z.ZoneName, z.ZoneOffsetS, z.ZoneOffsetGenS))
		seenOffsets[z.ZoneOffsetGenS] = true
		if z.ZoneOffsetGenS != 0 {
			r.Count("prod.timezones_with_nonzero_offset_at_genesis", 1)
		}
		if len(z.BracketBad) > 0 {
			r.Violationf("production-current-timeslot-off-clock:host-timezone", map[string]interface{}{"TZ": tz, "zone": z.ZoneName, "zone_offset_at_genesis_s": z.ZoneOffsetGenS, "brackets": z.BracketBad},
				"with TZ=%s (UTC offset %+d s on 2023-11-19) production CurrentTimeslot() is outside [floor((t0-G)/300), floor((t1-G)/300)]: %v", tz, z.ZoneOffsetGenS, z.BracketBad)
		}
		if z.GenesisTime != docGenesis {
			r.Violationf("production-genesis-wrong", map[string]interface{}{"TZ": tz, "genesis_time": z.GenesisTime}, "with TZ=%s production GenesisTime is %d", tz, z.GenesisTime)
		}
	}
	// and with TZ removed from the environment (the host's /etc/localtime)
	var z constsOut
	if runProdEnv(r, []string{"TZ="}, &z, "consts", "1500") {
		r.Eval(z.Brackets)
		zoneLog = append(zoneLog, fmt.Sprintf("unset=%s%+ds", z.ZoneName, z.ZoneOffsetS))
		if len(z.BracketBad) > 0 {
			r.Violationf("production-current-timeslot-off-clock:host-timezone", map[string]interface{}{"TZ": "(unset)", "zone": z.ZoneName, "brackets": z.BracketBad},
				"with TZ unset (zone %s) production CurrentTimeslot() is outside the bracket: %v", z.ZoneName, z.BracketBad)
		}
	}
	// The protocol clock is fixed by the protocol, not by the deployment: no
	// variable of the process environment may move genesis or the current
	// timeslot. Candidate names are read off the production binary itself
	// (upper-case identifiers with underscores that mention the project, the
	// genesis, the clock …) and all set to staging-like values at once.
	if p, err := ensureProd(); err == nil {
		if bin, err := os.ReadFile(p); err == nil {
			seen := map[string]bool{}
			var env, names []string
			keys := []string{"GLOW", "GCA", "GENESIS", "TIMESLOT", "CLOCK", "EPOCH", "MAINNET", "TESTNET", "STAGING"}
			for _, m := range regexp.MustCompile(`[A-Z][A-Z0-9]*(?:_[A-Z0-9]+)+`).FindAll(bin, -1) {
				t := string(m)
				for _, k := range keys {
					if i := strings.Index(t, k); i >= 0 && len(t)-i >= 6 && len(t)-i <= 48 {
						for _, cand := range []string{t, t[i:]} {
							if !seen[cand] && len(names) < 400 {
								seen[cand] = true
								names = append(names, cand)
								env = append(env, cand+"="+fmt.Sprint(docGenesis+4648000+int64(len(names))))
							}
						}
					}
				}
			}
			r.Count("prod.environment_names_found_in_binary", int64(len(names)))
			var z constsOut
			if len(env) > 0 && runProdEnv(r, env, &z, "consts", "300") {
				r.Eval(z.Brackets + 1)
				r.Count("prod.runs_with_hostile_environment", 1)
				if z.GenesisTime != docGenesis || len(z.BracketBad) > 0 {
					r.Violationf("production-clock-moved-by-environment", map[string]interface{}{"environment": env, "genesis_time": z.GenesisTime, "brackets": z.BracketBad},
						"with %d environment variables named in the production binary set to staging-like values the production GenesisTime is %d (documented: %d) and CurrentTimeslot() left its bracket %d times", len(env), z.GenesisTime, docGenesis, len(z.BracketBad))
				}
			}
		}
	}
	r.SetExtra("prod.timezones_probed", zoneLog)
	r.SetExtra("prod.genesis_time", o.GenesisTime)
	r.SetExtra("prod.genesis_weekday", o.GenesisWeekday)
	r.SetExtra("prod.server_consts", o.Server)
	r.SetExtra("prod.client_consts", o.Client)
	r.SetExtra("prod.current_timeslot_sample", o.BracketSample)
	r.Sample(map[string]interface{}{"kind": "production constants", "genesis": o.GenesisTime, "current_timeslot_bracket": o.BracketSample, "ReportMigrationFrequency_ns": period})
}

type convOut struct {
	Mode          string           `json:"mode"`
	Lo            int64            `json:"lo"`
	Hi            int64            `json:"hi"`
	Stride        int64            `json:"stride"`
	UnixCalls     int64            `json:"unix_calls"`
	BackCalls     int64            `json:"back_calls"`
	PreGenesis    int64            `json:"pre_genesis_calls"`
	Boundaries    int64            `json:"boundaries"`
	MaxSlot       int64            `json:"max_slot"`
	SlotBound     int64            `json:"slot_bound"`
	MismatchCount map[string]int64 `json:"mismatch_count"`
	Mismatches    []struct {
		Class string `json:"class"`
		T     int64  `json:"t"`
		Slot  int64  `json:"slot"`
		Got   int64  `json:"got"`
		Want  int64  `json:"want"`
		Note  string `json:"note"`
	} `json:"mismatches"`
	BeyondDomain map[string]int64 `json:"beyond_domain_observation"`
}

func childConv(b run.Batch, r *ev.Result) {
	var o convOut
	var ok bool
	if b.P("mode") == "exhaustive" {
		ok = runProd(r, &o, "conv", "exhaustive", b.P("slice"), b.P("of"))
	} else {
		ok = runProd(r, &o, "conv", "quick", fmt.Sprint(b.Seed))
	}
	if !ok {
		return
	}
	r.Eval(int(o.UnixCalls + o.BackCalls + o.PreGenesis))
	r.Count("conv.unix_to_timeslot_calls", o.UnixCalls)
	r.Count("conv.timeslot_to_unix_calls", o.BackCalls)
	r.Count("conv.pre_genesis_calls", o.PreGenesis)
	r.Count("conv_boundary_conversions", o.Boundaries)
	r.Max("max.conv.slot", o.MaxSlot)
	if b.P("mode") == "exhaustive" {
		r.Count("conv.exhaustive_seconds_covered", o.Hi-o.Lo+1)
		r.Count("conv.exhaustive_slices", 1)
	}
	for _, m := range o.Mismatches {
		r.Violationf("conv:"+m.Class, map[string]interface{}{"t": m.T, "slot": m.Slot, "got": m.Got, "want": m.Want, "mode": o.Mode, "build": "production tags"},
			"production build, t=%d (genesis+%d): %s: got %d, want %d %s (class seen %d times)", m.T, m.T-docGenesis, m.Class, m.Got, m.Want, m.Note, o.MismatchCount[m.Class])
	}
	r.SetExtra("conv.beyond_domain_observation_not_judged", o.BeyondDomain)
	if b.P("mode") != "exhaustive" {
		r.Sample(map[string]interface{}{"kind": "conversion sweep", "mode": o.Mode, "unix_calls": o.UnixCalls, "max_slot": o.MaxSlot, "slot_bound": o.SlotBound, "beyond_domain_not_judged": o.BeyondDomain})
	}
}

// ---------------------------------------------------------------- behavioural prober

// rule is the property's acceptance-window rule, evaluated in integers.
func rule(now, off, slot uint32) bool {
	d := int64(slot) - int64(now)
	if d < 0 {
		d = -d
	}
	return d <= halfWidth && int64(off) <= int64(slot) && int64(slot) < int64(off)+windowLen
}

type prober struct {
	w     *drv.World
	r     *ev.Result
	rng   *rand.Rand
	devs  []*drv.Dev
	used  []map[uint32]bool
	next  uint32
	power uint64
	n     int
	label string
}

func newWorld(dir string, rng *rand.Rand, preseed func(e *drv.Srv) error) (*drv.World, error) {
	e, err := drv.NewServerDir(dir, rng, true)
	if err != nil {
		return nil, err
	}
	if preseed != nil {
		if err := preseed(e); err != nil {
			return nil, err
		}
	}
	if err := e.Start(); err != nil {
		return nil, fmt.Errorf("server start: %v", err)
	}
	w := &drv.World{Srv: e, GCA: refenc.GenKey(rng), Devs: map[uint32]*drv.Dev{}, Rng: rng}
	st, body, err := e.Register(w.GCA.Pub, e.Temp.Priv)
	if err != nil || st != 200 {
		e.Close()
		return nil, fmt.Errorf("GCA registration failed: status %d err %v body %s", st, err, body)
	}
	return w, nil
}

// devFor returns a device that has not yet been sent a report for the slot,
// so that every probe meets an empty slot.
func (p *prober) devFor(slot uint32) (*drv.Dev, error) {
	for i, d := range p.devs {
		if !p.used[i][slot] {
			p.used[i][slot] = true
			return d, nil
		}
	}
	p.next++
	d, err := p.w.AddDevice(1000+p.next, 1<<40)
	for try := 0; err != nil && try < 3; try++ {
		// transport error (the test-mode server closes idle keep-alive
		// connections after 2.5 s): authorize another fresh id
		p.next++
		d, err = p.w.AddDevice(1000+p.next, 1<<40)
	}
	if err != nil {
		return nil, err
	}
	p.devs = append(p.devs, d)
	p.used = append(p.used, map[uint32]bool{slot: true})
	return d, nil
}

func (p *prober) offset() uint32 { return p.w.S.VerifSnapshot(false).Offset }

func (p *prober) logLen() int64 {
	st, err := os.Stat(filepath.Join(p.w.Dir, "equipment-reports.dat"))
	if err != nil {
		return -1
	}
	return st.Size()
}

// probe sends one otherwise acceptable report (authorized device, valid
// signature, power >= 2 and far below capacity, empty slot) at the current
// clock and returns whether the server accepted it. The outcome is judged
// against the integer rule.
func (p *prober) probe(now, slot uint32) (accepted bool, ok bool) {
	d, err := p.devFor(slot)
	if err != nil {
		p.r.Inconc("cannot authorize a probe device: " + err.Error())
		return false, false
	}
	p.n++
	p.power++
	off := p.offset()
	rep := d.Report(slot, 2+p.power)
	viaSocket := p.n%9 == 4
	run.Op("probe %s now=%d offset=%d slot=%d dev=%d socket=%v", p.label, now, off, slot, d.ID, viaSocket)
	before := p.logLen()
	if viaSocket {
		if err := p.w.SendUDP(rep.Bytes()); err != nil {
			p.r.Inconc("socket delivery: " + err.Error())
			return false, false
		}
		p.r.Count("probes_via_socket", 1)
	} else {
		p.w.Inject(rep.Bytes())
	}
	after := p.logLen()
	accepted = after == before+80
	if after != before && !accepted {
		p.r.Inconc(fmt.Sprintf("report log changed by %d bytes for one probe", after-before))
		return false, false
	}
	// second witness where the slot has an index in the stored window
	if idx := int64(slot) - int64(off); idx >= 0 && idx < windowLen {
		if got, _, _, present := p.w.S.VerifSlot(d.ID, int(idx)); present {
			stored := drv.RefReport(got) == rep
			if stored != accepted {
				p.r.Inconc(fmt.Sprintf("acceptance witnesses disagree at now=%d offset=%d slot=%d: log grew=%v, slot holds the report=%v", now, off, slot, accepted, stored))
				return false, false
			}
			p.r.Count("witness_slot_agrees_with_log", 1)
		}
	}
	want := rule(now, off, slot)
	p.r.Eval(1)
	dn := int64(slot) - int64(now)
	for _, e := range []int64{dn - halfWidth, dn + halfWidth, int64(slot) - int64(off), int64(slot) - int64(off) - (windowLen - 1)} {
		if e >= -2 && e <= 2 {
			p.r.Nontrivial(fmt.Sprintf("%d/%d/%d", now, off, slot))
			break
		}
	}
	if accepted {
		p.r.Count("probes_accepted", 1)
	} else {
		p.r.Count("probes_rejected", 1)
	}
	if accepted != want {
		class := "accepted-but-rule-rejects"
		if want {
			class = "rejected-but-rule-accepts"
		}
		if int64(off)+windowLen > two32 {
			class += ":window-end-beyond-2^32"
		}
		p.r.Violationf("window-rule-mismatch:"+class, map[string]interface{}{"now": now, "offset": off, "slot": slot, "accepted": accepted, "config": p.label},
			"now=%d offset=%d slot=%d (slot-now=%d, slot-offset=%d): server accepted=%v but |slot-now|<=432 and offset<=slot<offset+4032 over the integers gives %v",
			now, off, slot, dn, int64(slot)-int64(off), accepted, want)
	}
	return accepted, true
}

func startGated(b run.Batch, r *ev.Result, clock uint32, preseed func(e *drv.Srv) error) (*prober, func()) {
	rng := rand.New(rand.NewSource(b.Seed))
	drv.SetClock(clock)
	drv.GateRotation(true)
	drv.GateImpact(true)
	arrived := drv.RotationArrive.Load()
	w, err := newWorld(filepath.Join(b.Dir, "srv"), rng, preseed)
	if err != nil {
		r.Inconc("cannot start world: " + err.Error())
		return nil, func() {}
	}
	p := &prober{w: w, r: r, rng: rng, label: b.Kind}
	done := func() {
		// the closing server releases its parked rotation loop for a last
		// iteration: put the clock where that iteration has nothing to do
		if w.S != nil {
			drv.SetClock(p.offset())
		}
		w.Close()
		os.RemoveAll(w.Dir)
	}
	if !waitParked(arrived) {
		r.Inconc("the rotation loop did not reach its gate after start")
		done()
		return nil, func() {}
	}
	return p, done
}

// waitParked waits until the rotation loop of a freshly started server has
// reached its gate (arrival counter above prev). Wall clock only guards
// against a hang (inconclusive).
func waitParked(prev int64) bool {
	deadline := time.Now().Add(15 * time.Second)
	for drv.RotationArrive.Load() <= prev {
		if time.Now().After(deadline) {
			return false
		}
		time.Sleep(time.Millisecond)
	}
	return true
}

// ---------------------------------------------------------------- measure: half-width, window, trigger

func childMeasureWindow(b run.Batch, r *ev.Result) {
	p, done := startGated(b, r, 0, nil)
	if p == nil {
		return
	}
	defer done()
	if _, err := p.devFor(0); err != nil { // one device so that rotations archive something
		r.Inconc(err.Error())
		return
	}
	p.used[0] = map[uint32]bool{}

	// ---- background rotation trigger: smallest now-offset at which a
	// released loop iteration rotates = 1 + largest gap seen not rotating.
	maxNoRotate, minRotate := int64(-1), int64(math.MaxInt64)
	watchdog := false
	step := func(gap int64) (rotated bool) {
		if watchdog {
			return false
		}
		off := p.offset()
		now := int64(off) + gap
		if now >= two32 {
			r.Inconc("rotation measurement ran out of 32-bit room")
			return false
		}
		drv.SetClock(uint32(now))
		run.Op("step rotation offset=%d gap=%d", off, gap)
		n := drv.StepRotation()
		if n < 0 {
			watchdog = true
			r.Inconc(fmt.Sprintf("the rotation loop did not come round within the watchdog time at gap %d (no conclusion)", gap))
			return false
		}
		after := p.offset()
		r.Eval(1)
		r.Count("rotation_steps", 1)
		if int64(after)-int64(off) != int64(n)*2016 {
			r.Inconc(fmt.Sprintf("rotation loop iteration reported %d rotations but the offset moved %d -> %d", n, off, after))
		}
		if n > 0 {
			r.Count("rotations_observed", int64(n))
			if gap < minRotate {
				minRotate = gap
			}
			return true
		}
		if gap > maxNoRotate {
			maxNoRotate = gap
		}
		return false
	}
	lo, hi := int64(0), int64(9000)
	if step(lo) {
		lo = -1
	}
	if !step(hi) {
		if watchdog {
			return
		}
		r.Violationf("rotation-never-triggered", map[string]interface{}{"gap": hi}, "a released rotation-loop iteration did not rotate at now-offset=%d", hi)
		return
	}
	for hi-lo > 1 && !watchdog {
		mid := (lo + hi) / 2
		if step(mid) {
			hi = mid
		} else {
			lo = mid
		}
	}
	// neighbourhood of the threshold, ascending, plus far samples (a trigger
	// that is not a threshold must not hide behind the binary search)
	far := []int64{hi + 100, hi + 399, hi + 400, 3599, 3600, 3601, 3999, 4000, 4031, 4032, 4033, 5000, 6047, 6048, 8000, hi + b.Seed%97, 4032 + (b.Seed*31)%3000}
	for g := hi - 12; g <= hi+12; g++ {
		if g >= 0 {
			step(g)
		}
	}
	for _, g := range far {
		if g >= 0 {
			step(g)
		}
	}
	if watchdog {
		return // a step without an answer: no measurement is reported
	}
	trigger := maxNoRotate + 1
	r.SetExtra("measured.rotation_trigger", trigger)
	r.SetExtra("measured.rotation_smallest_rotating_gap", minRotate)
	r.Count("measured_trigger", 1)
	if minRotate != trigger {
		r.Note("rotation is not a pure threshold: smallest rotating gap %d, largest non-rotating gap %d", minRotate, maxNoRotate)
	}
	r.Sample(map[string]interface{}{"kind": "rotation trigger", "largest_gap_without_rotation": maxNoRotate, "smallest_gap_with_rotation": minRotate})

	// ---- acceptance half-width, away from both window ends
	off := p.offset()
	if off < 2016 {
		r.Inconc("expected at least one rotation before the window measurements")
		return
	}
	p.label = "halfwidth"
	now := off + 1900 + uint32(p.rng.Intn(200))
	drv.SetClock(now)
	up, down := int64(-1), int64(-1)
	upGap, downGap := false, false
	for d := 0; d <= 520; d++ {
		for _, sign := range []int64{1, -1} {
			if d == 0 && sign < 0 {
				continue
			}
			acc, ok := p.probe(now, uint32(int64(now)+sign*int64(d)))
			if !ok {
				return
			}
			if acc {
				if sign > 0 {
					if int64(d) != up+1 {
						upGap = true
					}
					up = int64(d)
				} else {
					if int64(d) != down+1 && d != 1 {
						downGap = true
					}
					down = int64(d)
				}
			}
		}
	}
	r.SetExtra("measured.halfwidth_future", up)
	r.SetExtra("measured.halfwidth_past", down)
	if upGap || downGap {
		r.Note("accepted distances are not contiguous (future gap=%v, past gap=%v)", upGap, downGap)
	}
	r.Count("measured_halfwidth", 1)

	// ---- storage window: lowest and highest accepted index
	p.label = "window"
	minIdx, maxIdx := int64(math.MaxInt64), int64(-1)
	sweep := func(now uint32, from, to int64) bool {
		drv.SetClock(now)
		for s := from; s <= to; s++ {
			if s < 0 || s >= two32 {
				continue
			}
			acc, ok := p.probe(now, uint32(s))
			if !ok {
				return false
			}
			if acc {
				idx := s - int64(off)
				if idx < minIdx {
					minIdx = idx
				}
				if idx > maxIdx {
					maxIdx = idx
				}
			}
		}
		return true
	}
	// low edge: now close to the offset, slots on both sides of it
	if !sweep(off+100, int64(off)-340, int64(off)+40) {
		return
	}
	if !sweep(off, int64(off)-40, int64(off)+40) {
		return
	}
	// high edge: now-offset in 3600..4031+432 so that slots around offset+4032 are in reach
	for _, g := range []int64{3599, 3600, 3601, 3800, 4031, 4032, 4200, 4463, 4464} {
		if !sweep(uint32(int64(off)+g), int64(off)+4032-24, int64(off)+4032+24) {
			return
		}
	}
	if maxIdx < 0 {
		r.Inconc("no probe was accepted in the window sweeps")
		return
	}
	r.SetExtra("measured.window_lowest_index", minIdx)
	r.SetExtra("measured.window_highest_index", maxIdx)
	r.SetExtra("measured.window_length", maxIdx-minIdx+1)
	r.Count("measured_window", 1)
	r.Sample(map[string]interface{}{"kind": "measured acceptance", "halfwidth_future": up, "halfwidth_past": down, "window_lowest_index": minIdx, "window_highest_index": maxIdx, "offset": off})
	if mf, sf := p.w.S.VerifTryLock(); !mf || !sf {
		time.Sleep(50 * time.Millisecond)
		if mf, sf = p.w.S.VerifTryLock(); !mf || !sf {
			r.Note("a server mutex was held at the end of the measurement (main free=%v, servers free=%v)", mf, sf)
		}
	}
}

// ---------------------------------------------------------------- measure: start-up catch-up

func childMeasureStartup(b run.Batch, r *ev.Result) {
	p, done := startGated(b, r, 0, nil)
	if p == nil {
		return
	}
	defer done()
	if _, err := p.devFor(0); err != nil {
		r.Inconc(err.Error())
		return
	}
	p.used[0] = map[uint32]bool{}
	p.label = "startup"
	maxNoCatch, minCatch := int64(-1), int64(math.MaxInt64)
	catchups := map[int64]int{}
	// restart with the clock at offset+gap; returns the number of rotations
	// NewGCAServer performed before returning.
	restart := func(gap int64) (int64, bool) {
		off := p.offset()
		now := int64(off) + gap
		if now+halfWidth+windowLen >= two32 {
			r.Inconc("start-up measurement ran out of 32-bit room")
			return 0, false
		}
		run.Op("restart offset=%d gap=%d", off, gap)
		drv.SetClock(off) // the closing server's released loop iteration must find nothing to do
		if err := p.w.Close(); err != nil {
			r.Inconc("close: " + err.Error())
			return 0, false
		}
		if got := lastRecordOffset(p.w.ReadFile("allDeviceStats.dat")); got != int64(off) {
			r.Inconc(fmt.Sprintf("window offset on disk is %d after close, in memory it was %d", got, off))
			return 0, false
		}
		drv.SetClock(uint32(now))
		arrived := drv.RotationArrive.Load()
		if err := p.w.Start(); err != nil {
			r.Violationf("restart-failed", map[string]interface{}{"offset": off, "gap": gap}, "server did not start with the clock at offset+%d: %v", gap, err)
			return 0, false
		}
		if !waitParked(arrived) {
			r.Inconc("the rotation loop did not reach its gate after a restart")
			return 0, false
		}
		after := p.offset()
		r.Eval(1)
		r.Count("restarts", 1)
		if (int64(after)-int64(off))%2016 != 0 || after < off {
			r.Inconc(fmt.Sprintf("offset moved %d -> %d across a restart", off, after))
			return 0, false
		}
		n := (int64(after) - int64(off)) / 2016
		catchups[n]++
		if n > 0 {
			if gap < minCatch {
				minCatch = gap
			}
		} else if gap > maxNoCatch {
			maxNoCatch = gap
		}
		rp := map[string]interface{}{"offset_before": off, "gap": gap, "offset_after_start": after, "now": now}
		if !oldestAccepted(p, r, now, n, fmt.Sprintf("restart with now-offset=%d, right after start", gap), rp) {
			return 0, false
		}
		// The cadence must leave every acceptable report inside the window:
		// after start-up and the first iteration of the rotation loop (which
		// the ungated server runs at once) the furthest acceptable slot,
		// now+432, must be storable.
		n2 := drv.StepRotation()
		if n2 < 0 {
			r.Inconc("the rotation loop did not come round within the watchdog time after a restart (no conclusion)")
			return 0, false
		}
		r.Count("rotations_observed", int64(n2))
		if !oldestAccepted(p, r, now, n+int64(n2), fmt.Sprintf("restart with now-offset=%d, after the first loop iteration", gap), rp) {
			return 0, false
		}
		acc, ok := p.probe(uint32(now), uint32(now+halfWidth))
		if !ok {
			return 0, false
		}
		if !acc {
			r.Count("startup_far_report_rejected", 1)
			r.Violationf("startup-leaves-acceptable-report-outside-window", map[string]interface{}{"offset_before": off, "gap": gap, "offset_after_start": after, "offset_after_first_loop_iteration": p.offset(), "now": now},
				"start with now-offset=%d (%d start-up rotations, %d by the first loop iteration): the acceptable report for slot now+432 is refused, window offset is %d", gap, n, n2, p.offset())
		} else {
			r.Count("startup_far_report_accepted", 1)
		}
		acc2, ok := p.probe(uint32(now), uint32(now))
		if !ok {
			return 0, false
		}
		if acc2 {
			r.Count("startup_current_report_accepted", 1)
		}
		return n, true
	}
	lo, hi := int64(0), int64(12000)
	n, ok := restart(lo)
	if !ok {
		return
	}
	if n > 0 {
		lo = -1
	}
	if n, ok = restart(hi); !ok {
		return
	} else if n == 0 {
		r.Note("start-up did not rotate at a gap of %d", hi)
		r.SetExtra("measured.catchup_threshold", "none up to 12000")
		return
	}
	for hi-lo > 1 {
		mid := (lo + hi) / 2
		if n, ok = restart(mid); !ok {
			return
		}
		if n > 0 {
			hi = mid
		} else {
			lo = mid
		}
	}
	gaps := []int64{hi - 3, hi - 2, hi - 1, hi, hi + 1, hi + 2, 3200, 3201, 3599, 3600, 3601, 4463, 4464, 2*2016 + 0, 2*2016 + 431, 3*2016 + 1, 3*2016 + 432, 7*2016 + 100, 7*2016 + 433, hi + 2015, hi + 2016, hi + 2017, 8063, 8064, 10000, 5000 + (b.Seed*53)%5000}
	if b.Tier == "thorough" {
		for i := 0; i < 20; i++ {
			gaps = append(gaps, int64(p.rng.Intn(12000)))
		}
	}
	for _, g := range gaps {
		if g < 0 {
			continue
		}
		if _, ok = restart(g); !ok {
			return
		}
	}
	r.SetExtra("measured.catchup_threshold", maxNoCatch+1)
	r.SetExtra("measured.catchup_smallest_rotating_gap", minCatch)
	r.SetExtra("measured.catchup_rotations_histogram", fmt.Sprint(catchups))
	r.Count("measured_catchup", 1)
	r.Sample(map[string]interface{}{"kind": "start-up catch-up", "largest_gap_without_rotation_at_start": maxNoCatch, "smallest_gap_with_rotation_at_start": minCatch, "rotations_per_start": fmt.Sprint(catchups)})
}

// lastRecordOffset returns offset+2016 of the last weekly record of a history
// file (0 for an empty file), parsed with the reference decoder.
func lastRecordOffset(b []byte) int64 {
	if len(b) == 0 {
		return 0
	}
	recs, err := refenc.ParseStatsStream(b)
	if err != nil || len(recs) == 0 {
		return -1
	}
	return int64(recs[len(recs)-1].Week) + 2016
}

// ---------------------------------------------------------------- start-up after a very long gap

// afterStart judges one start-up: right after NewGCAServer returned (the
// rotation loop is parked at its gate and cannot help) the report for the
// current slot must be storable; after ONE released loop iteration the whole
// acceptance range up to now+432 must be.
// oldestAccepted: once a rotation has happened in this start-up episode the
// window start must not have passed the oldest acceptable slots: reports for
// now-432 .. now-1 must still be storable (the unchanged rules rotate only
// while now-offset >= 4000, or > 3200 in the loop, and so leave >= 1185 slots
// behind the clock). Without a rotation nothing is demanded: a window that
// starts less than 432 slots before the clock (genesis) is legitimate.
func oldestAccepted(p *prober, r *ev.Result, now int64, rotated int64, stage string, replay map[string]interface{}) bool {
	if rotated < 1 {
		return true
	}
	slots := []int64{now - halfWidth, now - halfWidth + 1, now - 1 - p.rng.Int63n(halfWidth-1), now - 1}
	for _, s := range slots {
		if s < 0 {
			continue
		}
		acc, ok := p.probe(uint32(now), uint32(s))
		if !ok {
			return false
		}
		if !acc {
			r.Violationf("rotation-drops-oldest-acceptable-slots", replay,
				"%s: %d rotation(s) moved the window start to %d, now=%d (now-offset=%d): the acceptable report for slot now-%d is refused because the window start has passed it",
				stage, rotated, p.offset(), now, now-int64(p.offset()), now-s)
			return true
		}
		r.Count("startup_oldest_slot_accepted", 1)
	}
	return true
}

func afterStart(p *prober, r *ev.Result, off0 uint32, now int64, what string) bool {
	after := p.offset()
	r.Eval(1)
	r.Count("restarts", 1)
	r.Max("max.startup_gap_weeks", (now-int64(off0))/2016)
	r.Max("max.startup_rotations", (int64(after)-int64(off0))/2016)
	replay := map[string]interface{}{"offset_before": off0, "now": now, "gap": now - int64(off0), "offset_after_start": after, "case": what}
	acc, ok := p.probe(uint32(now), uint32(now))
	if !ok {
		return false
	}
	if !acc {
		r.Violationf("startup-leaves-current-slot-outside-window", replay,
			"%s: start with now-offset=%d (= %d weeks + %d) returned with window offset %d, now-offset=%d: the report for the current timeslot is refused before the rotation loop has run at all",
			what, now-int64(off0), (now-int64(off0))/2016, (now-int64(off0))%2016, after, now-int64(after))
	} else {
		r.Count("startup_current_report_accepted", 1)
	}
	nStart := (int64(after) - int64(off0)) / 2016
	if !oldestAccepted(p, r, now, nStart, what+", right after start", replay) {
		return false
	}
	n2 := drv.StepRotation()
	if n2 < 0 {
		r.Inconc("the rotation loop did not come round within the watchdog time after a start (no conclusion)")
		return false
	}
	r.Count("rotations_observed", int64(n2))
	if !oldestAccepted(p, r, now, nStart+int64(n2), what+", after the first loop iteration", replay) {
		return false
	}
	far := now + halfWidth
	if far >= two32 {
		far = two32 - 1
	}
	acc, ok = p.probe(uint32(now), uint32(far))
	if !ok {
		return false
	}
	if !acc {
		replay["offset_after_first_loop_iteration"] = p.offset()
		r.Violationf("startup-leaves-acceptable-report-outside-window", replay,
			"%s: start with now-offset=%d (%d start-up rotations, %d by the first loop iteration): the acceptable report for slot now+432 is refused, window offset is %d",
			what, now-int64(off0), (int64(after)-int64(off0))/2016, n2, p.offset())
	} else {
		r.Count("startup_far_report_accepted", 1)
	}
	return true
}

// childStartupRem: fresh servers started k whole weeks plus a small remainder
// after their window start; the catch-up must leave the oldest acceptable
// slots inside the window.
func childStartupRem(b run.Batch, r *ev.Result) {
	rng := rand.New(rand.NewSource(b.Seed))
	for i, k := range []int64{2, 3, 7, 4 + rng.Int63n(40)} {
		for _, d := range []int64{0, 1, 100, 431, 432, 433, rng.Int63n(432)} {
			now := k*2016 + d
			bb := b
			bb.Dir = filepath.Join(b.Dir, fmt.Sprintf("k%d-%d", i, d))
			bb.Seed = b.Seed + int64(i)*1000 + d
			os.MkdirAll(bb.Dir, 0755)
			run.Op("fresh start weeks=%d remainder=%d", k, d)
			p, done := startGated(bb, r, uint32(now), nil)
			if p == nil {
				return
			}
			p.label = fmt.Sprintf("startup-rem weeks=%d d=%d", k, d)
			ok := afterStart(p, r, 0, now, fmt.Sprintf("fresh server started %d weeks + %d slots after its window offset", k, d))
			done()
			if !ok {
				return
			}
			r.Count("startup_rem_cases", 1)
		}
	}
}

func childStartupLong(b run.Batch, r *ev.Result) {
	rng := rand.New(rand.NewSource(b.Seed))
	weeks := []int64{259, 260, 261, 262, 300, 520, 1000, 3000, 263 + rng.Int63n(5000)}
	if b.P("populated") == "yes" {
		// a server with a device and reports: every rotation archives 32 KiB,
		// so fewer and shorter gaps, one after the other on the same directory
		weeks = []int64{260, 261, 264 + rng.Int63n(30), 300 + rng.Int63n(60)}
		p, done := startGated(b, r, 0, nil)
		if p == nil {
			return
		}
		defer done()
		p.label = "startup-long populated"
		for i := 0; i < 3; i++ {
			if _, ok := p.probe(0, uint32(5+7*i)); !ok {
				return
			}
		}
		for _, k := range weeks {
			off := p.offset()
			now := int64(off) + k*2016 + 2016 + rng.Int63n(1984) // the remainder that needs one more rotation than k
			run.Op("restart populated offset=%d weeks=%d now=%d", off, k, now)
			drv.SetClock(off)
			if err := p.w.Close(); err != nil {
				r.Inconc("close: " + err.Error())
				return
			}
			drv.SetClock(uint32(now))
			arrived := drv.RotationArrive.Load()
			if err := p.w.Start(); err != nil {
				r.Violationf("restart-failed", map[string]interface{}{"offset": off, "now": now}, "server did not start with the clock %d weeks past its window: %v", k, err)
				return
			}
			if !waitParked(arrived) {
				r.Inconc("the rotation loop did not reach its gate after a restart")
				return
			}
			if !afterStart(p, r, off, now, fmt.Sprintf("populated server, %d weeks of downtime", k)) {
				return
			}
			r.Count("startup_long_cases", 1)
		}
		return
	}
	for i, k := range weeks {
		for _, d := range []int64{rng.Int63n(1984), 2016 + rng.Int63n(1984), []int64{0, 1, 100, 431, 432, 433}[rng.Intn(6)]} {
			now := k*2016 + d
			bb := b
			bb.Dir = filepath.Join(b.Dir, fmt.Sprintf("k%d-%d", i, d))
			bb.Seed = b.Seed + int64(i)*10 + d%10
			os.MkdirAll(bb.Dir, 0755)
			run.Op("fresh start weeks=%d now=%d", k, now)
			p, done := startGated(bb, r, uint32(now), nil)
			if p == nil {
				return
			}
			p.label = fmt.Sprintf("startup-long fresh weeks=%d", k)
			ok := afterStart(p, r, 0, now, fmt.Sprintf("fresh server started %d weeks after its window offset", k))
			done()
			if !ok {
				return
			}
			r.Count("startup_long_cases", 1)
		}
	}
	r.Sample(map[string]interface{}{"kind": "start-up after long gaps", "weeks": weeks, "populated": b.P("populated")})
}

// ---------------------------------------------------------------- the first rotation check is not preceded by a sleep

// childFirstCheck runs with the rotation gate OPEN. A server is started with
// now-offset inside (3200, 4000): the start-up catch-up leaves that to the
// background loop, whose first pass must come at once, not one check period
// later (in production 3999 + 12 + 432 > 4032). Wall-clock progress bound
// with a scheduler-responsiveness control; see Spec.Assumptions.
func childFirstCheck(b run.Batch, r *ev.Result) {
	rng := rand.New(rand.NewSource(b.Seed))
	period := server.VerifConsts().ReportMigrationFrequency
	if period < 20*time.Millisecond {
		r.Inconc(fmt.Sprintf("rotation check period of this build is %v: too short to time", period))
		return
	}
	drv.GateRotation(false)
	drv.GateImpact(true)
	var stamp atomic.Int64 // unix nanos of the first migrateReports of the current trial
	server.VerifSetHook("migrate.beforeLock", func(*server.GCAServer) {
		stamp.CompareAndSwap(0, time.Now().UnixNano())
	})
	var elapsed []time.Duration
	fast, slow, slowResponsive := 0, 0, 0
	trials := 0
	for trials < 30 {
		trials++
		gap := int64(3201 + rng.Intn(799))
		if trials%3 == 1 {
			gap = []int64{3990, 3999, 3601, 3201}[(trials/3)%4]
		}
		dir := filepath.Join(b.Dir, fmt.Sprintf("t%d", trials))
		e, err := drv.NewServerDir(dir, rng, true)
		if err != nil {
			r.Inconc(err.Error())
			return
		}
		drv.SetClock(uint32(gap)) // fresh directory: window offset 0
		stamp.Store(0)
		// scheduler watchdog: wakes every millisecond, remembers its largest gap
		var maxGap atomic.Int64
		stop := make(chan struct{})
		var wg sync.WaitGroup
		wg.Add(1)
		go func() {
			defer wg.Done()
			last := time.Now()
			for {
				select {
				case <-stop:
					return
				default:
				}
				time.Sleep(time.Millisecond)
				n := time.Now()
				if g := int64(n.Sub(last)); g > maxGap.Load() {
					maxGap.Store(g)
				}
				last = n
			}
		}()
		run.Op("ungated start gap=%d trial=%d", gap, trials)
		t0 := time.Now() // before NewGCAServer: any sleep the loop does starts after this instant
		if err := e.Start(); err != nil {
			close(stop)
			wg.Wait()
			r.Inconc("start: " + err.Error())
			return
		}
		deadline := t0.Add(20 * period)
		for stamp.Load() == 0 && time.Now().Before(deadline) {
			time.Sleep(200 * time.Microsecond)
		}
		st := stamp.Load()
		close(stop)
		wg.Wait()
		d := 20 * period
		if st != 0 {
			d = time.Duration(st - t0.UnixNano())
		}
		off := e.S.VerifSnapshot(false).Offset
		drv.SetClock(off)
		e.Close()
		os.RemoveAll(dir)
		r.Eval(1)
		elapsed = append(elapsed, d)
		responsive := time.Duration(maxGap.Load()) < period/4
		switch {
		case d < period/2:
			fast++
		case d >= period:
			slow++
			if responsive {
				slowResponsive++
			}
		}
		if fast > 0 {
			break // established: the first check is not preceded by a sleep of one period
		}
		if slow >= 8 && slow == trials && slowResponsive >= 5 {
			break
		}
	}
	sort.Slice(elapsed, func(i, j int) bool { return elapsed[i] < elapsed[j] })
	r.Count("first_check.trials", int64(trials))
	r.Count("first_check.fast_trials", int64(fast))
	r.Count("first_check.slow_trials", int64(slow))
	r.SetExtra("first_check", map[string]interface{}{"period": period.String(), "trials": trials, "fast(<period/2)": fast, "slow(>=period)": slow, "slow_with_responsive_scheduler": slowResponsive,
		"elapsed_min": elapsed[0].String(), "elapsed_median": elapsed[len(elapsed)/2].String(), "elapsed_max": elapsed[len(elapsed)-1].String()})
	r.Sample(map[string]interface{}{"kind": "first rotation check after start (ungated)", "period": period.String(), "trials": trials, "elapsed_min": elapsed[0].String(), "elapsed_median": elapsed[len(elapsed)/2].String()})
	switch {
	case fast > 0:
		r.Count("first_check.established_immediate", 1)
	case slow >= 8 && slow == trials && slowResponsive >= 5:
		r.Violationf("first-rotation-check-delayed-by-a-period", map[string]interface{}{"period": period.String(), "trials": trials, "elapsed_min": elapsed[0].String(), "elapsed_median": elapsed[len(elapsed)/2].String(), "responsive_trials": slowResponsive},
			"server started with now-offset in (3200, 4000): in all %d trials the first rotation came no earlier than one check period (%v) after the start began (min %v, median %v; the scheduler was responsive, largest wake-up gap < period/4, in %d of them). "+
				"The start-up catch-up leaves this band to the background loop; with the production period of 12 slots a window at now-offset=3999 then misses acceptable reports (3999+12+432 > 4032)",
			trials, period, elapsed[0], elapsed[len(elapsed)/2], slowResponsive)
	default:
		r.Count("first_check.not_established", 1)
		r.Note("first-check episode not established either way: %d trials, %d fast, %d slow (%d with responsive scheduler), min %v", trials, fast, slow, slowResponsive, elapsed[0])
	}
}

// ---------------------------------------------------------------- trigger and start-up at other absolute positions

func preseedOffset(off uint32) func(e *drv.Srv) error {
	return func(e *drv.Srv) error {
		st := refenc.Stats{Week: off - 2016}
		st.Sig = refenc.Sign(e.Key.Priv, st.SigningBytes())
		return os.WriteFile(filepath.Join(e.Dir, "allDeviceStats.dat"), st.Bytes(), 0644)
	}
}

// relWrap returns the distance from the window start to the wrap slot the
// window [off, off+2016) contains, or -1.
func relWrap(off uint32) int64 {
	k := (int64(off)*300 + two32 - 1) / two32
	if k == 0 {
		return -1
	}
	if rel := wrapSlot(k) - int64(off); rel >= 0 && rel < 2016 {
		return rel
	}
	return -1
}

// childTriggerAt measures the background rotation trigger for one window
// position: the clock walks upwards from the window start, one released loop
// iteration per step, until the first rotation.
func childTriggerAt(b run.Batch, r *ev.Result) {
	var off64 int64
	fmt.Sscan(b.P("offset"), &off64)
	off := uint32(off64)
	p, done := startGated(b, r, off+10, preseedOffset(off))
	if p == nil {
		return
	}
	defer done()
	if got := p.offset(); got != off {
		r.Inconc(fmt.Sprintf("pre-seeded window offset %d not adopted (got %d)", off, got))
		return
	}
	if _, err := p.devFor(0); err != nil {
		r.Inconc(err.Error())
		return
	}
	p.used[0] = map[uint32]bool{}
	gaps := []int64{0, 500, 1000, 1500, 2000, 2016, 2500, 3000, 3100}
	if rel := relWrap(off); rel >= 0 {
		gaps = append(gaps, rel-1, rel, rel+1) // the clock passes the slot at which timeslot*300 leaves 32 bits
	}
	for g := int64(3150); g <= 3260; g++ {
		gaps = append(gaps, g)
	}
	gaps = append(gaps, 3300, 3599, 3600, 3601, 4031, 4032, 4463, 4464, 5000, 6048, 9000)
	sort.Slice(gaps, func(i, j int) bool { return gaps[i] < gaps[j] })
	maxNo, rotatedAt := int64(-1), int64(-1)
	for _, g := range gaps {
		now := int64(off) + g
		if now >= two32 {
			break
		}
		if g < 0 || (maxNo >= 0 && g <= maxNo) {
			continue
		}
		drv.SetClock(uint32(now))
		run.Op("step rotation offset=%d gap=%d", off, g)
		n := drv.StepRotation()
		if n < 0 {
			r.Inconc("the rotation loop did not come round within the watchdog time (no conclusion)")
			return
		}
		r.Eval(1)
		r.Count("rotation_steps", 1)
		if n > 0 {
			r.Count("rotations_observed", int64(n))
			rotatedAt = g
			break
		}
		maxNo = g
	}
	r.Count("measured_trigger_at", 1)
	r.Sample(map[string]interface{}{"kind": "rotation trigger at offset", "offset": off, "largest_gap_without_rotation": maxNo, "first_gap_with_rotation": rotatedAt,
		"reached_through": "pre-seeded signed empty allDeviceStats.dat record (trusted disk state)"})
	r.SetExtra(fmt.Sprintf("measured.rotation_trigger@%d", off), map[string]interface{}{"largest_gap_without_rotation": maxNo, "first_gap_with_rotation": rotatedAt})
	if rotatedAt < 0 {
		r.Violationf("rotation-never-triggered", map[string]interface{}{"offset": off, "largest_gap_tried": maxNo},
			"window offset %d: released rotation-loop iterations never rotated although now-offset went up to %d (window length 4032, acceptance +-432)", off, maxNo)
		r.SetExtra("trigger_at", map[string]interface{}{"offset": off, "trigger": int64(-1)})
		return
	}
	r.SetExtra("trigger_at", map[string]interface{}{"offset": off, "trigger": maxNo + 1, "exact": rotatedAt == maxNo+1})
	// after the rotation the furthest acceptable report must be storable
	now := uint32(int64(off) + rotatedAt)
	if int64(now)+halfWidth < two32 {
		if acc, ok := p.probe(now, now+halfWidth); ok && !acc {
			r.Violationf("rotation-leaves-acceptable-report-outside-window", map[string]interface{}{"offset_before": off, "now": now, "offset_after": p.offset()},
				"window offset %d rotated at now-offset=%d, yet the acceptable report for slot now+432 is refused (offset now %d)", off, rotatedAt, p.offset())
		}
	}
}

// childStartupAt measures the start-up catch-up for one window position on
// fresh, identically pre-seeded directories (one start each).
func childStartupAt(b run.Batch, r *ev.Result) {
	var off64 int64
	fmt.Sscan(b.P("offset"), &off64)
	off := uint32(off64)
	gaps := []int64{0, 3200, 3201, 3599, 3600, 3601, 3990, 3999, 4000, 4001, 4010, 4032, 4032 + 431, 5000, 3*2016 + 1, 6015, 6016, 6017, 8031, 8032, 4000 + (b.Seed*37)%4000}
	if rel := relWrap(off); rel >= 1 {
		gaps = append(gaps, rel-1, rel, rel+1)
	}
	maxNo, minYes := int64(-1), int64(math.MaxInt64)
	hist := map[int64]int{}
	for i, g := range gaps {
		now := int64(off) + g
		if now >= two32 {
			continue
		}
		far := now + halfWidth
		if far >= two32 {
			far = two32 - 1 // the furthest acceptable slot that exists
		}
		bb := b
		bb.Dir = filepath.Join(b.Dir, fmt.Sprintf("g%d", i))
		bb.Seed = b.Seed + int64(i)
		os.MkdirAll(bb.Dir, 0755)
		run.Op("fresh start offset=%d gap=%d", off, g)
		p, done := startGated(bb, r, uint32(now), preseedOffset(off))
		if p == nil {
			return
		}
		p.label = fmt.Sprintf("startup-at offset=%d gap=%d", off, g)
		after := p.offset()
		r.Eval(1)
		r.Count("restarts", 1)
		if after < off || (after-off)%2016 != 0 {
			r.Violationf("startup-offset-corrupt", map[string]interface{}{"offset": off, "gap": g, "after": after}, "start with window offset %d and now-offset=%d left window offset %d", off, g, after)
			done()
			return
		}
		n := int64(after-off) / 2016
		hist[n]++
		if n > 0 {
			if g < minYes {
				minYes = g
			}
		} else if g > maxNo {
			maxNo = g
		}
		rp := map[string]interface{}{"offset_before": off, "gap": g, "offset_after_start": after, "now": now}
		if !oldestAccepted(p, r, now, n, fmt.Sprintf("start with window offset %d, now-offset=%d, right after start", off, g), rp) {
			done()
			return
		}
		n2 := drv.StepRotation()
		if n2 < 0 {
			r.Inconc("the rotation loop did not come round within the watchdog time after a start (no conclusion)")
			done()
			return
		}
		r.Count("rotations_observed", int64(n2))
		if !oldestAccepted(p, r, now, n+int64(n2), fmt.Sprintf("start with window offset %d, now-offset=%d, after the first loop iteration", off, g), rp) {
			done()
			return
		}
		acc, ok := p.probe(uint32(now), uint32(far))
		if ok && !acc {
			r.Violationf("startup-leaves-acceptable-report-outside-window", map[string]interface{}{"offset_before": off, "gap": g, "offset_after_start": after, "offset_after_first_loop_iteration": p.offset(), "now": now},
				"start with window offset %d, now-offset=%d (%d start-up rotations, %d by the first loop iteration): the acceptable report for slot now+432 is refused, window offset is %d", off, g, n, n2, p.offset())
		} else if ok {
			r.Count("startup_far_report_accepted", 1)
		}
		done()
		if !ok {
			return
		}
	}
	r.Count("measured_catchup_at", 1)
	r.SetExtra("catchup_at", map[string]interface{}{"offset": off, "largest_gap_without_rotation_at_start": maxNo, "smallest_gap_with_rotation_at_start": minYes})
	r.SetExtra(fmt.Sprintf("measured.catchup@%d", off), map[string]interface{}{"largest_gap_without_rotation_at_start": maxNo, "smallest_gap_with_rotation_at_start": minYes, "rotations_per_start": fmt.Sprint(hist)})
}

// ---------------------------------------------------------------- extremes

func slotsAround(now uint32, extra []int64, rng *rand.Rand) []uint32 {
	seen := map[uint32]bool{}
	var out []uint32
	add := func(s int64) {
		u := uint32(s) // values outside 0..2^32-1 become their wrap-around image: a different, real slot
		if !seen[u] {
			seen[u] = true
			out = append(out, u)
		}
	}
	for d := int64(-440); d <= 440; d++ {
		add(int64(now) + d)
	}
	for _, s := range []int64{0, 1, 2, 431, 432, 433, 4031, 4032, 4033, 1<<31 - 1, 1 << 31, 1<<31 + 1, two32 - 1, two32 - 2, two32 - 431, two32 - 432, two32 - 433, two32 - 434,
		two32 - 4032, two32 - 4033, two32 - 4031} {
		add(s)
	}
	for _, s := range extra {
		add(s)
	}
	for i := 0; i < 40; i++ {
		add(int64(rng.Uint32()))
	}
	sort.Slice(out, func(i, j int) bool { return out[i] < out[j] })
	return out
}

func childExtremesLow(b run.Batch, r *ev.Result) {
	p, done := startGated(b, r, 0, nil)
	if p == nil {
		return
	}
	defer done()
	nows := []uint32{0, 1, 431, 432, 433, 434, 3599, 3600, 4031, 4032, uint32(2 + p.rng.Intn(429))}
	for _, now := range nows {
		drv.SetClock(now)
		p.label = fmt.Sprintf("low now=%d", now)
		if off := p.offset(); off != 0 {
			r.Inconc(fmt.Sprintf("offset is %d, expected 0", off))
			return
		}
		for _, s := range slotsAround(now, []int64{int64(now) + two32 - 432, int64(now) + two32 - 433}, p.rng) {
			acc, ok := p.probe(now, s)
			if !ok {
				return
			}
			if acc {
				r.Count("accepted_low", 1)
			}
		}
		r.Count("configurations", 1)
	}
	r.Sample(map[string]interface{}{"kind": "extremes", "offset": 0, "nows": nows})
}

func childExtremesHigh(b run.Batch, r *ev.Result) {
	var off64 int64
	fmt.Sscan(b.P("offset"), &off64)
	off := uint32(off64)
	record := off - 2016
	// clock before the first start: inside the window so that start-up does not rotate
	p, done := startGated(b, r, off+10, func(e *drv.Srv) error {
		st := refenc.Stats{Week: record}
		st.Sig = refenc.Sign(e.Key.Priv, st.SigningBytes())
		return os.WriteFile(filepath.Join(e.Dir, "allDeviceStats.dat"), st.Bytes(), 0644)
	})
	if p == nil {
		return
	}
	defer done()
	if got := p.offset(); got != off {
		r.Inconc(fmt.Sprintf("pre-seeded record with offset %d gave window offset %d, expected %d", record, got, off))
		return
	}
	r.Count("preseeded_high_offset_adopted", 1)
	endZ := int64(off) + windowLen // window end over the integers
	cand := []int64{int64(off), int64(off) + 1, int64(off) + 431, int64(off) + 432, int64(off) + 433, int64(off) + 2016,
		endZ - 434, endZ - 433, endZ - 432, endZ - 1, endZ, endZ + 431, endZ + 432,
		two32 - 1, two32 - 2, two32 - 431, two32 - 432, two32 - 433, two32 - 434, int64(off) + p.rng.Int63n(two32-int64(off))}
	seen := map[int64]bool{}
	var nows []uint32
	for _, n := range cand {
		if n < int64(off) || n >= two32 || seen[n] {
			continue
		}
		seen[n] = true
		nows = append(nows, uint32(n))
	}
	for _, now := range nows {
		drv.SetClock(now)
		p.label = fmt.Sprintf("high offset=%d now=%d", off, now)
		for _, s := range slotsAround(now, []int64{int64(off) - 1, int64(off), int64(off) + 1, endZ - 1, endZ, endZ + 1, int64(off) + 2015, int64(off) + 2016}, p.rng) {
			acc, ok := p.probe(now, s)
			if !ok {
				return
			}
			if acc {
				r.Count("accepted_high", 1)
				if endZ > two32 {
					r.Count("accepted_high_window_end_beyond_2^32", 1)
				}
			}
			if r.NumViolations() >= 50 {
				break
			}
		}
		r.Count("configurations", 1)
		if p.offset() != off {
			r.Inconc("window offset moved during the high-offset probes")
			return
		}
	}
	// ---- start-up replay of the report log (integrateReport without the
	// clock rule): validly signed reports of an authorized device for very
	// early timeslots are appended to equipment-reports.dat (trusted disk
	// state, like the pre-seeded record); after the restart no slot of the
	// window may hold a report whose timeslot is not offset+index.
	if len(p.devs) > 0 {
		d := p.devs[0]
		early := []int64{0, 1, 100, 431, 432, 4031, 4032, endZ - two32 - 1, endZ - two32, endZ - two32 + 1, p.rng.Int63n(4032), p.rng.Int63n(1 << 20), int64(off) - 1, int64(off) - 4032}
		var extra []byte
		n := 0
		for i, s := range early {
			if s < 0 || s >= int64(off) {
				continue // only timeslots before the window
			}
			extra = append(extra, d.Report(uint32(s), uint64(9000+i)).Bytes()...)
			n++
		}
		drv.SetClock(off)
		run.Op("restart offset=%d with %d early reports appended to the report log", off, n)
		if err := p.w.Close(); err != nil {
			r.Inconc("close: " + err.Error())
			return
		}
		f, err := os.OpenFile(filepath.Join(p.w.Dir, "equipment-reports.dat"), os.O_APPEND|os.O_WRONLY, 0644)
		if err == nil {
			_, err = f.Write(extra)
			f.Close()
		}
		if err != nil {
			r.Inconc("cannot append to the report log: " + err.Error())
			return
		}
		drv.SetClock(off + 10)
		arrived := drv.RotationArrive.Load()
		if err := p.w.Start(); err != nil {
			r.Violationf("restart-failed", map[string]interface{}{"offset": off}, "server with window offset %d does not restart after validly signed early reports were appended to its report log: %v", off, err)
			return
		}
		if !waitParked(arrived) {
			r.Inconc("the rotation loop did not reach its gate after a restart")
			return
		}
		snap := p.w.S.VerifSnapshot(true)
		r.Eval(n)
		r.Count("replayed_early_reports", int64(n))
		stored := 0
		for id, arr := range snap.Reports {
			if arr == nil {
				continue
			}
			for k := range arr {
				rep := arr[k]
				if rep.PowerOutput == 0 && rep.Timeslot == 0 && rep.ShortID == 0 {
					continue
				}
				stored++
				if int64(rep.Timeslot) != int64(snap.Offset)+int64(k) {
					r.Violationf("window-holds-report-of-foreign-timeslot", map[string]interface{}{"offset": snap.Offset, "index": k, "timeslot": rep.Timeslot, "device": id},
						"after replaying the report log at window offset %d, index %d of device %d holds a report for timeslot %d; over the integers that index is timeslot %d (slot-offset = %d, not in [0, 4032))",
						snap.Offset, k, id, rep.Timeslot, int64(snap.Offset)+int64(k), int64(rep.Timeslot)-int64(snap.Offset))
					return
				}
			}
		}
		r.Count("replay_window_slots_checked", int64(stored))
	}
	r.Sample(map[string]interface{}{"kind": "extremes", "offset": off, "window_end_over_integers": endZ, "nows": nows, "reached_through": "pre-seeded signed empty allDeviceStats.dat record (trusted disk state)"})
}

// ---------------------------------------------------------------- parent

func num(v interface{}) (int64, bool) {
	switch x := v.(type) {
	case float64:
		return int64(x), true
	case int64:
		return x, true
	case int:
		return int64(x), true
	}
	return 0, false
}

func post(c *ev.Check, outs []*run.Outcome) {
	c.Require("prod.consts_reported", 1)
	c.Require("rotfault.rotated", 3)
	c.Require("prod.current_timeslot_brackets", 100)
	c.Require("prod.timezones_with_nonzero_offset_at_genesis", 4)
	c.Require("conv.unix_to_timeslot_calls", 1000000)
	c.Require("conv.pre_genesis_calls", 100)
	c.Require("conv_boundary_conversions", 14316558)
	c.Require("measured_trigger", 1)
	c.Require("measured_halfwidth", 1)
	c.Require("measured_window", 1)
	c.Require("measured_catchup", 1)
	c.Require("accepted_low", 100)
	c.Require("accepted_high", 100)
	c.Require("replayed_early_reports", 20)
	c.Require("replay_window_slots_checked", 100)
	c.Require("accepted_high_window_end_beyond_2^32", 100)
	c.Require("preseeded_high_offset_adopted", int64(len(highOffsets)))
	c.Require("rotations_observed", 5)
	c.Require("probes_via_socket", 50)

	if c.Tier == "thorough" {
		c.Require("conv.exhaustive_slices", 16)
		if c.Counter("conv.exhaustive_seconds_covered") == two32 && c.Counter("conv.exhaustive_slices") == 16 {
			c.Exhaustive = true
			c.SetExtra("exhaustive_scope", "every unix time in [genesis, genesis+2^32-1] in the production build (conversion, inverse, monotonicity); behavioural probes are sampled")
		}
	}

	// the inequality, with every measuring child's own numbers
	var period int64
	havePeriod := false
	for _, o := range outs {
		if o.Result == nil || o.Batch.Kind != "prod-consts" {
			continue
		}
		if v, ok := num(o.Result.Extra["prod.report_migration_frequency_ns"]); ok {
			period, havePeriod = v, true
		}
	}
	judged := 0
	for _, o := range outs {
		if o.Result == nil || o.Batch.Kind != "measure-window" {
			continue
		}
		trig, ok1 := num(o.Result.Extra["measured.rotation_trigger"])
		up, ok2 := num(o.Result.Extra["measured.halfwidth_future"])
		down, ok3 := num(o.Result.Extra["measured.halfwidth_past"])
		win, ok4 := num(o.Result.Extra["measured.window_length"])
		if !ok1 || !ok2 || !ok3 || !ok4 || !havePeriod {
			continue
		}
		hw := up
		if down > hw {
			hw = down
		}
		periodSlots := (period + int64(300*time.Second) - 1) / int64(300*time.Second)
		judged++
		holds := trig+periodSlots+hw < win
		c.SetExtra("inequality", map[string]interface{}{"trigger": trig, "period_ns_production": period, "period_slots_ceil": periodSlots, "halfwidth": hw, "window": win,
			"lhs": trig + periodSlots + hw, "holds": holds, "lower_margin_not_judged(trigger-2016-halfwidth)": trig - 2016 - hw})
		if !holds {
			c.Violation("cadence-inequality-violated", fmt.Sprintf("trigger %d + ceil(production period %s / 300 s) = %d + half-width %d = %d is not < window %d: an acceptable report can fall outside the stored window before the rotation loop looks again",
				trig, time.Duration(period), periodSlots, hw, trig+periodSlots+hw, win),
				map[string]interface{}{"batch": o.Batch, "trigger": trig, "period_ns": period, "halfwidth": hw, "window": win})
		}
	}
	// the same thresholds must be found wherever the window lies
	var mainTrig, mainCatch, mainHW, mainWin int64 = -1, -1, -1, -1
	for _, o := range outs {
		if o.Result == nil {
			continue
		}
		if o.Batch.Kind == "measure-window" && mainTrig < 0 {
			mainTrig, _ = num(o.Result.Extra["measured.rotation_trigger"])
			up, _ := num(o.Result.Extra["measured.halfwidth_future"])
			down, _ := num(o.Result.Extra["measured.halfwidth_past"])
			mainHW = up
			if down > up {
				mainHW = down
			}
			mainWin, _ = num(o.Result.Extra["measured.window_length"])
		}
		if o.Batch.Kind == "measure-startup" && mainCatch < 0 {
			if v, ok := num(o.Result.Extra["measured.catchup_threshold"]); ok {
				mainCatch = v
			}
		}
	}
	periodSlots := (period + int64(300*time.Second) - 1) / int64(300*time.Second)
	for _, o := range outs {
		if o.Result == nil {
			continue
		}
		switch o.Batch.Kind {
		case "trigger-at":
			m, _ := o.Result.Extra["trigger_at"].(map[string]interface{})
			trig, ok := num(m["trigger"])
			off, _ := num(m["offset"])
			exact, _ := m["exact"].(bool)
			if !ok || trig < 0 || !havePeriod || mainTrig < 0 || mainWin <= 0 {
				continue
			}
			c.AddCounter("inequality_evaluations_at_other_offsets", 1)
			if !(trig+periodSlots+mainHW < mainWin) {
				c.Violation("cadence-inequality-violated", fmt.Sprintf("window offset %d: trigger %d + ceil(production period / 300 s) = %d + half-width %d is not < window %d", off, trig, periodSlots, mainHW, mainWin),
					map[string]interface{}{"batch": o.Batch, "offset": off, "trigger": trig})
			}
			if exact && trig != mainTrig {
				c.Violation("rotation-trigger-depends-on-window-position", fmt.Sprintf("the released rotation loop first rotates at now-offset=%d for window offset %d but at %d for windows near offset 0: the comparison is not the integer one for every 32-bit value", trig, off, mainTrig),
					map[string]interface{}{"batch": o.Batch, "offset": off, "trigger": trig, "trigger_low_offsets": mainTrig})
			}
		case "startup-at":
			m, _ := o.Result.Extra["catchup_at"].(map[string]interface{})
			no, ok1 := num(m["largest_gap_without_rotation_at_start"])
			yes, ok2 := num(m["smallest_gap_with_rotation_at_start"])
			off, _ := num(m["offset"])
			if !ok1 || !ok2 || mainCatch < 0 {
				continue
			}
			c.AddCounter("catchup_comparisons_at_other_offsets", 1)
			if no >= mainCatch || yes < mainCatch {
				c.Violation("startup-threshold-depends-on-window-position", fmt.Sprintf("window offset %d: start-up did not rotate at now-offset=%d / first rotated at %d, but the threshold measured near offset 0 is %d", off, no, yes, mainCatch),
					map[string]interface{}{"batch": o.Batch, "offset": off, "largest_gap_without_rotation_at_start": no, "smallest_gap_with_rotation_at_start": yes, "threshold_low_offsets": mainCatch})
			}
		}
	}
	c.Require("startup_long_cases", 10)
	c.Require("startup_rem_cases", 20)
	c.Require("startup_oldest_slot_accepted", 50)
	c.Require("first_check.trials", 1)
	c.Require("measured_trigger_at", 4)
	c.Require("measured_catchup_at", 4)
	c.Require("inequality_evaluations_at_other_offsets", 4)
	c.AddCounter("inequality_evaluations", int64(judged))
	c.Require("inequality_evaluations", 1)
	var kinds []string
	for _, o := range outs {
		kinds = append(kinds, fmt.Sprintf("%s:%.1fs", o.Batch.Kind, o.WallS))
	}
	c.SetExtra("batch_wall", strings.Join(kinds, " "))
}
