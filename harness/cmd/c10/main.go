//go:build test

// C10 — Sync replies parse to the server's data and are accepted only when
// authentic.
//
// Monitor: a real server (child process, rotation and impact jobs gated) is
// driven into a state (report sets at the window edges, window offset reached
// by real rotations, GCA-signed server list, optional migration order). Then
//
//	agreement: the bytes of the TCP sync reply are parsed by the reference
//	  parser (lib/refenc) and compared with the server's snapshot and with what
//	  was posted; the real client parser (staticServerSync) must return exactly
//	  the reference parse; unknown/banned ids get one zero byte.
//	tamper: a man in the middle written here forwards the client's request to
//	  the real server and rewrites the reply (bit flips, truncations,
//	  extensions, re-signings, valid re-signings of altered content with the
//	  server's own key). The reference rules below decide whether the real
//	  client parser has to reject or has to accept each rewritten reply; a sample
//	  of every class also goes through a full sync round and the client's state
//	  and files must not move.
package main

import (
	"bytes"
	"encoding/binary"
	"encoding/hex"
	"encoding/json"
	"fmt"
	"io"
	"math/rand"
	"net"
	"net/http"
	"net/http/httptest"
	"net/url"
	"os"
	"path/filepath"
	"sort"
	"strconv"
	"strings"
	"sync"
	"sync/atomic"
	"time"

	"github.com/glowlabs-org/gca-backend/client"
	"github.com/glowlabs-org/gca-backend/glow"
	"github.com/glowlabs-org/gca-backend/server"

	"verifharness/lib/drv"
	"verifharness/lib/ev"
	"verifharness/lib/refenc"
	"verifharness/lib/run"
)

func main() {
	run.Main(run.Spec{
		ID:    "C10",
		Level: "exploration",
		Pkg:   "./cmd/c10",
		Rule: "one case = one reply (genuine or rewritten by the harness's man in the middle) delivered to the real client parser, or one raw reply compared with the server snapshot. " +
			"Server states: report sets at window indices 0,1,7,8,2015,2016,4030,4031 plus random ones incl. banned slots, offsets 0/2016/4032 reached by real rotations, 0..6 authorized servers " +
			"(location length 0,1,255,random; banned flags; a later ban record), with/without a migration order carrying 0..4 new servers. Rewrites: single bit flips, truncations, extensions with/without adjusted prefix, " +
			"self-consistent short replies, re-signing under other keys, and validly re-signed replies with shifted time / foreign device key / stripped or foreign GCA signatures / wrong outer or inner migration signatures. " +
			"Non-trivial = every rewritten reply and every genuine reply of a state with at least one set bit; distinct by (state, class, position).",
		Assumptions: []string{
			"rotation and impact jobs are gated while replies are judged, so the snapshot and the reply describe the same state",
			"the client's report loop is parked at its loop head (send.loop hook) so that no background sync round interleaves with the judged calls",
			"overlapping rounds are produced by holding one round at the instrumented point sync.beforeAdopt while another one runs to completion",
			"a flipped bit in a signature or signed region verifying anyway has negligible probability (secp256k1/Keccak-256 via go-ethereum, trusted base)",
			"freshness is judged with a 10 minute margin on either side of the 24 h bound; the exact bound is not decided here",
			"bit flips are exhaustive only in the thorough tier and only for replies up to 2000 bytes; otherwise boundaries plus a random sample",
		},
		Plan:  plan,
		Child: child,
		// only the batches of kind "race" are built with the race detector; what
		// it reports there (reply assembly against a ban of a listed server) is
		// a reply that need not be the server's data of any one instant
		RaceIsViolation: true,
		ClassifyDeath: func(c *ev.Check, o *run.Outcome) bool {
			// test-mode servers and clients end their own process after 120 s of
			// life: on a starved machine that is a watchdog, not a finding
			if o.ExitCode == 66 && len(o.Races) > 0 {
				return true // the race runtime's exit status; the reports themselves are raised as violations
			}
			if strings.Contains(o.Stderr, "lived for longer than 120 seconds") || strings.Contains(o.Stderr, "was not closed during testing") {
				c.Inconc(fmt.Sprintf("batch %d outlived the 120 s test-mode limit of the code under test (machine too slow)", o.Batch.Index))
				return true
			}
			return false
		},
		Post: func(c *ev.Check, outs []*run.Outcome) {
			for _, k := range []string{"agree.raw", "agree.client", "agree.bits_set", "agree.banned_slots", "agree.servers_in_reply", "agree.migration_in_reply",
				"refusal.raw", "refusal.client", "agree.burst", "agree.client_relayed", "rejected.large_list_tail", "race.cells", "multibyte.accepted.255_bytes", "rejected.twin_signature", "rejected.time_far_resigned", "recovery.single_server", "recovery.three_servers", "stale_round.judged", "stale_round.unchanged", "rotation.injected_at.sync.ready", "rotation.injected_at.sync.afterCopy", "rotation.under_load", "rotation.reply_is_state_before", "rotation.reply_is_state_after", "tamper.bitflip", "tamper.truncate", "tamper.extend_adjusted", "tamper.resign_otherkey",
				"accepted.time_within", "rejected.time_outside", "rejected.devkey", "rejected.entry_sig", "rejected.mig_outer", "rejected.mig_inner",
				"fulllist.runs", "fulllist.judged_near_limit", "fullround.rejected_unchanged", "fullround.accepted", "states.offset_0", "states.offset_2016", "states.offset_4032"} {
				c.Require(k, 1)
			}
		},
	})
}

func planBase(tier string, seed int64) []run.Batch {
	n := 18
	if tier == "thorough" {
		n = 60
	}
	nsrv := []int{0, 1, 2, 3, 5, 6, 4}
	slices := 1
	if tier == "thorough" {
		slices = 3 // the same state is rebuilt in three children, each judging a third of the rewrites
	}
	var bs []run.Batch
	for s := 0; s < n; s++ {
		for sl := 0; sl < slices; sl++ {
			bs = append(bs, run.Batch{Kind: "state", Seed: seed*100003 + int64(s), N: 1, TimeoutS: 115, Params: map[string]string{
				"state": fmt.Sprint(s),
				"nsrv":  fmt.Sprint(nsrv[(s+int(seed%7+7))%7]),
				"nmig":  fmt.Sprint((s + int(seed%5+5)) % 5),
				"slice": fmt.Sprint(sl),
				"of":    fmt.Sprint(slices),
			}})
		}
	}
	nFull := 3
	if tier == "thorough" {
		nFull = 12
	}
	for i := 0; i < nFull; i++ {
		bs = append(bs, run.Batch{Kind: "fulllist", Seed: seed*100003 + 80000 + int64(i), N: 1, TimeoutS: 115})
	}
	nRace := 1
	if tier == "thorough" {
		nRace = 3
	}
	for i := 0; i < nRace; i++ {
		bs = append(bs, run.Batch{Kind: "race", Variant: "race", Seed: seed*100003 + 90000 + int64(i), N: 1, TimeoutS: 115})
	}
	return bs
}

// raceChild (built with -race): while a sync reply is being assembled, a ban
// of a listed server is applied by another goroutine through the server's own
// handler function, called in-process so that no socket sits between the two
// accesses (the race runtime orders all socket and file I/O). The interfering
// goroutine is started from the handler's instrumented point and only sleeps
// before it acts; nothing waits for it inside the handler.
func raceChild(b run.Batch, r *ev.Result) {
	rng := rand.New(rand.NewSource(b.Seed))
	drv.SetClock(0)
	drv.GateRotation(true)
	drv.GateImpact(true)
	dw, err := drv.NewWorld(filepath.Join(b.Dir, "srv"), rng)
	if err != nil {
		r.Inconc("cannot start world: " + err.Error())
		return
	}
	defer os.RemoveAll(dw.Dir)
	defer dw.Close()
	s := &st{World: dw, r: r, rng: rng, tstart: time.Now(), G2: refenc.GenKey(rng), batch: b, label: fmt.Sprintf("race seed=%d", b.Seed)}
	if s.A, err = s.addDevice(10+uint32(rng.Intn(1000)), 1000000); err != nil {
		r.Inconc(err.Error())
		return
	}
	for i := 0; i < 48; i++ {
		loc, hp := deadLocation(rng, 1+i%4)
		a := refenc.AuthServer{Pub: refenc.GenKey(rng).Pub, Location: loc, HTTP: hp, TCP: uint16(rng.Intn(65536)), UDP: uint16(rng.Intn(65536))}.Signed(s.GCA.Priv)
		if !s.postServer(a) {
			return
		}
	}
	var req [4]byte
	binary.LittleEndian.PutUint32(req[:], s.A.ID)
	cell := 0
	// The detector can only speak when nothing orders the two accesses. The
	// reply is signed right after the list was read and the ban is verified
	// right before it is written, and both hash through one pool of hashers
	// (a release/acquire pair for the detector): a ban that starts late is
	// ordered after the read by that pool. Hence many cells, started at once.
	for rep := 0; rep < 16; rep++ {
		point := []string{"sync.afterCopy", "sync.ready"}[rep%2]
		for _, delay := range []time.Duration{0, 0, 100 * time.Microsecond} {
			if cell >= len(s.model) {
				break
			}
			ban := s.model[cell]
			ban.Banned = true
			ban.UDP++
			ban = ban.Signed(s.GCA.Priv)
			body := ban.JSON()
			done := make(chan int, 1)
			var fired atomic.Bool
			server.VerifSetHook(point, func(g *server.GCAServer) {
				if !fired.CompareAndSwap(false, true) {
					return
				}
				go func() {
					time.Sleep(delay)
					rq, _ := http.NewRequest("POST", "/api/v1/authorized-servers", bytes.NewReader(body))
					rec := httptest.NewRecorder()
					g.AuthorizedServersHandler(rec, rq)
					if rec.Code != 200 {
						r.Note("injected ban answered %d %.80s", rec.Code, rec.Body.String())
					}
					done <- rec.Code
				}()
			})
			run.Op("race cell %d: sync with a ban injected at %s after %v", cell, point, delay)
			raw, err := s.SyncRaw(req[:])
			// Nothing that the interfering goroutine could synchronise with may
			// happen here before it is done (the hook table is such a thing: this
			// goroutine has just read the reply from a socket, which orders it
			// after the handler; a write to the table would pass that order on).
			if !fired.Load() {
				server.VerifSetHook(point, func(*server.GCAServer) {})
				r.Count("race.hook_not_reached."+point, 1)
				r.Inconc("instrumented point " + point + " was not reached by a sync request")
				return
			}
			select {
			case <-done:
			case <-time.After(30 * time.Second):
				r.Inconc("injected ban did not return")
				return
			}
			server.VerifSetHook(point, func(*server.GCAServer) {})
			r.Eval(1)
			r.Nontrivial(fmt.Sprintf("%s/cell%d", s.label, cell))
			r.Count("race.cells", 1)
			for _, x := range s.S.VerifSnapshot(false).Servers {
				if x.PublicKey == ban.Pub && x.Banned {
					r.Count("race.ban_applied", 1)
				}
			}
			// whatever the interleaving: every entry of a complete reply verifies under the GCA key
			if err == nil && authentic(raw, s.Key.Pub) {
				rep, _, _ := refenc.ParseSyncReply(raw)
				for _, x := range rep.Servers {
					if !refenc.Verify(s.GCA.Pub, x.SigningBytes(), x.Sig) {
						r.Violationf("reply-serverlist-signature-invalid", s.replay(map[string]interface{}{"reply": hx(raw)}), "a reply assembled while a listed server was being banned carries an entry that is neither the old nor the new record (does not verify under the GCA key)")
					}
				}
			}
			cell++
		}
	}
}

// ---------------------------------------------------------------- parked clients

var (
	parkMu   sync.Mutex
	released = map[*client.Client]bool{}
)

func installPark() {
	client.VerifSetHook("send.loop", func(c *client.Client) {
		for {
			parkMu.Lock()
			ok := released[c]
			parkMu.Unlock()
			if ok {
				return
			}
			time.Sleep(500 * time.Microsecond)
		}
	})
}

func closeClient(c *client.Client) {
	parkMu.Lock()
	released[c] = true
	parkMu.Unlock()
	c.Close()
}

// ---------------------------------------------------------------- man in the middle

type mitm struct {
	ln     net.Listener
	Port   uint16
	target string
	mu     sync.Mutex
	mut    func(genuine []byte) []byte
	conns  int
	done   int // handlers that finished writing
	lastIn []byte
	lastOu []byte
	upErr  error
	wErr   error
	wg     sync.WaitGroup
}

func newMITM(target string) (*mitm, error) {
	ln, err := net.Listen("tcp", "127.0.0.1:0")
	if err != nil {
		return nil, err
	}
	m := &mitm{ln: ln, Port: uint16(ln.Addr().(*net.TCPAddr).Port), target: target}
	m.wg.Add(1)
	go func() {
		defer m.wg.Done()
		for {
			c, err := ln.Accept()
			if err != nil {
				return
			}
			m.wg.Add(1)
			go func() {
				defer m.wg.Done()
				defer c.Close()
				c.SetDeadline(time.Now().Add(20 * time.Second))
				req := make([]byte, 4)
				if _, err := io.ReadFull(c, req); err != nil {
					return
				}
				var genuine []byte
				up, err := net.DialTimeout("tcp", m.target, 10*time.Second)
				if err == nil {
					up.SetDeadline(time.Now().Add(20 * time.Second))
					if _, err = up.Write(req); err == nil {
						genuine, err = io.ReadAll(up)
					}
					up.Close()
				}
				m.mu.Lock()
				m.conns++
				mut := m.mut
				m.upErr = err
				m.lastIn = genuine
				out := genuine
				if err == nil {
					// a stalled server answers with nothing or a fragment: such
					// an upstream reply is no basis for a rewrite
					if _, refused, perr := refenc.ParseSyncReply(genuine); perr != nil {
						err = fmt.Errorf("incomplete upstream reply (%d bytes): %v", len(genuine), perr)
						m.upErr = err
					} else if mut != nil && !refused {
						out = mut(append([]byte(nil), genuine...))
					}
				}
				m.lastOu = out
				m.mu.Unlock()
				_, werr := c.Write(out)
				// closing right after the write is what makes an over-long
				// length prefix a read error instead of a wait
				c.Close()
				m.mu.Lock()
				m.wErr = werr
				m.done++
				m.mu.Unlock()
			}()
		}
	}()
	return m, nil
}

func (m *mitm) set(f func([]byte) []byte) { m.mu.Lock(); m.mut = f; m.mu.Unlock() }
func (m *mitm) last() (in, out []byte, n int, err error) {
	m.mu.Lock()
	defer m.mu.Unlock()
	return m.lastIn, m.lastOu, m.conns, m.upErr
}
func (m *mitm) Close() { m.ln.Close(); m.wg.Wait() }
func (m *mitm) doneCount() int {
	m.mu.Lock()
	defer m.mu.Unlock()
	return m.done
}

// waitDone waits until a handler finished after the count n0 was read and
// reports whether the relay worked (upstream reply complete, delivery written).
func (m *mitm) waitDone(n0 int) (in, out []byte, ok bool, why string) {
	deadline := time.Now().Add(30 * time.Second)
	for {
		m.mu.Lock()
		d, in, out, ue, we := m.done, m.lastIn, m.lastOu, m.upErr, m.wErr
		m.mu.Unlock()
		if d > n0 {
			if ue != nil {
				return in, out, false, "upstream: " + ue.Error()
			}
			if we != nil {
				return in, out, false, "delivery: " + we.Error()
			}
			if _, _, perr := refenc.ParseSyncReply(in); perr != nil {
				return in, out, false, "upstream reply incomplete: " + perr.Error()
			}
			return in, out, true, ""
		}
		if time.Now().After(deadline) {
			return nil, nil, false, "relay handler did not finish"
		}
		time.Sleep(200 * time.Microsecond)
	}
}

// ---------------------------------------------------------------- helpers

func asRef(s server.AuthorizedServer) refenc.AuthServer {
	return refenc.AuthServer{Pub: s.PublicKey, Banned: s.Banned, Location: s.Location, HTTP: s.HttpPort, TCP: s.TcpPort, UDP: s.UdpPort, Sig: s.GCAAuthorization}
}

func sameServer(a, b refenc.AuthServer) bool {
	return a.Pub == b.Pub && a.Banned == b.Banned && a.Location == b.Location && a.HTTP == b.HTTP && a.TCP == b.TCP && a.UDP == b.UDP && a.Sig == b.Sig
}

func sameServerSet(a, b []refenc.AuthServer) bool {
	if len(a) != len(b) {
		return false
	}
	ka := make([]string, len(a))
	kb := make([]string, len(b))
	for i := range a {
		ka[i] = string(a[i].Bytes())
		kb[i] = string(b[i].Bytes())
	}
	sort.Strings(ka)
	sort.Strings(kb)
	for i := range ka {
		if ka[i] != kb[i] {
			return false
		}
	}
	return true
}

func hx(b []byte) string {
	if len(b) > 3200 {
		return hex.EncodeToString(b[:3200]) + "..."
	}
	return hex.EncodeToString(b)
}

const locAlphabet = "abcdefghijklmnopqrstuvwxyzABCDEFGHIJKLMNOPQRSTUVWXYZ0123456789.-_~!$&'()*+,;=\"\\<>{}|^` "

// deadLocation returns a location string of the requested kind that the
// server's fan-out cannot reach: either the URL built from it does not parse,
// or it is an address in 127.77/16 on which nothing listens.
func deadLocation(rng *rand.Rand, kind int) (loc string, httpPort uint16) {
	httpPort = uint16(rng.Intn(65536))
	mk := func(n int) string {
		for {
			b := make([]byte, n)
			for i := range b {
				b[i] = locAlphabet[rng.Intn(len(locAlphabet))]
			}
			b[rng.Intn(n)] = ' '
			if _, err := url.Parse(fmt.Sprintf("http://%s:%d/api/v1/authorized-servers", b, httpPort)); err != nil {
				return string(b)
			}
		}
	}
	switch kind {
	case 0:
		return "", 0 // "http://:0/..." cannot be connected
	case 1:
		return mk(1), httpPort
	case 2:
		return mk(255), httpPort
	case 3:
		return fmt.Sprintf("127.77.%d.%d", rng.Intn(256), 1+rng.Intn(254)), httpPort
	default:
		return mk(2 + rng.Intn(253)), httpPort
	}
}

// ---------------------------------------------------------------- HTTP posts

// The server closes idle HTTP connections after 2.5 s of wall clock; a reused
// connection can therefore break under a POST on a starved machine. Every post
// here uses its own connection and is repeated on transport errors: all posts
// used in this check are idempotent (the same record twice is the same as once).
var poster = &http.Client{Timeout: 20 * time.Second, Transport: &http.Transport{DisableKeepAlives: true}}

func postJSON(port uint16, path string, body []byte) (code int, out []byte, err error) {
	for attempt := 0; attempt < 5; attempt++ {
		var resp *http.Response
		resp, err = poster.Post(fmt.Sprintf("http://127.0.0.1:%d%s", port, path), "application/json", bytes.NewReader(body))
		if err != nil {
			continue
		}
		out, err = io.ReadAll(resp.Body)
		resp.Body.Close()
		if err != nil {
			continue
		}
		return resp.StatusCode, out, nil
	}
	return 0, nil, err
}

func (s *st) addDevice(id uint32, capacity uint64) (*drv.Dev, error) {
	k := refenc.GenKey(s.rng)
	a := s.MkAuth(id, k.Pub, capacity)
	code, body, err := postJSON(s.HTTP, "/api/v1/authorize-equipment", a.JSON())
	if err != nil || code != 200 {
		return nil, fmt.Errorf("authorization of device %d failed: status %d err %v body %.100s", id, code, err, body)
	}
	d := &drv.Dev{ID: id, Key: k, Auth: a}
	s.Devs[id] = d
	return d, nil
}

// ---------------------------------------------------------------- state under test

type st struct {
	*drv.World
	r      *ev.Result
	rng    *rand.Rand
	A, B   *drv.Dev
	X      *drv.Dev // banned device
	G2     refenc.Key
	model  []refenc.AuthServer // what the GCA posted, in the server's merge order
	mig    *refenc.Migration   // order posted for A (nil: none)
	cA     *client.Client
	cB     *client.Client
	dirA   string
	label  string
	m      *mitm
	cases  int
	tstart time.Time
	batch  run.Batch
}

func (s *st) replay(extra map[string]interface{}) map[string]interface{} {
	o := map[string]interface{}{"state": s.label, "batch": s.batch}
	for k, v := range extra {
		o[k] = v
	}
	return o
}

// addReports injects reports for dev at window indices near the edges.
func (s *st) addReports(dev *drv.Dev, off uint32, edges bool) {
	idx := map[int]bool{}
	if edges {
		for _, i := range []int{0, 1, 7, 8, 2015, 2016, 4030, 4031} {
			if s.rng.Intn(10) < 6 {
				idx[i] = true
			}
		}
	}
	for k := 0; k < 3+s.rng.Intn(4); k++ {
		idx[s.rng.Intn(4032)] = true
	}
	for k := 0; k < 2; k++ { // upper half, so that rotations carry something down
		idx[2016+s.rng.Intn(2016)] = true
	}
	keys := make([]int, 0, len(idx))
	for i := range idx {
		keys = append(keys, i)
	}
	sort.Ints(keys)
	for _, i := range keys {
		slot := off + uint32(i)
		drv.SetClock(slot)
		p := 2 + uint64(s.rng.Intn(1000))
		run.Op("report dev=%d slot=%d", dev.ID, slot)
		s.Inject(dev.Report(slot, p).Bytes())
		if s.rng.Intn(4) == 0 { // equivocation bans the slot
			s.Inject(dev.Report(slot, p+1).Bytes())
		}
	}
}

func (s *st) postServer(a refenc.AuthServer) bool {
	run.Op("post authorized server key=%x banned=%v loclen=%d", a.Pub[:4], a.Banned, len(a.Location))
	code, body, err := postJSON(s.HTTP, "/api/v1/authorized-servers", a.JSON())
	if err != nil || code != 200 {
		s.r.Inconc(fmt.Sprintf("GCA-signed authorized server was not accepted: status %d err %v body %.100s", code, err, body))
		return false
	}
	for i := range s.model {
		if s.model[i].Pub == a.Pub {
			if !s.model[i].Banned && a.Banned {
				s.model[i] = a
			}
			return true
		}
	}
	s.model = append(s.model, a)
	return true
}

type problem struct {
	key, msg string
	rp       interface{}
}

const slowCall = 1500 * time.Millisecond

// multibyteServers posts GCA-signed records whose locations consist of 2-, 3-
// and 4-byte characters: byte lengths 254 and 255 (fit the one-byte length of
// the wire format) and 256..510 with at most 255 characters (do not fit). A
// record may be refused; one that is accepted belongs to the list, and every
// later reply has to carry the list exactly (judged by the stages that follow).
func (s *st) multibyteServers() bool {
	runes := []string{"é", "€", "😀"}
	for i, size := range []int{254, 255, 256, 300, 400, 510} {
		ru := runes[(i+s.rng.Intn(3))%3]
		loc := " " // makes the fan-out URL unparsable: nothing is contacted
		for len(loc)+len(ru) <= size {
			loc += ru
		}
		for len(loc) < size {
			loc += "x"
		}
		if _, err := url.Parse(fmt.Sprintf("http://%s:1/api/v1/authorized-servers", loc)); err == nil {
			continue
		}
		a := refenc.AuthServer{Pub: refenc.GenKey(s.rng).Pub, Banned: s.rng.Intn(3) == 0, Location: loc, HTTP: uint16(s.rng.Intn(65536)), TCP: uint16(s.rng.Intn(65536)), UDP: uint16(s.rng.Intn(65536))}.Signed(s.GCA.Priv)
		locJSON, _ := json.Marshal(a.Location) // UTF-8 goes through as it is
		body := bytes.Replace(a.JSON(), []byte(`"Location":`+strconv.Quote(a.Location)), append([]byte(`"Location":`), locJSON...), 1)
		run.Op("post authorized server with a %d byte / %d character location", len(loc), len([]rune(loc)))
		code, _, err := postJSON(s.HTTP, "/api/v1/authorized-servers", body)
		if err != nil {
			s.r.Inconc("post failed: " + err.Error())
			return false
		}
		if code == 200 {
			s.model = append(s.model, a)
			s.r.Count(fmt.Sprintf("multibyte.accepted.%d_bytes", size), 1)
		} else {
			s.r.Count(fmt.Sprintf("multibyte.refused.%d_bytes", size), 1)
		}
	}
	return true
}

// agreeRaw: oracle (i) for one device. The state is quiescent, so a genuine
// disagreement repeats; a starved machine (the server gives a connection 2.5 s
// of wall clock) does not. A disagreement is raised after three attempts that
// were not slow; slow attempts are discarded.
func (s *st) agreeRaw(dev *drv.Dev, stage string) (refenc.SyncReply, bool) {
	fails, lastInc := 0, ""
	var last []problem
	var rep refenc.SyncReply
	for attempt := 0; attempt < 9 && fails < 3; attempt++ {
		t := time.Now()
		r, probs, inc := s.agreeRawOnce(dev, stage)
		rep = r
		if inc == "" && len(probs) == 0 {
			return rep, true
		}
		if time.Since(t) > slowCall {
			s.r.Count("discarded_slow_attempts", 1)
			continue
		}
		if inc == "" && len(probs) > 0 && probs[0].key != "reply-malformed" && refenc.Verify(s.Key.Pub, r.SignedPart, r.ServerSig) {
			// complete, validly signed reply with wrong content: final
			for _, p := range probs {
				s.r.Violation(p.key, p.msg, p.rp)
			}
			return rep, false
		}
		fails++
		last, lastInc = probs, inc
	}
	if fails >= 3 && lastInc == "" && len(last) > 0 {
		for _, p := range last {
			s.r.Violation(p.key, p.msg, p.rp)
		}
		return rep, false
	}
	s.r.Inconc("raw sync could not be judged: " + lastInc + " (attempts too slow or transport failures)")
	return rep, false
}

func (s *st) agreeRawOnce(dev *drv.Dev, stage string) (refenc.SyncReply, []problem, string) {
	var req [4]byte
	binary.LittleEndian.PutUint32(req[:], dev.ID)
	run.Op("raw sync dev=%d stage=%s", dev.ID, stage)
	snap := s.S.VerifSnapshot(true)
	t0 := time.Now().Unix()
	raw, err := s.SyncRaw(req[:])
	t1 := time.Now().Unix()
	if err != nil {
		return refenc.SyncReply{}, nil, "raw sync failed: " + err.Error()
	}
	return s.judgeBytes(dev, stage, raw, snap, t0, t1)
}

// authentic: the bytes are a complete frame carrying a valid signature of the
// server. What such a reply says cannot be an artefact of a slow machine or a
// broken connection, so a disagreement found in it is final at once.
func authentic(raw []byte, serverKey [32]byte) bool {
	rep, refused, err := refenc.ParseSyncReply(raw)
	return err == nil && !refused && refenc.Verify(serverKey, rep.SignedPart, rep.ServerSig)
}

// judgeBytes compares one raw reply for dev with the snapshot and the posts.
func (s *st) judgeBytes(dev *drv.Dev, stage string, raw []byte, snap *server.VerifSnap, t0, t1 int64) (refenc.SyncReply, []problem, string) {
	var probs []problem
	var err error
	s.r.Eval(1)
	s.r.Count("agree.raw", 1)
	s.r.Max("max.reply_len", int64(len(raw)))
	rp := s.replay(map[string]interface{}{"stage": stage, "dev": dev.ID, "reply": hx(raw)})
	rep, refused, err := refenc.ParseSyncReply(raw)
	if err != nil || refused {
		return rep, []problem{{"reply-malformed", fmt.Sprintf("reply for authorized device %d does not follow the layout: refused=%v err=%v (%d bytes)", dev.ID, refused, err, len(raw)), rp}}, ""
	}
	bad := func(key, f string, a ...interface{}) {
		probs = append(probs, problem{key, fmt.Sprintf(f, a...), rp})
	}
	if rep.DevKey != dev.Key.Pub {
		bad("reply-devkey-mismatch", "reply for device %d carries key %x, the device's key is %x", dev.ID, rep.DevKey[:8], dev.Key.Pub[:8])
	}
	if rep.Offset != snap.Offset {
		bad("reply-offset-mismatch", "reply offset %d, server window offset %d", rep.Offset, snap.Offset)
	}
	reports := snap.Reports[dev.ID]
	if reports == nil {
		return rep, nil, "snapshot has no report array for an authorized device"
	}
	set, banned := 0, 0
	for i := 0; i < 4032; i++ {
		have := reports[i].PowerOutput != 0
		if have {
			set++
		}
		if reports[i].PowerOutput == 1 {
			banned++
		}
		if rep.Bit(i) != have {
			bad("reply-bit-disagrees-with-snapshot", "bit %d of the reply for device %d is %v but the stored power for slot offset+%d is %d", i, dev.ID, rep.Bit(i), i, reports[i].PowerOutput)
			break
		}
	}
	s.r.Count("agree.bits_set", int64(set))
	s.r.Count("agree.banned_slots", int64(banned))
	if set > 0 {
		s.r.Nontrivial(fmt.Sprintf("%s/genuine/%d/%s", s.label, dev.ID, stage))
	}
	if int64(rep.Unix) < t0-1 || int64(rep.Unix) > t1+1 {
		bad("reply-timestamp-outside-call", "reply timestamp %d outside the call interval [%d,%d]", rep.Unix, t0-1, t1+1)
	}
	if !refenc.Verify(s.Key.Pub, rep.SignedPart, rep.ServerSig) {
		bad("reply-server-signature-invalid", "server signature does not verify under the server key over the body without its last 64 bytes")
	}
	var zero32 [32]byte
	var zero64 [64]byte
	mig, hasMig := snap.Migrations[glow.PublicKey(dev.Key.Pub)]
	wantMig := dev == s.A && s.mig != nil
	if hasMig != wantMig {
		return rep, nil, fmt.Sprintf("snapshot migration presence %v differs from what was posted %v", hasMig, wantMig)
	}
	if wantMig {
		s.r.Count("agree.migration_in_reply", 1)
		want := *s.mig
		if rep.NewGCA != want.NewGCA || rep.NewID != want.NewID || rep.MigSig != want.Sig || !sameServerSet(rep.Servers, want.Servers) {
			bad("reply-migration-mismatch", "migration fields of the reply differ from the posted order (newGCA %x/%x id %d/%d servers %d/%d)", rep.NewGCA[:4], want.NewGCA[:4], rep.NewID, want.NewID, len(rep.Servers), len(want.Servers))
		}
		var ss []refenc.AuthServer
		for _, x := range mig.NewServers {
			ss = append(ss, asRef(x))
		}
		if !sameServerSet(rep.Servers, ss) {
			bad("reply-migration-mismatch", "servers of the reply differ from the order in the server's state")
		}
		got := refenc.Migration{Equipment: rep.DevKey, NewGCA: rep.NewGCA, NewID: rep.NewID, Servers: rep.Servers, Sig: rep.MigSig}
		if !refenc.Verify(s.GCA.Pub, got.SigningBytes(), got.Sig) {
			bad("reply-migration-signature-invalid", "migration order in the reply does not verify under the GCA key")
		}
		for _, x := range rep.Servers {
			if !refenc.Verify(rep.NewGCA, x.SigningBytes(), x.Sig) {
				bad("reply-migration-signature-invalid", "new server in the reply's order does not verify under the new GCA key")
			}
		}
	} else {
		if rep.NewGCA != zero32 || rep.NewID != 0 || rep.MigSig != zero64 {
			bad("reply-spurious-migration", "reply without an order carries non-zero migration fields")
		}
		var ss []refenc.AuthServer
		for _, x := range snap.Servers {
			ss = append(ss, asRef(x))
		}
		if !sameServerSet(rep.Servers, s.model) || !sameServerSet(rep.Servers, ss) {
			bad("reply-serverlist-mismatch", "server list of the reply (%d entries) differs from the posted list (%d) / the server's state (%d)", len(rep.Servers), len(s.model), len(ss))
		}
		for _, x := range rep.Servers {
			if !refenc.Verify(s.GCA.Pub, x.SigningBytes(), x.Sig) {
				bad("reply-serverlist-signature-invalid", "server entry in the reply does not verify under the GCA key")
			}
		}
		s.r.Count("agree.servers_in_reply", int64(len(rep.Servers)))
	}
	return rep, probs, ""
}

// compareParse compares what the client parser returned with a reference parse.
func compareParse(ref refenc.SyncReply, off uint32, bf [504]byte, ngca glow.PublicKey, nid uint32, srv []server.AuthorizedServer) string {
	if off != ref.Offset {
		return fmt.Sprintf("offset %d want %d", off, ref.Offset)
	}
	if bf != ref.Bitfield {
		for i := range bf {
			if bf[i] != ref.Bitfield[i] {
				return fmt.Sprintf("bitfield byte %d is %08b want %08b", i, bf[i], ref.Bitfield[i])
			}
		}
	}
	if [32]byte(ngca) != ref.NewGCA {
		return fmt.Sprintf("newGCA %x want %x", ngca[:6], ref.NewGCA[:6])
	}
	if nid != ref.NewID {
		return fmt.Sprintf("newShortID %d want %d", nid, ref.NewID)
	}
	if len(srv) != len(ref.Servers) {
		return fmt.Sprintf("%d servers want %d", len(srv), len(ref.Servers))
	}
	for i := range srv {
		if !sameServer(asRef(srv[i]), ref.Servers[i]) {
			return fmt.Sprintf("server entry %d differs", i)
		}
	}
	return ""
}

// agreeClient: oracle (ii): the real parser against the real server.
func (s *st) agreeClient(ref refenc.SyncReply, stage string) {
	fails := 0
	var last problem
	for attempt := 0; attempt < 9 && fails < 3; attempt++ {
		run.Op("client parser against real server stage=%s", stage)
		t := time.Now()
		off, bf, ngca, nid, srv, err := s.cA.VerifServerSync(client.GCAServer{Location: "127.0.0.1", TcpPort: s.TCP}, glow.PublicKey(s.Key.Pub), glow.PublicKey(s.GCA.Pub))
		s.r.Eval(1)
		s.r.Count("agree.client", 1)
		rp := s.replay(map[string]interface{}{"stage": stage})
		if err == nil {
			// an accepted reply was read completely: its parse is judged as it is
			if d := compareParse(ref, off, bf, ngca, nid, srv); d != "" {
				s.r.Violationf("client-parse-differs-from-reference", rp, "client parse of the genuine reply differs from the reference parse: %s", d)
			}
			return
		}
		if time.Since(t) > slowCall {
			s.r.Count("discarded_slow_attempts", 1)
			continue
		}
		fails++
		last = problem{"client-parser-rejects-genuine", fmt.Sprintf("the client parser rejected the genuine reply of the contacted server (3 attempts): %v", err), rp}
	}
	if fails >= 3 {
		s.r.Violation(last.key, last.msg, last.rp)
		return
	}
	s.r.Inconc("client parser against the real server could not be judged (attempts too slow)")
}

func (s *st) agree(stage string) (refenc.SyncReply, bool) {
	repB, _ := s.agreeRaw(s.B, stage)
	_ = repB
	rep, ok := s.agreeRaw(s.A, stage)
	if ok {
		s.agreeClient(rep, stage)
	}
	return rep, ok
}

// alternate: many syncs of the two devices in turn and in bursts on the one
// live server. Every reply is judged like any other genuine reply (whatever a
// reply for one device carries must be that device's data, whichever request
// the server answered before), raw and through the real client parser (over
// the transparent relay, so that the bytes the parser saw are known).
func (s *st) alternate(stage string, rounds int) {
	devs := []*drv.Dev{s.A, s.B}
	clis := []*client.Client{s.cA, s.cB}
	for i := 0; i < rounds; i++ {
		for k, dev := range devs {
			if _, ok := s.agreeRaw(dev, fmt.Sprintf("%s/alt%d", stage, i)); !ok {
				return
			}
			if i%4 != k {
				continue
			}
			// the real parser on a relayed, unmodified reply
			fails := 0
			for attempt := 0; attempt < 9 && fails < 3; attempt++ {
				snap := s.S.VerifSnapshot(true)
				t0 := time.Now().Unix()
				d := s.deliverWith(clis[k], variant{class: "relay_genuine", pos: i})
				t1 := time.Now().Unix()
				if !d.relayed {
					s.r.Count("discarded_slow_attempts", 1)
					continue
				}
				ref, probs, inc := s.judgeBytes(dev, stage+"/alt-relayed", d.in, snap, t0, t1)
				if inc == "" && len(probs) > 0 && authentic(d.in, s.Key.Pub) {
					for _, p := range probs {
						s.r.Violation(p.key, p.msg, p.rp)
					}
					return
				}
				s.r.Count("agree.client_relayed", 1)
				if d.err == nil {
					if inc == "" && len(probs) == 0 {
						if df := compareParse(ref, d.off, d.bf, d.ngca, d.nid, d.srv); df != "" {
							s.r.Violationf("client-parse-differs-from-reference", s.replay(map[string]interface{}{"stage": stage, "dev": dev.ID, "reply": hx(d.in)}), "client parse of a relayed genuine reply differs from the reference parse: %s", df)
							return
						}
					}
					break
				}
				if d.slow || inc != "" || len(probs) > 0 {
					s.r.Count("discarded_slow_attempts", 1)
					continue
				}
				fails++
				if fails >= 3 {
					s.r.Violationf("client-parser-rejects-genuine", s.replay(map[string]interface{}{"stage": stage, "dev": dev.ID, "reply": hx(d.in)}), "the client parser rejected a relayed genuine reply that the reference finds correct (3 attempts): %v", d.err)
					return
				}
			}
		}
	}
	// burst: several connections at once
	type got struct {
		dev *drv.Dev
		raw []byte
		err error
	}
	snap := s.S.VerifSnapshot(true)
	t0 := time.Now().Unix()
	res := make(chan got, 64)
	var wg sync.WaitGroup
	for g := 0; g < 8; g++ {
		wg.Add(1)
		go func(g int) {
			defer wg.Done()
			for i := 0; i < 6; i++ {
				dev := devs[(g+i)%2]
				var req [4]byte
				binary.LittleEndian.PutUint32(req[:], dev.ID)
				raw, err := s.SyncRaw(req[:])
				res <- got{dev, raw, err}
			}
		}(g)
	}
	wg.Wait()
	close(res)
	t1 := time.Now().Unix()
	for x := range res {
		if x.err != nil || !authentic(x.raw, s.Key.Pub) {
			s.r.Count("burst.unusable", 1) // transport trouble decides nothing; complete replies are judged
			continue
		}
		_, probs, inc := s.judgeBytes(x.dev, stage+"/burst", x.raw, snap, t0, t1)
		s.r.Count("agree.burst", 1)
		if inc == "" && len(probs) > 0 {
			for _, p := range probs {
				s.r.Violation(p.key, p.msg, p.rp)
			}
			return
		}
	}
}

// window is what a reply says about the report window, and what a snapshot
// says: offset plus the 4032 presence bits of one device.
type window struct {
	off  uint32
	bits [504]byte
}

func windowOf(snap *server.VerifSnap, id uint32) (w window, ok bool) {
	reports := snap.Reports[id]
	if reports == nil {
		return w, false
	}
	w.off = snap.Offset
	for i := 0; i < 4032; i++ {
		if reports[i].PowerOutput != 0 {
			w.bits[i/8] |= 1 << (uint(i) % 8)
		}
	}
	return w, true
}

// judgeAcrossRotation: a reply produced while the window rotated must be the
// server's data of one instant: (offset, every bit) equals the state before the
// rotation or the state after it, not a mixture.
func (s *st) judgeAcrossRotation(dev *drv.Dev, raw []byte, s0, s1 *server.VerifSnap, how string) {
	if !authentic(raw, s.Key.Pub) {
		s.r.Count("rotation.reply_unusable", 1)
		return
	}
	rep, _, _ := refenc.ParseSyncReply(raw)
	w0, ok0 := windowOf(s0, dev.ID)
	w1, ok1 := windowOf(s1, dev.ID)
	if !ok0 || !ok1 {
		s.r.Inconc("snapshot has no report array for an authorized device")
		return
	}
	s.r.Eval(1)
	s.r.Nontrivial(fmt.Sprintf("%s/rotation/%s/%d/%d", s.label, how, dev.ID, s0.Offset))
	got := window{rep.Offset, rep.Bitfield}
	switch {
	case got == w0:
		s.r.Count("rotation.reply_is_state_before", 1)
	case got == w1:
		s.r.Count("rotation.reply_is_state_after", 1)
	default:
		what := "matches neither the window before nor the window after the rotation"
		if got.off == w1.off && got.bits == w0.bits {
			what = "pairs the bitfield of the window before the rotation with the offset after it"
		} else if got.off == w0.off && got.bits == w1.bits {
			what = "pairs the offset before the rotation with the bitfield after it"
		}
		s.r.Violationf("reply-mixes-two-windows", s.replay(map[string]interface{}{"how": how, "dev": dev.ID, "reply": hx(raw), "offset_before": w0.off, "offset_after": w1.off}),
			"a reply produced while the report window rotated (%s) %s: offset %d, window offsets %d -> %d", how, what, got.off, w0.off, w1.off)
	}
	if rep.DevKey != dev.Key.Pub {
		s.r.Violationf("reply-devkey-mismatch", s.replay(map[string]interface{}{"how": how, "dev": dev.ID, "reply": hx(raw)}), "reply for device %d carries another key", dev.ID)
	}
}

// rotationsDuringRequests: (a) the rotation is let through from inside the
// request handler at its two instrumented points, (b) the rotation runs while a
// crowd of requests is in flight.
func (s *st) rotationsDuringRequests() {
	sync1 := func(dev *drv.Dev) []byte {
		var req [4]byte
		binary.LittleEndian.PutUint32(req[:], dev.ID)
		raw, err := s.SyncRaw(req[:])
		if err != nil {
			return nil
		}
		return raw
	}
	prepare := func() (*server.VerifSnap, bool) {
		off := s.S.VerifSnapshot(false).Offset
		s.addReports(s.A, off, true)
		s.addReports(s.B, off, true)
		drv.SetClock(off + 3201)
		s0 := s.S.VerifSnapshot(true)
		if w, ok := windowOf(s0, s.A.ID); !ok || w.bits == [504]byte{} {
			s.r.Count("rotation.cell_without_reports", 1)
			return s0, false
		}
		return s0, true
	}
	for _, point := range []string{"sync.ready", "sync.afterCopy"} {
		s0, ok := prepare()
		if !ok {
			continue
		}
		var fired, rotated atomic.Int32
		server.VerifSetHook(point, func(*server.GCAServer) {
			if fired.Add(1) == 1 {
				rotated.Store(int32(drv.StepRotation()))
			}
		})
		run.Op("sync with rotation injected at %s", point)
		raw := sync1(s.A)
		server.VerifSetHook(point, func(*server.GCAServer) {})
		s1 := s.S.VerifSnapshot(true)
		switch {
		case fired.Load() == 0:
			s.r.Count("rotation.hook_not_reached."+point, 1)
			s.r.Inconc("instrumented point " + point + " was not reached by a sync request: the rotation could not be injected there")
		case rotated.Load() != 1 || s1.Offset != s0.Offset+2016:
			s.r.Inconc(fmt.Sprintf("rotation injected at %s did not happen (%d)", point, rotated.Load()))
		default:
			s.r.Count("rotation.injected_at."+point, 1)
			s.judgeAcrossRotation(s.A, raw, s0, s1, "injected at "+point)
		}
		if fired.Load() == 0 { // keep the window moving for the next cell
			drv.StepRotation()
		}
	}
	for ep := 0; ep < 6; ep++ {
		s0, ok := prepare()
		if !ok {
			continue
		}
		type got struct {
			dev *drv.Dev
			raw []byte
		}
		res := make(chan got, 1024)
		var wg sync.WaitGroup
		var started atomic.Int32
		for g := 0; g < 32; g++ {
			wg.Add(1)
			go func(g int) {
				defer wg.Done()
				for i := 0; i < 16; i++ {
					dev := s.A
					if (g+i)%3 == 0 {
						dev = s.B
					}
					started.Add(1)
					res <- got{dev, sync1(dev)}
				}
			}(g)
		}
		for started.Load() < 48+int32(s.rng.Intn(64)) { // the crowd is under way
			time.Sleep(50 * time.Microsecond)
		}
		run.Op("rotation while a crowd of syncs is in flight (episode %d)", ep)
		n := drv.StepRotation()
		wg.Wait()
		close(res)
		s1 := s.S.VerifSnapshot(true)
		if n != 1 || s1.Offset != s0.Offset+2016 {
			s.r.Inconc(fmt.Sprintf("rotation under load did not happen (%d)", n))
			return
		}
		s.r.Count("rotation.under_load", 1)
		for x := range res {
			if x.raw != nil {
				s.judgeAcrossRotation(x.dev, x.raw, s0, s1, "crowd of requests")
			}
		}
	}
}

// refusals: oracle (iii).
func (s *st) refusals(dir string) {
	unknown := uint32(5000 + s.rng.Intn(1000))
	for _, id := range []uint32{unknown, s.X.ID, 0, 0xffffffff} {
		var req [4]byte
		binary.LittleEndian.PutUint32(req[:], id)
		fails, good := 0, false
		var raw []byte
		for attempt := 0; attempt < 9 && fails < 3 && !good; attempt++ {
			run.Op("raw sync unknown/banned id=%d", id)
			t := time.Now()
			var err error
			raw, err = s.SyncRaw(req[:])
			if err == nil && len(raw) == 1 && raw[0] == 0 {
				good = true
			} else if time.Since(t) > slowCall {
				s.r.Count("discarded_slow_attempts", 1)
			} else {
				fails++
			}
		}
		s.r.Eval(1)
		s.r.Count("refusal.raw", 1)
		if !good && fails >= 3 {
			s.r.Violationf("unknown-id-not-refused", s.replay(map[string]interface{}{"id": id, "reply": hx(raw)}), "request for unknown/banned id %d was answered with %d bytes instead of a single zero byte (3 attempts)", id, len(raw))
		} else if !good {
			s.r.Inconc("refusal could not be judged (attempts too slow)")
		}
	}
	for _, id := range []uint32{unknown, s.X.ID} {
		key := s.X.Key
		if id == unknown {
			key = refenc.GenKey(s.rng)
		}
		d := filepath.Join(dir, fmt.Sprintf("cli-%d", id))
		env := drv.ClientEnv{Dir: d, Key: key, GCA: s.GCA.Pub, ShortID: id, LastSync: drv.FreshSyncStamp(),
			Servers: []refenc.MapEntry{{Pub: s.Key.Pub, Location: "127.0.0.1", TCP: s.TCP, UDP: s.UDP}}}
		if err := env.Write(); err != nil {
			s.r.Inconc(err.Error())
			return
		}
		c, err := drv.StartClient(d)
		if err != nil {
			s.r.Inconc("client start: " + err.Error())
			return
		}
		run.Op("client parser with refused id=%d", id)
		_, _, _, _, _, err = c.VerifServerSync(client.GCAServer{Location: "127.0.0.1", TcpPort: s.TCP}, glow.PublicKey(s.Key.Pub), glow.PublicKey(s.GCA.Pub))
		s.r.Eval(1)
		s.r.Count("refusal.client", 1)
		if err == nil {
			s.r.Violationf("client-accepts-refusal", s.replay(map[string]interface{}{"id": id}), "the client parser returned no error for a refused request (id %d)", id)
		}
		closeClient(c)
		os.RemoveAll(d)
	}
}

// ---------------------------------------------------------------- tamper oracle

const (
	mustReject = iota
	mustAccept
	either // accepted only with exactly the reference parse of the framed part
	noCrash
)

type variant struct {
	class  string
	pos    int
	expect int
	mut    func(g []byte) []byte
}

// framed returns the part of out that the length prefix frames, if complete.
func framed(out []byte) ([]byte, bool) {
	if len(out) < 2 {
		return nil, false
	}
	n := int(binary.LittleEndian.Uint16(out))
	if len(out) < 2+n {
		return nil, false
	}
	return out[:2+n], true
}

type delivery struct {
	off      uint32
	bf       [504]byte
	ngca     glow.PublicKey
	nid      uint32
	srv      []server.AuthorizedServer
	err      error
	in, out  []byte
	slow     bool
	relayed  bool
	relayErr string
}

// deliver runs the real client parser against the relay once.
func (s *st) deliver(v variant) delivery { return s.deliverWith(s.cA, v) }

func (s *st) deliverWith(c *client.Client, v variant) delivery {
	var d delivery
	s.m.set(v.mut)
	n0 := s.m.doneCount()
	run.Op("tamper class=%s pos=%d", v.class, v.pos)
	t := time.Now()
	d.off, d.bf, d.ngca, d.nid, d.srv, d.err = c.VerifServerSync(client.GCAServer{Location: "127.0.0.1", TcpPort: s.m.Port}, glow.PublicKey(s.Key.Pub), glow.PublicKey(s.GCA.Pub))
	d.slow = time.Since(t) > slowCall
	d.in, d.out, d.relayed, d.relayErr = s.m.waitDone(n0)
	return d
}

func (s *st) judge(v variant) {
	s.cases++
	var d delivery
	fails := 0
	for attempt := 0; ; attempt++ {
		d = s.deliver(v)
		if d.err == nil {
			break // an acceptance is never an artefact of a slow machine
		}
		if d.relayed && !d.slow {
			fails++
			if v.expect != mustAccept || fails >= 3 {
				break
			}
			continue // an authentic reply was rejected: must repeat to count
		}
		s.r.Count("discarded_slow_attempts", 1)
		if attempt >= 8 {
			s.r.Inconc("relay/transport problems: " + d.relayErr)
			return
		}
	}
	off, bf, ngca, nid, srv, err, in, out := d.off, d.bf, d.ngca, d.nid, d.srv, d.err, d.in, d.out
	s.r.Eval(1)
	s.r.Nontrivial(fmt.Sprintf("%s/%s/%d", s.label, v.class, v.pos))
	rp := s.replay(map[string]interface{}{"class": v.class, "pos": v.pos, "genuine": hx(in), "delivered": hx(out)})
	checkParse := func() {
		fr, ok := framed(out)
		if !ok {
			s.r.Violationf("incomplete-reply-accepted:"+v.class, rp, "the client parser accepted a reply whose frame is incomplete")
			return
		}
		ref, refused, perr := refenc.ParseSyncReply(fr)
		if perr != nil || refused {
			s.r.Violationf("unparseable-reply-accepted:"+v.class, rp, "the client parser accepted a reply the reference parser cannot parse: %v", perr)
			return
		}
		if d := compareParse(ref, off, bf, ngca, nid, srv); d != "" {
			s.r.Violationf("client-parse-differs-from-reference", rp, "class %s: client parse differs from the reference parse of the delivered bytes: %s", v.class, d)
		}
	}
	switch v.expect {
	case mustReject:
		s.r.Count("rejected_expected", 1)
		if err == nil {
			s.r.Violationf("tampered-reply-accepted:"+v.class, rp, "reply rewritten by class %s (position %d) was accepted by the client parser", v.class, v.pos)
		}
	case mustAccept:
		s.r.Count("accepted_expected", 1)
		if err != nil {
			s.r.Violationf("authentic-reply-rejected:"+v.class, rp, "authentic reply of class %s was rejected (3 attempts): %v", v.class, err)
			return
		}
		checkParse()
	case either:
		if err == nil {
			s.r.Count("either.accepted."+v.class, 1)
			checkParse()
		} else {
			s.r.Count("either.rejected."+v.class, 1)
		}
	case noCrash:
		if err == nil {
			s.r.Count("nocrash.accepted."+v.class, 1)
		} else {
			s.r.Count("nocrash.rejected."+v.class, 1)
		}
	}
}

func flip(p int) func([]byte) []byte {
	return func(g []byte) []byte {
		if p/8 < len(g) {
			g[p/8] ^= 1 << (uint(p) % 8)
		}
		return g
	}
}

// rebuilt applies f to the parsed genuine reply and re-signs with priv.
func rebuilt(priv [32]byte, f func(r *refenc.SyncReply)) func([]byte) []byte {
	return func(g []byte) []byte {
		rep, refused, err := refenc.ParseSyncReply(g)
		if err != nil || refused {
			return g
		}
		if f != nil {
			f(&rep)
		}
		return refenc.BuildSyncReply(rep, priv)
	}
}

func (s *st) entry(k refenc.Key) refenc.AuthServer {
	loc, hp := deadLocation(s.rng, 3+s.rng.Intn(2))
	return refenc.AuthServer{Pub: refenc.GenKey(s.rng).Pub, Banned: s.rng.Intn(4) == 0, Location: loc, HTTP: hp, TCP: uint16(s.rng.Intn(65536)), UDP: uint16(s.rng.Intn(65536))}.Signed(k.Priv)
}

// variants builds the case list for the final state. genuine is a reply as
// the server produces it in this state (positions are stable: only the time
// stamp and the signature differ between two genuine replies).
func (s *st) variants(genuine []byte, full bool) (vs []variant, sample []variant) {
	rng := s.rng
	n := len(genuine)
	rep, _, _ := refenc.ParseSyncReply(genuine)
	add := func(class string, pos int, expect int, mut func([]byte) []byte) {
		vs = append(vs, variant{class, pos, expect, mut})
	}
	pick := func(class string) { sample = append(sample, vs[len(vs)-1]) }

	// ---- single bit flips
	total := n * 8
	chosen := map[int]bool{}
	var order []int
	take := func(p int) {
		if p >= 0 && p < total && !chosen[p] {
			chosen[p] = true
			order = append(order, p)
		}
	}
	budget := 512
	if full {
		budget = 16000
	}
	if total <= budget {
		for p := 0; p < total; p++ {
			take(p)
		}
	} else {
		for p := 0; p < 16; p++ { // prefix
			take(p)
		}
		for p := (n - 72) * 8; p < (n-64)*8; p++ { // time stamp
			take(p)
		}
		// field boundaries (byte positions in the raw reply)
		bounds := []int{2, 34, 38, 542, 574, 578, n - 136, n - 72, n - 64, n - 1}
		i := 578
		for _, e := range rep.Servers {
			l := len(e.Location)
			bounds = append(bounds, i, i+32, i+33, i+34, i+34+l, i+36+l, i+38+l, i+40+l)
			i += 104 + l
		}
		for _, bnd := range bounds {
			for _, by := range []int{bnd - 1, bnd} {
				if len(order) < budget-64 || by >= n-137 {
					take(by*8 + rng.Intn(8))
					take(by*8 + rng.Intn(8))
				}
			}
		}
		for k := 0; k < 24; k++ { // inside the server signature
			take((n-64)*8 + rng.Intn(512))
		}
		for len(order) < budget {
			take(rng.Intn(total))
		}
	}
	for _, p := range order {
		add("bitflip", p, mustReject, flip(p))
	}
	for k := 0; k < 3; k++ {
		sample = append(sample, vs[rng.Intn(len(order))])
	}
	sample = append(sample, variant{"bitflip", 3, mustReject, flip(3)}, variant{"bitflip", 13, mustReject, flip(13)})

	// ---- truncation at every length (thorough) / a structured sample (quick)
	lens := map[int]bool{}
	if full {
		for l := 0; l < n; l++ {
			lens[l] = true
		}
	} else {
		for l := 0; l < n && l <= 80; l++ {
			lens[l] = true
		}
		for l := n - 140; l < n; l++ {
			if l >= 0 {
				lens[l] = true
			}
		}
		for _, l := range []int{576, 577, 578, 579, 640, 712, 713, 714} {
			if l < n {
				lens[l] = true
			}
		}
		for k := 0; k < 60; k++ {
			lens[rng.Intn(n)] = true
		}
	}
	ls := make([]int, 0, len(lens))
	for l := range lens {
		ls = append(ls, l)
	}
	sort.Ints(ls)
	for _, l := range ls {
		l := l
		add("truncate", l, mustReject, func(g []byte) []byte {
			if l < len(g) {
				return g[:l]
			}
			return g[:len(g)-1]
		})
	}
	pick("truncate")
	sample = append(sample, variant{"truncate", 1, mustReject, func(g []byte) []byte { return g[:1] }})
	// self-consistent short replies (prefix adjusted to what follows): the
	// signature is then whatever bytes end up last, i.e. garbage
	tl := []int{0, 1, 2, 3, 63, 64, 65, 71, 72, 73, 135, 136, 137, 575, 576, 577, 639, 640, 675, 676, 703, 704, 710, 711, 712, 713}
	for k := 0; k < 12; k++ {
		tl = append(tl, rng.Intn(n-2))
	}
	for _, m := range tl {
		m := m
		if m >= n-2 {
			continue
		}
		add("truncate_adjusted", m, mustReject, func(g []byte) []byte {
			o := append([]byte(nil), g[:2+m]...)
			binary.LittleEndian.PutUint16(o, uint16(m))
			return o
		})
		if m == 5 || m == 71 || m == 640 {
			pick("truncate_adjusted")
		}
	}
	sample = append(sample, variant{"truncate_adjusted", 5, mustReject, func(g []byte) []byte {
		o := append([]byte(nil), g[:7]...)
		binary.LittleEndian.PutUint16(o, 5)
		return o
	}})
	// short replies that carry a fresh time stamp and a valid signature of the
	// contacted server: only "no crash" is claimed for them (their acceptance
	// is outside the property's list)
	for _, m := range []int{72, 73, 100, 135, 136, 137, 300, 575, 576, 577, 600, 675, 676, 680, 711} {
		m := m
		for _, withKey := range []bool{false, true} {
			withKey := withKey
			add("short_valid", m, noCrash, func(g []byte) []byte {
				body := make([]byte, m-64)
				rng.Read(body)
				if withKey && len(body) >= 32 {
					copy(body, s.A.Key.Pub[:])
				}
				binary.LittleEndian.PutUint64(body[m-72:], uint64(time.Now().Unix()))
				sig := refenc.Sign(s.Key.Priv, body)
				o := make([]byte, 2, 2+m)
				binary.LittleEndian.PutUint16(o, uint16(m))
				o = append(o, body...)
				return append(o, sig[:]...)
			})
		}
	}
	pick("short_valid")

	// ---- extension
	exts := []int{1, 2, 63, 64, 65, 72, 136, 199, 200}
	ne := 8
	if full {
		ne = 200
	}
	for k := 1; k <= ne; k++ {
		if full {
			exts = append(exts, k)
		} else {
			exts = append(exts, 1+rng.Intn(200))
		}
	}
	for _, k := range exts {
		k := k
		extra := make([]byte, k)
		rng.Read(extra)
		add("extend_plain", k, either, func(g []byte) []byte { return append(g, extra...) })
		add("extend_adjusted", k, mustReject, func(g []byte) []byte {
			o := append(g, extra...)
			binary.LittleEndian.PutUint16(o, uint16(len(o)-2))
			return o
		})
		if k == 64 {
			pick("extend_adjusted")
		}
		add("extend_inside", k, mustReject, func(g []byte) []byte { // bytes inserted before the time stamp
			o := append([]byte(nil), g[:len(g)-72]...)
			o = append(o, extra...)
			o = append(o, g[len(g)-72:]...)
			binary.LittleEndian.PutUint16(o, uint16(len(o)-2))
			return o
		})
	}

	// ---- re-signing under other keys (content untouched)
	other := refenc.GenKey(rng)
	keys := map[string]refenc.Key{"otherserver": other, "gca": s.GCA, "device": s.A.Key, "temp": s.Temp, "newgca": s.G2}
	names := []string{"otherserver", "gca", "device", "temp", "newgca"}
	for i, nm := range names {
		add("resign_otherkey."+nm, i, mustReject, rebuilt(keys[nm].Priv, nil))
		pick("resign")
	}
	add("resign_prefixed_bytes", 0, mustReject, func(g []byte) []byte {
		body := g[2 : len(g)-64]
		sig := refenc.Sign(s.Key.Priv, append([]byte("SyncResponse"), body...))
		return append(append([]byte(nil), g[:len(g)-64]...), sig[:]...)
	})

	// ---- validly re-signed with the contacted server's own key
	day := int64(24 * 3600)
	margin := int64(600)
	add("valid.rebuild_identity", 0, mustAccept, rebuilt(s.Key.Priv, nil))
	for i, d := range []int64{-(day - margin), day - margin, -day / 2, day / 2} {
		d := d
		add("valid.time_within", i, mustAccept, rebuilt(s.Key.Priv, func(r *refenc.SyncReply) { r.Unix = uint64(time.Now().Unix() + d) }))
	}
	for i, d := range []int64{-(day + margin), day + margin, -3 * day, 30 * day, -int64(1) << 40, int64(1) << 40} {
		d := d
		add("valid.time_outside", i, mustReject, rebuilt(s.Key.Priv, func(r *refenc.SyncReply) { r.Unix = uint64(time.Now().Unix() + d) }))
		if i < 2 {
			pick("time")
		}
	}
	add("valid.time_outside", 6, mustReject, rebuilt(s.Key.Priv, func(r *refenc.SyncReply) { r.Unix = 0 }))
	add("valid.time_outside", 7, mustReject, rebuilt(s.Key.Priv, func(r *refenc.SyncReply) { r.Unix = ^uint64(0) }))
	// far-away stamps, validly re-signed by the contacted server: the genuine
	// stamp with one high bit flipped, and now +- 2^k seconds (2^32 s = 136 years)
	for bit := 40; bit < 64; bit++ {
		bit := bit
		add("time.far_resigned", bit, mustReject, rebuilt(s.Key.Priv, func(r *refenc.SyncReply) { r.Unix ^= 1 << uint(bit) }))
		if bit == 55 || bit == 63 {
			pick("time")
		}
	}
	for k := 32; k < 64; k++ {
		k := k
		add("time.far_resigned", 100+k, mustReject, rebuilt(s.Key.Priv, func(r *refenc.SyncReply) { r.Unix = uint64(time.Now().Unix()) + 1<<uint(k) }))
		add("time.far_resigned", 200+k, mustReject, rebuilt(s.Key.Priv, func(r *refenc.SyncReply) { r.Unix = uint64(time.Now().Unix()) - 1<<uint(k) }))
	}
	for i, v := range []uint64{1 << 63, 1<<63 - 1, 1<<63 + 1, 1 << 55, 3 << 55, 1<<64 - 1<<55, 1 << 32} {
		v := v
		add("time.far_resigned", 300+i, mustReject, rebuilt(s.Key.Priv, func(r *refenc.SyncReply) { r.Unix = v }))
		add("time.far_resigned", 400+i, mustReject, rebuilt(s.Key.Priv, func(r *refenc.SyncReply) { r.Unix = uint64(time.Now().Unix()) + v }))
	}
	add("valid.devkey_other_device", 0, mustReject, rebuilt(s.Key.Priv, func(r *refenc.SyncReply) { r.DevKey = s.B.Key.Pub }))
	pick("devkey")
	add("valid.devkey_other_device", 1, mustReject, rebuilt(s.Key.Priv, func(r *refenc.SyncReply) { r.DevKey = other.Pub }))
	add("valid.devkey_other_device", 2, mustReject, rebuilt(s.Key.Priv, func(r *refenc.SyncReply) { r.DevKey[31] ^= 1 }))

	// algebraic twins (r, N-s) of genuine signatures: nobody needs a key for them
	add("twin.server_sig", 0, mustReject, func(g []byte) []byte {
		var sig [64]byte
		copy(sig[:], g[len(g)-64:])
		sig = refenc.TwinSig(sig)
		copy(g[len(g)-64:], sig[:])
		return g
	})
	pick("twin")
	for i := 0; i < 3; i++ {
		i := i
		add("twin.entry_gca_sig", i, mustReject, rebuilt(s.Key.Priv, func(r *refenc.SyncReply) {
			if len(r.Servers) == 0 {
				k := s.GCA
				if s.mig != nil {
					k = s.G2
				}
				r.Servers = append(r.Servers, s.entry(k))
			}
			j := i % len(r.Servers)
			r.Servers[j].Sig = refenc.TwinSig(r.Servers[j].Sig)
			if s.mig != nil {
				r.MigSig = refenc.Migration{Equipment: r.DevKey, NewGCA: r.NewGCA, NewID: r.NewID, Servers: r.Servers}.Signed(s.GCA.Priv).Sig
			}
		}))
		if i == 0 {
			pick("twin")
		}
	}
	add("twin.migration_sig", 0, mustReject, rebuilt(s.Key.Priv, func(r *refenc.SyncReply) {
		if s.mig == nil { // make it a genuine order first
			r.NewGCA, r.NewID = s.G2.Pub, 99
			r.Servers = []refenc.AuthServer{s.entry(s.G2)}
			r.MigSig = refenc.Migration{Equipment: r.DevKey, NewGCA: r.NewGCA, NewID: r.NewID, Servers: r.Servers}.Signed(s.GCA.Priv).Sig
		}
		r.MigSig = refenc.TwinSig(r.MigSig)
	}))
	pick("twin")

	// long lists: one entry without the required signature among the last
	// three of 65..67 entries (and a genuine long list as the control)
	inner := s.GCA
	if s.mig != nil {
		inner = s.G2
	}
	long := make([]refenc.AuthServer, 67)
	for i := range long {
		long[i] = refenc.AuthServer{Pub: refenc.GenKey(rng).Pub, Banned: true, Location: fmt.Sprintf("127.77.%d.%d", rng.Intn(256), 1+rng.Intn(254)), HTTP: uint16(rng.Intn(65536)), TCP: uint16(rng.Intn(65536)), UDP: uint16(rng.Intn(65536))}.Signed(inner.Priv)
	}
	withList := func(list []refenc.AuthServer) func([]byte) []byte {
		return rebuilt(s.Key.Priv, func(r *refenc.SyncReply) {
			r.Servers = list
			if s.mig != nil {
				r.MigSig = refenc.Migration{Equipment: r.DevKey, NewGCA: r.NewGCA, NewID: r.NewID, Servers: list}.Signed(s.GCA.Priv).Sig
			}
		})
	}
	for _, size := range []int{65, 66, 67} {
		for fromEnd := 0; fromEnd < 3; fromEnd++ {
			list := append([]refenc.AuthServer(nil), long[:size]...)
			f := &list[size-1-fromEnd]
			switch (size + fromEnd) % 3 {
			case 0:
				f.Sig = [64]byte{}
			case 1:
				*f = f.Signed(other.Priv)
			default:
				f.Banned = !f.Banned // genuine signature, other content
			}
			add("valid.large_list_tail_unsigned", size*10+fromEnd, mustReject, withList(list))
			if size == 67 && fromEnd == 2 {
				pick("entry")
			}
		}
		add("valid.large_list_genuine", size, mustAccept, withList(append([]refenc.AuthServer(nil), long[:size]...)))
	}

	if s.mig == nil {
		// server list: entries lacking the GCA's signature
		signers := []refenc.Key{s.Key, s.A.Key, other, s.G2, s.Temp}
		mutEntry := func(class string, pos int, f func(e *refenc.AuthServer)) {
			add(class, pos, mustReject, rebuilt(s.Key.Priv, func(r *refenc.SyncReply) {
				if len(r.Servers) == 0 {
					r.Servers = append(r.Servers, s.entry(s.GCA))
				}
				j := pos % len(r.Servers)
				f(&r.Servers[j])
			}))
		}
		for j := 0; j < 3; j++ {
			mutEntry("valid.entry_sig_stripped", j, func(e *refenc.AuthServer) { e.Sig = [64]byte{} })
		}
		pick("entry")
		for j, k := range signers {
			k := k
			mutEntry("valid.entry_sig_foreign", j, func(e *refenc.AuthServer) { *e = e.Signed(k.Priv) })
		}
		pick("entry")
		mutEntry("valid.entry_sig_noprefix", 0, func(e *refenc.AuthServer) { e.Sig = refenc.Sign(s.GCA.Priv, e.SigningBytes()[16:]) })
		mutEntry("valid.entry_altered", 0, func(e *refenc.AuthServer) { e.Banned = !e.Banned })
		pick("entry")
		mutEntry("valid.entry_altered", 1, func(e *refenc.AuthServer) { e.TCP ^= 1 })
		mutEntry("valid.entry_altered", 2, func(e *refenc.AuthServer) { e.UDP ^= 0x8000 })
		mutEntry("valid.entry_altered", 3, func(e *refenc.AuthServer) { e.HTTP++ })
		mutEntry("valid.entry_altered", 4, func(e *refenc.AuthServer) { e.Location += "x" })
		mutEntry("valid.entry_altered", 5, func(e *refenc.AuthServer) { e.Pub[0] ^= 0x80 })
		// a second record for a key that lacks the GCA's signature, after a genuine first one
		for i := 0; i < 6; i++ {
			i := i
			add("valid.entry_dup_second_unsigned", i, mustReject, rebuilt(s.Key.Priv, func(r *refenc.SyncReply) {
				if len(r.Servers) == 0 {
					r.Servers = append(r.Servers, s.entry(s.GCA))
				}
				d := r.Servers[i%len(r.Servers)]
				d.Banned = i%2 == 0 || !d.Banned
				if i >= 2 {
					d.TCP++
				}
				switch i % 3 {
				case 0:
					d.Sig = [64]byte{}
				case 1:
					d = d.Signed(other.Priv)
				default:
					rng.Read(d.Sig[:])
				}
				r.Servers = append(r.Servers, d)
			}))
			if i == 0 {
				pick("entry")
			}
		}
		// a forged second record that carries a copy of the genuine record's signature
		for i := 0; i < 4; i++ {
			i := i
			add("valid.entry_dup_sig_reused", i, mustReject, rebuilt(s.Key.Priv, func(r *refenc.SyncReply) {
				if len(r.Servers) == 0 {
					r.Servers = append(r.Servers, s.entry(s.GCA))
				}
				d := r.Servers[i%len(r.Servers)] // signature bytes stay
				d.Banned = !d.Banned
				if i%2 == 1 {
					d.Banned = true
					d.Location, _ = deadLocation(rng, 3)
					d.TCP++
				}
				r.Servers = append(r.Servers, d)
			}))
			if i == 1 {
				pick("entry")
			}
		}
		// an "order" that names the device's own GCA and carries no signature
		add("valid.mig_to_current_unsigned", 0, mustReject, rebuilt(s.Key.Priv, func(r *refenc.SyncReply) { r.NewGCA = s.GCA.Pub; r.NewID = 666 }))
		pick("mig")
		add("valid.entry_added_foreign", 0, mustReject, rebuilt(s.Key.Priv, func(r *refenc.SyncReply) { r.Servers = append(r.Servers, s.entry(other)) }))
		// authentic variations
		add("valid.entry_added_gca", 0, mustAccept, rebuilt(s.Key.Priv, func(r *refenc.SyncReply) { r.Servers = append(r.Servers, s.entry(s.GCA)) }))
		add("valid.entry_dropped", 0, mustAccept, rebuilt(s.Key.Priv, func(r *refenc.SyncReply) {
			if len(r.Servers) > 0 {
				r.Servers = r.Servers[:len(r.Servers)-1]
			}
		}))
		// an order that the current GCA never signed
		add("valid.mig_forged", 0, mustReject, rebuilt(s.Key.Priv, func(r *refenc.SyncReply) {
			m := refenc.Migration{Equipment: r.DevKey, NewGCA: s.G2.Pub, NewID: 77}.Signed(s.G2.Priv)
			r.NewGCA, r.NewID, r.Servers, r.MigSig = m.NewGCA, m.NewID, nil, m.Sig
		}))
		pick("mig")
		add("valid.mig_forged", 1, mustReject, rebuilt(s.Key.Priv, func(r *refenc.SyncReply) {
			m := refenc.Migration{Equipment: r.DevKey, NewGCA: s.G2.Pub, NewID: 77}.Signed(s.Key.Priv)
			r.NewGCA, r.NewID, r.Servers, r.MigSig = m.NewGCA, m.NewID, nil, m.Sig
		}))
		add("valid.mig_forged", 2, mustReject, rebuilt(s.Key.Priv, func(r *refenc.SyncReply) { r.NewGCA = s.G2.Pub; r.NewID = 5 }))
	} else {
		order := func(r *refenc.SyncReply) refenc.Migration {
			return refenc.Migration{Equipment: r.DevKey, NewGCA: r.NewGCA, NewID: r.NewID, Servers: r.Servers}
		}
		for i := 0; i < 4; i++ {
			p := rng.Intn(512)
			add("valid.mig_outer_invalid", p, mustReject, rebuilt(s.Key.Priv, func(r *refenc.SyncReply) { r.MigSig[p/8] ^= 1 << (uint(p) % 8) }))
		}
		pick("mig")
		add("valid.mig_outer_invalid", 600, mustReject, rebuilt(s.Key.Priv, func(r *refenc.SyncReply) { r.MigSig = [64]byte{} }))
		add("valid.mig_outer_invalid", 601, mustReject, rebuilt(s.Key.Priv, func(r *refenc.SyncReply) { r.MigSig = refenc.Sign(s.GCA.Priv, order(r).SigningBytes()[18:]) }))
		for i, k := range []refenc.Key{s.G2, s.Key, s.A.Key, other} {
			k := k
			add("valid.mig_outer_foreign", i, mustReject, rebuilt(s.Key.Priv, func(r *refenc.SyncReply) { r.MigSig = order(r).Signed(k.Priv).Sig }))
			if i == 0 {
				pick("mig")
			}
		}
		// inner entries signed by the wrong GCA below a valid outer signature
		for i, k := range []refenc.Key{s.GCA, other, s.Key} {
			k := k
			add("valid.mig_inner_foreign", i, mustReject, rebuilt(s.Key.Priv, func(r *refenc.SyncReply) {
				if len(r.Servers) == 0 {
					r.Servers = append(r.Servers, s.entry(k))
				}
				j := rng.Intn(len(r.Servers))
				r.Servers[j] = r.Servers[j].Signed(k.Priv)
				if i == 0 { // all of them
					for j := range r.Servers {
						r.Servers[j] = r.Servers[j].Signed(k.Priv)
					}
				}
				r.MigSig = order(r).Signed(s.GCA.Priv).Sig
			}))
			if i == 0 {
				pick("mig")
			}
		}
		for i := 0; i < 4; i++ {
			i := i
			add("valid.mig_dup_second_unsigned", i, mustReject, rebuilt(s.Key.Priv, func(r *refenc.SyncReply) {
				if len(r.Servers) == 0 {
					r.Servers = append(r.Servers, s.entry(s.G2))
				}
				d := r.Servers[i%len(r.Servers)]
				d.Banned = i%2 == 0 || !d.Banned
				d.UDP++
				switch i % 3 {
				case 0:
					d.Sig = [64]byte{}
				case 1:
					d = d.Signed(s.GCA.Priv)
				default:
					rng.Read(d.Sig[:])
				}
				r.Servers = append(r.Servers, d)
				r.MigSig = order(r).Signed(s.GCA.Priv).Sig
			}))
			if i == 0 {
				pick("mig")
			}
		}
		for i := 0; i < 3; i++ {
			i := i
			add("valid.mig_dup_sig_reused", i, mustReject, rebuilt(s.Key.Priv, func(r *refenc.SyncReply) {
				if len(r.Servers) == 0 {
					r.Servers = append(r.Servers, s.entry(s.G2))
				}
				d := r.Servers[i%len(r.Servers)]
				d.Banned = !d.Banned
				if i > 0 {
					d.UDP++
				}
				r.Servers = append(r.Servers, d)
				r.MigSig = order(r).Signed(s.GCA.Priv).Sig
			}))
			if i == 0 {
				pick("mig")
			}
		}
		add("valid.mig_inner_stripped", 0, mustReject, rebuilt(s.Key.Priv, func(r *refenc.SyncReply) {
			if len(r.Servers) == 0 {
				r.Servers = append(r.Servers, s.entry(s.G2))
			}
			r.Servers[len(r.Servers)-1].Sig = [64]byte{}
			r.MigSig = order(r).Signed(s.GCA.Priv).Sig
		}))
		// order made out for another device, delivered under this device's key
		add("valid.mig_other_device", 0, mustReject, rebuilt(s.Key.Priv, func(r *refenc.SyncReply) {
			m := order(r)
			m.Equipment = s.B.Key.Pub
			r.MigSig = m.Signed(s.GCA.Priv).Sig
		}))
		pick("mig")
		add("valid.mig_fields_altered", 0, mustReject, rebuilt(s.Key.Priv, func(r *refenc.SyncReply) { r.NewID++ }))
		add("valid.mig_fields_altered", 1, mustReject, rebuilt(s.Key.Priv, func(r *refenc.SyncReply) { r.NewGCA = other.Pub }))
		add("valid.mig_fields_altered", 2, mustReject, rebuilt(s.Key.Priv, func(r *refenc.SyncReply) { r.Servers = append(r.Servers, s.entry(s.G2)) }))
		// a correctly re-issued order is authentic
		add("valid.mig_reissued", 0, mustAccept, rebuilt(s.Key.Priv, func(r *refenc.SyncReply) {
			r.Servers = append(r.Servers, s.entry(s.G2))
			r.NewID++
			r.MigSig = order(r).Signed(s.GCA.Priv).Sig
		}))
	}
	return vs, sample
}

// ---------------------------------------------------------------- full rounds

type cliView struct {
	GCA     [32]byte
	ID      uint32
	Servers map[[32]byte]refenc.MapEntry
}

func viewOf(c *client.Client) cliView {
	st := c.VerifState()
	v := cliView{GCA: st.GCAPubKey, ID: st.ShortID, Servers: map[[32]byte]refenc.MapEntry{}}
	for k, e := range st.Servers {
		v.Servers[k] = refenc.MapEntry{Pub: k, Banned: e.Banned, Location: e.Location, HTTP: e.HttpPort, TCP: e.TcpPort, UDP: e.UdpPort}
	}
	return v
}

func viewOfFiles(dir string) (cliView, error) {
	var v cliView
	g, err := os.ReadFile(filepath.Join(dir, client.GCAPubKeyFile))
	if err != nil || len(g) != 32 {
		return v, fmt.Errorf("gcaPubKey.dat: %v (%d bytes)", err, len(g))
	}
	copy(v.GCA[:], g)
	id, err := os.ReadFile(filepath.Join(dir, client.ShortIDFile))
	if err != nil || len(id) != 4 {
		return v, fmt.Errorf("shortID.dat: %v (%d bytes)", err, len(id))
	}
	v.ID = binary.LittleEndian.Uint32(id)
	m, err := os.ReadFile(filepath.Join(dir, client.GCAServerMapFile))
	if err != nil {
		return v, err
	}
	v.Servers, err = refenc.ParseServerMap(m)
	return v, err
}

func (a cliView) diff(b cliView) string {
	if a.GCA != b.GCA {
		return fmt.Sprintf("GCA key %x vs %x", a.GCA[:6], b.GCA[:6])
	}
	if a.ID != b.ID {
		return fmt.Sprintf("short id %d vs %d", a.ID, b.ID)
	}
	if len(a.Servers) != len(b.Servers) {
		return fmt.Sprintf("%d vs %d servers", len(a.Servers), len(b.Servers))
	}
	for k, e := range a.Servers {
		if f, ok := b.Servers[k]; !ok || e != f {
			return fmt.Sprintf("server %x differs (%+v vs %+v, present=%v)", k[:6], e, f, ok)
		}
	}
	return ""
}

func (s *st) newRoundClient(dir string, n int) (*client.Client, string, error) {
	d := filepath.Join(dir, fmt.Sprintf("round-%d", n))
	env := drv.ClientEnv{Dir: d, Key: s.A.Key, GCA: s.GCA.Pub, ShortID: s.A.ID, LastSync: drv.FreshSyncStamp(),
		Servers: []refenc.MapEntry{{Pub: s.Key.Pub, Location: "127.0.0.1", TCP: s.m.Port, UDP: s.UDP}}}
	if err := env.Write(); err != nil {
		return nil, d, err
	}
	c, err := drv.StartClient(d)
	return c, d, err
}

// staleRound: two overlapping sync rounds of one device. Round A gets a reply
// that is fine for the GCA the device has when A starts (a plain list, or an
// order, signed by that GCA) and is held just before it adopts anything
// (instrumented point sync.beforeAdopt). Round B meanwhile follows a genuine
// order to a new GCA. Then A goes on. Its reply carries no signature of the GCA
// the device has now: nothing of it may reach the map, the ban flags or the
// files.
func (s *st) staleRound(dir string, offset uint32, asOrder bool) {
	c, d, err := s.newRoundClient(dir, 2)
	if err != nil {
		s.r.Inconc("client start: " + err.Error())
		return
	}
	defer os.RemoveAll(d)
	defer closeClient(c)
	G3 := refenc.GenKey(s.rng)
	relay := refenc.AuthServer{Pub: s.Key.Pub, Location: "127.0.0.1", TCP: s.m.Port, UDP: s.UDP}
	intruder := s.entry(s.GCA) // a server only the former GCA vouches for
	class := "stale_round.list_by_former_gca"
	replyA := rebuilt(s.Key.Priv, func(r *refenc.SyncReply) {
		ban := relay
		ban.Banned = true
		r.NewGCA, r.NewID, r.MigSig = [32]byte{}, 0, [64]byte{}
		r.Servers = []refenc.AuthServer{intruder, ban.Signed(s.GCA.Priv)}
	})
	if asOrder {
		class = "stale_round.order_by_former_gca"
		replyA = rebuilt(s.Key.Priv, func(r *refenc.SyncReply) {
			r.NewGCA, r.NewID = G3.Pub, 31337
			r.Servers = []refenc.AuthServer{relay.Signed(G3.Priv)}
			r.MigSig = refenc.Migration{Equipment: r.DevKey, NewGCA: r.NewGCA, NewID: r.NewID, Servers: r.Servers}.Signed(s.GCA.Priv).Sig
		})
	}
	newID := uint32(4242 + s.rng.Intn(1000))
	replyB := rebuilt(s.Key.Priv, func(r *refenc.SyncReply) {
		r.NewGCA, r.NewID = s.G2.Pub, newID
		r.Servers = []refenc.AuthServer{relay.Signed(s.G2.Priv), s.entry(s.G2)}
		r.MigSig = refenc.Migration{Equipment: r.DevKey, NewGCA: r.NewGCA, NewID: r.NewID, Servers: r.Servers}.Signed(s.GCA.Priv).Sig
	})
	arrived := make(chan struct{}, 1)
	release := make(chan struct{})
	var first atomic.Bool
	client.VerifSetHook("sync.beforeAdopt", func(x *client.Client) {
		if x == c && first.CompareAndSwap(false, true) {
			arrived <- struct{}{}
			<-release
		}
	})
	defer client.VerifSetHook("sync.beforeAdopt", func(*client.Client) {})
	s.m.set(replyA)
	doneA := make(chan bool, 1)
	run.Op("stale round: A starts (%s)", class)
	go func() { doneA <- c.VerifSyncOnce(offset) }()
	select {
	case <-arrived:
	case <-doneA:
		close(release)
		s.r.Count("stale_round.a_not_held", 1) // its reply did not get as far as adoption (slow machine): decides nothing
		return
	case <-time.After(40 * time.Second):
		close(release)
		s.r.Inconc("stale round: round A neither reached adoption nor ended within 40 s")
		return
	}
	s.m.set(replyB)
	run.Op("stale round: B follows a genuine order")
	retB := c.VerifSyncOnce(offset)
	afterB := viewOf(c)
	filesB, errB := viewOfFiles(d)
	close(release)
	var retA bool
	select {
	case retA = <-doneA:
	case <-time.After(40 * time.Second):
		s.r.Inconc("stale round: round A did not end within 40 s after its release")
		return
	}
	s.m.set(nil)
	s.r.Eval(1)
	if afterB.GCA != s.G2.Pub || afterB.ID != newID || errB != nil {
		s.r.Count("stale_round.b_did_not_migrate", 1) // the premise is missing (B's reply lost on a slow machine)
		return
	}
	s.r.Count("stale_round.judged", 1)
	s.r.Nontrivial(fmt.Sprintf("%s/%s", s.label, class))
	after := viewOf(c)
	files, err := viewOfFiles(d)
	rp := s.replay(map[string]interface{}{"class": class, "round_a_returned": retA, "round_b_returned": retB, "former_gca": hex.EncodeToString(s.GCA.Pub[:]), "current_gca": hex.EncodeToString(s.G2.Pub[:])})
	switch {
	case err != nil:
		s.r.Violationf("rejected-reply-damaged-files:"+class, rp, "client files unreadable after the stale round: %v", err)
	case afterB.diff(after) != "":
		s.r.Violationf("rejected-reply-changed-state:"+class, rp, "a round that started under the former GCA was completed after the device had migrated; its reply carries no signature of the current GCA, yet the client's state changed (round returned %v): %s", retA, afterB.diff(after))
	case filesB.diff(files) != "":
		s.r.Violationf("rejected-reply-changed-files:"+class, rp, "the stale round changed the client's files: %s", filesB.diff(files))
	case after.diff(files) != "":
		s.r.Violationf("genuine-round-state-differs-from-files", rp, "after the two rounds state and files differ: %s", after.diff(files))
	default:
		s.r.Count("stale_round.unchanged", 1)
		if retA {
			s.r.Count("stale_round.returned_true_without_change", 1)
		}
	}
}

// recovery: rejecting a reply must leave the client as it was, also in what it
// does next. After a round whose replies all had to be rejected, the same
// servers answer genuinely: the next round must contact one of them and
// succeed. (Each round of the client starts without any memory of failed
// servers; only the map, which a rejected reply must not touch, says whom it
// may contact.)
func (s *st) recovery(dir string, sample []variant, offset uint32) {
	type relay struct {
		m   *mitm
		key refenc.Key
	}
	reachable := func(rs []relay) bool {
		for _, x := range rs {
			c, err := net.DialTimeout("tcp", fmt.Sprintf("127.0.0.1:%d", x.m.Port), 5*time.Second)
			if err != nil {
				return false
			}
			c.Close()
		}
		return true
	}
	conns := func(rs []relay) int {
		n := 0
		for _, x := range rs {
			_, _, k, _ := x.m.last()
			n += k
		}
		return n
	}
	episode := func(name string, rs []relay, bad variant, idx int) {
		d := filepath.Join(dir, fmt.Sprintf("recovery-%s-%d", name, idx))
		env := drv.ClientEnv{Dir: d, Key: s.A.Key, GCA: s.GCA.Pub, ShortID: s.A.ID, LastSync: drv.FreshSyncStamp()}
		for _, x := range rs {
			env.Servers = append(env.Servers, refenc.MapEntry{Pub: x.key.Pub, Location: "127.0.0.1", TCP: x.m.Port, UDP: s.UDP})
		}
		if err := env.Write(); err != nil {
			s.r.Inconc(err.Error())
			return
		}
		defer os.RemoveAll(d)
		c, err := drv.StartClient(d)
		if err != nil {
			s.r.Inconc("client start: " + err.Error())
			return
		}
		defer closeClient(c)
		// every server answers with a reply that has to be rejected
		for _, x := range rs {
			x := x
			x.m.set(func(g []byte) []byte { return bad.mut(rebuilt(x.key.Priv, nil)(g)) })
			if x.key.Pub == s.Key.Pub {
				x.m.set(bad.mut)
			}
		}
		before := viewOf(c)
		n0 := conns(rs)
		run.Op("recovery %s: round with rejected replies (class %s)", name, bad.class)
		ret1 := c.VerifSyncOnce(offset)
		n1 := conns(rs)
		if df := before.diff(viewOf(c)); df != "" || ret1 {
			s.r.Count("recovery.first_round_not_a_rejection", 1) // judged by the other oracles
			return
		}
		if n1-n0 < len(rs) {
			s.r.Count("recovery.not_all_servers_failed_once", 1)
			if n1 == n0 {
				return
			}
		}
		// now every server answers genuinely
		for _, x := range rs {
			x.m.set(rebuilt(x.key.Priv, nil))
			if x.key.Pub == s.Key.Pub {
				x.m.set(nil)
			}
		}
		contacted, succeeded := false, false
		for attempt := 0; attempt < 3 && !succeeded; attempt++ {
			a0 := conns(rs)
			run.Op("recovery %s: round with genuine replies (attempt %d)", name, attempt)
			ok := c.VerifSyncOnce(offset)
			if conns(rs) > a0 {
				contacted = true
			}
			succeeded = ok
		}
		s.r.Eval(1)
		s.r.Nontrivial(fmt.Sprintf("%s/recovery/%s/%d", s.label, name, idx))
		rp := s.replay(map[string]interface{}{"episode": name, "servers": len(rs), "rejected_class": bad.class, "rejected_pos": bad.pos})
		switch {
		case succeeded:
			s.r.Count("recovery."+name, 1)
		case !contacted && reachable(rs):
			s.r.Violationf("rejected-reply-changed-behaviour:server-not-contacted-again", rp, "after a round in which the replies of all %d configured servers had to be rejected (class %s) and were, three further rounds did not contact any of them although they accept connections and answer genuinely now: rejecting a reply changed what the client does", len(rs), bad.class)
		case !contacted:
			s.r.Inconc("recovery: relays not reachable")
		default:
			s.r.Count("recovery.contacted_but_failed", 1) // slow machine or a matter for the genuine-round oracle
		}
	}
	var rejects []variant
	for _, v := range sample {
		if v.expect == mustReject {
			rejects = append(rejects, v)
		}
	}
	if len(rejects) == 0 {
		return
	}
	one := []relay{{s.m, s.Key}}
	for i := 0; i < 3; i++ {
		episode("single_server", one, rejects[(i*7+int(s.batch.Seed&15))%len(rejects)], i)
	}
	three := []relay{{s.m, s.Key}}
	for i := 0; i < 2; i++ {
		m, err := newMITM(fmt.Sprintf("127.0.0.1:%d", s.TCP))
		if err != nil {
			s.r.Inconc(err.Error())
			return
		}
		defer m.Close()
		three = append(three, relay{m, refenc.GenKey(s.rng)})
	}
	for i := 0; i < 2; i++ {
		episode("three_servers", three, rejects[(i*5+3+int(s.batch.Seed&15))%len(rejects)], i)
	}
	s.m.set(nil)
}

func (s *st) fullRounds(dir string, sample []variant, offset uint32) {
	c, d, err := s.newRoundClient(dir, 0)
	if err != nil {
		s.r.Inconc("client start: " + err.Error())
		return
	}
	for _, v := range sample {
		if v.expect != mustReject && v.expect != noCrash {
			continue
		}
		before := viewOf(c)
		fb, err := viewOfFiles(d)
		if err != nil {
			s.r.Inconc("client files unreadable: " + err.Error())
			break
		}
		_, _, n0, _ := s.m.last()
		s.m.set(v.mut)
		run.Op("full round class=%s pos=%d", v.class, v.pos)
		ok := c.VerifSyncOnce(offset)
		_, out, n1, upErr := s.m.last()
		if upErr != nil || n1 == n0 {
			s.r.Count("fullround.relay_failed", 1) // decides nothing
			continue
		}
		s.r.Eval(1)
		if v.expect == noCrash {
			s.r.Count("fullround.nocrash", 1)
			continue
		}
		after := viewOf(c)
		fa, err := viewOfFiles(d)
		rp := s.replay(map[string]interface{}{"class": v.class, "pos": v.pos, "delivered": hx(out), "round_returned": ok})
		if err != nil {
			s.r.Violationf("rejected-reply-damaged-files:"+v.class, rp, "client files unreadable after a round with a rejected reply: %v", err)
			break
		}
		if df := before.diff(after); df != "" {
			s.r.Violationf("rejected-reply-changed-state:"+v.class, rp, "a round whose only reply had to be rejected (class %s) changed the client's state: %s", v.class, df)
		} else if df := fb.diff(fa); df != "" {
			s.r.Violationf("rejected-reply-changed-files:"+v.class, rp, "a round whose only reply had to be rejected (class %s) changed the client's files: %s", v.class, df)
		} else {
			s.r.Count("fullround.rejected_unchanged", 1)
		}
		if ok {
			s.r.Count("fullround.rejected_but_round_true", 1)
		}
	}
	closeClient(c)
	os.RemoveAll(d)

	// positive control: the genuine reply through the same path is adopted
	c, d, err = s.newRoundClient(dir, 1)
	if err != nil {
		s.r.Inconc("client start: " + err.Error())
		return
	}
	defer os.RemoveAll(d)
	defer closeClient(c)
	s.m.set(nil)
	ok := false
	var in []byte
	fails := 0
	for attempt := 0; attempt < 9 && fails < 3 && !ok; attempt++ {
		run.Op("full round genuine")
		t := time.Now()
		ok = c.VerifSyncOnce(offset)
		in, _, _, _ = s.m.last()
		if !ok {
			if time.Since(t) > slowCall {
				s.r.Count("discarded_slow_attempts", 1)
			} else {
				fails++
			}
		}
	}
	if !ok && fails < 3 {
		s.r.Inconc("genuine full round could not be judged (attempts too slow)")
		return
	}
	s.r.Eval(1)
	after := viewOf(c)
	fa, err := viewOfFiles(d)
	rp := s.replay(map[string]interface{}{"class": "genuine", "genuine": hx(in)})
	if !ok {
		s.r.Violationf("genuine-round-failed", rp, "a sync round against the genuine server (through a transparent relay) reported failure")
		return
	}
	if err != nil {
		s.r.Violationf("genuine-round-damaged-files", rp, "client files unreadable after a genuine round: %v", err)
		return
	}
	s.r.Count("fullround.accepted", 1)
	if df := after.diff(fa); df != "" {
		s.r.Violationf("genuine-round-state-differs-from-files", rp, "after a genuine round state and files differ: %s", df)
	}
	rep, _, perr := refenc.ParseSyncReply(in)
	if perr != nil {
		return
	}
	if s.mig != nil {
		if after.GCA != rep.NewGCA || after.ID != rep.NewID {
			s.r.Count("fullround.order_not_adopted", 1)
		} else {
			s.r.Count("fullround.order_adopted", 1)
		}
	} else {
		if after.GCA != s.GCA.Pub || after.ID != s.A.ID {
			s.r.Violationf("identity-changed-without-order", rp, "a genuine server-list reply changed the client's GCA key or short id")
		}
		for _, e := range rep.Servers {
			if _, ok := after.Servers[e.Pub]; ok {
				s.r.Count("fullround.list_entries_adopted", 1)
			}
		}
	}
}

// ---------------------------------------------------------------- child

func childBase(b run.Batch, r *ev.Result) {
	if b.Kind == "race" {
		raceChild(b, r)
		return
	}
	if b.Kind == "fulllist" {
		fullListChild(b, r)
		return
	}
	rng := rand.New(rand.NewSource(b.Seed))
	var sidx, nsrv, nmig int
	fmt.Sscan(b.P("state"), &sidx)
	fmt.Sscan(b.P("nsrv"), &nsrv)
	fmt.Sscan(b.P("nmig"), &nmig)
	slice, of := 0, 1
	fmt.Sscan(b.P("slice"), &slice)
	fmt.Sscan(b.P("of"), &of)
	if of < 1 {
		of = 1
	}
	full := b.Tier == "thorough"
	target := []uint32{0, 2016, 4032}[sidx%3]
	withMig := (sidx/3)%2 == 1

	installPark()
	drv.SetClock(0)
	drv.GateRotation(true)
	drv.GateImpact(true)
	dw, err := drv.NewWorld(filepath.Join(b.Dir, "srv"), rng)
	if err != nil {
		r.Inconc("cannot start world: " + err.Error())
		return
	}
	defer os.RemoveAll(dw.Dir)
	defer dw.Close()
	s := &st{World: dw, r: r, rng: rng, tstart: time.Now(), G2: refenc.GenKey(rng), batch: b,
		label: fmt.Sprintf("seed=%d state=%d offset=%d nsrv=%d mig=%v nmig=%d", b.Seed, sidx, target, nsrv, withMig, nmig)}
	fail := func(err error) bool {
		if err != nil {
			r.Inconc(err.Error())
			return true
		}
		return false
	}
	if s.A, err = s.addDevice(10+uint32(rng.Intn(1000)), 1000000); fail(err) {
		return
	}
	if s.B, err = s.addDevice(2000+uint32(rng.Intn(1000)), 1000000); fail(err) {
		return
	}
	if s.X, err = s.addDevice(4000+uint32(rng.Intn(1000)), 1000000); fail(err) {
		return
	}
	conflict := s.X.Auth
	conflict.Debt++
	conflict = conflict.Signed(s.GCA.Priv)
	if code, _, err := postJSON(s.HTTP, "/api/v1/authorize-equipment", conflict.JSON()); err != nil || code == 200 {
		r.Inconc(fmt.Sprintf("could not ban device X: status %d err %v", code, err))
		return
	}

	// the client that owns device A's key
	s.dirA = filepath.Join(b.Dir, "cliA")
	defer os.RemoveAll(s.dirA)
	envA := drv.ClientEnv{Dir: s.dirA, Key: s.A.Key, GCA: s.GCA.Pub, ShortID: s.A.ID, LastSync: drv.FreshSyncStamp(),
		Servers: []refenc.MapEntry{{Pub: s.Key.Pub, Location: "127.0.0.1", TCP: s.TCP, UDP: s.UDP}}}
	if fail(envA.Write()) {
		return
	}
	if s.cA, err = drv.StartClient(s.dirA); fail(err) {
		return
	}
	defer func() { closeClient(s.cA) }()
	dirB := filepath.Join(b.Dir, "cliB")
	defer os.RemoveAll(dirB)
	envB := drv.ClientEnv{Dir: dirB, Key: s.B.Key, GCA: s.GCA.Pub, ShortID: s.B.ID, LastSync: drv.FreshSyncStamp(),
		Servers: []refenc.MapEntry{{Pub: s.Key.Pub, Location: "127.0.0.1", TCP: s.TCP, UDP: s.UDP}}}
	if fail(envB.Write()) {
		return
	}
	if s.cB, err = drv.StartClient(dirB); fail(err) {
		return
	}
	defer func() { closeClient(s.cB) }()
	if s.m, err = newMITM(fmt.Sprintf("127.0.0.1:%d", s.TCP)); fail(err) {
		return
	}
	defer s.m.Close()

	// ---- drive the server into the state, checking agreement on the way
	s.agree("empty")
	for off := uint32(0); ; off += 2016 {
		s.addReports(s.A, off, off == target)
		s.addReports(s.B, off, off == target && rng.Intn(2) == 0)
		s.agree(fmt.Sprintf("reports@%d", off))
		if off >= target {
			break
		}
		drv.SetClock(off + 3201)
		run.Op("rotate from offset %d", off)
		if n := drv.StepRotation(); n != 1 {
			r.Inconc(fmt.Sprintf("rotation did not happen when expected (now-offset=3201): %d", n))
			return
		}
		s.agree(fmt.Sprintf("rotated-from@%d", off))
	}
	r.Count(fmt.Sprintf("states.offset_%d", target), 1)
	drv.SetClock(target + uint32(rng.Intn(3000)))

	kinds := rng.Perm(5)
	for i := 0; i < nsrv; i++ {
		loc, hp := deadLocation(rng, kinds[i%5])
		a := refenc.AuthServer{Pub: refenc.GenKey(rng).Pub, Banned: rng.Intn(4) == 0, Location: loc, HTTP: hp, TCP: uint16(rng.Intn(65536)), UDP: uint16(rng.Intn(65536))}.Signed(s.GCA.Priv)
		if !s.postServer(a) {
			return
		}
		if i == 0 || rng.Intn(3) == 0 {
			s.agree(fmt.Sprintf("servers=%d", i+1))
		}
	}
	if nsrv >= 2 && rng.Intn(2) == 0 { // a later ban record (other ports) replaces an entry
		for _, e := range s.model {
			if !e.Banned {
				e.Banned = true
				e.TCP++
				if !s.postServer(e.Signed(s.GCA.Priv)) {
					return
				}
				break
			}
		}
	}
	s.agree("servers-final")
	if sidx%3 == 0 {
		if !s.multibyteServers() {
			return
		}
		s.agree("multibyte-locations")
	}
	s.refusals(b.Dir)
	if withMig {
		m := refenc.Migration{Equipment: s.A.Key.Pub, NewGCA: s.G2.Pub, NewID: uint32(rng.Intn(1 << 30))}
		for i := 0; i < nmig; i++ {
			m.Servers = append(m.Servers, s.entry(s.G2))
		}
		m = m.Signed(s.GCA.Priv)
		run.Op("post migration order with %d servers", nmig)
		code, body, err := postJSON(s.HTTP, "/api/v1/equipment-migrate", m.JSON())
		if err != nil || code != 200 {
			r.Inconc(fmt.Sprintf("GCA-signed migration order was not accepted: status %d err %v body %.100s", code, err, body))
			return
		}
		s.mig = &m
	}
	_, ok := s.agree("final")
	if ok && slice == 0 {
		nAlt := 20
		if full {
			nAlt = 40
		}
		before := r.NumViolations()
		s.alternate("final", nAlt)
		ok = r.NumViolations() == before
	}
	if !ok {
		return // the genuine reply is already wrong; tampering it decides nothing
	}

	// ---- tamper oracle on the final state
	var req [4]byte
	binary.LittleEndian.PutUint32(req[:], s.A.ID)
	genuine, err := s.SyncRaw(req[:])
	if fail(err) {
		return
	}
	if rb := rebuilt(s.Key.Priv, nil)(append([]byte(nil), genuine...)); !bytes.Equal(rb, genuine) {
		r.Inconc("reference builder does not reproduce the genuine reply byte for byte; tamper classes would be unsound")
		return
	}
	vs, sample := s.variants(genuine, full)
	for i, v := range vs {
		if i%of != slice {
			continue
		}
		s.judge(v)
		if r.NumViolations() > 12 {
			return
		}
		if (i/of)%256 == 255 && time.Since(s.tstart) > 85*time.Second {
			r.Inconc(fmt.Sprintf("state took more than 85 s of wall clock (test-mode instances end at 120 s); stopped after %d of %d cases", i+1, len(vs)))
			return
		}
	}
	counts := map[string]string{"bitflip": "tamper.bitflip", "truncate": "tamper.truncate", "truncate_adjusted": "tamper.truncate_adjusted", "extend_adjusted": "tamper.extend_adjusted", "extend_plain": "tamper.extend_plain", "short_valid": "tamper.short_valid",
		"valid.time_within": "accepted.time_within", "valid.time_outside": "rejected.time_outside", "valid.devkey_other_device": "rejected.devkey"}
	for i, v := range vs {
		if i%of != slice {
			continue
		}
		switch {
		case counts[v.class] != "":
			r.Count(counts[v.class], 1)
		case len(v.class) > 15 && v.class[:15] == "resign_otherkey":
			r.Count("tamper.resign_otherkey", 1)
		case v.class == "time.far_resigned":
			r.Count("rejected.time_far_resigned", 1)
		case len(v.class) > 5 && v.class[:5] == "twin.":
			r.Count("rejected.twin_signature", 1)
		case v.class == "valid.large_list_tail_unsigned":
			r.Count("rejected.large_list_tail", 1)
		case len(v.class) >= 15 && (v.class[:15] == "valid.entry_sig" || v.class[:15] == "valid.entry_dup"):
			r.Count("rejected.entry_sig", 1)
		case len(v.class) >= 15 && v.class[:15] == "valid.mig_outer":
			r.Count("rejected.mig_outer", 1)
		case len(v.class) >= 15 && v.class[:15] == "valid.mig_inner":
			r.Count("rejected.mig_inner", 1)
		}
	}
	r.Sample(map[string]interface{}{"state": s.label, "reply_len": len(genuine), "cases": len(vs), "genuine": hx(genuine[:80])})
	if slice == 0 {
		s.fullRounds(b.Dir, sample, target)
		if r.NumViolations() == 0 {
			s.recovery(b.Dir, sample, target)
		}
		if r.NumViolations() == 0 {
			s.staleRound(b.Dir, target, sidx%2 == 1)
		}
		if r.NumViolations() == 0 {
			s.rotationsDuringRequests()
		}
	}
}
