//go:build test

package main

// fulllist: a server whose list of authorized servers grows until the sync
// reply would no longer fit the 16-bit length prefix of the wire format
// (712 bytes of fixed parts + 104 bytes per entry + the location bytes must
// stay <= 65535). Every GCA-signed record goes through the real endpoint; a
// record may be refused, one that is accepted belongs to the list; after every
// post near the limit the raw reply for an authorized device must still parse
// (reference parser) to exactly the accepted records, and the real client
// parser must agree.

import (
	"fmt"
	"math/rand"
	"os"
	"path/filepath"
	"strings"
	"time"

	"verifharness/lib/drv"
	"verifharness/lib/ev"
	"verifharness/lib/refenc"
	"verifharness/lib/run"
)

func fullListChild(b run.Batch, r *ev.Result) {
	rng := rand.New(rand.NewSource(b.Seed))
	installPark()
	drv.SetClock(0)
	drv.GateRotation(true)
	drv.GateImpact(true)
	dw, err := drv.NewWorld(filepath.Join(b.Dir, "srv"), rng)
	if err != nil {
		r.Inconc("cannot start world: " + err.Error())
		return
	}
	defer os.RemoveAll(dw.Dir)
	defer dw.Close()
	s := &st{World: dw, r: r, rng: rng, tstart: time.Now(), G2: refenc.GenKey(rng), batch: b, label: fmt.Sprintf("seed=%d fulllist", b.Seed)}
	if s.A, err = s.addDevice(10+uint32(rng.Intn(1000)), 1000000); err != nil {
		r.Inconc(err.Error())
		return
	}
	s.B = s.A
	s.dirA = filepath.Join(b.Dir, "cliA")
	defer os.RemoveAll(s.dirA)
	envA := drv.ClientEnv{Dir: s.dirA, Key: s.A.Key, GCA: s.GCA.Pub, ShortID: s.A.ID, LastSync: drv.FreshSyncStamp(),
		Servers: []refenc.MapEntry{{Pub: s.Key.Pub, Location: "127.0.0.1", TCP: s.TCP, UDP: s.UDP}}}
	if err := envA.Write(); err != nil {
		r.Inconc(err.Error())
		return
	}
	if s.cA, err = drv.StartClient(s.dirA); err != nil {
		r.Inconc(err.Error())
		return
	}
	defer func() { closeClient(s.cA) }()

	const limit = 65535 // largest value of the reply's u16 length prefix
	replyLen := func() int {
		n := 712 // 32 key + 4 offset + 504 bitfield + 32+4 blank new GCA / short id + 64 blank migration signature + 8 time + 64 server signature
		for _, e := range s.model {
			n += 104 + len(e.Location)
		}
		return n
	}
	mode := rng.Intn(3) // 0: all locations 255 bytes, 1: short ones (many entries), 2: mixed
	exact := false
	mk := func() refenc.AuthServer {
		var n int
		if rem := limit - replyLen() - 104; !exact && rem >= 1 && rem <= 255 {
			// the record that makes the reply exactly as long as the prefix can express
			exact = true
			r.Count("fulllist.exact_fit_attempted", 1)
			loc := " " + strings.Repeat("z", rem-1)
			return refenc.AuthServer{Pub: refenc.GenKey(rng).Pub, Location: loc, HTTP: 1, TCP: 2, UDP: 3}.Signed(s.GCA.Priv)
		}
		switch mode {
		case 0:
			n = 255
		case 1:
			n = 1 + rng.Intn(12)
		default:
			n = 1 + rng.Intn(255)
		}
		loc := " " + strings.Repeat("x", n-1) // unparsable URL: nothing is contacted by the fan-out
		return refenc.AuthServer{Pub: refenc.GenKey(rng).Pub, Banned: rng.Intn(4) == 0, Location: loc, HTTP: uint16(rng.Intn(65536)), TCP: uint16(rng.Intn(65536)), UDP: uint16(rng.Intn(65536))}.Signed(s.GCA.Priv)
	}
	judged, beyond, refused := 0, 0, 0
	for posts := 0; beyond < 4 && posts < 4000; posts++ {
		a := mk()
		projected := replyLen() + 104 + len(a.Location)
		if projected <= limit {
			if !s.postServer(a) { // a record that fits must be accepted (Inconc otherwise: C17's subject)
				return
			}
		} else {
			beyond++
			run.Op("post authorized server beyond the reply limit: projected reply %d bytes", projected)
			code, _, err := postJSON(s.HTTP, "/api/v1/authorized-servers", a.JSON())
			if err != nil {
				r.Inconc("post failed: " + err.Error())
				return
			}
			if code == 200 {
				s.model = append(s.model, a)
				r.Count("fulllist.accepted_beyond_limit", 1)
			} else {
				refused++
				r.Count("fulllist.refused_beyond_limit", 1)
			}
		}
		r.Max("max.fulllist.entries", int64(len(s.model)))
		r.Max("max.fulllist.reply_len_by_layout", int64(replyLen()))
		near := projected > limit-1500
		if near || posts%97 == 0 {
			stage := fmt.Sprintf("fulllist:mode=%d entries=%d layout_len=%d", mode, len(s.model), replyLen())
			rep, ok := s.agreeRaw(s.A, stage)
			if !ok {
				return
			}
			judged++
			if near {
				r.Count("fulllist.judged_near_limit", 1)
				s.agreeClient(rep, stage)
			}
		}
	}
	// a ban record with a LONGER location for a listed entry near the limit (replaces the entry in place)
	for i, e := range s.model {
		if !e.Banned && len(e.Location) < 200 {
			ban := e
			ban.Banned = true
			ban.Location = " " + strings.Repeat("y", 254)
			ban = ban.Signed(s.GCA.Priv)
			run.Op("post ban record with a longer location for entry %d", i)
			code, _, err := postJSON(s.HTTP, "/api/v1/authorized-servers", ban.JSON())
			if err != nil {
				r.Inconc("post failed: " + err.Error())
				return
			}
			stage := fmt.Sprintf("fulllist:ban-with-longer-location status=%d", code)
			// the entry is either the old record or the ban record: try both
			old := s.model[i]
			s.model[i] = ban
			if _, probs, inc := s.agreeRawOnce(s.A, stage); inc != "" || len(probs) > 0 {
				s.model[i] = old
				if code == 200 {
					r.Count("fulllist.ban_accepted_entry_kept", 1)
				} else {
					r.Count("fulllist.ban_with_longer_location_refused", 1)
				}
			} else {
				r.Count("fulllist.ban_replaced_entry", 1)
			}
			if rep, ok := s.agreeRaw(s.A, stage); ok {
				s.agreeClient(rep, stage)
			}
			break
		}
	}
	r.Nontrivial(fmt.Sprintf("fulllist/mode=%d/refused=%d", mode, refused))
	r.Count("fulllist.runs", 1)
}
