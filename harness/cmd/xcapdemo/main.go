// xcapdemo: witness for the capacity-limit overflow (fix "capacity limit computed in 128 bits").
// A device authorized with capacity 136642548694144827 (just above 2^64/135) sends a report of
// power 5000; 135 % of its capacity is about 1.8e17, so the report must be published as 5000.
// Usage: go run -tags "test verif" ./cmd/xcapdemo   (module replace decides which tree is tested)
package main

import (
	"fmt"
	"math/rand"
	"os"

	"verifharness/lib/drv"
)

func main() {
	dir, _ := os.MkdirTemp("", "capdemo")
	defer os.RemoveAll(dir)
	drv.SetClock(100)
	drv.GateRotation(true)
	drv.GateImpact(true)
	w, err := drv.NewWorld(dir, rand.New(rand.NewSource(1)))
	if err != nil {
		fmt.Println("setup:", err)
		os.Exit(2)
	}
	defer w.Close()
	d, err := w.AddDevice(77, 136642548694144827)
	if err != nil {
		fmt.Println("authorize:", err)
		os.Exit(2)
	}
	w.Inject(d.Report(100, 5000).Bytes())
	rep, _, _, _ := w.S.VerifSlot(77, 100)
	fmt.Printf("capacity 136642548694144827, report power 5000 -> published %d\n", rep.PowerOutput)
	if rep.PowerOutput != 5000 {
		fmt.Println("WITNESS: within-capacity report was banned")
		os.Exit(1)
	}
}
