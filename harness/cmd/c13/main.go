//go:build test

// C13 — Concurrent operation is race-free, deadlock-free and equals a sequential run.
//
// Monitors (DESIGN.md "### C13"), all on the race-detector build of the real
// server, each batch in its own child process:
//
//	stress      many goroutines × every operation kind × real jobs (op-pair matrix)
//	delay       delay-injection matrix: site X × operation Y (primary race monitor)
//	interleave  interfering operation executed inside every between-sections gap,
//	            final state = sequential model in the imposed order
//	lin         porcupine linearizability of recorded concurrent histories
//	paths       every branch of every locking function, lock probe after each
//	cover       (race+cover build) a tour of all of the above; block coverage of
//	            every server function that locks is reported as evidence
//
// Files: main.go (spec/plan/post), common.go (world, hooks, probes), model.go
// (sequential reference model), delay.go, interleave.go, lin.go, stress.go,
// paths.go.
package main

import (
	"verifharness/lib/prodwt"

	"fmt"
	"go/ast"
	"go/parser"
	"go/token"
	"os"
	"os/exec"
	"path/filepath"
	"regexp"
	"sort"
	"strconv"
	"strings"

	"verifharness/lib/ev"
	"verifharness/lib/run"
)

func main() {
	run.Main(run.Spec{
		ID:    "C13",
		Level: "exploration",
		Pkg:   "./cmd/c13",
		Rule: "cases: (a) delay-injection cells (hook site X, operation Y): Y runs to completion in a new goroutine while the goroutine that reached X only sleeps; " +
			"(b) interleaving cells (gap site, interfering operation) with the operation executed synchronously inside the gap; (c) stress phases in which two operation kinds " +
			"(or a random mix) are issued by 8-64 goroutines through the real sockets while the rotation and impact jobs run; (d) recorded concurrent histories checked by porcupine; " +
			"(e) single-operation steps through every branch of the locking functions. Non-trivial = a distinct cell whose site was really reached and whose operation really ran " +
			"(site×operation), a distinct pair of operation kinds whose recorded call/return intervals overlapped, a distinct recorded history, a distinct path step.",
		Assumptions: []string{
			"only executed paths are decided: the race detector, the lock probe and the state oracles see what ran; block coverage of every server function that locks is listed in coverage_of_locking_functions (uncovered blocks = not decided)",
			"a race is reported only if the two accesses really happen without a happens-before edge in the observed execution; Go's race detector orders all file/socket I/O through one global object, so the stress tier is weak and the delay-injection matrix (which adds no synchronisation to the hooked goroutine) is the deciding race monitor; a missing lock at a place that no hook site precedes can be missed",
			"the race verdict covers package server and glow code; the harness's own goroutines only use the exported Verif* accessors, which take the server's own locks",
			"lock ORDER (README: mutexes never stack) is not instrumented; stacking is observed only through its consequence (a deadlock: watchdog + goroutine dump, or the lock probe)",
			"the weekly WattTime job (managedGetWattTimeWeekData) is dead code in test builds (returns at once); its list/update window is driven in production-build episodes (kind prodwt, lib/prodwt: server built without the test tag in a private network namespace, the hard-coded https://api.watttime.org requests routed by HTTPS_PROXY + SSL_CERT_FILE to a fake service that bans a device while the job waits for the answer). Judged there: no panic, locks free, the answered values of devices that stayed authorized are in the window; not judged there: data races (the interfering request travels over sockets, which the race runtime orders)",
			"interfering operations are injected only where real concurrency could put them (DESIGN §2.4 table): no rotation inside the rotator's own gaps, only UDP during start-up catch-up",
			"'equals a sequential run' is judged (i) exactly, against the sequential model in the order imposed by a hook, (ii) as linearizability of recorded histories, (iii) for stress runs only through facts every arrival order yields; impact values are wall-clock derived in test builds and only their bookkeeping (one array per authorized device) is compared",
			"watchdog expiry without a conclusive goroutine dump, a porcupine timeout, a site that was not reached or an injected operation that finished after the hooked goroutine resumed in more than half of the cells make the run inconclusive, never held",
		},
		Plan:            plan,
		Child:           child,
		Post:            post,
		ClassifyDeath:   classifyDeath,
		RaceIsViolation: true,
		Parallel:        16,
	})
}

func plan(tier string, seed int64) []run.Batch {
	var bs []run.Batch
	add := func(kind string, n int, variant string, timeout int, params map[string]string) {
		bs = append(bs, run.Batch{Kind: kind, Seed: seed*1000 + int64(len(bs)), N: n, Variant: variant, TimeoutS: timeout, Params: params})
	}
	p := func(kv ...interface{}) map[string]string {
		m := map[string]string{}
		for i := 0; i+1 < len(kv); i += 2 {
			m[fmt.Sprint(kv[i])] = fmt.Sprint(kv[i+1])
		}
		return m
	}
	reps, stressRounds, ivVariants, linBatches, pathBatches := 1, 1, 1, 4, 1
	if tier == "thorough" {
		reps, stressRounds, ivVariants, linBatches, pathBatches = 5, 6, 8, 12, 2
	}
	directed := 1
	if tier == "thorough" {
		directed = 4
	}
	// the long batches first
	add("cover", 0, "racecover", 400, nil)
	add("prodwt", 2, "", 400, p("scenarios", "weekban-other,weekban"))
	if tier == "thorough" {
		for i := 0; i < 5; i++ {
			add("prodwt", 3, "", 400, p("scenarios", "weekban,weekban-other,control"))
		}
	}
	add("selftest", 0, "", 60, nil) // the porcupine model's self-test: no server, cannot be lost with a dying lin batch
	for i := 0; i < directed; i++ {
		add("directed", 0, "race", 240, nil)
	}
	for i := 0; i < directed; i++ { // 1 in quick, 4 in thorough
		add("scale", 0, "race", 240, nil)
	}
	for s := 0; s < stressRounds; s++ {
		for i := 0; i < 8; i++ {
			add("stress", 0, "race", 240, p("slice", i, "of", 8))
		}
	}
	for i := 0; i < linBatches; i++ {
		add("lin", 0, "race", 240, nil)
	}
	for rep := 0; rep < reps; rep++ {
		for i := 0; i < 16; i++ {
			add("delay", 0, "race", 240, p("slice", i, "of", 16, "rep", rep))
		}
	}
	for v := 0; v < ivVariants; v++ {
		for i := 0; i < 4; i++ {
			add("interleave", 0, "race", 240, p("slice", i, "of", 4, "variant", int(seed)+v))
		}
	}
	for i := 0; i < pathBatches; i++ {
		add("paths", 0, "race", 240, nil)
	}
	if only := os.Getenv("VERIF_C13_ONLY"); only != "" { // debugging aid: run one batch kind (the run is then inconclusive by construction)
		var f []run.Batch
		for _, b := range bs {
			if strings.Contains(only, b.Kind) {
				f = append(f, b)
			}
		}
		return f
	}
	return bs
}

func child(b run.Batch, r *ev.Result) {
	curBatch = b
	switch b.Kind {
	case "stress":
		childStress(b, r)
	case "delay":
		childDelay(b, r)
	case "interleave":
		childInterleave(b, r)
	case "lin":
		childLin(b, r)
	case "paths":
		childPaths(b, r)
	case "cover":
		childCover(b, r)
	case "directed":
		childDirected(b, r)
	case "selftest":
		childSelfTest(b, r)
	case "scale":
		childScale(b, r)
	case "prodwt":
		// production build (no test tag) next to a fake WattTime service: lib/prodwt
		prodwt.RunEpisodes(r, b, b.Seed, strings.Split(b.P("scenarios"), ","))
		prodwt.RunRace(r, b, b.Seed+900, []string{"weekban", "life"}) // the production build under the race detector
		prodwt.RunWeekRot(r, b, b.Seed+700, "C13", 2)                            // lib/prodwt/weekrot.go: rotation with devices while a WattTime job waits (only on some days of the week)
		prodwt.RunLife(r, b, b.Seed+500, "C13", 2)                               // lib/prodwt/life.go: the C13 slice of a production server's short life (WattTime up / down)
	default:
		r.Inconc("unknown batch kind " + b.Kind)
	}
}

// childCover runs a sample of every monitor in one process built with
// -race -cover, so that the coverage data shows which blocks of the locking
// functions the workloads of this check execute.
func childCover(b run.Batch, r *ev.Result) {
	sub := func(kind string, n int, params map[string]string) run.Batch {
		x := b
		x.Kind, x.N, x.Params = kind, n, params
		x.Dir = filepath.Join(b.Dir, kind)
		os.MkdirAll(x.Dir, 0755)
		return x
	}
	childPaths(sub("paths", 0, nil), r)
	if abandoned.Load() {
		return
	}
	childStress(sub("stress", 2, map[string]string{"slice": fmt.Sprint(b.Seed % 18), "of": "18"}), r)
	// one delay cell per site and per operation
	cells := delayCells()
	seenS, seenO := map[string]bool{}, map[string]bool{}
	rot := int(b.Seed % 7)
	for i := range cells {
		c := cells[(i*7+rot)%len(cells)]
		if (seenS[c.Site] && seenO[c.Op]) || abandoned.Load() {
			continue
		}
		seenS[c.Site], seenO[c.Op] = true, true
		runDelayCell(filepath.Join(b.Dir, fmt.Sprintf("d%d", c.Idx)), c, int(b.Seed%2), b.Seed*1000+int64(c.Idx), r)
	}
	for _, c := range interleaveCells() {
		if (c.Idx+int(b.Seed))%3 != 0 || abandoned.Load() {
			continue
		}
		runInterleaveCell(filepath.Join(b.Dir, fmt.Sprintf("i%d", c.Idx)), c, int(b.Seed), b.Seed*1000+int64(c.Idx), r)
	}
	if abandoned.Load() {
		return
	}
	childLin(sub("lin", 2, nil), r)
	r.Count("cover.tours", 1)
}

// ---------------------------------------------------------------- dead children

var gHeader = regexp.MustCompile(`^goroutine (\d+) [^\[]*\[([^\]]*)\]:`) // SIGQUIT dumps carry "gp=… m=…" before the state

type gdump struct {
	id     string
	state  string
	frames []string
}

func parseDump(s string) []gdump {
	var out []gdump
	var cur *gdump
	for _, ln := range strings.Split(s, "\n") {
		if m := gHeader.FindStringSubmatch(ln); m != nil {
			out = append(out, gdump{id: m[1], state: m[2]})
			cur = &out[len(out)-1]
			continue
		}
		if cur == nil || ln == "" || ln[0] == '\t' || ln[0] == ' ' {
			if ln == "" {
				cur = nil
			}
			continue
		}
		if strings.HasPrefix(ln, "created by ") {
			continue
		}
		fn := ln
		if i := strings.LastIndex(fn, "("); i > 0 {
			fn = fn[:i]
		}
		cur.frames = append(cur.frames, fn)
	}
	return out
}

const serverPkg = "github.com/glowlabs-org/gca-backend/server."

// classifyDeath decides a watchdog expiry from the SIGQUIT goroutine dump:
// goroutines of package server parked in sync.(*Mutex).Lock while no other
// goroutine of package server is doing anything but idling (listeners, job
// sleeps, hook sites) -> nobody can ever release the lock -> violation.
func classifyDeath(c *ev.Check, o *run.Outcome) bool {
	dump := o.Stderr
	if b, err := os.ReadFile(filepath.Join(o.Dir, "stderr")); err == nil && len(b) > len(dump) {
		dump = string(b)
	}
	// Test-mode servers panic by design when they are 120 s old. A child that hangs on a leaked
	// lock usually dies of that guard before the watchdog fires; the panic prints the same
	// all-goroutine dump (GOTRACEBACK=all), so it is classified the same way. Without parked
	// goroutines it only means the harness did not finish with that server in time (CPU
	// starvation): inconclusive, never a violation.
	lifetime := strings.Contains(dump, "server lived for longer than 120 seconds")
	if !o.TimedOut && !lifetime {
		return false
	}
	if o.Result != nil {
		c.Merge(o.Result)
	}
	if os.Getenv("VERIF_C13_DEBUG") != "" {
		os.WriteFile(fmt.Sprintf("/tmp/c13/dump-%d.txt", o.Batch.Index), []byte(dump), 0644)
	}
	gs := parseDump(dump)
	if len(gs) == 0 {
		return false
	}
	var blocked, busy []string
	for _, g := range gs {
		inServer, atLock, inHook, idle := false, false, false, false
		first := ""
		// parked in sync.(*Mutex).Lock with repository code below it (package server or a package it calls, e.g. glow)
		if strings.HasPrefix(g.state, "sync.Mutex.Lock") || strings.HasPrefix(g.state, "semacquire") {
			for i, f := range g.frames {
				if i < 4 && strings.HasPrefix(f, "sync.(*Mutex).Lock") {
					for _, f2 := range g.frames[i:] {
						if strings.Contains(f2, "glowlabs-org/gca-backend/") {
							atLock = true
							if first == "" {
								first = f2[strings.LastIndex(f2, "/")+1:]
							}
							break
						}
					}
				}
			}
		}
		for i, f := range g.frames {
			if strings.HasPrefix(f, serverPkg) {
				inServer = true
				if first == "" {
					first = strings.TrimPrefix(f, serverPkg)
					if i > 0 && strings.HasPrefix(g.frames[i-1], "sync.(*Mutex).Lock") {
						atLock = true
					}
				}
				if strings.HasPrefix(f, serverPkg+"verifPoint") {
					inHook = true
				}
			}
		}
		if !inServer && !atLock {
			continue
		}
		if len(g.frames) > 0 && (g.frames[0] == "panic" || (lifetime && g.state == "running" && first == "NewGCAServer.func1")) {
			continue // the lifetime guard itself, which is panicking
		}
		top := strings.Join(g.frames, " ")
		for _, idleMark := range []string{"threadgroup.(*ThreadGroup).Sleep", "net.(*TCPListener).Accept", "net.(*UDPConn).ReadFromUDP", "net.(*UDPConn).readFrom",
			"net/http.(*Server).Serve", "verifharness/lib/drv.gate"} {
			if strings.Contains(top, idleMark) {
				idle = true
			}
		}
		if len(g.frames) > 0 && strings.HasPrefix(g.frames[0], "time.Sleep") {
			idle = true // test-mode lifetime guards, hook delays
		}
		switch {
		case atLock:
			blocked = append(blocked, fmt.Sprintf("goroutine %s [%s] in %s", g.id, g.state, first))
		case idle || inHook:
		default:
			busy = append(busy, fmt.Sprintf("goroutine %s [%s] in %s", g.id, g.state, first))
		}
	}
	replay := map[string]interface{}{"batch": o.Batch, "oplog_tail": o.OplogTail, "blocked": blocked, "other_server_goroutines": busy}
	// (c) a handler panicked (net/http swallowed it) and goroutines have been waiting for a mutex for a minute
	// or more: the panicking handler took the lock with it; whatever else is still moving cannot release it.
	longWait := false
	for _, bl := range blocked {
		if strings.Contains(bl, "minutes]") {
			longWait = true
		}
	}
	handlerPanic := strings.Contains(dump, "http: panic serving")
	if len(blocked) > 0 && (len(busy) == 0 || (handlerPanic && longWait)) {
		sort.Strings(blocked)
		c.Violation("deadlock-or-leaked-lock", fmt.Sprintf("batch %d (%s) hung; %d goroutine(s) of package server are parked in sync.(*Mutex).Lock and no goroutine of package server is running or holding work that could release it: %s",
			o.Batch.Index, o.Batch.Kind, len(blocked), strings.Join(blocked, "; ")), replay)
		return true
	}
	what := fmt.Sprintf("hit the %ds watchdog", o.Batch.TimeoutS)
	if !o.TimedOut {
		what = "kept a test-mode server alive for more than 120 s (its lifetime guard ended the process)"
	}
	c.Inconc(fmt.Sprintf("batch %d (%s) %s; goroutine dump: %d server goroutines parked on a mutex, %d others active (%v); last ops: %v",
		o.Batch.Index, o.Batch.Kind, what, len(blocked), len(busy), busy, lastOps(o.OplogTail)))
	return true
}

func lastOps(l []string) []string {
	if len(l) > 3 {
		return l[len(l)-3:]
	}
	return l
}

// ---------------------------------------------------------------- parent-side judgement

func post(c *ev.Check, outs []*run.Outcome) {
	nBatch := map[string]int{}
	reps := 0
	for _, o := range outs {
		if o.Result == nil {
			continue // a batch that died is judged by its death; the volume gates count the batches that reported
		}
		nBatch[o.Batch.Kind]++
		if o.Batch.Kind == "delay" {
			reps++
		}
	}
	reps /= 16
	replaying := os.Getenv("VERIF_REPLAY") != ""
	if !replaying {
		nd := len(delayCells())
		c.Require("delay.cells", int64(nd*reps))
		if cells := c.Counter("delay.cells"); cells > 0 && c.Counter("delay.overlapped")*10 < cells*5 {
			c.Inconc(fmt.Sprintf("delay matrix: the injected operation completed while the hooked goroutine stood at the site in only %d of %d cells", c.Counter("delay.overlapped"), cells))
		}
		for _, s := range allSites {
			c.Require("delay.site."+s, 1)
		}
		for _, o := range delayOps {
			c.Require("delay.op."+o, 1)
		}
		c.Require("interleave.cells", int64(len(interleaveCells())*nBatch["interleave"]/4))
		c.Require("interleave.state_equal_model", 1)
		c.Require("latestart.catchup_rounds_inside_constructor", 2)
		c.Require("closeinflight.closed", 8)
		c.Require("api_vs_state.checks", 10)
		c.Require("lin.linearizable", 1)
		c.Require("lin.selftest_accepted_legal", 1)
		c.Require("lin.selftest_rejected_illegal", 2)
		c.Require("directed.rotations_under_polls", 1)
		c.Require("directed.polls_overlapping_a_rotation", 1)
		c.Require("directed.victims_churned", 1)
		c.Require("abandon.handler_was_running_when_abandoned", 10)
		c.Require("scale.rotations", 55)
		c.Require("scale.poll_week_classes", 3)
		c.Require("scale.device_runs_completed", 1)
		c.Require("scale.device_reports_checked", 170)
		c.Require("paths.tours_completed", int64(nBatch["paths"]))
		c.Require("paths.success_answers", 10)
		c.Require("stress.final_checks", int64(nBatch["stress"]))
		c.Require("stress.phases_with_rotation", 1)
		c.Require("stress.impact_rounds_during_run", 10)
		c.Require("lockprobe.runs", 50)
		c.Require("prodwt.episodes", 2)
		c.Require("prodwt.bans_during_week_job", 1)
		// which pairs of operation kinds really overlapped
		total, seen := 0, 0
		var missing []string
		kinds := append([]string{}, stressKinds...)
		for i := range kinds {
			for j := i; j < len(kinds); j++ {
				total++
				if c.Counter("pair."+pairKey(kinds[i], kinds[j])) > 0 {
					seen++
				} else {
					missing = append(missing, pairKey(kinds[i], kinds[j]))
				}
			}
		}
		jobPairs := 0
		for _, k := range kinds {
			for _, j := range []string{"job.rotation", "job.impact"} {
				if c.Counter("pair."+pairKey(k, j)) > 0 {
					jobPairs++
				}
			}
		}
		c.AddCounter("stress.kind_pairs_planned", int64(total))
		c.AddCounter("stress.kind_pairs_overlapped", int64(seen))
		c.AddCounter("stress.kind_job_pairs_overlapped", int64(jobPairs))
		c.SetExtra("stress_kind_pairs_never_overlapped", missing)
		if seen*10 < total*9 {
			c.Inconc(fmt.Sprintf("stress: only %d of %d operation-kind pairs overlapped in time", seen, total))
		}
	}
	walls := map[string]float64{}
	for _, o := range outs {
		if o.WallS > walls[o.Batch.Kind] {
			walls[o.Batch.Kind] = o.WallS
		}
	}
	c.SetExtra("max_batch_wall_s", walls)
	coverage(c, outs)
}

// coverage lists executed/total blocks of every function of package server
// that takes one of the two mutexes (evidence only).
func coverage(c *ev.Check, outs []*run.Outcome) {
	var dirs []string
	for _, o := range outs {
		if strings.Contains(o.Batch.Variant, "cover") {
			d := filepath.Join(o.Dir, "cov")
			if ents, err := os.ReadDir(d); err == nil && len(ents) > 0 {
				dirs = append(dirs, d)
			}
		}
	}
	if len(dirs) == 0 {
		if os.Getenv("VERIF_REPLAY") == "" {
			c.Inconc("coverage batch wrote no coverage data")
		}
		return
	}
	outFile := filepath.Join(filepath.Dir(dirs[0]), "cover.txt")
	cmd := exec.Command("go", "tool", "covdata", "textfmt", "-i="+strings.Join(dirs, ","), "-o="+outFile)
	cmd.Env = append(os.Environ(), "GOFLAGS=-mod=mod", "GOPROXY=off", "GOSUMDB=off", "GOTOOLCHAIN=local")
	if b, err := cmd.CombinedOutput(); err != nil {
		c.Inconc(fmt.Sprintf("go tool covdata textfmt failed: %v %s", err, b))
		return
	}
	raw, err := os.ReadFile(outFile)
	if err != nil {
		c.Inconc("cannot read coverage text: " + err.Error())
		return
	}
	repo := os.Getenv("VERIF_REPO")
	if repo == "" {
		repo = "/repo"
	}
	type fn struct {
		name       string
		start, end int
		exec, tot  int
		uncovered  []string
	}
	funcs := map[string][]*fn{} // file base name -> functions that lock
	files, _ := filepath.Glob(filepath.Join(repo, "server", "*.go"))
	fset := token.NewFileSet()
	for _, f := range files {
		if strings.HasSuffix(f, "_test.go") || strings.HasPrefix(filepath.Base(f), "verif_") {
			continue
		}
		src, err := os.ReadFile(f)
		if err != nil {
			continue
		}
		af, err := parser.ParseFile(fset, f, src, 0)
		if err != nil {
			continue
		}
		for _, d := range af.Decls {
			fd, ok := d.(*ast.FuncDecl)
			if !ok || fd.Body == nil {
				continue
			}
			body := string(src[fset.Position(fd.Body.Pos()).Offset:fset.Position(fd.Body.End()).Offset])
			if !strings.Contains(body, "mu.Lock()") {
				continue
			}
			funcs[filepath.Base(f)] = append(funcs[filepath.Base(f)], &fn{name: fd.Name.Name, start: fset.Position(fd.Pos()).Line, end: fset.Position(fd.End()).Line})
		}
	}
	lineRe := regexp.MustCompile(`^(.*/server/([^/:]+)):(\d+)\.(\d+),(\d+)\.(\d+) (\d+) (\d+)$`)
	for _, ln := range strings.Split(string(raw), "\n") {
		m := lineRe.FindStringSubmatch(ln)
		if m == nil {
			continue
		}
		sl, _ := strconv.Atoi(m[3])
		el, _ := strconv.Atoi(m[5])
		cnt, _ := strconv.Atoi(m[8])
		for _, f := range funcs[m[2]] {
			if sl >= f.start && el <= f.end {
				f.tot++
				if cnt > 0 {
					f.exec++
				} else if len(f.uncovered) < 12 {
					f.uncovered = append(f.uncovered, fmt.Sprintf("%s:%d-%d", m[2], sl, el))
				}
			}
		}
	}
	report := map[string]interface{}{}
	tot, ex := 0, 0
	for file, l := range funcs {
		for _, f := range l {
			e := map[string]interface{}{"blocks_executed": f.exec, "blocks_total": f.tot}
			if len(f.uncovered) > 0 {
				e["not_executed"] = f.uncovered
			}
			report[file+":"+f.name] = e
			tot += f.tot
			ex += f.exec
		}
	}
	c.SetExtra("coverage_of_locking_functions", report)
	c.AddCounter("cover.locking_functions", int64(len(report)))
	c.AddCounter("cover.blocks_total", int64(tot))
	c.AddCounter("cover.blocks_executed", int64(ex))
	if tot == 0 && os.Getenv("VERIF_REPLAY") == "" {
		c.Inconc("coverage data lists no block of any locking function")
	}
}
