//go:build test

package main

// Monitor 3: linearizability of recorded concurrent histories against the
// composed sequential model (window rules, one-report-per-slot rules,
// authorization/ban rules, rotation), checked with porcupine. Histories are
// recorded at the client boundary on one monotonic clock.

import (
	"fmt"
	"math/rand"
	"path/filepath"
	"sort"
	"strings"
	"sync"
	"sync/atomic"
	"time"

	"github.com/anishathalye/porcupine"
	"github.com/glowlabs-org/gca-backend/server"

	"verifharness/lib/drv"
	"verifharness/lib/ev"
	"verifharness/lib/refenc"
	"verifharness/lib/run"
)

type lkind int

const (
	kRep lkind = iota
	kAuth
	kSlot
	kSync
	kStatsDev
	kStatsAll
	kRot
	kReadDev
	kReadAll
)

var lkindName = []string{"report", "authorize", "slot-read", "sync-read", "stats-read(device)", "stats-read", "rotation", "final-read(device)", "final-read"}

type lin struct {
	K      lkind
	Dev    uint32
	Rep    refenc.Report
	Raw    []byte
	Now    uint32
	SigKey [32]byte // the report's signature verifies under this key (and, by construction, under no other key in the history)
	Auth   refenc.Auth
	SigOK  bool
	Idx    int
	Week   uint32
	Pub    [32]byte
}

type lout struct {
	OK      bool
	Present bool
	Rec     refenc.Report
	Offset  uint32
	Refused bool
	Bits    [504]byte
	Pow     [2016]uint64
	Key     string
}

// ---- immutable model state

type dstate struct {
	St    int // 0 unknown, 1 authorized, 2 banned
	Auth  refenc.Auth
	Slots map[uint32]refenc.Report
	k     string
}

type hweek struct {
	Week uint32
	Dev  map[[32]byte]*[2016]uint64
	k    string
}

type gstate struct {
	Offset uint32
	Devs   map[uint32]*dstate
	Hist   []*hweek
	key    string
}

func (d *dstate) seal(id uint32) *dstate {
	var sb strings.Builder
	fmt.Fprintf(&sb, "D%d:%d:", id, d.St)
	if d.St == 1 {
		fmt.Fprintf(&sb, "%x:", d.Auth.Bytes())
		slots := make([]uint32, 0, len(d.Slots))
		for s := range d.Slots {
			slots = append(slots, s)
		}
		sort.Slice(slots, func(i, j int) bool { return slots[i] < slots[j] })
		for _, s := range slots {
			r := d.Slots[s]
			fmt.Fprintf(&sb, "%d,%d,%d,%d,%x;", s, r.ID, r.Slot, r.Power, r.Sig[:8])
		}
	}
	d.k = sb.String()
	return d
}

func powKey(p *[2016]uint64) string {
	var sb strings.Builder
	for i, v := range p {
		if v != 0 {
			fmt.Fprintf(&sb, "%d=%d,", i, v)
		}
	}
	return sb.String()
}

func (h *hweek) seal() *hweek {
	pubs := make([]string, 0, len(h.Dev))
	for k, p := range h.Dev {
		pubs = append(pubs, fmt.Sprintf("%x:%s", k[:8], powKey(p)))
	}
	sort.Strings(pubs)
	h.k = fmt.Sprintf("W%d{%s}", h.Week, strings.Join(pubs, "|"))
	return h
}

func (g *gstate) seal() *gstate {
	ids := make([]uint32, 0, len(g.Devs))
	for id := range g.Devs {
		ids = append(ids, id)
	}
	sort.Slice(ids, func(i, j int) bool { return ids[i] < ids[j] })
	var sb strings.Builder
	fmt.Fprintf(&sb, "O%d|", g.Offset)
	for _, id := range ids {
		sb.WriteString(g.Devs[id].k)
		sb.WriteByte('|')
	}
	for _, h := range g.Hist {
		sb.WriteString(h.k)
	}
	g.key = sb.String()
	return g
}

func (g *gstate) withDev(id uint32, d *dstate) *gstate {
	n := &gstate{Offset: g.Offset, Hist: g.Hist, Devs: make(map[uint32]*dstate, len(g.Devs)+1)}
	for k, v := range g.Devs {
		n.Devs[k] = v
	}
	n.Devs[id] = d.seal(id)
	return n.seal()
}

func stateFromSnap(s *server.VerifSnap, only map[uint32]bool) *gstate {
	g := &gstate{Offset: s.Offset, Devs: map[uint32]*dstate{}}
	for id, a := range s.Equipment {
		if only != nil && !only[id] {
			continue
		}
		d := &dstate{St: 1, Auth: drv.RefAuth(a), Slots: map[uint32]refenc.Report{}}
		if arr := s.Reports[id]; arr != nil {
			for i := range arr {
				if r := drv.RefReport(arr[i]); r != (refenc.Report{}) {
					d.Slots[s.Offset+uint32(i)] = r
				}
			}
		}
		g.Devs[id] = d.seal(id)
	}
	for id := range s.Bans {
		if only != nil && !only[id] {
			continue
		}
		g.Devs[id] = (&dstate{St: 2}).seal(id)
	}
	for _, h := range s.History {
		w := &hweek{Week: h.TimeslotOffset, Dev: map[[32]byte]*[2016]uint64{}}
		for i := range h.Devices {
			p := h.Devices[i].PowerOutputs
			w.Dev[h.Devices[i].PublicKey] = &p
		}
		g.Hist = append(g.Hist, w.seal())
	}
	return g.seal()
}

func devOf(g *gstate, id uint32) *dstate {
	if d := g.Devs[id]; d != nil {
		return d
	}
	return &dstate{k: fmt.Sprintf("D%d:0:", id)}
}

func livePow(g *gstate, d *dstate, week uint32) *[2016]uint64 {
	p := new([2016]uint64)
	for s, r := range d.Slots {
		if s >= week && s < week+2016 {
			p[s-week] = r.Power
		}
	}
	return p
}

func statsAllKey(m map[[32]byte]*[2016]uint64) string {
	return (&hweek{Dev: m}).seal().k
}

// step is the composed sequential specification.
func step(state, input, output interface{}) (bool, interface{}) {
	g := state.(*gstate)
	in := input.(lin)
	out := output.(lout)
	switch in.K {
	case kRep:
		d := g.Devs[in.Rep.ID]
		if d == nil || d.St != 1 || !in.SigOK || d.Auth.Pub != in.SigKey {
			return true, g
		}
		dn := int64(in.Rep.Slot) - int64(in.Now)
		if dn < -432 || dn > 432 || int64(in.Rep.Slot) < int64(g.Offset) || int64(in.Rep.Slot) >= int64(g.Offset)+4032 {
			return true, g
		}
		if in.Rep.Power == 0 || in.Rep.Power == 1 {
			return true, g
		}
		prev, has := d.Slots[in.Rep.Slot]
		if has && (prev.Power == 1 || prev == in.Rep) {
			return true, g
		}
		nd := &dstate{St: 1, Auth: d.Auth, Slots: make(map[uint32]refenc.Report, len(d.Slots)+1)}
		for k, v := range d.Slots {
			nd.Slots[k] = v
		}
		if !has {
			r := in.Rep
			if overCap(r.Power, d.Auth.Capacity) {
				r.Power = 1
			}
			nd.Slots[in.Rep.Slot] = r
		} else {
			prev.Power = 1
			nd.Slots[in.Rep.Slot] = prev
		}
		return true, g.withDev(in.Rep.ID, nd)
	case kAuth:
		a := in.Auth
		d := devOf(g, a.ID)
		switch {
		case !in.SigOK, d.St == 2:
			return !out.OK, g
		case d.St == 1 && d.Auth == a:
			return out.OK, g
		case d.St == 0:
			return out.OK, g.withDev(a.ID, &dstate{St: 1, Auth: a, Slots: map[uint32]refenc.Report{}})
		default:
			return !out.OK, g.withDev(a.ID, &dstate{St: 2})
		}
	case kSlot:
		d := devOf(g, in.Dev)
		if out.Offset != g.Offset || out.Present != (d.St == 1) {
			return false, g
		}
		if d.St != 1 {
			return true, g
		}
		return d.Slots[g.Offset+uint32(in.Idx)] == out.Rec, g
	case kSync:
		d := devOf(g, in.Dev)
		if out.Refused != (d.St != 1) {
			return false, g
		}
		if d.St != 1 {
			return true, g
		}
		if out.Offset != g.Offset {
			return false, g
		}
		var bits [504]byte
		for s, r := range d.Slots {
			if s >= g.Offset && s < g.Offset+4032 && r.Power > 0 {
				i := s - g.Offset
				bits[i/8] |= 1 << (i % 8)
			}
		}
		return bits == out.Bits, g
	case kStatsDev, kStatsAll:
		var m map[[32]byte]*[2016]uint64
		switch {
		case in.Week < g.Offset:
			for _, h := range g.Hist {
				if h.Week == in.Week {
					m = h.Dev
				}
			}
			if m == nil {
				return false, g // no archived record for that week can be served
			}
		case in.Week == g.Offset || in.Week == g.Offset+2016:
			m = map[[32]byte]*[2016]uint64{}
			for _, d := range g.Devs {
				if d.St == 1 {
					m[d.Auth.Pub] = livePow(g, d, in.Week)
				}
			}
		default:
			return !out.OK, g
		}
		if !out.OK {
			return false, g
		}
		if in.K == kStatsAll {
			return statsAllKey(m) == out.Key, g
		}
		p, present := m[in.Pub]
		if present != out.Present {
			return false, g
		}
		return !present || *p == out.Pow, g
	case kRot:
		n := &gstate{Offset: g.Offset + 2016, Devs: map[uint32]*dstate{}}
		w := &hweek{Week: g.Offset, Dev: map[[32]byte]*[2016]uint64{}}
		for id, d := range g.Devs {
			if d.St != 1 {
				n.Devs[id] = d
				continue
			}
			w.Dev[d.Auth.Pub] = livePow(g, d, g.Offset)
			nd := &dstate{St: 1, Auth: d.Auth, Slots: map[uint32]refenc.Report{}}
			for s, r := range d.Slots {
				if s >= g.Offset+2016 {
					nd.Slots[s] = r
				}
			}
			n.Devs[id] = nd.seal(id)
		}
		n.Hist = append(append([]*hweek(nil), g.Hist...), w.seal())
		return true, n.seal()
	case kReadDev:
		return devOf(g, in.Dev).k == out.Key, g
	case kReadAll:
		return g.key == out.Key, g
	}
	return false, g
}

func linModel(init *gstate, partitioned bool) porcupine.Model {
	m := porcupine.Model{
		Init:  func() interface{} { return init },
		Step:  step,
		Equal: func(a, b interface{}) bool { return a.(*gstate).key == b.(*gstate).key },
		DescribeOperation: func(i, o interface{}) string {
			in := i.(lin)
			return fmt.Sprintf("%s dev=%d slot=%d power=%d idx=%d week=%d", lkindName[in.K], in.Dev, in.Rep.Slot, in.Rep.Power, in.Idx, in.Week)
		},
	}
	if partitioned {
		m.Partition = func(h []porcupine.Operation) [][]porcupine.Operation {
			by := map[uint32][]porcupine.Operation{}
			var ids []uint32
			for _, o := range h {
				d := o.Input.(lin).Dev
				if _, ok := by[d]; !ok {
					ids = append(ids, d)
				}
				by[d] = append(by[d], o)
			}
			sort.Slice(ids, func(i, j int) bool { return ids[i] < ids[j] })
			out := make([][]porcupine.Operation, 0, len(ids))
			for _, id := range ids {
				out = append(out, by[id])
			}
			return out
		}
	}
	return m
}

// ---- recording

type recorder struct {
	mu  sync.Mutex
	ops []porcupine.Operation
}

func (rc *recorder) add(client int, in lin, call int64, out lout, ret int64) {
	rc.mu.Lock()
	rc.ops = append(rc.ops, porcupine.Operation{ClientId: client, Input: in, Call: call, Output: out, Return: ret})
	rc.mu.Unlock()
}

type lworld struct {
	*cw
	abort atomic.Bool // an operation's outcome is unknown (driver watchdog / transport): stop judging this world
}

// exec issues one operation against the real server and records it; a stats
// read in a partitioned history is recorded once per device of the universe.
func (w *lworld) exec(rc *recorder, client int, in lin, universe []lin) {
	var out lout
	call := mono()
	switch in.K {
	case kRep:
		w.S.VerifInject(in.Raw)
	case kAuth:
		c, _, err := w.Authorize(in.Auth)
		if err != nil {
			w.r.Inconc("lin: authorize failed at transport level: " + err.Error())
			w.abort.Store(true)
			return
		}
		out.OK = c == 200
	case kSlot:
		rep, _, off, present := w.S.VerifSlot(in.Dev, in.Idx)
		out.Rec, out.Offset, out.Present = drv.RefReport(rep), off, present
	case kSync:
		rep, refused, err := w.Sync(in.Dev)
		if err != nil { // a read whose reply was lost (server-side deadline under CPU starvation): leaving a read out of a history is sound
			w.r.Count("lin.reads_lost", 1)
			return
		}
		out.Refused, out.Offset, out.Bits = refused, rep.Offset, rep.Bitfield
	case kStatsDev, kStatsAll:
		c, st, _, err := w.GetStats(fmt.Sprintf("timeslot_offset=%d", in.Week))
		if err != nil {
			w.r.Count("lin.reads_lost", 1)
			return
		}
		ret := mono()
		out.OK = c == 200
		m := map[[32]byte]*[2016]uint64{}
		if st != nil {
			for i := range st.Devices {
				p := st.Devices[i].Power
				m[st.Devices[i].Pub] = &p
			}
		}
		if in.K == kStatsAll {
			out.Key = statsAllKey(m)
			rc.add(client, in, call, out, ret)
			return
		}
		for _, u := range universe {
			o := lout{OK: out.OK}
			if p, ok := m[u.Pub]; ok {
				o.Present, o.Pow = true, *p
			}
			x := in
			x.Dev, x.Pub = u.Dev, u.Pub
			rc.add(client, x, call, o, ret)
		}
		return
	case kRot:
		before := drv.RotationsDone.Load()
		n := drv.StepRotation()
		if n != 1 || drv.RotationsDone.Load() != before+1 {
			// -1 = the driver's wall-clock watchdog: the history is incomplete, it is not judged
			w.r.Inconc(fmt.Sprintf("lin: rotation step rotated %d times", n))
			w.abort.Store(true)
			return
		}
	}
	rc.add(client, in, call, out, mono())
}

func (w *lworld) mkRep(d *drv.Dev, slot uint32, power uint64, now uint32, rnd bool) lin {
	rep := refenc.Report{ID: d.ID, Slot: slot, Power: power}
	if rnd {
		rep.Sig = refenc.SignRand(d.Key.Priv, rep.SigningBytes())
	} else {
		rep = rep.Signed(d.Key.Priv)
	}
	return lin{K: kRep, Dev: d.ID, Rep: rep, Raw: rep.Bytes(), Now: now, SigKey: d.Key.Pub, SigOK: refenc.Verify(d.Key.Pub, rep.SigningBytes(), rep.Sig)}
}

// runHistory executes per-goroutine op lists concurrently and checks the history.
func (w *lworld) runHistory(name string, plans [][]lin, universe []lin, final []lin, partitioned bool, only map[uint32]bool) {
	r := w.r
	run.Op("lin history %s goroutines=%d", name, len(plans))
	init := stateFromSnap(w.S.VerifSnapshot(true), only)
	rc := &recorder{}
	var wg sync.WaitGroup
	start := make(chan struct{})
	for ci, p := range plans {
		wg.Add(1)
		go func(ci int, p []lin) {
			defer wg.Done()
			<-start
			for _, in := range p {
				w.exec(rc, ci, in, universe)
			}
		}(ci, p)
	}
	close(start)
	wg.Wait()
	if w.abort.Load() {
		return
	}
	// final reads, sequentially after everything returned
	snap := w.S.VerifSnapshot(true)
	fin := stateFromSnap(snap, only)
	for _, in := range final {
		call := mono()
		var out lout
		if in.K == kReadAll {
			out.Key = fin.key
		} else {
			out.Key = devOf(fin, in.Dev).k
		}
		rc.add(len(plans), in, call, out, mono())
	}
	nops := len(rc.ops)
	res, info := porcupine.CheckOperationsVerbose(linModel(init, partitioned), rc.ops, 30*time.Second)
	r.Eval(1)
	r.Count("lin.histories", 1)
	r.Count("lin.ops", int64(nops))
	r.Max("max.lin_history_ops", int64(nops))
	r.Nontrivial("lin:" + name)
	switch res {
	case porcupine.Ok:
		r.Count("lin.linearizable", 1)
	case porcupine.Unknown:
		r.Inconc("lin: porcupine timed out on history " + name)
	case porcupine.Illegal:
		var hist []string
		sort.Slice(rc.ops, func(i, j int) bool { return rc.ops[i].Call < rc.ops[j].Call })
		for _, o := range rc.ops {
			in := o.Input.(lin)
			out := o.Output.(lout)
			hist = append(hist, fmt.Sprintf("[%d,%d] c%d %s dev=%d slot=%d power=%d sig=%x idx=%d week=%d now=%d -> ok=%v present=%v rec={%d %d %x} off=%d refused=%v",
				o.Call, o.Return, o.ClientId, lkindName[in.K], in.Dev, in.Rep.Slot, in.Rep.Power, in.Rep.Sig[:4], in.Idx, in.Week, in.Now,
				out.OK, out.Present, out.Rec.Slot, out.Rec.Power, out.Rec.Sig[:4], out.Offset, out.Refused))
		}
		if len(hist) > 120 {
			hist = hist[:120]
		}
		_ = info
		r.Violationf("history-not-linearizable", map[string]interface{}{"history": hist, "name": name, "initial_state": init.key, "batch": curBatch},
			"recorded concurrent history %s (%d operations) has no linearization under the sequential model", name, nops)
	}
}

func shuffle(rng *rand.Rand, l []lin) {
	rng.Shuffle(len(l), func(i, j int) { l[i], l[j] = l[j], l[i] })
}

// partitionedHistory: no rotation; three devices with different life cycles.
func (w *lworld) partitionedHistory(n int) {
	rng := w.rng
	now := w.now()
	mk := func(authorizeNow bool) (*drv.Dev, refenc.Auth) {
		w.nextID++
		k := refenc.GenKey(rng)
		a := w.MkAuth(w.nextID, k.Pub, uint64(10000+rng.Intn(5000)))
		d := &drv.Dev{ID: a.ID, Key: k, Auth: a}
		if authorizeNow {
			if c, _, err := w.Authorize(a); err != nil || c != 200 {
				w.r.Inconc(fmt.Sprintf("lin: setup authorization failed: %d %v", c, err))
			}
		}
		return d, a
	}
	d1, _ := mk(true)   // stays authorized
	d2, a2 := mk(true)  // gets a conflicting authorization during the history
	d3, a3 := mk(false) // gets authorized during the history
	devs := []*drv.Dev{d1, d2, d3}
	only := map[uint32]bool{d1.ID: true, d2.ID: true, d3.ID: true}
	var universe []lin
	for _, d := range devs {
		universe = append(universe, lin{Dev: d.ID, Pub: d.Key.Pub})
	}
	G := 3 + rng.Intn(4)
	plans := make([][]lin, G)
	var pool []lin
	for _, d := range devs {
		slots := []uint32{now - uint32(rng.Intn(400)), now + uint32(rng.Intn(400)), now - 432, now + 433}
		for _, s := range slots[:2+rng.Intn(3)] {
			p := uint64(2 + rng.Intn(9000))
			pool = append(pool, w.mkRep(d, s, p, now, false))
			switch rng.Intn(4) {
			case 0: // equivocation
				pool = append(pool, w.mkRep(d, s, p+1, now, false))
			case 1: // exact replay
				pool = append(pool, w.mkRep(d, s, p, now, false))
			case 2: // same content, other valid signature -> a different report
				pool = append(pool, w.mkRep(d, s, p, now, true))
			}
			pool = append(pool, lin{K: kSlot, Dev: d.ID, Idx: int(s - w.M0())})
		}
		pool = append(pool, w.mkRep(d, now-10, d.Auth.Capacity*2, now, false)) // over capacity
		pool = append(pool, lin{K: kSlot, Dev: d.ID, Idx: int(now - 10 - w.M0())})
		pool = append(pool, lin{K: kSync, Dev: d.ID}, lin{K: kSync, Dev: d.ID})
	}
	c2 := a2
	c2.Debt++
	c2 = c2.Signed(w.GCA.Priv)
	pool = append(pool, lin{K: kAuth, Dev: d2.ID, Auth: c2, SigOK: true})
	pool = append(pool, lin{K: kAuth, Dev: d2.ID, Auth: a2, SigOK: true}) // identical re-submission (success before the ban, failure after)
	pool = append(pool, lin{K: kAuth, Dev: d3.ID, Auth: a3, SigOK: true})
	pool = append(pool, lin{K: kAuth, Dev: d3.ID, Auth: a3, SigOK: true})
	bad := a3
	bad.Fee++
	pool = append(pool, lin{K: kAuth, Dev: d3.ID, Auth: bad, SigOK: refenc.Verify(w.GCA.Pub, bad.SigningBytes(), bad.Sig)})
	pool = append(pool, lin{K: kStatsDev, Week: w.M0()}, lin{K: kStatsDev, Week: w.M0() + 2016})
	shuffle(rng, pool)
	for i, in := range pool {
		plans[i%G] = append(plans[i%G], in)
	}
	var final []lin
	for _, d := range devs {
		final = append(final, lin{K: kReadDev, Dev: d.ID})
	}
	w.runHistory(fmt.Sprintf("partitioned-%d", n), plans, universe, final, true, only)
}

// M0 is the window offset at the time a history is planned (jobs are gated).
func (w *lworld) M0() uint32 { return w.S.VerifSnapshot(false).Offset }

// rotationHistory: unpartitioned, at most 14 concurrent operations, one rotation.
func (w *lworld) rotationHistory(n int) {
	rng := w.rng
	off := w.M0()
	now := off + 3300 + uint32(rng.Intn(200))
	setClock(now)
	w.nextID++
	k := refenc.GenKey(rng)
	a := w.MkAuth(w.nextID, k.Pub, uint64(10000+rng.Intn(5000)))
	d := &drv.Dev{ID: a.ID, Key: k, Auth: a}
	if c, _, err := w.Authorize(a); err != nil || c != 200 {
		w.r.Inconc(fmt.Sprintf("lin: setup authorization failed: %d %v", c, err))
		return
	}
	s1 := now - uint32(rng.Intn(300))
	s2 := now + uint32(rng.Intn(300))
	p := uint64(100 + rng.Intn(5000))
	pool := []lin{
		{K: kRot},
		w.mkRep(d, s1, p, now, false),
		w.mkRep(d, s2, p+7, now, false),
		{K: kSlot, Dev: d.ID, Idx: int(s1 - off)},
		{K: kSlot, Dev: d.ID, Idx: int(s1 - off - 2016)},
		{K: kSync, Dev: d.ID},
		{K: kStatsAll, Week: off},
		{K: kStatsAll, Week: off + 2016},
	}
	switch rng.Intn(3) {
	case 0:
		pool = append(pool, w.mkRep(d, s1, p+1, now, false), lin{K: kSlot, Dev: d.ID, Idx: int(s1 - off - 2016)})
	case 1:
		c := a
		c.Debt++
		c = c.Signed(w.GCA.Priv)
		pool = append(pool, lin{K: kAuth, Dev: d.ID, Auth: c, SigOK: true}, lin{K: kSync, Dev: d.ID})
	case 2:
		pool = append(pool, lin{K: kStatsAll, Week: off + 4032}, w.mkRep(d, s2, p+7, now, false))
	}
	shuffle(rng, pool)
	if len(pool) > 14 {
		pool = pool[:14]
	}
	G := 3 + rng.Intn(3)
	plans := make([][]lin, G)
	for i, in := range pool {
		plans[i%G] = append(plans[i%G], in)
	}
	// the real impact job runs free during these histories (it touches nothing the model predicts);
	// afterwards its values must sit at or below now-offset
	drv.GateImpact(false)
	w.runHistory(fmt.Sprintf("rotation-%d", n), plans, nil, []lin{{K: kReadAll}}, false, nil)
	ia := drv.ImpactArrive.Load()
	drv.GateImpact(true)
	for i := 0; i < 3000 && drv.ImpactArrive.Load() == ia; i++ {
		time.Sleep(time.Millisecond)
	}
	if !w.abort.Load() {
		checkImpactPositions(w.S, w.r, "rotation history", nil)
	}
}

// selfTest feeds the checker one legal and one illegal synthetic history so
// that a mis-wired model cannot silently accept everything.
func linSelfTest(r *ev.Result, rng *rand.Rand) {
	k := refenc.GenKey(rng)
	a := refenc.Auth{ID: 5, Pub: k.Pub, Capacity: 1000}
	init := (&gstate{Devs: map[uint32]*dstate{5: (&dstate{St: 1, Auth: a, Slots: map[uint32]refenc.Report{}}).seal(5)}}).seal()
	rep := refenc.Report{ID: 5, Slot: 100, Power: 50}.Signed(k.Priv)
	other := refenc.Report{ID: 5, Slot: 100, Power: 51}.Signed(k.Priv)
	in := lin{K: kRep, Dev: 5, Rep: rep, Raw: rep.Bytes(), Now: 100, SigKey: k.Pub, SigOK: true}
	mk := func(read refenc.Report) []porcupine.Operation {
		return []porcupine.Operation{
			{ClientId: 0, Input: in, Call: 1, Output: lout{}, Return: 5},
			{ClientId: 1, Input: lin{K: kSlot, Dev: 5, Idx: 100}, Call: 6, Output: lout{Present: true, Rec: read}, Return: 9},
		}
	}
	if porcupine.CheckOperations(linModel(init, true), mk(rep)) {
		r.Count("lin.selftest_accepted_legal", 1)
	}
	if !porcupine.CheckOperations(linModel(init, true), mk(other)) {
		r.Count("lin.selftest_rejected_illegal", 1)
	}
	// a read that returns before the report is issued must not see it
	early := []porcupine.Operation{
		{ClientId: 1, Input: lin{K: kSlot, Dev: 5, Idx: 100}, Call: 1, Output: lout{Present: true, Rec: rep}, Return: 2},
		{ClientId: 0, Input: in, Call: 3, Output: lout{}, Return: 5},
	}
	if !porcupine.CheckOperations(linModel(init, false), early) {
		r.Count("lin.selftest_rejected_illegal", 1)
	}
}

func childLin(b run.Batch, r *ev.Result) {
	rng := rand.New(rand.NewSource(b.Seed))
	linSelfTest(r, rng)
	nPart, nRot := 6, 5
	if b.Tier == "thorough" {
		nPart, nRot = 18, 15
	}
	if b.N > 0 { // cover tour: a small sample
		nPart, nRot = b.N, b.N
	}
	for round := 0; nPart+nRot > 0; round++ {
		cwd, err := newCW(filepath.Join(b.Dir, fmt.Sprintf("lin%d", round)), rng, r, worldOpt{registered: true})
		if err != nil {
			r.Inconc("lin: " + err.Error())
			return
		}
		w := &lworld{cw: cwd}
		// a world serves at most 6+5 histories: every history adds devices, and serving a week of statistics
		// grows with the device count; it also keeps every server instance far below the 120 s test-mode limit
		t := time.Now()
		for k := 0; k < 6 && nPart > 0 && time.Since(t) < 25*time.Second && !w.abort.Load(); k++ {
			w.partitionedHistory(nPart)
			nPart--
		}
		for k := 0; k < 5 && nRot > 0 && time.Since(t) < 45*time.Second && !w.abort.Load(); k++ {
			w.rotationHistory(nRot)
			nRot--
		}
		if !w.abort.Load() {
			w.quiesce("linearizability histories", nil)
		} else {
			w.broken = true // an operation may still be pending inside the server: do not reuse the process for further servers
		}
		w.shutdown()
		if r.NumViolations() > 3 || abandoned.Load() {
			return
		}
	}
}
