//go:build test

package main

// Monitor 1 (and 4): many goroutines drive every operation kind through the
// real sockets against one server whose rotation and impact jobs run ungated
// while the protocol clock advances. A fixed op-pair matrix makes every kind
// run concurrently with every kind; recorded call/return intervals show which
// pairs really overlapped. Oracles: race detector (parent), no crash, no
// handler panic, order-independent responses, lock release, invariants, and a
// final state that every arrival order of the issued operations must produce.

import (
	"fmt"
	"math/rand"
	"net"
	"os"
	"path/filepath"
	"sort"
	"strings"
	"sync"
	"time"

	"github.com/glowlabs-org/gca-backend/server"

	"verifharness/lib/drv"
	"verifharness/lib/ev"
	"verifharness/lib/refenc"
	"verifharness/lib/run"
)

var stressKinds = []string{"udpValid", "udpEquiv", "udpHostile", "sync", "statsArch", "statsArchIFN", "statsLive", "statsLiveIFN",
	"archive", "equipment", "recent", "asGet", "asPostNew", "asPostBan", "authNew", "authConflict", "order", "registerAgain"}

var heavyKind = map[string]bool{"statsArch": true, "statsArchIFN": true, "statsLive": true, "statsLiveIFN": true, "archive": true, "recent": true}

var fanoutKind = map[string]bool{"asPostNew": true, "authNew": true, "authConflict": true}

type pairSpec struct{ A, B int }

func stressPairs() []pairSpec {
	var out []pairSpec
	for i := range stressKinds {
		for j := i; j < len(stressKinds); j++ {
			out = append(out, pairSpec{i, j})
		}
	}
	return out
}

type sop struct {
	kind int
	fn   func(c net.Conn) string // "" = as expected, otherwise a deviation / "transport: ..." (outcome unknown)
	unk  func()                  // withdraws the operation's expectation when its outcome is unknown
}

type ival struct {
	kind      string
	call, ret int64
}

type sworld struct {
	*cw
	reporters []*drv.Dev
	used      map[uint32]map[uint32]bool
	victims   []refenc.Auth       // authorized in an earlier phase, never conflicted yet
	servers   []refenc.AuthServer // listed since an earlier phase, not banned yet
	pendingV  []refenc.Auth       // created by the phase being planned: targets only afterwards
	pendingS  []refenc.AuthServer
	conns     []net.Conn
	// expectations that hold for every arrival order
	valid            map[uint32]map[uint32]uint64
	equiv            map[uint32]map[uint32]bool
	authed           map[uint32]refenc.Auth
	conflicted       map[uint32]bool
	postedSrv        map[[32]byte]bool
	bannedSrv        map[[32]byte]bool
	orders           map[[32]byte]map[[64]byte]bool
	ivals            []ival
	udpSent          uint64
	lossy            bool
	unkDev           map[uint32]bool // a write for this device/server/order failed at transport level: its state is not predicted
	unkSrv           map[[32]byte]bool
	unkOrder         map[[32]byte]bool
	transportSamples []string
	hostileN         int
}

func (w *sworld) slot(d *drv.Dev, now uint32) uint32 {
	for {
		s := now - 200 + uint32(w.rng.Intn(401))
		if !w.used[d.ID][s] {
			w.used[d.ID][s] = true
			return s
		}
	}
}

func httpDev(kind string, code int, err error, allowed ...int) string {
	if err != nil {
		return "transport: " + err.Error()
	}
	for _, a := range allowed {
		if a == code {
			return ""
		}
	}
	return fmt.Sprintf("%s answered %d, every sequential order of the issued operations gives %v", kind, code, allowed)
}

// build prepares one operation of the kind (payloads are drawn here, in the
// planning goroutine, so the case list is a function of the seed only).
func (w *sworld) build(kind int, now, offset uint32) sop {
	rng := w.rng
	name := stressKinds[kind]
	switch name {
	case "udpValid":
		d := w.reporters[rng.Intn(len(w.reporters))]
		s := w.slot(d, now)
		p := uint64(2 + rng.Intn(100000))
		w.valid[d.ID][s] = p
		b := d.Report(s, p).Bytes()
		w.udpSent++
		return sop{kind, func(c net.Conn) string { c.Write(b); return "" }, nil}
	case "udpEquiv":
		d := w.reporters[rng.Intn(len(w.reporters))]
		s := w.slot(d, now)
		p := uint64(2 + rng.Intn(100000))
		w.equiv[d.ID][s] = true
		b1, b2 := d.Report(s, p).Bytes(), d.Report(s, p+1).Bytes()
		w.udpSent += 2
		return sop{kind, func(c net.Conn) string { c.Write(b1); c.Write(b2); return "" }, nil}
	case "udpHostile":
		d := w.reporters[rng.Intn(len(w.reporters))]
		var b []byte
		w.hostileN++
		switch w.hostileN % 7 {
		case 0:
			b = make([]byte, rng.Intn(80))
			rng.Read(b)
		case 1:
			b = make([]byte, 80)
			rng.Read(b)
		case 2:
			b = d.Report(now, 500).Bytes()
			b[16+rng.Intn(64)] ^= 1 << uint(rng.Intn(8))
		case 3:
			b = refenc.Report{ID: 0xfffffff0 + uint32(rng.Intn(15)), Slot: now, Power: 500}.Signed(d.Key.Priv).Bytes()
		case 4:
			b = d.Report(now+433+uint32(rng.Intn(5000)), 500).Bytes()
		case 5:
			b = d.Report(now-uint32(rng.Intn(100)), uint64(rng.Intn(2))).Bytes()
		case 6:
			b = make([]byte, 81+rng.Intn(300))
			rng.Read(b)
		}
		w.udpSent++
		return sop{kind, func(c net.Conn) string { c.Write(b); return "" }, nil}
	case "sync":
		id := w.reporters[rng.Intn(len(w.reporters))].ID
		if rng.Intn(4) == 0 {
			id = uint32(900000 + rng.Intn(1000))
		}
		known := id < 900000
		return sop{kind, func(net.Conn) string {
			rep, refused, err := w.Sync(id)
			if err != nil {
				return "transport: " + err.Error()
			}
			if refused == known {
				return fmt.Sprintf("sync for device %d refused=%v", id, refused)
			}
			if known && rep.Offset%2016 != 0 {
				return fmt.Sprintf("sync reply carries window offset %d", rep.Offset)
			}
			return ""
		}, nil}
	case "statsArch", "statsArchIFN", "statsLive", "statsLiveIFN":
		var week uint32
		if strings.HasPrefix(name, "statsArch") {
			week = 2016 * uint32(rng.Intn(int(offset/2016)))
		} else {
			week = offset + 2016*uint32(rng.Intn(2))
		}
		q := fmt.Sprintf("timeslot_offset=%d", week)
		if strings.HasSuffix(name, "IFN") {
			q += "&insert_false_negatives=true"
		}
		want := fmt.Sprintf("\"TimeslotOffset\":%d,", week)
		return sop{kind, func(net.Conn) string {
			c, body, err := w.Get("/api/v1/all-device-stats?" + q) // not decoded here: decoding 0.5 MB under -race costs more than serving it
			if d := httpDev(name, c, err, 200); d != "" {
				return d
			}
			if !strings.Contains(string(body), want) {
				return fmt.Sprintf("stats for week %d answered with another week", week)
			}
			return ""
		}, nil}
	case "archive":
		return sop{kind, func(net.Conn) string { c, _, err := w.Get("/api/v1/archive"); return httpDev(name, c, err, 200, 429) }, nil}
	case "equipment":
		return sop{kind, func(net.Conn) string { c, _, err := w.Equipment(); return httpDev(name, c, err, 200) }, nil}
	case "recent":
		k := w.reporters[rng.Intn(len(w.reporters))].Key.Pub
		path := fmt.Sprintf("/api/v1/recent-reports?publicKey=%x", k[:])
		return sop{kind, func(net.Conn) string { c, _, err := w.Get(path); return httpDev(name, c, err, 200) }, nil}
	case "asGet":
		return sop{kind, func(net.Conn) string { c, _, err := w.AuthorizedServers(); return httpDev(name, c, err, 200) }, nil}
	case "asPostNew":
		s := w.mkServer(false)
		w.postedSrv[s.Pub] = true
		w.pendingS = append(w.pendingS, s)
		return sop{kind, func(net.Conn) string { c, _, err := w.PostServer(s); return httpDev(name, c, err, 200) }, func() { w.unkSrv[s.Pub] = true }}
	case "asPostBan":
		var s refenc.AuthServer
		if len(w.servers) > 0 {
			s = w.servers[0]
			w.servers = w.servers[1:]
			s.Banned = true
			s = s.Signed(w.GCA.Priv)
		} else {
			s = w.mkServer(true)
		}
		w.postedSrv[s.Pub] = true
		w.bannedSrv[s.Pub] = true
		return sop{kind, func(net.Conn) string { c, _, err := w.PostServer(s); return httpDev(name, c, err, 200) }, func() { w.unkSrv[s.Pub] = true }}
	case "authNew":
		a := w.mkNewAuth()
		w.authed[a.ID] = a
		w.pendingV = append(w.pendingV, a)
		return sop{kind, func(net.Conn) string { c, _, err := w.Authorize(a); return httpDev(name, c, err, 200) }, func() { w.unkDev[a.ID] = true }}
	case "authConflict":
		var a refenc.Auth
		pre := false
		if len(w.victims) > 0 {
			a = w.victims[0]
			w.victims = w.victims[1:]
		} else {
			a = w.mkNewAuth()
			w.authed[a.ID] = a
			pre = true
		}
		w.conflicted[a.ID] = true
		c2 := a
		c2.Debt += 1 + uint64(rng.Intn(5))
		c2 = c2.Signed(w.GCA.Priv)
		return sop{kind, func(net.Conn) string {
			if pre {
				c, _, err := w.Authorize(a)
				if d := httpDev(name+"(first)", c, err, 200); d != "" {
					return d
				}
			}
			c, _, err := w.Authorize(c2)
			return httpDev(name, c, err, 500)
		}, func() { w.unkDev[a.ID] = true }}
	case "order":
		k := w.reporters[rng.Intn(len(w.reporters))].Key.Pub
		o := w.mkOrder(k)
		if w.orders[k] == nil {
			w.orders[k] = map[[64]byte]bool{}
		}
		w.orders[k][o.Sig] = true
		return sop{kind, func(net.Conn) string { c, _, err := w.PostMigration(o); return httpDev(name, c, err, 200) }, func() { w.unkOrder[k] = true }}
	case "registerAgain":
		reg := refenc.Registration{GCAKey: refenc.GenKey(rng).Pub}
		reg.Sig = refenc.Sign(w.Temp.Priv, reg.SigningBytes())
		return sop{kind, func(net.Conn) string {
			c, _, err := w.Post("/api/v1/register-gca", reg.JSON())
			return httpDev(name, c, err, 500)
		}, nil}
	}
	panic("kind " + name)
}

// phase runs the per-goroutine plans concurrently. Responses that no
// sequential order could give are returned as deviations. An operation that
// failed at transport level (under CPU starvation the test-mode server drops
// connections after its 2.5 s read/sync deadlines) has an unknown outcome:
// its expectation is withdrawn, nothing is concluded from it.
func (w *sworld) phase(plans [][]sop) (devs []string, transport int) {
	type res struct {
		iv   []ival
		devs []string
		unk  []func()
	}
	out := make([]res, len(plans))
	var wg sync.WaitGroup
	start := make(chan struct{})
	for g := range plans {
		wg.Add(1)
		go func(g int) {
			defer wg.Done()
			<-start
			for _, o := range plans[g] {
				call := mono()
				d := o.fn(w.conns[g%len(w.conns)])
				out[g].iv = append(out[g].iv, ival{stressKinds[o.kind], call, mono()})
				if strings.HasPrefix(d, "transport:") {
					out[g].unk = append(out[g].unk, o.unk)
				}
				if d != "" {
					out[g].devs = append(out[g].devs, d)
				}
			}
		}(g)
	}
	close(start)
	wg.Wait()
	for g := range out {
		w.ivals = append(w.ivals, out[g].iv...)
		for _, f := range out[g].unk {
			transport++
			if f != nil {
				f()
			}
		}
		for _, d := range out[g].devs {
			if !strings.HasPrefix(d, "transport:") {
				devs = append(devs, d)
			} else if len(w.transportSamples) < 3 {
				w.transportSamples = append(w.transportSamples, d)
			}
		}
	}
	return devs, transport
}

func (w *sworld) drainUDP(base uint64) {
	// logical completion: every datagram sent so far has been handled or dropped by the listener
	dl := time.Now().Add(3 * time.Second)
	for server.VerifUDPHandled()-base < w.udpSent {
		if time.Now().After(dl) {
			w.lossy = true // loopback dropped datagrams: presence of single reports is then not decided
			w.r.Count("stress.udp_loss_phases", 1)
			w.udpSent = server.VerifUDPHandled() - base
			return
		}
		time.Sleep(time.Millisecond)
	}
}

func pairKey(a, b string) string {
	if a > b {
		a, b = b, a
	}
	return a + "|" + b
}

func overlappedPairs(iv []ival) map[string]int {
	sort.Slice(iv, func(i, j int) bool { return iv[i].call < iv[j].call })
	out := map[string]int{}
	var active []ival
	for _, x := range iv {
		k := 0
		for _, a := range active {
			if a.ret >= x.call {
				active[k] = a
				k++
				out[pairKey(a.kind, x.kind)]++
			}
		}
		active = append(active[:k], x)
	}
	return out
}

type phaseSpec struct {
	label string
	kinds [][]int // per goroutine: the kinds of its operations, in order
}

// stressPhases is the fixed phase list of one batch: its slice of the
// op-pair matrix, then mixed phases with 64 goroutines.
func stressPhases(rng *rand.Rand, slice, of, mixPhases int) []phaseSpec {
	var out []phaseSpec
	sizes := []int{4, 8, 16, 32} // goroutines per side -> 8..64 in total
	for pi, p := range stressPairs() {
		if pi%of != slice {
			continue
		}
		// goroutines per side: 4..32 for cheap kinds; serving a week of statistics, the recent-reports
		// array or the archive costs 0.1-0.9 s of CPU under -race: those kinds get 1 goroutine × 1 request per side
		n := sizes[(pi/of)%len(sizes)]
		ph := phaseSpec{label: stressKinds[p.A] + "×" + stressKinds[p.B]}
		for _, k := range []int{p.A, p.B} {
			gn, iters := n, 3
			if n >= 16 {
				iters = 2
			}
			if heavyKind[stressKinds[k]] {
				gn, iters = 1, 1
			} else if fanoutKind[stressKinds[k]] && gn > 4 {
				gn, iters = 4, 2 // each of these makes the server dial every listed peer
			}
			for g := 0; g < gn; g++ {
				ks := make([]int, iters)
				for i := range ks {
					ks[i] = k
				}
				ph.kinds = append(ph.kinds, ks)
			}
		}
		out = append(out, ph)
	}
	for m := 0; m < mixPhases; m++ {
		ph := phaseSpec{label: "mix", kinds: make([][]int, 64)}
		for g := range ph.kinds {
			for i := 0; i < 2; i++ {
				k := rng.Intn(len(stressKinds))
				for heavyKind[stressKinds[k]] && rng.Intn(8) != 0 {
					k = rng.Intn(len(stressKinds))
				}
				ph.kinds[g] = append(ph.kinds[g], k)
			}
		}
		out = append(out, ph)
	}
	return out
}

func childStress(b run.Batch, r *ev.Result) {
	rng := rand.New(rand.NewSource(b.Seed))
	var slice, of int
	fmt.Sscan(b.P("slice"), &slice)
	fmt.Sscan(b.P("of"), &of)
	mixPhases := 2
	if b.N > 0 {
		mixPhases = b.N
	}
	phases := stressPhases(rng, slice, of, mixPhases)
	// The phase list is fixed; a server instance serves phases for at most 40 s
	// (test-mode servers must die young), the rest continues on a fresh one.
	for round := 0; len(phases) > 0; round++ {
		done, ok := stressWorld(b, r, rng, round, phases)
		phases = phases[done:]
		if !ok || done == 0 {
			if len(phases) > 0 && ok {
				r.Inconc("stress: a fresh server could not complete a single phase")
			}
			return
		}
	}
}

// stressWorld runs phases on one server; returns how many it completed.
func stressWorld(b run.Batch, r *ev.Result, rng *rand.Rand, round int, phases []phaseSpec) (done int, ok bool) {
	base := server.VerifUDPHandled()
	c, err := newCW(filepath.Join(b.Dir, fmt.Sprintf("stress%d", round)), rng, r, worldOpt{registered: true})
	if err != nil {
		r.Inconc("stress: " + err.Error())
		return 0, false
	}
	w := &sworld{cw: c, used: map[uint32]map[uint32]bool{}, valid: map[uint32]map[uint32]uint64{}, equiv: map[uint32]map[uint32]bool{},
		authed: map[uint32]refenc.Auth{}, conflicted: map[uint32]bool{}, postedSrv: map[[32]byte]bool{}, bannedSrv: map[[32]byte]bool{},
		orders: map[[32]byte]map[[64]byte]bool{}, unkDev: map[uint32]bool{}, unkSrv: map[[32]byte]bool{}, unkOrder: map[[32]byte]bool{}}
	defer func() {
		for _, cn := range w.conns {
			cn.Close()
		}
		w.shutdown()
	}()
	for i := 0; i < 64; i++ {
		cn, err := netDialUDP(w.UDP)
		if err != nil {
			r.Inconc("stress: " + err.Error())
			return 0, false
		}
		w.conns = append(w.conns, cn)
	}
	for i := 0; i < 4; i++ {
		d, err := w.AddDevice(uint32(10+i), uint64(1<<40))
		if err != nil {
			r.Inconc("stress: " + err.Error())
			return 0, false
		}
		w.reporters = append(w.reporters, d)
		w.used[d.ID], w.valid[d.ID], w.equiv[d.ID] = map[uint32]bool{}, map[uint32]uint64{}, map[uint32]bool{}
		for k := 0; k < 40; k++ { // content for the first archived week
			s := uint32(100 + k*7 + i)
			p := uint64(1000 + rng.Intn(100000))
			w.Inject(d.Report(s, p).Bytes())
			w.valid[d.ID][s] = p
			w.used[d.ID][s] = true
		}
	}
	for i := 0; i < 6; i++ {
		a := w.mkNewAuth()
		if cde, _, err := w.Authorize(a); err != nil || cde != 200 {
			r.Inconc(fmt.Sprintf("stress: setup authorization failed: %d %v", cde, err))
			return 0, false
		}
		w.authed[a.ID] = a
		w.victims = append(w.victims, a)
	}
	for i := 0; i < 4; i++ {
		s := w.mkServer(false)
		if cde, _, err := w.PostServer(s); err != nil || cde != 200 {
			r.Inconc(fmt.Sprintf("stress: setup server post failed: %d %v", cde, err))
			return 0, false
		}
		w.postedSrv[s.Pub] = true
		w.servers = append(w.servers, s)
	}
	// from here on the real jobs run free; the first rotation archives week 0
	rotN.Store(0)
	impN.Store(0)
	jobTrace.Store(true)
	now := uint32(3300)
	setClock(now)
	rot0 := drv.RotationsDone.Load()
	drv.GateRotation(false)
	drv.GateImpact(false)
	for i := 0; drv.RotationsDone.Load() == rot0 && i < 10000; i++ {
		time.Sleep(time.Millisecond)
	}
	if drv.RotationsDone.Load() == rot0 {
		r.Inconc("stress: the ungated rotation job did not rotate at now-offset=3300 within 10 s")
		return 0, false
	}
	started := time.Now()
	var allDevs []string
	for _, ph := range phases {
		if time.Since(started) > 40*time.Second {
			break
		}
		run.Op("stress world %d phase %s goroutines=%d now=%d", round, ph.label, len(ph.kinds), now)
		sn := snapBounded(w.S, false)
		if sn == nil { // a snapshot that does not return: a server mutex is not being released
			lockProbe(w.S, r, "stress phase "+ph.label+" (snapshot did not return within 20 s)", nil)
			w.broken = true
			return done, false
		}
		off := sn.Offset
		// The rotation job looks at the clock every 100 ms; several short phases fit into that. Reports are
		// planned up to now+200 and must stay below offset+4032 whenever they are processed, so the clock is
		// not allowed to run more than two phases past the rotation trigger (3200) before the job has rotated.
		for i := 0; now-off > 3540 && i < 20000; i++ {
			time.Sleep(time.Millisecond)
			off = w.S.VerifSnapshot(false).Offset
		}
		if now-off > 3540 {
			r.Inconc("stress: the rotation job did not rotate within 20 s after its trigger")
			return done, false
		}
		plans := make([][]sop, len(ph.kinds))
		for g, ks := range ph.kinds {
			for _, k := range ks {
				plans[g] = append(plans[g], w.build(k, now, off))
			}
		}
		rotBefore := drv.RotationsDone.Load()
		phaseStart := time.Now()
		devs, transport := w.phase(plans)
		w.drainUDP(base)
		for _, a := range w.pendingV {
			if !w.unkDev[a.ID] {
				w.victims = append(w.victims, a)
			}
		}
		for _, sv := range w.pendingS {
			if !w.unkSrv[sv.Pub] {
				w.servers = append(w.servers, sv)
			}
		}
		w.pendingV, w.pendingS = nil, nil
		if drv.RotationsDone.Load() != rotBefore {
			r.Count("stress.phases_with_rotation", 1)
			if !checkImpactPositions(w.S, r, "stress phase "+ph.label+" (a rotation ran during it)", nil) {
				w.broken = true // stop here; the state is already wrong
				return done, false
			}
		}
		r.Count("stress.phases", 1)
		if ph.label != "mix" {
			r.Count("stress.pair_phases", 1)
		}
		r.Max("max.stress_goroutines", int64(len(plans)))
		allDevs = append(allDevs, devs...)
		done++
		now += 170
		setClock(now)
		if os.Getenv("VERIF_C13_DEBUG") != "" {
			r.Note("phase %s: %d goroutines, %d ms", ph.label, len(plans), time.Since(phaseStart).Milliseconds())
		}
		if transport > 0 {
			r.Count("stress.transport_errors", int64(transport))
			if !lockProbe(w.S, r, "stress phase "+ph.label, w.transportSamples) {
				w.broken = true
				return done, false
			}
		}
	}
	if len(w.transportSamples) > 0 {
		r.Note("stress: operations that failed at transport level (server-side 2.5 s deadlines under load; outcome unknown, expectation withdrawn), e.g. %.160s", w.transportSamples[0])
	}

	// park the jobs, then the system is quiescent
	ra, ia := drv.RotationArrive.Load(), drv.ImpactArrive.Load()
	drv.GateRotation(true)
	drv.GateImpact(true)
	for i := 0; i < 5000 && (drv.RotationArrive.Load() == ra || drv.ImpactArrive.Load() == ia); i++ {
		time.Sleep(time.Millisecond)
	}
	jobTrace.Store(false)

	// job intervals (lower bounds of the real ones)
	for i := int64(0); i < rotN.Load() && int(i) < len(rotStamp); i++ {
		t := rotStamp[i].Load()
		w.ivals = append(w.ivals, ival{"job.rotation", t, t})
	}
	for i := int64(0); i < impN.Load() && int(i) < len(impStart); i++ {
		w.ivals = append(w.ivals, ival{"job.impact", impStart[i].Load(), impEnd[i].Load()})
	}
	r.Count("stress.worlds", 1)
	r.Count("stress.rotations_during_run", rotN.Load())
	r.Count("stress.impact_rounds_during_run", impN.Load())
	r.Count("stress.ops", int64(len(w.ivals)))
	r.Eval(len(w.ivals))
	for k, n := range overlappedPairs(w.ivals) {
		r.Count("pair."+k, int64(n))
		r.Nontrivial("pair:" + k)
	}

	// deviations from what every sequential order gives
	for i, d := range allDevs {
		if i < 3 {
			r.Violationf("response-impossible-in-any-sequential-order", map[string]interface{}{"deviation": d, "batch": curBatch}, "%s", d)
		}
	}
	if !w.quiesce("stress run", nil) {
		return done, false
	}
	w.finalCheck()
	return done, true
}

// finalCheck: facts that every arrival order of the issued operations yields.
func (w *sworld) finalCheck() {
	r := w.r
	s := w.S.VerifSnapshot(true)
	bad := func(key string, f string, a ...interface{}) {
		r.Violationf("final-state-impossible-in-any-sequential-order:"+key, map[string]interface{}{"detail": fmt.Sprintf(f, a...), "batch": curBatch}, f, a...)
	}
	value := func(d *drv.Dev, slot uint32) (uint64, bool) {
		if slot >= s.Offset {
			arr := s.Reports[d.ID]
			if arr == nil || slot-s.Offset >= 4032 {
				return 0, false
			}
			return arr[slot-s.Offset].PowerOutput, true
		}
		for _, h := range s.History {
			if slot >= h.TimeslotOffset && slot < h.TimeslotOffset+2016 {
				for i := range h.Devices {
					if h.Devices[i].PublicKey == d.Key.Pub {
						return h.Devices[i].PowerOutputs[slot-h.TimeslotOffset], true
					}
				}
			}
		}
		return 0, false
	}
	nbad := 0
	for _, d := range w.reporters {
		for slot := range w.equiv[d.ID] {
			v, ok := value(d, slot)
			r.Count("stress.final_equivocated_slots_checked", 1)
			// both reports lost on loopback -> 0; one lost -> its value; both processed -> 1 in every order
			if !w.lossy && (!ok || v != 1) && nbad < 3 {
				nbad++
				bad("equivocated-slot", "device %d slot %d received two different acceptable reports but holds %d (found %v), want the ban marker 1", d.ID, slot, v, ok)
			}
		}
		for slot, p := range w.valid[d.ID] {
			v, ok := value(d, slot)
			r.Count("stress.final_single_reports_checked", 1)
			if ok && v != p && v != 0 && nbad < 3 {
				nbad++
				bad("single-report-value", "device %d slot %d received exactly one report with power %d but holds %d", d.ID, slot, p, v)
			}
			if (!ok || v == 0) && !w.lossy && nbad < 3 {
				nbad++
				bad("single-report-lost", "device %d slot %d: the one acceptable report (power %d) was processed but is not in the window or archive", d.ID, slot, p)
			}
		}
	}
	for id, a := range w.authed {
		if w.unkDev[id] {
			continue
		}
		_, inEq := s.Equipment[id]
		if w.conflicted[id] {
			if inEq || !s.Bans[id] {
				bad("conflict-ban", "device %d received two conflicting authorizations but is equipment=%v banned=%v", id, inEq, s.Bans[id])
			}
		} else if !inEq || drv.RefAuth(s.Equipment[id]) != a {
			bad("authorization", "device %d was authorized once without conflict but is not (exactly) in the equipment table", id)
		}
	}
	r.Count("stress.final_devices_checked", int64(len(w.authed)))
	listed := map[[32]byte]bool{}
	for _, e := range s.Servers {
		if listed[e.PublicKey] {
			bad("server-duplicate", "server %x is listed twice", e.PublicKey[:4])
		}
		listed[e.PublicKey] = true
		if !w.unkSrv[e.PublicKey] && w.bannedSrv[e.PublicKey] != e.Banned {
			bad("server-ban", "server %x listed with banned=%v, issued operations give banned=%v", e.PublicKey[:4], e.Banned, w.bannedSrv[e.PublicKey])
		}
	}
	for k := range w.postedSrv {
		if !listed[k] && !w.unkSrv[k] {
			bad("server-missing", "server %x was posted with a valid signature but is not listed", k[:4])
		}
	}
	r.Count("stress.final_servers_checked", int64(len(w.postedSrv)))
	for k, set := range w.orders {
		m, ok := s.Migrations[k]
		if (!ok && !w.unkOrder[k]) || (ok && !set[m.Signature]) {
			bad("migration-order", "migration order stored for device key %x is none of the %d orders that were posted (present %v)", k[:4], len(set), ok)
		}
	}
	r.Count("stress.final_checks", 1)
}
