//go:build test

package main

// Monitor 4 (lock release on every executed path): a sequential tour through
// every branch of every function that locks - error paths included - with the
// lock probe and CheckInvariants after each step. No concurrency here; the
// tour exists so that a path that returns without unlocking is found at the
// step that took it, and so that the coverage batch lists those paths as
// executed.

import (
	"fmt"
	"math/rand"
	"net"
	"path/filepath"
	"time"

	"verifharness/lib/drv"
	"verifharness/lib/ev"
	"verifharness/lib/refenc"
	"verifharness/lib/run"
)

func childPaths(b run.Batch, r *ev.Result) {
	rng := rand.New(rand.NewSource(b.Seed))
	w, err := newCW(filepath.Join(b.Dir, "paths"), rng, r, worldOpt{registered: false})
	if err != nil {
		r.Inconc("paths: " + err.Error())
		return
	}
	defer func() { w.shutdown() }()
	alive := true
	step := func(name string, f func() string) {
		if !alive {
			return
		}
		run.Op("path %s", name)
		res := f()
		if w.S == nil {
			r.Inconc("paths: server is gone after step " + name + ": " + res)
			w.broken, alive = true, false
			return
		}
		r.Count("paths.steps", 1)
		r.Eval(1)
		r.Nontrivial("path:" + name)
		if len(res) >= 4 && res[:4] == "err:" {
			r.Count("paths.transport_errors", 1)
			r.Note("path %s: %s", name, res)
		}
		if res == "200" {
			r.Count("paths.success_answers", 1)
		}
		alive = w.quiesce("path "+name, map[string]interface{}{"path": name, "result": res, "batch": curBatch})
	}
	st := func(c int, _ []byte, err error) string {
		if err != nil {
			return "err:" + err.Error()
		}
		return fmt.Sprint(c)
	}
	post := func(path string, body []byte) func() string {
		return func() string { return st(w.Post(path, body)) }
	}
	get := func(path string) func() string { return func() string { return st(w.Get(path)) } }
	udp := func(b []byte) func() string {
		return func() string {
			if err := udpSendOn(w.udp, b, 1); err != nil {
				return "err:" + err.Error()
			}
			return "0"
		}
	}
	raw := func(req []byte) func() string {
		return func() string {
			c, err := net.DialTimeout("tcp", fmt.Sprintf("127.0.0.1:%d", w.TCP), 3*time.Second)
			if err != nil {
				return "err:" + err.Error()
			}
			c.Write(req)
			c.(*net.TCPConn).CloseWrite()
			buf := make([]byte, 4096)
			c.SetReadDeadline(time.Now().Add(5 * time.Second))
			n, _ := c.Read(buf)
			c.Close()
			return fmt.Sprintf("%d bytes", n)
		}
	}

	impactStep := func() string {
		if !drv.StepImpact() {
			r.Inconc("paths: the impact job did not come round (driver watchdog)")
			return "err:watchdog"
		}
		return "0"
	}
	rotStep := func() string {
		n := drv.StepRotation()
		if n < 0 {
			r.Inconc("paths: the rotation job did not come round (driver watchdog)")
		}
		return fmt.Sprintf("rotations=%d", n)
	}
	// ---- before a GCA is registered
	a0 := w.mkNewAuth()
	step("authorize/unregistered", func() string { return st(w.Authorize(a0)) })
	step("server-post/unregistered", func() string { return st(w.PostServer(w.mkServer(false))) })
	step("order/unregistered", func() string { return st(w.PostMigration(w.mkOrder(a0.Pub))) })
	step("sync/unknown-id", raw(le32(77)))
	step("stats/live-empty", get("/api/v1/all-device-stats?timeslot_offset=0"))
	step("recent/unknown-key", func() string { c, _, e := w.RecentReports(a0.Pub); return st(c, nil, e) })
	step("equipment/empty", get("/api/v1/equipment"))
	step("servers/get-empty", get("/api/v1/authorized-servers"))
	step("archive/unregistered", get("/api/v1/archive"))
	step("report/unregistered", udp(refenc.Report{ID: a0.ID, Slot: w.now(), Power: 9}.Signed(w.Temp.Priv).Bytes()))
	badReg := w.mkRegistration()
	badReg.Sig[5] ^= 1
	step("register/bad-signature", post("/api/v1/register-gca", badReg.JSON()))
	step("register/bad-json", post("/api/v1/register-gca", []byte("{")))
	step("register/valid", post("/api/v1/register-gca", w.mkRegistration().JSON()))
	step("register/second", post("/api/v1/register-gca", w.mkRegistration().JSON()))
	step("register/get", get("/api/v1/register-gca"))

	// ---- authorizations
	kA, kB := refenc.GenKey(rng), refenc.GenKey(rng)
	aA := w.MkAuth(21, kA.Pub, 100000)
	aB := w.MkAuth(22, kB.Pub, 100000)
	dA := &drv.Dev{ID: 21, Key: kA, Auth: aA}
	dB := &drv.Dev{ID: 22, Key: kB, Auth: aB}
	badA := aA
	badA.Sig[3] ^= 4
	step("authorize/bad-signature", func() string { return st(w.Authorize(badA)) })
	step("authorize/bad-json", post("/api/v1/authorize-equipment", []byte("[")))
	step("authorize/get", get("/api/v1/authorize-equipment"))
	step("authorize/new-A", func() string { return st(w.Authorize(aA)) })
	step("authorize/identical-A", func() string { return st(w.Authorize(aA)) })
	step("authorize/new-B", func() string { return st(w.Authorize(aB)) })

	// ---- server list
	s1 := w.mkServer(false)
	badS := s1
	badS.Sig[0] ^= 1
	s1b := s1
	s1b.Banned = true
	s1b = s1b.Signed(w.GCA.Priv)
	step("server-post/bad-json", post("/api/v1/authorized-servers", []byte("nope")))
	step("server-post/bad-signature", func() string { return st(w.PostServer(badS)) })
	step("server-post/new", func() string { return st(w.PostServer(s1)) })
	step("server-post/already-listed", func() string { return st(w.PostServer(s1)) })
	step("server-post/ban", func() string { return st(w.PostServer(s1b)) })
	step("server-post/for-banned", func() string { return st(w.PostServer(s1)) })
	step("server-post/ban-again", func() string { return st(w.PostServer(s1b)) })
	step("server-post/new-banned", func() string { return st(w.PostServer(w.mkServer(true))) })
	step("servers/get", get("/api/v1/authorized-servers"))
	step("servers/put", func() string { return st(w.Do("PUT", "/api/v1/authorized-servers", nil, "")) })
	step("authorize/new-with-peers", func() string { return st(w.Authorize(w.mkNewAuth())) })

	// ---- reports
	now := w.now()
	good := dA.Report(now-5, 4000)
	flip := good.Bytes()
	flip[30] ^= 8
	step("report/short", udp(good.Bytes()[:40]))
	step("report/unknown-id", udp(refenc.Report{ID: 4040, Slot: now, Power: 7}.Signed(kA.Priv).Bytes()))
	step("report/bad-signature", udp(flip))
	step("report/outside-time-window", udp(dA.Report(now+433, 4000).Bytes()))
	step("report/sentinel", udp(dA.Report(now-6, 1).Bytes()))
	step("report/valid", udp(good.Bytes()))
	step("report/duplicate", udp(good.Bytes()))
	step("report/equivocation", udp(dA.Report(now-5, 4001).Bytes()))
	step("report/on-banned-slot", udp(dA.Report(now-5, 4002).Bytes()))
	step("report/over-capacity", udp(dA.Report(now-8, 100000*135/100+1).Bytes()))
	step("report/negative", udp(dA.Report(now-9, uint64(1<<64-300)).Bytes()))
	step("report/B", udp(dB.Report(now-5, 300).Bytes()))

	// ---- migration orders, sync
	oA := w.mkOrder(kA.Pub)
	badO := oA
	badO.Sig[9] ^= 1
	badInner := w.mkOrder(kA.Pub)
	badInner.Servers[0].Sig[1] ^= 1
	badInner = badInner.Signed(w.GCA.Priv)
	step("sync/known", raw(le32(dA.ID)))
	step("sync/half-request", raw([]byte{1, 2}))
	step("order/bad-json", post("/api/v1/equipment-migrate", []byte("{")))
	step("order/bad-signature", func() string { return st(w.PostMigration(badO)) })
	step("order/bad-inner-signature", func() string { return st(w.PostMigration(badInner)) })
	step("order/valid", func() string { return st(w.PostMigration(oA)) })
	step("order/get", get("/api/v1/equipment-migrate"))
	step("sync/with-migration", raw(le32(dA.ID)))

	// ---- conflict -> ban
	cB := aB
	cB.Debt += 5
	cB = cB.Signed(w.GCA.Priv)
	step("authorize/conflict-B", func() string { return st(w.Authorize(cB)) })
	step("authorize/on-banned-id", func() string { return st(w.Authorize(aB)) })
	step("report/banned-device", udp(dB.Report(now-4, 300).Bytes()))
	step("sync/banned-device", raw(le32(dB.ID)))
	step("recent/banned-device", func() string { c, _, e := w.RecentReports(kB.Pub); return st(c, nil, e) })

	// ---- reads
	step("stats/missing-param", get("/api/v1/all-device-stats"))
	step("stats/bad-param", get("/api/v1/all-device-stats?timeslot_offset=x"))
	step("stats/not-a-week", get("/api/v1/all-device-stats?timeslot_offset=17"))
	step("stats/live", get("/api/v1/all-device-stats?timeslot_offset=0"))
	step("stats/live-second-week", get("/api/v1/all-device-stats?timeslot_offset=2016&insert_false_negatives=true"))
	step("stats/future", get("/api/v1/all-device-stats?timeslot_offset=4032"))
	step("stats/post", post("/api/v1/all-device-stats?timeslot_offset=0", []byte("{}")))
	step("recent/missing-key", get("/api/v1/recent-reports"))
	step("recent/bad-hex", get("/api/v1/recent-reports?publicKey=zz"))
	step("recent/bad-length", get("/api/v1/recent-reports?publicKey=abcd"))
	step("recent/known", func() string { c, _, e := w.RecentReports(kA.Pub); return st(c, nil, e) })
	step("recent/post", post("/api/v1/recent-reports", []byte("{}")))
	step("equipment/get", get("/api/v1/equipment"))
	step("equipment/post", post("/api/v1/equipment", []byte("{}")))
	for i := 0; i < 5; i++ {
		step(fmt.Sprintf("archive/get-%d", i), get("/api/v1/archive"))
	}
	step("archive/with-body", func() string { return st(w.Do("GET", "/api/v1/archive", []byte("x"), "")) })
	step("archive/post", post("/api/v1/archive", nil))

	// ---- jobs
	step("impact/round", impactStep)
	step("rotation/not-due", rotStep)
	step("rotation/due", func() string { setClock(3201); return rotStep() })
	step("impact/after-rotation", impactStep)
	step("stats/archived", get("/api/v1/all-device-stats?timeslot_offset=0"))
	step("stats/archived-false-negatives", get("/api/v1/all-device-stats?timeslot_offset=0&insert_false_negatives=true"))
	step("report/before-window", func() string { setClock(2100); return udp(dA.Report(2000, 500).Bytes())() })
	step("report/beyond-window", func() string { setClock(5716); return udp(dA.Report(6048, 500).Bytes())() })
	step("report/window-end", func() string { return udp(dA.Report(6047, 500).Bytes())() })
	step("impact/clock-before-window", func() string { setClock(1000); defer setClock(3201); return impactStep() })

	// ---- restart with start-up catch-up rotations
	step("restart/catch-up", func() string {
		w.udp.Close()
		if err := w.Close(); err != nil {
			return "err:" + err.Error()
		}
		setClock(2016 + 4100)
		if err := w.Start(); err != nil {
			return "err:" + err.Error()
		}
		c, err := netDialUDP(w.UDP)
		if err != nil {
			return "err:" + err.Error()
		}
		w.udp = c
		return fmt.Sprintf("offset=%d", w.S.VerifSnapshot(false).Offset)
	})
	step("report/after-restart", func() string { return udp(dA.Report(w.now()-3, 500).Bytes())() })
	if alive {
		r.Count("paths.tours_completed", 1)
	}
}
