//go:build test

package main

// Late fresh start (part of the directed batch): a server that has never run
// is started several weeks after genesis, so its constructor catches up week
// by week before it returns. The catch-up site is inside the constructor: a
// server that can already be reached over HTTP there is being used while it
// is still being built. If (and only if) the API port is open at that site,
// a valid GCA registration is sent to it from inside the hook. Oracle, sound
// in every sequential order of "start" and "register": a registration that is
// acknowledged names the three ports the server has once its constructor has
// returned (they are fixed for the life of a server). The race variant
// watches the same accesses.

import (
	"bytes"
	"encoding/json"
	"fmt"
	"io"
	"math/rand"
	"net/http"
	"path/filepath"
	"sync/atomic"
	"time"

	"github.com/glowlabs-org/gca-backend/server"

	"verifharness/lib/drv"
	"verifharness/lib/ev"
	"verifharness/lib/refenc"
	"verifharness/lib/run"
)

type regAnswer struct {
	HttpPort, TcpPort, UdpPort uint16
}

func lateFreshStart(b run.Batch, r *ev.Result, rng *rand.Rand) bool {
	installHooks()
	weeks := 2 + rng.Intn(3)
	resetClock(uint32(2016*weeks + 4100 + rng.Intn(300)))
	drv.GateRotation(true)
	drv.GateImpact(true)
	e, err := drv.NewServerDir(filepath.Join(b.Dir, "latestart"), rng, true)
	if err != nil {
		r.Inconc("late start: " + err.Error())
		return false
	}
	gca := refenc.GenKey(rng)
	reg := refenc.Registration{GCAKey: gca.Pub}
	reg.Sig = refenc.Sign(e.Temp.Priv, reg.SigningBytes())
	post := func(port uint16) (int, *regAnswer, error) {
		hc := &http.Client{Timeout: 10 * time.Second, Transport: &http.Transport{DisableKeepAlives: true}}
		resp, err := hc.Post(fmt.Sprintf("http://127.0.0.1:%d/api/v1/register-gca", port), "application/json", bytes.NewReader(reg.JSON()))
		if err != nil {
			return 0, nil, err
		}
		body, _ := io.ReadAll(resp.Body)
		resp.Body.Close()
		var a regAnswer
		if resp.StatusCode == 200 {
			if err := json.Unmarshal(body, &a); err != nil {
				return resp.StatusCode, nil, err
			}
		}
		return resp.StatusCode, &a, nil
	}
	var hits atomic.Int64
	var earlyPort uint16
	var earlyCode int
	var early *regAnswer
	var earlyErr error
	cell := &hookCell{site: "migrate.catchup", fn: func(s *server.GCAServer) {
		if hits.Add(1) != 1 {
			return
		}
		h, _, _ := s.Ports() // written by this goroutine (the constructor's), if at all
		if h == 0 {
			return
		}
		earlyPort = h
		run.Op("late start: the API port %d is open inside the constructor's catch-up: register a GCA there", h)
		earlyCode, early, earlyErr = post(h)
	}}
	run.Op("late start: fresh server %d weeks after genesis", weeks)
	curCell.Store(cell)
	err = e.Start()
	curCell.Store(nil)
	if err != nil {
		r.Inconc("late start: " + err.Error())
		return false
	}
	defer e.Close()
	r.Eval(1)
	if hits.Load() == 0 {
		r.Inconc("late start: the constructor did not catch up")
		return false
	}
	r.Count("latestart.catchup_rounds_inside_constructor", hits.Load())
	replay := map[string]interface{}{"weeks_after_genesis": weeks, "batch": curBatch, "final_ports": []uint16{e.HTTP, e.TCP, e.UDP}}
	judge := func(when string, a *regAnswer) bool {
		if a.HttpPort != e.HTTP || a.TcpPort != e.TCP || a.UdpPort != e.UDP {
			replay["answer"] = a
			r.Violationf("registration-answer-names-other-ports-than-the-server-has", replay,
				"a GCA registration acknowledged %s names ports http=%d tcp=%d udp=%d, the server has http=%d tcp=%d udp=%d: no order of start-up and registration gives that answer",
				when, a.HttpPort, a.TcpPort, a.UdpPort, e.HTTP, e.TCP, e.UDP)
			return false
		}
		return true
	}
	if earlyPort != 0 && earlyErr == nil && earlyCode == 200 {
		r.Count("latestart.registered_inside_constructor", 1)
		r.Nontrivial("latestart:early")
		return judge("while the constructor was still catching up", early)
	}
	if earlyPort == 0 {
		r.Count("latestart.api_closed_during_catchup", 1)
	}
	code, a, err := post(e.HTTP)
	if err != nil {
		r.Inconc("late start: registration failed at transport level: " + err.Error())
		return false
	}
	if code != 200 {
		replay["early_status"] = earlyCode
		r.Violationf("registration-refused-on-fresh-server", replay, "a valid GCA registration on a fresh server was answered %d", code)
		return false
	}
	r.Count("latestart.registered_after_start", 1)
	r.Nontrivial("latestart:after")
	return judge("after start-up", a)
}
