//go:build test

package main

// Scale workloads (one child in quick): behaviour that only shows after many
// rotations or many devices in ONE process.
//
//	(a) a server with a few devices is driven through 55-70 real rotations
//	    (gated rotation job, one iteration per step) while goroutines poll
//	    all-device-stats for the earliest, a middle and the latest archived
//	    week, during and after; every answer must be 200, carry the week asked
//	    for, and equal the (immutable) archived record of the final snapshot.
//	(b) 270-320 devices, each sending a report (real socket and VerifInject,
//	    bounded in flight) from 10 goroutines with concurrent API traffic;
//	    then quiescence: every device's report integrated, no lock held.
//
// No harness call may wait for the server without bound here: a wedged server
// is decided by the lock probe (lock held while nothing makes progress), not
// by a watchdog.

import (
	"fmt"
	"math"
	"math/rand"
	"path/filepath"
	"sync"
	"sync/atomic"
	"time"

	"github.com/glowlabs-org/gca-backend/server"

	"verifharness/lib/drv"
	"verifharness/lib/ev"
	"verifharness/lib/refenc"
	"verifharness/lib/run"
)

// snapBounded takes a snapshot without waiting forever: a snapshot that does
// not return within 20 s means a server mutex is not being released.
func snapBounded(s *server.GCAServer, heavy bool) *server.VerifSnap {
	ch := make(chan *server.VerifSnap, 1)
	go func() { ch <- s.VerifSnapshot(heavy) }()
	select {
	case v := <-ch:
		return v
	case <-time.After(20 * time.Second):
		return nil
	}
}

// injectBounded hands a datagram to the handler without waiting for it forever.
func injectBounded(s *server.GCAServer, b []byte) bool {
	ch := make(chan struct{})
	go func() { s.VerifInject(b); close(ch) }()
	select {
	case <-ch:
		return true
	case <-time.After(20 * time.Second):
		return false
	}
}

func childScale(b run.Batch, r *ev.Result) {
	rng := rand.New(rand.NewSource(b.Seed))
	if !scaleRotations(b, r, rng) || abandoned.Load() {
		return
	}
	scaleDevices(b, r, rng)
}

func scaleRotations(b run.Batch, r *ev.Result, rng *rand.Rand) bool {
	w, err := newCW(filepath.Join(b.Dir, "rot"), rng, r, worldOpt{registered: true})
	if err != nil {
		r.Inconc("scale: " + err.Error())
		return false
	}
	defer func() { w.shutdown() }()
	nDev := rng.Intn(4) // 0..3 devices keep a rotation cheap
	var devs []*drv.Dev
	for i := 0; i < nDev; i++ {
		d, err := w.AddDevice(uint32(20+i), 1<<40)
		if err != nil {
			r.Inconc("scale: " + err.Error())
			return false
		}
		devs = append(devs, d)
	}
	R := 55 + rng.Intn(16)
	type poll struct {
		week uint32
		code int
		st   *refenc.Stats
		err  string
	}
	const P = 3
	var stop, pollTrouble atomic.Bool
	var rounds atomic.Int64
	results := make([][]poll, P)
	var wg sync.WaitGroup
	for g := 0; g < P; g++ {
		wg.Add(1)
		go func(g int) {
			defer wg.Done()
			for i := 0; !stop.Load(); i++ {
				_, _, off, _ := w.S.VerifSlot(0, 0)
				n := off / 2016 // closed weeks
				if n == 0 {
					time.Sleep(time.Millisecond)
					continue
				}
				weeks := []uint32{0, (n / 2) * 2016, off - 2016}
				wk := weeks[(g+i)%3]
				p := poll{week: wk}
				code, st, _, err := w.GetStats(fmt.Sprintf("timeslot_offset=%d", wk))
				if err != nil {
					p.err = err.Error()
					pollTrouble.Store(true)
				}
				p.code, p.st = code, st
				results[g] = append(results[g], p)
				rounds.Add(1)
			}
		}(g)
	}
	wedged := func(ctx string) bool { // true: decided (violation recorded)
		if !lockProbe(w.S, r, ctx, map[string]interface{}{"rotations_planned": R, "devices": nDev}) {
			stop.Store(true)
			w.broken = true
			return true
		}
		return false
	}
	for k := 0; k < R; k++ {
		run.Op("scale: rotation %d of %d (%d devices)", k+1, R, nDev)
		if pollTrouble.Swap(false) {
			if wedged(fmt.Sprintf("stats polls for archived weeks after %d rotations", k)) {
				return false
			}
		}
		off := uint32(k) * 2016
		setClock(off + 3201)
		for _, d := range devs {
			if !injectBounded(w.S, d.Report(off+3201-uint32(10+rng.Intn(300)), uint64(1000+k)).Bytes()) {
				if !wedged(fmt.Sprintf("a report after %d rotations (it did not return within 20 s)", k)) {
					r.Inconc("scale: a report did not return within 20 s although both mutexes are free")
					w.broken = true
				}
				stop.Store(true)
				return false
			}
		}
		n := drv.StepRotation()
		if n != 1 {
			if !wedged(fmt.Sprintf("rotation %d of a long-lived server", k+1)) {
				r.Inconc(fmt.Sprintf("scale: rotation step %d rotated %d times (driver watchdog)", k+1, n))
				w.broken = true
			}
			stop.Store(true)
			return false
		}
		r.Count("scale.rotations", 1)
	}
	r0 := rounds.Load()
	for i := 0; i < 20000 && rounds.Load() < r0+3*P && !pollTrouble.Load(); i++ { // polls after the last rotation
		time.Sleep(time.Millisecond)
	}
	if pollTrouble.Load() && wedged(fmt.Sprintf("stats polls for archived weeks after %d rotations", R)) {
		return false
	}
	stop.Store(true)
	wg.Wait()
	if !w.quiesce(fmt.Sprintf("%d rotations with archived-week polls", R), nil) {
		return false
	}
	snap := snapBounded(w.S, true)
	if snap == nil {
		w.broken = true
		lockProbe(w.S, r, "snapshot after the rotations", nil)
		return false
	}
	byWeek := map[uint32]server.AllDeviceStats{}
	for _, h := range snap.History {
		byWeek[h.TimeslotOffset] = h
	}
	nbad := 0
	kinds := map[string]bool{}
	for g := range results {
		for _, p := range results[g] {
			r.Count("scale.polls", 1)
			if p.err != "" {
				r.Count("scale.poll_transport_errors", 1)
				continue
			}
			switch {
			case p.week == 0:
				kinds["early"] = true
			case p.week+2016 >= snap.Offset-2016*3:
				kinds["latest"] = true
			default:
				kinds["middle"] = true
			}
			bad := ""
			h, known := byWeek[p.week]
			switch {
			case p.code != 200 || p.st == nil:
				bad = fmt.Sprintf("answered %d", p.code)
			case p.st.Week != p.week:
				bad = fmt.Sprintf("answered with week %d", p.st.Week)
			case !known || len(h.Devices) != len(p.st.Devices):
				bad = fmt.Sprintf("lists %d devices, the archived record (present %v) has %d", len(p.st.Devices), known, len(h.Devices))
			default:
				for _, d := range p.st.Devices {
					found := false
					for i := range h.Devices {
						if h.Devices[i].PublicKey == d.Pub {
							found = true
							same := h.Devices[i].PowerOutputs == d.Power
							for k := 0; same && k < 2016; k++ {
								same = math.Float64bits(h.Devices[i].ImpactRates[k]) == d.Impact[k]
							}
							if !same {
								bad = fmt.Sprintf("differs from the archived record for device %x", d.Pub[:4])
							}
						}
					}
					if !found {
						bad = fmt.Sprintf("lists device %x that the archived record does not have", d.Pub[:4])
					}
				}
			}
			if bad != "" && nbad < 3 {
				nbad++
				r.Violationf("archived-week-read-impossible-in-any-sequential-order", map[string]interface{}{"week": p.week, "closed_weeks": len(snap.History), "batch": curBatch},
					"all-device-stats for archived week %d (of %d closed weeks) %s; an archived week is immutable, every order gives the archived record", p.week, len(snap.History), bad)
			}
		}
	}
	r.Eval(int(rounds.Load()))
	r.Count("scale.poll_week_classes", int64(len(kinds)))
	r.Max("max.scale_closed_weeks", int64(len(snap.History)))
	r.Nontrivial(fmt.Sprintf("scale:rotations:%d:%d", R, nDev))
	return true
}

func scaleDevices(b run.Batch, r *ev.Result, rng *rand.Rand) bool {
	w, err := newCW(filepath.Join(b.Dir, "dev"), rng, r, worldOpt{registered: true})
	if err != nil {
		r.Inconc("scale: " + err.Error())
		return false
	}
	defer func() { w.shutdown() }()
	N := 270 + rng.Intn(51)
	type dv struct {
		d      *drv.Dev
		rep    []byte
		slot   uint32
		power  uint64
		socket bool
	}
	devs := make([]*dv, N)
	now := w.now()
	for i := range devs {
		k := refenc.GenKey(rng)
		a := w.MkAuth(uint32(5000+i), k.Pub, 1<<40)
		d := &drv.Dev{ID: a.ID, Key: k, Auth: a}
		x := &dv{d: d, slot: now - 300 + uint32(rng.Intn(600)), power: uint64(2 + rng.Intn(1000000)), socket: i%3 == 1}
		x.rep = d.Report(x.slot, x.power).Bytes()
		devs[i] = x
	}
	var progress atomic.Int64
	stalled := func(ctx string, done func() bool) bool { // waits for done(); true if the server stopped making progress
		last, lastT := progress.Load(), time.Now()
		for !done() {
			time.Sleep(2 * time.Millisecond)
			if p := progress.Load(); p != last {
				last, lastT = p, time.Now()
			} else if time.Since(lastT) > 25*time.Second {
				// nothing completed for 25 s although every request has a 20 s transport deadline: ask the locks
				if !lockProbe(w.S, r, ctx, map[string]interface{}{"devices": N, "completed_operations": last}) {
					w.broken = true
				} else {
					r.Inconc("scale: no progress for 25 s while " + ctx + ", but both mutexes are free")
					w.broken = true
				}
				return true
			}
		}
		return false
	}
	// authorize all devices (8 workers)
	run.Op("scale: authorize %d devices", N)
	var authFail atomic.Int64
	var wg sync.WaitGroup
	var nDone atomic.Int64
	for g := 0; g < 8; g++ {
		wg.Add(1)
		go func(g int) {
			defer wg.Done()
			for i := g; i < N; i += 8 {
				if c, _, err := w.Authorize(devs[i].d.Auth); err != nil || c != 200 {
					authFail.Add(1)
				}
				progress.Add(1)
			}
			nDone.Add(1)
		}(g)
	}
	if stalled("authorizing many devices", func() bool { return nDone.Load() == 8 }) {
		return false
	}
	if authFail.Load() > 0 {
		r.Inconc(fmt.Sprintf("scale: %d of %d set-up authorizations failed", authFail.Load(), N))
		return false
	}
	// every device reports once, 10 senders, with API traffic
	run.Op("scale: %d devices report concurrently (socket and inject) with API traffic", N)
	base := server.VerifUDPHandled()
	var sockSent atomic.Int64
	var stop atomic.Bool
	nDone.Store(0)
	const G = 10
	for g := 0; g < G; g++ {
		go func(g int) {
			cn, err := netDialUDP(w.UDP)
			if err != nil {
				nDone.Add(1)
				return
			}
			defer cn.Close()
			for i := g; i < N && !stop.Load(); i += G {
				x := devs[i]
				if x.socket {
					for sockSent.Load()-int64(server.VerifUDPHandled()-base) >= 16 && !stop.Load() {
						time.Sleep(50 * time.Microsecond)
					}
					sockSent.Add(1)
					cn.Write(x.rep)
				} else {
					w.S.VerifInject(x.rep)
				}
				progress.Add(1)
			}
			nDone.Add(1)
		}(g)
	}
	var apiDev atomic.Int64
	var apiWG sync.WaitGroup
	for g := 0; g < 3; g++ {
		apiWG.Add(1)
		go func(g int) {
			defer apiWG.Done()
			for i := 0; !stop.Load(); i++ {
				var c int
				var err error
				switch (g + i) % 4 {
				case 0:
					c, _, err = w.Get("/api/v1/equipment")
				case 1:
					c, _, err = w.Get("/api/v1/authorized-servers")
				case 2:
					_, refused, e := w.Sync(devs[(g*131+i*17)%N].d.ID)
					c, err = 200, e
					if e == nil && refused {
						c = 0
					}
				case 3:
					c, _, err = w.Get(fmt.Sprintf("/api/v1/recent-reports?publicKey=%x", devs[(g*71+i*13)%N].d.Key.Pub[:]))
				}
				if err == nil && c != 200 {
					apiDev.Add(1)
				}
				if err == nil {
					progress.Add(1)
				}
				r.Count("scale.api_requests", 1)
			}
		}(g)
	}
	if stalled("many devices report concurrently", func() bool { return nDone.Load() == G }) {
		stop.Store(true)
		return false
	}
	stop.Store(true)
	apiWG.Wait()
	lossy := false
	for i := 0; i < 5000 && int64(server.VerifUDPHandled()-base) < sockSent.Load(); i++ {
		time.Sleep(time.Millisecond)
	}
	if int64(server.VerifUDPHandled()-base) < sockSent.Load() {
		lossy = true
		r.Count("scale.udp_loss", 1)
	}
	if apiDev.Load() > 0 {
		r.Violationf("response-impossible-in-any-sequential-order", map[string]interface{}{"count": apiDev.Load(), "batch": curBatch},
			"%d read requests about authorized devices were not answered with success while the devices reported", apiDev.Load())
	}
	if !w.quiesce(fmt.Sprintf("%d devices reporting concurrently", N), nil) {
		return false
	}
	snap := snapBounded(w.S, true)
	if snap == nil {
		w.broken = true
		lockProbe(w.S, r, "snapshot after many devices reported", nil)
		return false
	}
	nbad := 0
	for _, x := range devs {
		if x.socket && lossy {
			continue
		}
		r.Count("scale.device_reports_checked", 1)
		arr := snap.Reports[x.d.ID]
		got := uint64(0)
		if arr != nil {
			got = arr[x.slot-snap.Offset].PowerOutput
		}
		if got != x.power && nbad < 3 {
			nbad++
			r.Violationf("final-state-impossible-in-any-sequential-order:single-report-lost", map[string]interface{}{"device": x.d.ID, "slot": x.slot, "batch": curBatch},
				"device %d (one of %d) sent exactly one acceptable report (slot %d power %d); the window holds %d (device tracked: %v)", x.d.ID, N, x.slot, x.power, got, arr != nil)
		}
	}
	r.Eval(N)
	r.Max("max.scale_devices", int64(N))
	r.Nontrivial(fmt.Sprintf("scale:devices:%d", N))
	r.Count("scale.device_runs_completed", 1)
	return true
}
