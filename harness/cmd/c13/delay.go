//go:build test

package main

// Monitor 1b: delay-injection matrix (primary race monitor).
//
// For a cell (site X, operation Y): a fresh server; the handler owning X is
// triggered; when its goroutine reaches X the hook starts Y in a NEW goroutine
// and then only sleeps. The hooked goroutine performs no acquire between Y's
// accesses and its own next access except the ones the code under test itself
// performs (its mutex) - so a missing lock is reported by the race detector,
// while correctly locked code is ordered by the mutex and stays silent.
// The callback therefore touches nothing but atomics it *stores* to.

import (
	"fmt"
	"math/rand"
	"net"
	"path/filepath"
	"strings"
	"sync/atomic"
	"time"

	"github.com/glowlabs-org/gca-backend/server"

	"verifharness/lib/drv"
	"verifharness/lib/ev"
	"verifharness/lib/refenc"
	"verifharness/lib/run"
)

var delayOps = []string{"report", "equivocate", "authNew", "authConflict", "register", "srvAuth", "srvBan", "order", "rotate",
	"statsArch", "statsLive", "archive", "sync", "recent", "equipment", "asGet", "impact"}

var opNeedsDevices = map[string]bool{"report": true, "equivocate": true, "authConflict": true, "srvBan": true, "statsArch": true}

// sites whose owning handler can reach them on a server without a registered GCA
var reachableUnregistered = map[string]bool{"udp.ready": true, "udp.done": true, "migrate.beforeLock": true, "wt.afterList": true,
	"sync.ready": true, "sync.afterCopy": true, "auth.ready": true, "auth.afterSave": true, "as.get.ready": true, "as.post.ready": true,
	"stats.ready": true, "stats.afterUnlock": true, "equipment.ready": true, "order.ready": true, "register.ready": true,
	"recent.ready": true, "archive.beforeFile": true, "equipment.afterUnlock": true, "as.get.afterUnlock": true}

// admissible implements the table of DESIGN §2.4.
func admissible(site, op string) bool {
	switch site {
	case "migrate.catchup":
		// start-up: only the UDP listener is up
		return op == "report" || op == "equivocate"
	case "migrate.beforeLock":
		if op == "rotate" { // single rotator
			return false
		}
	case "wt.afterList", "wt.beforeUpdate":
		if op == "impact" { // single impact job
			return false
		}
	}
	if op == "register" && !reachableUnregistered[site] {
		return false
	}
	return true
}

type dcellSpec struct {
	Site, Op string
	Idx      int
}

func delayCells() []dcellSpec {
	var out []dcellSpec
	for _, s := range allSites {
		for _, o := range delayOps {
			if admissible(s, o) {
				out = append(out, dcellSpec{s, o, len(out)})
			}
		}
	}
	return out
}

// ---------------------------------------------------------------- the operation menu

// prep builds the payload of operation `op` in the calling goroutine and
// returns a closure that issues it through the real sockets and reports a
// short outcome string.
func (w *cw) prep(op string) func() string {
	st := func(code int, err error) string {
		if err != nil {
			return "err:" + err.Error()
		}
		return fmt.Sprint(code)
	}
	switch op {
	case "report":
		b := w.A.Report(w.freshSlot(), uint64(2000+w.rng.Intn(1000))).Bytes()
		return func() string { return st(0, udpSendOn(w.udp, b, 1)) }
	case "equivocate":
		b := w.A.Report(w.eqSlot, w.eqPower+1+uint64(w.rng.Intn(50))).Bytes()
		return func() string { return st(0, udpSendOn(w.udp, b, 1)) }
	case "authNew":
		a := w.mkNewAuth()
		return func() string { c, _, err := w.Authorize(a); return st(c, err) }
	case "authConflict":
		d := w.A
		if w.rng.Intn(3) == 0 {
			d = w.B
		}
		a := d.Auth
		a.Debt += 1 + uint64(w.rng.Intn(9))
		a = a.Signed(w.GCA.Priv)
		return func() string { c, _, err := w.Authorize(a); return st(c, err) }
	case "register":
		reg := w.mkRegistration()
		return func() string { c, _, err := w.Post("/api/v1/register-gca", reg.JSON()); return st(c, err) }
	case "srvAuth":
		s := w.mkServer(false)
		return func() string { c, _, err := w.PostServer(s); return st(c, err) }
	case "srvBan":
		s := w.S0
		s.Banned = true
		s = s.Signed(w.GCA.Priv)
		return func() string { c, _, err := w.PostServer(s); return st(c, err) }
	case "order":
		var k [32]byte
		if w.A != nil {
			k = w.A.Key.Pub
		} else {
			k = refenc.GenKey(w.rng).Pub
		}
		o := w.mkOrder(k)
		return func() string { c, _, err := w.PostMigration(o); return st(c, err) }
	case "rotate":
		return func() string {
			snap := w.S.VerifSnapshot(false)
			before := drv.RotationsDone.Load()
			setClock(snap.Offset + 3201 + uint32(before%7))
			done := make(chan int, 1)
			go func() { done <- drv.StepRotation() }()
			dl := time.Now().Add(10 * time.Second)
			for drv.RotationsDone.Load() == before && time.Now().Before(dl) {
				time.Sleep(200 * time.Microsecond)
			}
			t := mono()
			n := <-done // the rotator is parked at its gate again
			return fmt.Sprintf("rotations=%d@%d", n, t)
		}
	case "statsArch":
		q := "timeslot_offset=0&insert_false_negatives=true"
		return func() string { c, _, err := w.Get("/api/v1/all-device-stats?" + q); return st(c, err) }
	case "statsLive":
		q := fmt.Sprintf("timeslot_offset=%d", w.S.VerifSnapshot(false).Offset+2016*uint32(w.rng.Intn(2)))
		if w.rng.Intn(2) == 0 {
			q += "&insert_false_negatives=true"
		}
		return func() string { c, _, err := w.Get("/api/v1/all-device-stats?" + q); return st(c, err) }
	case "archive":
		return func() string { c, _, err := w.Get("/api/v1/archive"); return st(c, err) }
	case "sync":
		id := uint32(7)
		if w.A != nil {
			id = w.A.ID
		}
		return func() string {
			_, refused, err := w.Sync(id)
			if err != nil {
				return "err:" + err.Error()
			}
			return fmt.Sprintf("refused=%v", refused)
		}
	case "recent":
		k := refenc.GenKey(w.rng).Pub
		if w.A != nil {
			k = w.A.Key.Pub
		}
		path := fmt.Sprintf("/api/v1/recent-reports?publicKey=%x", k[:])
		return func() string { c, _, err := w.Get(path); return st(c, err) }
	case "equipment":
		return func() string { c, _, err := w.Equipment(); return st(c, err) }
	case "asGet":
		return func() string { c, _, err := w.AuthorizedServers(); return st(c, err) }
	case "impact": // one round of the real impact job (the gated job is released for one iteration)
		return func() string {
			if !drv.StepImpact() {
				return "err:impact job did not come round (driver watchdog)"
			}
			return "0"
		}
	}
	panic("unknown op " + op)
}

// trigger returns the closure that makes the handler owning `site` run once,
// blocking until that handler has finished. yUDP = number of datagrams Y sends.
func (w *cw) trigger(site string, variant int, yUDP uint64) func() string {
	fam := site[:strings.Index(site, ".")]
	switch fam {
	case "udp":
		var b []byte
		if w.A != nil {
			b = w.A.Report(w.freshSlot(), uint64(2000+w.rng.Intn(1000))).Bytes()
		} else {
			b = refenc.Report{ID: 7, Slot: w.now(), Power: 55}.Signed(refenc.GenKey(w.rng).Priv).Bytes()
		}
		return func() string {
			if err := udpSendOn(w.udp, b, 1+yUDP); err != nil {
				return "err:" + err.Error()
			}
			return "0"
		}
	case "migrate": // migrate.beforeLock
		return func() string {
			snap := w.S.VerifSnapshot(false)
			setClock(snap.Offset + 3201)
			return fmt.Sprintf("rotations=%d", drv.StepRotation())
		}
	case "wt":
		return func() string {
			if !drv.StepImpact() {
				return "err:impact job did not come round (driver watchdog)"
			}
			return "0"
		}
	case "sync":
		return w.prep("sync")
	case "auth":
		return w.prep("authNew")
	case "as":
		if strings.HasPrefix(site, "as.get.") {
			return w.prep("asGet")
		}
		return w.prep("srvAuth")
	case "stats":
		snap := w.S.VerifSnapshot(false)
		if snap.Offset > 0 && variant%3 != 2 {
			return w.prep("statsArch")
		}
		return w.prep("statsLive")
	case "equipment":
		return w.prep("equipment")
	case "order":
		return w.prep("order")
	case "register":
		k := refenc.GenKey(w.rng)
		reg := refenc.Registration{GCAKey: k.Pub}
		reg.Sig = refenc.Sign(w.Temp.Priv, reg.SigningBytes())
		return func() string {
			c, _, err := w.Post("/api/v1/register-gca", reg.JSON())
			if err != nil {
				return "err:" + err.Error()
			}
			return fmt.Sprint(c)
		}
	case "recent":
		return w.prep("recent")
	case "archive":
		return w.prep("archive")
	}
	panic("no trigger for " + site)
}

// ---------------------------------------------------------------- one cell

type dcell struct {
	armed   atomic.Bool
	occ     int64
	seen    atomic.Int64
	srv     *server.GCAServer       // nil: any (start-up cell)
	pre     func(*server.GCAServer) // runs in the hooked goroutine before Y is spawned (reads what only that goroutine may read)
	y       func(*server.GCAServer)
	delay   time.Duration
	firedT  atomic.Int64
	resumeT atomic.Int64
	yDoneT  atomic.Int64
	yDone   chan struct{}
	yRes    atomic.Value
}

func (c *dcell) hook(s *server.GCAServer) {
	if !c.armed.Load() {
		return
	}
	if c.srv != nil && s != c.srv {
		return
	}
	if c.seen.Add(1) != c.occ {
		return
	}
	c.armed.Store(false)
	c.firedT.Store(mono())
	if c.pre != nil {
		c.pre(s)
	}
	go c.y(s)
	time.Sleep(c.delay)
	c.resumeT.Store(mono())
}

const delaySleep = 80 * time.Millisecond

// waitHook: the trigger's completion barrier may precede the hooked
// goroutine's arrival (udp.done) - give it time to fire and to wake up again.
func (c *dcell) waitHook() {
	for i := 0; i < 3000 && c.firedT.Load() == 0; i++ {
		time.Sleep(time.Millisecond)
	}
	for i := 0; i < 5000 && c.firedT.Load() != 0 && c.resumeT.Load() == 0; i++ {
		time.Sleep(time.Millisecond)
	}
}

func netDialUDP(port uint16) (net.Conn, error) {
	return net.Dial("udp", fmt.Sprintf("127.0.0.1:%d", port))
}

func runDelayCell(dir string, spec dcellSpec, rep int, seed int64, r *ev.Result) {
	rng := rand.New(rand.NewSource(seed))
	name := spec.Site + "×" + spec.Op
	run.Op("delay cell %s rep=%d seed=%d", name, rep, seed)
	if spec.Site == "migrate.catchup" {
		runCatchupCell(dir, spec, rep, rng, r)
		return
	}
	registered := true
	if spec.Op == "register" || (spec.Site == "register.ready" && !opNeedsDevices[spec.Op] && rep%2 == 0) {
		registered = false
	}
	fill := 0
	if registered && (spec.Op == "statsArch" || strings.HasPrefix(spec.Site, "stats.")) {
		fill = 250
	} else if registered && rep%2 == 1 {
		fill = 8 // varied state: a (nearly empty) archived week, offset 2016
	}
	w, err := newCW(dir, rng, r, worldOpt{registered: registered, devices: true, archFill: fill})
	if err != nil {
		r.Inconc("delay cell " + name + ": " + err.Error())
		return
	}
	defer w.shutdown()
	if !registered && fillUnregisteredArchive(spec) {
		// an archived (empty) week so that archived-week reads are possible
		setClock(3201)
		drv.StepRotation()
	}

	yUDP := uint64(0)
	if spec.Op == "report" || spec.Op == "equivocate" {
		yUDP = 1
	}
	if strings.HasPrefix(spec.Site, "wt.") && spec.Op == "rotate" {
		// the round fetches its datapoint for "now" before the rotation is released (the gated rotator does
		// not act on the clock by itself): a value stored through a stale offset then lies in the future half
		setClock(w.S.VerifSnapshot(false).Offset + 3201)
	}
	yf := w.prep(spec.Op)
	tf := w.trigger(spec.Site, rep+spec.Idx, yUDP)
	c := &dcell{occ: 1, srv: w.S, delay: delaySleep, yDone: make(chan struct{})}
	switch spec.Op { // operations whose serving costs 0.1-0.9 s of CPU under -race
	case "recent":
		c.delay = 700 * time.Millisecond
	case "archive", "statsArch", "statsLive", "impact": // the impact job sleeps 20 ms before its round
		c.delay = 250 * time.Millisecond
	}
	switch spec.Site {
	case "archive.beforeFile":
		c.occ = int64(1 + (spec.Idx+rep)%6)
		if !registered {
			c.occ = int64(1 + (spec.Idx+rep)%3) // gcaPubKey.dat must exist when the 4th file is opened
		}
	case "wt.beforeUpdate":
		c.occ = int64(1 + (spec.Idx+rep)%2)
	}
	c.y = func(*server.GCAServer) {
		res := yf()
		c.yRes.Store(res)
		c.yDoneT.Store(mono())
		close(c.yDone)
	}
	c.armed.Store(true)
	curCell.Store(&hookCell{site: spec.Site, fn: c.hook})
	tres := tf()
	c.waitHook()
	curCell.Store(nil)
	r.Eval(1)
	if c.firedT.Load() == 0 {
		r.Inconc(fmt.Sprintf("delay cell %s: the site was not reached by its trigger (%s)", name, tres))
		return
	}
	select {
	case <-c.yDone:
	case <-time.After(40 * time.Second):
		r.Count("delay.y_never_returned", 1)
		lockProbe(w.S, r, "delay cell "+name, nil)
		w.broken = true
		r.Inconc("delay cell " + name + ": the injected operation did not return within 40 s")
		return
	}
	yres, _ := c.yRes.Load().(string)
	r.Count("delay.cells", 1)
	r.Count("delay.site."+spec.Site, 1)
	r.Count("delay.op."+spec.Op, 1)
	r.Nontrivial(name)
	yEnd := c.yDoneT.Load()
	if spec.Op == "rotate" { // the rotation itself ended long before the rotator was parked again
		var n int
		var t int64
		if _, e := fmt.Sscanf(yres, "rotations=%d@%d", &n, &t); e == nil {
			yEnd = t
			if n != 1 {
				r.Count("delay.rotate_did_not_rotate", 1)
			}
		}
	}
	if yEnd <= c.resumeT.Load() {
		r.Count("delay.overlapped", 1) // Y ran to completion while X stood at the site
	} else {
		r.Count("delay.y_finished_late", 1)
		r.Count("delay.late."+spec.Op, 1)
	}
	if strings.HasPrefix(yres, "err:") || strings.HasPrefix(tres, "err:") {
		r.Count("delay.client_errors", 1)
		r.Note("delay cell %s: trigger=%s y=%s", name, tres, yres)
	}
	r.Sample(map[string]interface{}{"site": spec.Site, "op": spec.Op, "trigger_result": tres, "y_result": yres,
		"y_ran_ns": yEnd - c.firedT.Load(), "x_stood_ns": c.resumeT.Load() - c.firedT.Load()})
	w.quiesce("delay cell "+name, map[string]interface{}{"site": spec.Site, "op": spec.Op, "rep": rep, "seed": seed, "batch": curBatch})
}

func fillUnregisteredArchive(spec dcellSpec) bool {
	return strings.HasPrefix(spec.Site, "stats.") && spec.Idx%2 == 0
}

// runCatchupCell: the site lies inside NewGCAServer (start-up catch-up
// rotations); only the UDP listener exists at that moment.
func runCatchupCell(dir string, spec dcellSpec, rep int, rng *rand.Rand, r *ev.Result) {
	name := spec.Site + "×" + spec.Op
	w, err := newCW(dir, rng, r, worldOpt{registered: true, devices: true})
	if err != nil {
		r.Inconc("delay cell " + name + ": " + err.Error())
		return
	}
	defer w.shutdown()
	// a report that will still be inside the window when the server restarts at now = 4100+
	now2 := uint32(4100 + 50*(rep%5))
	slot := now2 - 300
	w.udp.Close()
	w.udp = nil
	if err := w.Close(); err != nil {
		r.Inconc("delay cell " + name + ": close failed: " + err.Error())
		return
	}
	setClock(now2)
	var b []byte
	if spec.Op == "report" {
		b = w.A.Report(slot, 4242).Bytes()
	} else {
		b = w.B.Report(slot+1, 777).Bytes()
	}
	b2 := w.B.Report(slot+1, 778).Bytes()
	c := &dcell{occ: 1, delay: delaySleep, yDone: make(chan struct{})}
	var port uint16
	// the constructor goroutine itself reads the port it has just written; the HTTP/TCP ports are not assigned yet
	c.pre = func(s *server.GCAServer) { _, _, port = s.Ports() }
	c.y = func(s *server.GCAServer) {
		res := "0"
		conn, err := netDialUDP(port)
		if err != nil {
			res = "err:" + err.Error()
		} else {
			if spec.Op == "equivocate" {
				if e := udpSendOn(conn, b2, 1); e != nil {
					res = "err:" + e.Error()
				}
			}
			if e := udpSendOn(conn, b, 1); e != nil {
				res = "err:" + e.Error()
			}
			conn.Close()
		}
		c.yRes.Store(res)
		c.yDoneT.Store(mono())
		close(c.yDone)
	}
	c.armed.Store(true)
	curCell.Store(&hookCell{site: spec.Site, fn: c.hook})
	err = w.Start()
	c.waitHook()
	curCell.Store(nil)
	if err != nil {
		w.broken = true
		r.Inconc("delay cell " + name + ": restart failed: " + err.Error())
		return
	}
	r.Eval(1)
	if c.firedT.Load() == 0 {
		r.Inconc("delay cell " + name + ": start-up catch-up did not reach the site")
		return
	}
	<-c.yDone
	yres, _ := c.yRes.Load().(string)
	r.Count("delay.cells", 1)
	r.Count("delay.site."+spec.Site, 1)
	r.Count("delay.op."+spec.Op, 1)
	r.Nontrivial(name)
	if c.yDoneT.Load() <= c.resumeT.Load() {
		r.Count("delay.overlapped", 1)
	} else {
		r.Count("delay.y_finished_late", 1)
	}
	if strings.HasPrefix(yres, "err:") {
		r.Count("delay.client_errors", 1)
		r.Note("delay cell %s: y=%s", name, yres)
	}
	w.quiesce("delay cell "+name, map[string]interface{}{"site": spec.Site, "op": spec.Op, "rep": rep, "batch": curBatch})
}

func childDelay(b run.Batch, r *ev.Result) {
	var slice, of, rep int
	fmt.Sscan(b.P("slice"), &slice)
	fmt.Sscan(b.P("of"), &of)
	fmt.Sscan(b.P("rep"), &rep)
	for _, c := range delayCells() {
		if c.Idx%of != slice {
			continue
		}
		runDelayCell(filepath.Join(b.Dir, fmt.Sprintf("d%d", c.Idx)), c, rep, b.Seed*1000+int64(c.Idx), r)
		if r.NumViolations() > 5 || abandoned.Load() {
			return
		}
	}
}
