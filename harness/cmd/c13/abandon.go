//go:build test

package main

// Abandoning clients (part of the directed batch): a caller that gives up on
// a GET request must not change what the handler does with the server's
// locks. For every GET endpoint the handler is held at its .ready site by a
// sleeping hook while the client abandons the request in one of three ways
// (client timeout of 20 ms, context cancelled once the handler has started,
// raw TCP connection closed once the handler has started); the handler then
// runs on against a dead client. Afterwards the usual lock probe and
// invariants. Sound on any correct server: handlers run to completion
// regardless of the client. If a request is abandoned before the server even
// dispatched it, the cell only counts as "not reached".

import (
	"context"
	"fmt"
	"math/rand"
	"net"
	"net/http"
	"path/filepath"
	"sync/atomic"
	"time"

	"github.com/glowlabs-org/gca-backend/server"

	"verifharness/lib/ev"
	"verifharness/lib/run"
)

func abandonCells(b run.Batch, r *ev.Result, rng *rand.Rand) bool {
	w, err := newCW(filepath.Join(b.Dir, "abandon"), rng, r, worldOpt{registered: true, devices: true, archFill: 8})
	if err != nil {
		r.Inconc("abandon: " + err.Error())
		return false
	}
	defer func() { w.shutdown() }()
	off := w.S.VerifSnapshot(false).Offset
	type ep struct{ site, name, path string }
	eps := []ep{
		{"stats.ready", "stats-archived", "/api/v1/all-device-stats?timeslot_offset=0"},
		{"stats.ready", "stats-live", fmt.Sprintf("/api/v1/all-device-stats?timeslot_offset=%d", off)},
		{"stats.ready", "stats-live-false-negatives", fmt.Sprintf("/api/v1/all-device-stats?timeslot_offset=%d&insert_false_negatives=true", off+2016)},
		{"recent.ready", "recent-reports", fmt.Sprintf("/api/v1/recent-reports?publicKey=%x", w.A.Key.Pub[:])},
		{"equipment.ready", "equipment", "/api/v1/equipment"},
		{"as.get.ready", "authorized-servers", "/api/v1/authorized-servers"},
		{"archive.beforeFile", "archive", "/api/v1/archive"},
	}
	url := func(p string) string { return fmt.Sprintf("http://127.0.0.1:%d%s", w.HTTP, p) }
	for _, e := range eps {
		for _, mode := range []string{"timeout", "cancel", "tcpclose"} {
			name := e.name + "/" + mode
			run.Op("abandon %s", name)
			c := &dcell{occ: 1, srv: w.S, delay: 300 * time.Millisecond, yDone: make(chan struct{})}
			c.y = func(*server.GCAServer) {}
			c.armed.Store(true)
			curCell.Store(&hookCell{site: e.site, fn: c.hook})
			started := func() bool { // the handler stands at its .ready site
				for i := 0; i < 2000 && c.firedT.Load() == 0; i++ {
					time.Sleep(time.Millisecond)
				}
				return c.firedT.Load() != 0
			}
			switch mode {
			case "timeout":
				cl := &http.Client{Timeout: 20 * time.Millisecond, Transport: &http.Transport{DisableKeepAlives: true}}
				if resp, err := cl.Get(url(e.path)); err == nil {
					resp.Body.Close()
				}
			case "cancel":
				ctx, cancel := context.WithCancel(context.Background())
				go func() { started(); cancel() }()
				req, _ := http.NewRequestWithContext(ctx, "GET", url(e.path), nil)
				cl := &http.Client{Transport: &http.Transport{DisableKeepAlives: true}}
				if resp, err := cl.Do(req); err == nil {
					resp.Body.Close()
				}
				cancel()
			case "tcpclose":
				cn, err := net.DialTimeout("tcp", fmt.Sprintf("127.0.0.1:%d", w.HTTP), 3*time.Second)
				if err == nil {
					fmt.Fprintf(cn, "GET %s HTTP/1.1\r\nHost: 127.0.0.1\r\n\r\n", e.path)
					started()
					cn.Close()
				}
			}
			c.waitHook()
			curCell.Store(nil)
			r.Eval(1)
			r.Count("abandon.cells", 1)
			if c.firedT.Load() != 0 {
				r.Count("abandon.handler_was_running_when_abandoned", 1)
				r.Nontrivial("abandon:" + name)
			}
			if !w.quiesce("a client abandoned "+name, map[string]interface{}{"endpoint": e.path, "mode": mode}) {
				return false
			}
		}
	}
	return true
}

// abandoningPoller keeps issuing GET requests with 1-20 ms client timeouts
// until stop is set (used while the mutex is busy with rotations and polls).
func abandoningPoller(w *cw, g int, stop *atomic.Bool, n *atomic.Int64, pub [32]byte) {
	paths := []string{"/api/v1/all-device-stats?timeslot_offset=0", "/api/v1/equipment", "/api/v1/authorized-servers",
		fmt.Sprintf("/api/v1/recent-reports?publicKey=%x", pub[:]), "/api/v1/archive", ""}
	for i := 0; !stop.Load(); i++ {
		p := paths[(g+i)%len(paths)]
		if p == "" {
			_, _, off, _ := w.S.VerifSlot(0, 0)
			p = fmt.Sprintf("/api/v1/all-device-stats?timeslot_offset=%d", off)
		}
		cl := &http.Client{Timeout: time.Duration(1+(g*7+i*3)%20) * time.Millisecond, Transport: &http.Transport{DisableKeepAlives: true}}
		if resp, err := cl.Get(fmt.Sprintf("http://127.0.0.1:%d%s", w.HTTP, p)); err == nil {
			resp.Body.Close()
		}
		n.Add(1)
		time.Sleep(2 * time.Millisecond)
	}
}
