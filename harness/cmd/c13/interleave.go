//go:build test

package main

// Monitor 2: targeted interleavings with a state oracle. The interfering
// operation runs synchronously inside the hook, i.e. exactly between two
// critical sections of the triggered handler/job. Afterwards: process alive,
// trigger returned, both mutexes free, CheckInvariants, and the snapshot
// equals the sequential model applied in the order the hook imposed.

import (
	"fmt"
	"math/rand"
	"path/filepath"
	"strings"
	"sync/atomic"

	"github.com/glowlabs-org/gca-backend/server"

	"verifharness/lib/drv"
	"verifharness/lib/ev"
	"verifharness/lib/refenc"
	"verifharness/lib/run"
)

var gapSites = []string{"wt.afterList", "wt.beforeUpdate", "sync.afterCopy", "auth.afterSave", "as.gap1", "as.gap2",
	"stats.afterUnlock", "order.gap", "migrate.beforeLock", "archive.beforeFile", "equipment.afterUnlock", "recent.afterUnlock", "as.get.afterUnlock"}

var gapOps = []string{"banTarget", "authNew", "report", "equivocate", "rotate", "register", "srvBan", "sync"}

type icellSpec struct {
	Site, Op string
	Idx      int
}

func interleaveCells() []icellSpec {
	var out []icellSpec
	for _, s := range gapSites {
		for _, o := range gapOps {
			if s == "migrate.beforeLock" && o == "rotate" {
				continue // single rotator: this interleaving cannot exist
			}
			out = append(out, icellSpec{s, o, len(out)})
		}
	}
	return out
}

func okStatus(code int, err error) (bool, string) {
	if err != nil {
		return false, "err:" + err.Error()
	}
	return code == 200, fmt.Sprint(code)
}

func isErr(s string) bool { return strings.HasPrefix(s, "err:") }

func runInterleaveCell(dir string, spec icellSpec, variant int, seed int64, r *ev.Result) {
	rng := rand.New(rand.NewSource(seed))
	name := spec.Site + "×" + spec.Op
	run.Op("interleave cell %s variant=%d seed=%d", name, variant, seed)
	registered := !(spec.Op == "register" && reachableUnregistered[spec.Site])
	fill := 0
	if registered && spec.Site == "stats.afterUnlock" {
		fill = 250
	} else if registered && variant%2 == 1 {
		fill = 6
	}
	w, err := newCW(dir, rng, r, worldOpt{registered: registered, devices: true, archFill: fill, model: true})
	if err != nil {
		r.Inconc("interleave cell " + name + ": " + err.Error())
		return
	}
	defer w.shutdown()
	replay := map[string]interface{}{"site": spec.Site, "op": spec.Op, "variant": variant, "seed": seed, "batch": curBatch}
	var aborted atomic.Bool
	mismatch := func(what, got string, want bool) {
		if isErr(got) { // transport level failure (CPU starvation): the outcome is unknown, the cell is not judged
			r.Inconc(fmt.Sprintf("interleave cell %s: %s failed at transport level: %s", name, what, got))
			aborted.Store(true)
			return
		}
		replay["model_log"] = w.M.Log
		r.Violationf("result-differs-from-sequential-model", replay, "%s at %s: the server answered %s, the sequential model says success=%v", what, spec.Site, got, want)
	}

	// ---- trigger and its own modelled effect
	var trig func() string
	var effect func()
	effectBefore := false
	occ := int64(1)
	banDev := w.A
	var banAuth *refenc.Auth
	banSrv := w.S0
	switch spec.Site {
	case "wt.afterList", "wt.beforeUpdate":
		if spec.Op == "rotate" {
			// the rotator is gated, so the clock may already stand past the rotation trigger when the round
			// fetches its datapoints: the injected rotation then separates "fetch/list" from "store"
			setClock(w.S.VerifSnapshot(false).Offset + 3201)
		}
		trig = func() string {
			if !drv.StepImpact() {
				return "err:impact job did not come round (driver watchdog)"
			}
			return "0"
		}
		if spec.Site == "wt.beforeUpdate" {
			occ = int64(1 + variant%2)
		}
	case "sync.afterCopy":
		trig = w.prep("sync")
	case "auth.afterSave":
		a := w.mkNewAuth()
		banAuth = &a
		effectBefore = true
		effect = func() { w.M.Authorize(a) }
		trig = func() string { _, s := okStatus(first2(w.Authorize(a))); return s }
	case "as.gap1", "as.gap2":
		s := w.mkServer(false)
		banSrv = s
		effectBefore = true
		effect = func() { w.M.PostServer(s) }
		trig = func() string { _, st := okStatus(first2(w.PostServer(s))); return st }
	case "stats.afterUnlock":
		if fill >= 100 {
			trig = w.prep("statsArch")
		} else {
			trig = w.prep("statsLive")
		}
	case "order.gap":
		o := w.mkOrder(w.A.Key.Pub)
		effect = func() { w.M.Order(o) }
		trig = func() string { _, st := okStatus(first2(w.PostMigration(o))); return st }
	case "migrate.beforeLock":
		off := w.S.VerifSnapshot(false).Offset
		effect = func() { w.M.Rotate() }
		trig = func() string {
			setClock(off + 3201)
			return fmt.Sprintf("rotations=%d", drv.StepRotation())
		}
	case "equipment.afterUnlock":
		trig = w.prep("equipment")
	case "recent.afterUnlock":
		trig = w.prep("recent")
	case "as.get.afterUnlock":
		trig = w.prep("asGet")
	case "archive.beforeFile":
		trig = w.prep("archive")
		occ = int64(1 + (spec.Idx+variant)%6)
		if !registered {
			occ = int64(1 + (spec.Idx+variant)%3)
		}
	}

	// ---- the interfering operation, run inside the hook
	viaSocket := variant%2 == 1
	deliver := func(b []byte) {
		now := w.now()
		if viaSocket {
			if err := udpSendOn(w.udp, b, 1); err != nil { // datagram lost on loopback / listener starved: the cell is not judged
				r.Inconc("interleave cell " + name + ": " + err.Error())
				aborted.Store(true)
			}
		} else {
			w.Inject(b)
		}
		w.M.Report(b, now)
	}
	opDesc := ""
	op := func() {
		switch spec.Op {
		case "banTarget":
			var a refenc.Auth
			if banAuth != nil {
				a = *banAuth
			} else if banDev != nil {
				a = banDev.Auth
			} else {
				a = w.mkNewAuth()
			}
			a.Debt += 3
			a = a.Signed(w.GCA.Priv)
			opDesc = fmt.Sprintf("conflicting authorization for device %d", a.ID)
			ok, st := okStatus(first2(w.Authorize(a)))
			if want := w.M.Authorize(a); want != ok || isErr(st) {
				mismatch(opDesc, st, want)
			}
		case "authNew":
			a := w.mkNewAuth()
			opDesc = fmt.Sprintf("authorize new device %d", a.ID)
			ok, st := okStatus(first2(w.Authorize(a)))
			if want := w.M.Authorize(a); want != ok || isErr(st) {
				mismatch(opDesc, st, want)
			}
		case "report":
			d := w.B
			if variant%3 == 0 || w.B == nil {
				d = w.A
			}
			if d == nil {
				d = &drv.Dev{ID: 7, Key: refenc.GenKey(rng)}
			}
			b := d.Report(w.now()-30-uint32(rng.Intn(100)), uint64(3000+rng.Intn(1000))).Bytes()
			opDesc = "acceptable report"
			deliver(b)
		case "equivocate":
			d := w.A
			if d == nil {
				d = &drv.Dev{ID: 7, Key: refenc.GenKey(rng)}
			}
			s := w.now() - 140 - uint32(rng.Intn(50))
			p := uint64(3000 + rng.Intn(1000))
			opDesc = "two different reports for one slot"
			deliver(d.Report(s, p).Bytes())
			deliver(d.Report(s, p+1).Bytes())
		case "rotate":
			off := w.S.VerifSnapshot(false).Offset
			setClock(off + 3201)
			opDesc = "rotation"
			if n := drv.StepRotation(); n != 1 { // -1: wall-clock watchdog of the driver; 0: harness expectation broken
				r.Inconc(fmt.Sprintf("interleave cell %s: injected rotation did not rotate (%d)", name, n))
				aborted.Store(true)
				return
			}
			w.M.Rotate()
		case "register":
			var reg refenc.Registration
			if registered {
				reg = refenc.Registration{GCAKey: refenc.GenKey(rng).Pub}
				reg.Sig = refenc.Sign(w.Temp.Priv, reg.SigningBytes())
				opDesc = "second GCA registration (validly signed)"
			} else {
				reg = w.mkRegistration()
				opDesc = "GCA registration"
			}
			ok, st := okStatus(first2(w.Post("/api/v1/register-gca", reg.JSON())))
			if want := w.M.Register(reg); want != ok || isErr(st) {
				mismatch(opDesc, st, want)
			}
		case "sync": // a read-only request: no effect in the model, whatever it interleaves with
			id := uint32(7)
			if w.A != nil {
				id = w.A.ID
			}
			opDesc = fmt.Sprintf("sync request for device %d", id)
			if _, _, err := w.Sync(id); err != nil && registered {
				mismatch(opDesc, "err:"+err.Error(), true)
			}
		case "srvBan":
			var s refenc.AuthServer
			if registered {
				s = banSrv
			} else {
				s = w.mkServer(false)
			}
			s.Banned = true
			s = s.Signed(w.GCA.Priv)
			opDesc = "server ban"
			ok, st := okStatus(first2(w.PostServer(s)))
			if want := w.M.PostServer(s); want != ok || isErr(st) {
				mismatch(opDesc, st, want)
			}
		}
	}

	var fired atomic.Int64
	var seen atomic.Int64
	srv := w.S
	cell := &hookCell{site: spec.Site, fn: func(s *server.GCAServer) {
		if s != srv || fired.Load() != 0 {
			return
		}
		if seen.Add(1) != occ {
			return
		}
		fired.Store(1)
		if effect != nil && effectBefore {
			effect()
		}
		run.Op("  inside %s: %s", spec.Site, spec.Op)
		op()
	}}
	curCell.Store(cell)
	tres := trig()
	curCell.Store(nil)
	r.Eval(1)
	if fired.Load() == 0 {
		r.Inconc(fmt.Sprintf("interleave cell %s: the site was not reached by its trigger (%s)", name, tres))
		return
	}
	if aborted.Load() {
		return
	}
	if effect != nil && !effectBefore {
		var nrot int
		if spec.Site == "migrate.beforeLock" {
			fmt.Sscanf(tres, "rotations=%d", &nrot)
		}
		if nrot >= 2 {
			// exactly one rotation was due (now-offset = 3201) and the rotator ran one iteration; the
			// injected operation (never "rotate" at this site) does not rotate in any sequential order
			replay["injected"] = opDesc
			r.Violationf("window-rotated-more-than-once-for-one-due-rotation", replay,
				"one rotation was due and the rotation job ran one iteration with %s injected before its critical section: the window was rotated %d times", opDesc, nrot)
			return
		}
		if spec.Site == "migrate.beforeLock" && !strings.HasSuffix(tres, "=1") {
			r.Inconc(fmt.Sprintf("interleave cell %s: triggering rotation did not rotate (%s)", name, tres))
			return
		}
		effect()
	}
	if isErr(tres) {
		// the triggering request failed at transport level: whether its own effect happened is unknown
		r.Count("interleave.trigger_errors", 1)
		r.Inconc(fmt.Sprintf("interleave cell %s: trigger failed at transport level: %s", name, tres))
		return
	}
	r.Count("interleave.cells", 1)
	r.Count("interleave.site."+spec.Site, 1)
	r.Count("interleave.op."+spec.Op, 1)
	r.Nontrivial("i:" + name)
	replay["injected"] = opDesc
	if !w.quiesce("interleave cell "+name, replay) {
		return
	}
	snap := w.S.VerifSnapshot(true)
	if strings.HasPrefix(spec.Site, "wt.") && !clockBack.Load() {
		// position of the released round's datapoints: every device that was listed and is still authorized
		// holds a value at now-offset(final), whether its update ran before the injected operation (a
		// rotation moves it there) or after it. Devices whose fake value may be <= 0 are left out.
		idx := int64(clockHigh.Load()) - int64(snap.Offset)
		for _, d := range []*drv.Dev{w.A, w.B} {
			if d == nil || idx < 0 || idx >= 4032 {
				continue
			}
			if _, listed := snap.Equipment[d.ID]; !listed || d.Auth.Lat+d.Auth.Long+200 <= 0 || snap.Impact[d.ID] == nil {
				continue
			}
			r.Count("interleave.impact_slot_checks", 1)
			if snap.Impact[d.ID][idx] == 0 {
				replay["model_log"] = w.M.Log
				r.Violationf("impact-value-missing-at-its-timeslot", replay,
					"after %s injected at %s the impact round left device %d without a value at index %d (timeslot %d, window offset %d): every sequential order stores the round's datapoint there",
					opDesc, spec.Site, d.ID, idx, clockHigh.Load(), snap.Offset)
			}
		}
	}
	if diffs := w.M.Compare(snap); len(diffs) > 0 {
		replay["model_log"] = w.M.Log
		replay["differences"] = diffs
		r.Violationf("final-state-differs-from-sequential-model", replay,
			"after %s injected at %s the server's state differs from the sequential model applied in the imposed order: %v", opDesc, spec.Site, diffs)
	} else {
		r.Count("interleave.state_equal_model", 1)
	}
	apiAgreesWithState(w, snap, "interleave cell "+name, replay)
	r.Sample(map[string]interface{}{"site": spec.Site, "op": spec.Op, "injected": opDesc, "trigger_result": tres})
}

func first2(code int, _ []byte, err error) (int, error) { return code, err }

func childInterleave(b run.Batch, r *ev.Result) {
	var slice, of, variant int
	fmt.Sscan(b.P("slice"), &slice)
	fmt.Sscan(b.P("of"), &of)
	fmt.Sscan(b.P("variant"), &variant)
	for _, c := range interleaveCells() {
		if c.Idx%of != slice {
			continue
		}
		runInterleaveCell(filepath.Join(b.Dir, fmt.Sprintf("i%d", c.Idx)), c, variant, b.Seed*1000+int64(c.Idx), r)
		if r.NumViolations() > 5 || abandoned.Load() {
			return
		}
	}
}
