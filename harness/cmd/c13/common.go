//go:build test

package main

import (
	"bytes"
	"encoding/binary"
	"fmt"
	"io"
	"math"
	"math/rand"
	"net"
	"net/http"
	"os"
	"sort"
	"sync/atomic"
	"time"

	"github.com/glowlabs-org/gca-backend/server"

	"verifharness/lib/drv"
	"verifharness/lib/ev"
	"verifharness/lib/refenc"
	"verifharness/lib/run"
)

// One monotonic clock for every recorded interval.
var t0 = time.Now()

func mono() int64 { return int64(time.Since(t0)) }

const deadPort = 1 // nothing listens on 127.0.0.1:1 -> the server's peer fan-out fails at once

// ---------------------------------------------------------------- hook dispatch
//
// The hooks are process global and cannot be removed one by one (clearing
// all of them would also remove the driver's gates), so every site gets one
// dispatcher for the life of the child; the active cell is an atomic pointer.
// Loading it is an acquire only: a goroutine that merely passes a site never
// publishes anything through the dispatcher.

var allSites = []string{"udp.ready", "udp.done", "migrate.catchup", "migrate.beforeLock", "wt.afterList", "wt.beforeUpdate",
	"sync.ready", "sync.afterCopy", "auth.ready", "auth.afterSave", "as.get.ready", "as.post.ready", "as.gap1", "as.gap2",
	"stats.ready", "stats.afterUnlock", "equipment.ready", "order.ready", "order.gap", "register.ready", "recent.ready", "archive.beforeFile",
	"equipment.afterUnlock", "recent.afterUnlock", "as.get.afterUnlock"}

type hookCell struct {
	site string
	fn   func(s *server.GCAServer)
}

var (
	curCell     atomic.Pointer[hookCell]
	jobTrace    atomic.Bool
	rotStamp    [64]atomic.Int64 // instants at which the rotator stood before its critical section
	rotN        atomic.Int64
	impStart    [4096]atomic.Int64 // impact rounds: list copied ... last per-device update about to lock
	impEnd      [4096]atomic.Int64
	impN        atomic.Int64
	hooksOnce   atomic.Bool
	siteIndexOf = map[string]int{}
)

func installHooks() {
	if hooksOnce.Swap(true) {
		return
	}
	drv.InstallGates()
	for i, name := range allSites {
		siteIndexOf[name] = i
	}
	for _, name := range allSites {
		name := name
		server.VerifSetHook(name, func(s *server.GCAServer) {
			if jobTrace.Load() {
				switch name {
				case "migrate.beforeLock":
					n := rotN.Add(1) - 1
					if int(n) < len(rotStamp) {
						rotStamp[n].Store(mono())
					}
				case "wt.afterList":
					n := impN.Add(1) - 1
					if int(n) < len(impStart) {
						impStart[n].Store(mono())
						impEnd[n].Store(mono())
					}
				case "wt.beforeUpdate":
					n := impN.Load() - 1
					if n >= 0 && int(n) < len(impEnd) {
						impEnd[n].Store(mono())
					}
				}
			}
			c := curCell.Load()
			if c == nil || c.site != name {
				return
			}
			c.fn(s)
		})
	}
}

// ---------------------------------------------------------------- world

type worldOpt struct {
	registered bool
	devices    bool
	archFill   int  // > 0: fill that many slots of week 0 and archive it with a real rotation
	model      bool // track the sequential model
}

type cw struct {
	*drv.World
	r       *ev.Result
	rng     *rand.Rand
	A, B    *drv.Dev
	S0      refenc.AuthServer
	hasS0   bool
	M       *model
	nextID  uint32
	udp     net.Conn
	eqSlot  uint32 // slot of A holding exactly one report (target for equivocation)
	eqPower uint64
	slotCur uint32 // next unused slot of A
	broken  bool   // do not Close through CheckInvariants again
}

func (w *cw) now() uint32 { return drv.Clock() }

// POST requests go through a client without keep-alive: the server closes
// idle connections after 2.5 s (its ReadTimeout), and a POST that meets such
// a connection is not retried by net/http - the outcome of the request would
// then be unknown to the oracle.
var noKeepAlive = &http.Client{Timeout: 20 * time.Second, Transport: &http.Transport{DisableKeepAlives: true}}

func (w *cw) Post(path string, body []byte) (int, []byte, error) {
	resp, err := noKeepAlive.Post(fmt.Sprintf("http://127.0.0.1:%d%s", w.HTTP, path), "application/json", bytes.NewReader(body))
	if err != nil {
		return 0, nil, err
	}
	defer resp.Body.Close()
	b, err := io.ReadAll(resp.Body)
	return resp.StatusCode, b, err
}

func (w *cw) Authorize(a refenc.Auth) (int, []byte, error) {
	return w.Post("/api/v1/authorize-equipment", a.JSON())
}
func (w *cw) PostServer(s refenc.AuthServer) (int, []byte, error) {
	return w.Post("/api/v1/authorized-servers", s.JSON())
}
func (w *cw) PostMigration(m refenc.Migration) (int, []byte, error) {
	return w.Post("/api/v1/equipment-migrate", m.JSON())
}

func (w *cw) freshSlot() uint32 {
	w.slotCur++
	return w.slotCur
}

// newCW starts a fresh server with gated jobs. now = 500, window offset 0;
// with archFill the world ends at now = 3201, offset 2016, week 0 archived.
func newCW(dir string, rng *rand.Rand, r *ev.Result, o worldOpt) (*cw, error) {
	// Under CPU starvation the test-mode server drops connections after its
	// 2.5 s read deadline; a set-up request lost that way says nothing about
	// the property: start over on a fresh directory.
	var w *cw
	var err error
	if abandoned.Load() {
		return nil, fmt.Errorf("an earlier server of this process could not be closed; no further servers are started in it")
	}
	for attempt := 0; attempt < 3; attempt++ {
		w, err = newCWOnce(fmt.Sprintf("%s-%d", dir, attempt), rng, r, o)
		if err == nil {
			return w, nil
		}
		r.Count("setup_retries", 1)
	}
	return nil, err
}

func newCWOnce(dir string, rng *rand.Rand, r *ev.Result, o worldOpt) (*cw, error) {
	installHooks()
	resetClock(500)
	drv.GateRotation(true)
	drv.GateImpact(true)
	w := &cw{r: r, rng: rng, nextID: 1000}
	if o.registered {
		dw, err := drv.NewWorld(dir, rng)
		if err != nil {
			return nil, err
		}
		w.World = dw
	} else {
		e, err := drv.NewServerDir(dir, rng, true)
		if err != nil {
			return nil, err
		}
		if err := e.Start(); err != nil {
			return nil, err
		}
		w.World = &drv.World{Srv: e, GCA: refenc.GenKey(rng), Devs: map[uint32]*drv.Dev{}, Rng: rng}
	}
	if o.model {
		w.M = newModel(w.Temp.Pub)
		if o.registered {
			reg := refenc.Registration{GCAKey: w.GCA.Pub}
			reg.Sig = refenc.Sign(w.Temp.Priv, reg.SigningBytes())
			w.M.Register(reg)
		}
	}
	c, err := net.Dial("udp", fmt.Sprintf("127.0.0.1:%d", w.UDP))
	if err != nil {
		w.Close()
		return nil, err
	}
	w.udp = c
	if !o.registered || !o.devices {
		return w, nil
	}
	fail := func(err error) (*cw, error) { w.shutdown(); return nil, err }
	// one listed peer server (unreachable on purpose)
	w.S0 = w.mkServer(false)
	if st, _, err := w.PostServer(w.S0); err != nil || st != 200 {
		return fail(fmt.Errorf("setup: posting peer server: status %d err %v", st, err))
	}
	w.hasS0 = true
	if w.M != nil {
		w.M.PostServer(w.S0)
	}
	capa := uint64(1000000 + rng.Intn(1000000))
	if w.A, err = w.AddDevice(10+uint32(rng.Intn(50)), capa); err != nil {
		return fail(err)
	}
	if w.B, err = w.AddDevice(100+uint32(rng.Intn(50)), capa); err != nil {
		return fail(err)
	}
	if w.M != nil {
		w.M.Authorize(w.A.Auth)
		w.M.Authorize(w.B.Auth)
	}
	if o.archFill > 0 {
		for i := 0; i < o.archFill; i++ {
			d := w.A
			if i%5 == 4 {
				d = w.B
			}
			w.inject(d.Report(uint32(100+i), uint64(100+rng.Intn(5000))).Bytes())
		}
		setClock(3201)
		if n := drv.StepRotation(); n != 1 {
			return fail(fmt.Errorf("setup: rotation did not happen at now-offset=3201 (%d)", n))
		}
		if w.M != nil {
			w.M.Rotate()
		}
	}
	w.slotCur = w.now() - 200
	for i := 0; i < 4; i++ {
		p := uint64(2000 + rng.Intn(3000))
		s := w.freshSlot()
		w.inject(w.A.Report(s, p).Bytes())
		w.eqSlot, w.eqPower = s, p
	}
	w.inject(w.B.Report(w.now()-7, uint64(2000+rng.Intn(3000))).Bytes())
	return w, nil
}

func (w *cw) inject(b []byte) {
	w.Inject(b)
	if w.M != nil {
		w.M.Report(b, w.now())
	}
}

func (w *cw) mkServer(banned bool) refenc.AuthServer {
	k := refenc.GenKey(w.rng)
	return refenc.AuthServer{Pub: k.Pub, Banned: banned, Location: "127.0.0.1", HTTP: deadPort, TCP: deadPort, UDP: deadPort}.Signed(w.GCA.Priv)
}

func (w *cw) mkNewAuth() refenc.Auth {
	w.nextID++
	k := refenc.GenKey(w.rng)
	return w.MkAuth(w.nextID, k.Pub, uint64(500000+w.rng.Intn(500000)))
}

func (w *cw) mkOrder(equip [32]byte) refenc.Migration {
	ng := refenc.GenKey(w.rng)
	sk := refenc.GenKey(w.rng)
	ns := refenc.AuthServer{Pub: sk.Pub, Location: "127.0.0.1", HTTP: deadPort, TCP: deadPort, UDP: deadPort}.Signed(ng.Priv)
	return refenc.Migration{Equipment: equip, NewGCA: ng.Pub, NewID: uint32(w.rng.Intn(1 << 20)), Servers: []refenc.AuthServer{ns}}.Signed(w.GCA.Priv)
}

func (w *cw) mkRegistration() refenc.Registration {
	reg := refenc.Registration{GCAKey: w.GCA.Pub}
	reg.Sig = refenc.Sign(w.Temp.Priv, reg.SigningBytes())
	return reg
}

// udpSend writes one datagram to the real socket and waits until the
// listener has finished `expect` more datagrams (logical completion).
func udpSendOn(c net.Conn, b []byte, expect uint64) error {
	before := server.VerifUDPHandled()
	if _, err := c.Write(b); err != nil {
		return err
	}
	dl := time.Now().Add(5 * time.Second)
	for server.VerifUDPHandled() < before+expect {
		if time.Now().After(dl) {
			return fmt.Errorf("datagram not processed within 5 s")
		}
		time.Sleep(100 * time.Microsecond)
	}
	return nil
}

// abandoned: a server of this process could not be closed (leaked lock, broken
// invariant - Close would hang or panic). It keeps running until the process
// exits, so the child must not start further servers (the process-global
// clock and gates would drive the abandoned one as well).
var abandoned atomic.Bool

// curBatch is put into every replay so that `./check C13 --replay <file>` re-runs the batch.
var curBatch run.Batch

func (w *cw) shutdown() {
	if w.udp != nil {
		w.udp.Close()
	}
	if w.broken {
		abandoned.Store(true)
		return // its directory stays until the parent removes the batch directory
	}
	w.Close()
	os.RemoveAll(w.Dir)
}

// ---------------------------------------------------------------- clock and the impact-position oracle
//
// The value the impact job stores is wall-clock derived in test builds and is
// never predicted; its POSITION is: in every sequential order the job writes
// the datapoint of timeslot T (T <= the highest clock value so far) at index
// T-offset of the window as it is at that moment, and a rotation moves stored
// values DOWN by 2016. So, as long as the clock of a world never moved
// backwards, no impact index above clockHigh-offset(final) may be non-zero.

var (
	clockHigh atomic.Uint32
	clockBack atomic.Bool
)

func resetClock(v uint32) { // a new world (fresh server, fresh impact arrays)
	clockHigh.Store(v)
	clockBack.Store(false)
	drv.SetClock(v)
}

func setClock(v uint32) {
	for {
		h := clockHigh.Load()
		if v < h {
			clockBack.Store(true)
			break
		}
		if clockHigh.CompareAndSwap(h, v) {
			break
		}
	}
	drv.SetClock(v)
}

// impactInFuture lists impact values stored for timeslots after the highest clock value.
func impactInFuture(s *server.VerifSnap) []string {
	var out []string
	lim := int64(clockHigh.Load()) - int64(s.Offset) // highest index a sequential run can have written
	for id, arr := range s.Impact {
		if arr == nil {
			continue
		}
		for i := int64(4031); i > lim && i >= 0; i-- {
			if math.Float64bits(arr[i]) != 0 {
				out = append(out, fmt.Sprintf("device %d: impact[%d]=%v, i.e. timeslot %d, while the clock never exceeded %d (window offset %d)", id, i, arr[i], int64(s.Offset)+i, clockHigh.Load(), s.Offset))
				break
			}
		}
	}
	sort.Strings(out)
	return out
}

// checkImpactPositions applies the oracle to the server's current state.
func checkImpactPositions(s *server.GCAServer, r *ev.Result, ctx string, replay interface{}) bool {
	if clockBack.Load() {
		return true // the clock was moved backwards in this world (path tour): the bound does not apply
	}
	r.Count("impact_position_checks", 1)
	if bad := impactInFuture(s.VerifSnapshot(true)); len(bad) > 0 {
		r.Violationf("impact-value-at-future-timeslot", map[string]interface{}{"after": ctx, "detail": replay, "found": bad, "batch": curBatch},
			"after %s the impact array holds a value for a timeslot that had not begun (no sequential order of impact rounds and rotations stores one there): %v", ctx, bad)
		return false
	}
	return true
}

// ---------------------------------------------------------------- probes

// lockProbe: both mutexes must be obtainable at quiescence. A transiently
// held lock (a job iteration, a straggling handler) is legal, so the probe
// retries across many job periods; only a lock that is never obtainable
// counts. Returns false (and records the violation) on a leak.
func lockProbe(s *server.GCAServer, r *ev.Result, ctx string, replay interface{}) bool {
	if os.Getenv("VERIF_C13_DEBUG") == "noprobe" { // only for validating the goroutine-dump classification
		return true
	}
	mainSeen, srvSeen := false, false
	tries := 0
	for i := 0; i < 600; i++ {
		tries++
		mf, sf := s.VerifTryLock()
		mainSeen = mainSeen || mf
		srvSeen = srvSeen || sf
		if mainSeen && srvSeen {
			break
		}
		time.Sleep(25 * time.Millisecond) // 600 tries span 750 impact periods / 150 rotation periods (only a failing probe takes that long)
	}
	r.Count("lockprobe.runs", 1)
	r.Max("max.lockprobe_tries", int64(tries))
	if mainSeen && srvSeen {
		return true
	}
	which := "main-mutex"
	if mainSeen {
		which = "server-list-mutex"
	}
	r.Violationf("leaked-lock:"+which, map[string]interface{}{"after": ctx, "detail": replay, "batch": curBatch},
		"%s could not be obtained in %d attempts over 15 s after %s: a path returned without unlocking, or its holder is blocked for good", which, tries, ctx)
	return false
}

func safeInvariants(s *server.GCAServer) (msg string) {
	defer func() {
		if e := recover(); e != nil {
			msg = fmt.Sprint(e)
		}
	}()
	s.CheckInvariants()
	return ""
}

// quiesce checks liveness/lock release/invariants of a world at rest.
func (w *cw) quiesce(ctx string, replay interface{}) bool {
	run.Op("probe locks+invariants after %s", ctx)
	if !lockProbe(w.S, w.r, ctx, replay) {
		w.broken = true
		return false
	}
	if msg := safeInvariants(w.S); msg != "" {
		w.broken = true
		w.r.Violationf("invariant-broken", map[string]interface{}{"after": ctx, "detail": replay, "batch": curBatch}, "CheckInvariants failed after %s: %s", ctx, msg)
		return false
	}
	w.r.Count("invariant_checks", 1)
	return checkImpactPositions(w.S, w.r, ctx, replay)
}

func le32(v uint32) []byte {
	var b [4]byte
	binary.LittleEndian.PutUint32(b[:], v)
	return b[:]
}


// apiAgreesWithState compares what the GET endpoints answer at rest with the
// state the server holds (snapshot taken under the server's own locks): an
// answer computed from anything but the current state - e.g. a copy taken by
// an earlier request - is observable here and nowhere in the snapshot.
func apiAgreesWithState(w *cw, snap *server.VerifSnap, ctx string, replay map[string]interface{}) {
	r := w.r
	code, eq, err := w.Equipment()
	if err != nil || code != 200 {
		r.Count("api_vs_state.transport_errors", 1)
		return
	}
	var diffs []string
	for id, a := range snap.Equipment {
		g, ok := eq[id]
		switch {
		case !ok:
			diffs = append(diffs, fmt.Sprintf("device %d is authorized but GET /equipment does not list it", id))
		case g.Pub != [32]byte(a.PublicKey) || g.Debt != a.Debt || g.Capacity != a.Capacity || g.Expiration != a.Expiration:
			diffs = append(diffs, fmt.Sprintf("device %d: GET /equipment shows another authorization than the server holds", id))
		}
	}
	for id := range eq {
		if _, ok := snap.Equipment[id]; !ok {
			diffs = append(diffs, fmt.Sprintf("GET /equipment lists device %d which the server does not hold (banned or never authorized)", id))
		}
	}
	code, srvs, err := w.AuthorizedServers()
	if err != nil || code != 200 {
		r.Count("api_vs_state.transport_errors", 1)
		return
	}
	have := map[[32]byte]bool{}
	for _, s := range srvs {
		have[s.Pub] = s.Banned
	}
	if len(srvs) != len(snap.Servers) {
		diffs = append(diffs, fmt.Sprintf("GET /authorized-servers lists %d servers, the server holds %d", len(srvs), len(snap.Servers)))
	}
	for _, s := range snap.Servers {
		if b, ok := have[[32]byte(s.PublicKey)]; !ok || b != s.Banned {
			diffs = append(diffs, fmt.Sprintf("server %x: GET /authorized-servers listed=%v banned=%v, the server holds banned=%v", s.PublicKey[:4], ok, b, s.Banned))
		}
	}
	r.Count("api_vs_state.checks", 1)
	if len(diffs) > 0 {
		sort.Strings(diffs)
		replay["differences"] = diffs
		r.Violationf("api-answer-differs-from-state-at-rest", replay, "after %s the GET endpoints do not show the state the server holds: %v", ctx, diffs)
	}
}
