//go:build test

package main

// Shutdown with a request in flight (part of the directed batch): for each
// handler family a fresh server (registered GCA, one device that has not
// reported since start-up) gets one request; when its handler stands at its
// first site, before its critical section, Close() is started in another
// goroutine and given time to get going, then the handler continues. Every
// sequential order - request then shutdown, shutdown then request - ends; so
// must this one. Decided by state, not by the clock: if Close() has not
// returned after a long grace period AND the server mutex cannot be obtained
// over 15 s, a goroutine is blocked for good while holding it.

import (
	"fmt"
	"math/rand"
	"path/filepath"
	"sync/atomic"
	"time"

	"github.com/glowlabs-org/gca-backend/server"

	"verifharness/lib/ev"
	"verifharness/lib/run"
)

func closeInFlight(b run.Batch, r *ev.Result, rng *rand.Rand) bool {
	cases := []struct{ site, op string }{
		{"udp.ready", "report"}, {"sync.ready", "sync"}, {"auth.ready", "authNew"}, {"stats.ready", "statsLive"},
		{"equipment.afterUnlock", "equipment"}, {"recent.ready", "recent"}, {"as.post.ready", "srvAuth"}, {"udp.done", "report"},
	}
	for i, c := range cases {
		name := c.site + "×close"
		run.Op("close in flight: %s", name)
		w, err := newCW(filepath.Join(b.Dir, fmt.Sprintf("cif%d", i)), rng, r, worldOpt{registered: true})
		if err != nil {
			r.Inconc("close in flight: " + err.Error())
			return false
		}
		if w.A, err = w.AddDevice(10+uint32(rng.Intn(50)), 1<<30); err != nil {
			w.shutdown()
			r.Inconc("close in flight: " + err.Error())
			return false
		}
		srv := w.S
		closeDone := make(chan error, 1)
		var fired atomic.Bool
		curCell.Store(&hookCell{site: c.site, fn: func(s *server.GCAServer) {
			if s != srv || fired.Swap(true) {
				return
			}
			go func() { closeDone <- w.World.Srv.Close() }()
			time.Sleep(time.Duration(150+50*(i%3)) * time.Millisecond) // reach only: lets Close() get to the point where it waits for this handler
		}})
		var trig func() string
		if c.op == "report" {
			raw := w.A.Report(w.now()-5, uint64(1000+rng.Intn(1000))).Bytes()
			trig = func() string { w.udp.Write(raw); return "0" }
		} else {
			trig = w.prep(c.op)
		}
		go trig() // may legitimately fail: the server is going down
		for k := 0; k < 1000 && !fired.Load(); k++ {
			time.Sleep(5 * time.Millisecond)
		}
		if !fired.Load() {
			curCell.Store(nil)
			w.shutdown()
			r.Inconc("close in flight: site " + c.site + " was not reached by its trigger")
			return false
		}
		r.Eval(1)
		select {
		case <-closeDone:
			curCell.Store(nil)
			r.Count("closeinflight.closed", 1)
			r.Count("closeinflight.site."+c.site, 1)
			r.Nontrivial("cif:" + name)
			w.shutdown()
		case <-time.After(40 * time.Second):
			curCell.Store(nil)
			w.broken = true
			replay := map[string]interface{}{"site": c.site, "request": c.op, "batch": curBatch}
			if lockProbe(srv, r, "Close() started while the handler of a "+c.op+" request stood at "+c.site+" (Close has not returned after 40 s)", replay) {
				r.Inconc("close in flight: Close() did not return within 40 s at " + c.site + " although both mutexes are free")
			}
			w.shutdown()
			return false
		}
	}
	return true
}
