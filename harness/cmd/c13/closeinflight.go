//go:build test

package main

// Shutdown with a request in flight (part of the directed batch): for each
// handler family a fresh server (registered GCA, one device that has not
// reported since start-up) gets one request; when its handler stands at its
// first site, before its critical section, Close() is started in another
// goroutine and given time to get going, then the handler continues. Every
// sequential order - request then shutdown, shutdown then request - ends; so
// must this one. Decided by state, not by the clock: if Close() has not
// returned after a long grace period AND the server mutex cannot be obtained
// over 15 s, a goroutine is blocked for good while holding it.

import (
	"fmt"
	"math/rand"
	"path/filepath"
	"sync/atomic"
	"time"

	"github.com/glowlabs-org/gca-backend/server"

	"verifharness/lib/ev"
	"verifharness/lib/run"
)

func closeInFlight(b run.Batch, r *ev.Result, rng *rand.Rand) bool {
	cases := []struct{ site, op string }{
		{"udp.ready", "report"}, {"sync.ready", "sync"}, {"auth.ready", "authNew"}, {"stats.ready", "statsLive"},
		{"equipment.afterUnlock", "equipment"}, {"recent.ready", "recent"}, {"as.post.ready", "srvAuth"}, {"udp.done", "report"},
	}
	for i, c := range cases {
		name := c.site + "×close"
		run.Op("close in flight: %s", name)
		w, err := newCW(filepath.Join(b.Dir, fmt.Sprintf("cif%d", i)), rng, r, worldOpt{registered: true})
		if err != nil {
			r.Inconc("close in flight: " + err.Error())
			return false
		}
		if w.A, err = w.AddDevice(10+uint32(rng.Intn(50)), 1<<30); err != nil {
			w.shutdown()
			r.Inconc("close in flight: " + err.Error())
			return false
		}
		srv := w.S
		closeDone := make(chan error, 1)
		var fired atomic.Bool
		curCell.Store(&hookCell{site: c.site, fn: func(s *server.GCAServer) {
			if s != srv || fired.Swap(true) {
				return
			}
			go func() { closeDone <- w.World.Srv.Close() }()
			time.Sleep(time.Duration(150+50*(i%3)) * time.Millisecond) // reach only: lets Close() get to the point where it waits for this handler
		}})
		var trig func() string
		slot := w.now() - 5
		if c.op == "report" {
			raw := w.A.Report(slot, uint64(1000+rng.Intn(1000))).Bytes()
			trig = func() string { w.udp.Write(raw); return "0" }
		} else {
			trig = w.prep(c.op)
		}
		go trig() // may legitimately fail: the server is going down
		for k := 0; k < 1000 && !fired.Load(); k++ {
			time.Sleep(5 * time.Millisecond)
		}
		if !fired.Load() {
			curCell.Store(nil)
			w.shutdown()
			r.Inconc("close in flight: site " + c.site + " was not reached by its trigger")
			return false
		}
		r.Eval(1)
		select {
		case <-closeDone:
			curCell.Store(nil)
			r.Count("closeinflight.closed", 1)
			r.Count("closeinflight.site."+c.site, 1)
			r.Nontrivial("cif:" + name)
			if c.op == "report" && !restartsAgree(w, r, name, slot) {
				w.shutdown()
				return false
			}
			w.shutdown()
		case <-time.After(40 * time.Second):
			curCell.Store(nil)
			w.broken = true
			replay := map[string]interface{}{"site": c.site, "request": c.op, "batch": curBatch}
			if lockProbe(srv, r, "Close() started while the handler of a "+c.op+" request stood at "+c.site+" (Close has not returned after 40 s)", replay) {
				r.Inconc("close in flight: Close() did not return within 40 s at " + c.site + " although both mutexes are free")
			}
			w.shutdown()
			return false
		}
	}
	return true
}

// restartsAgree: Close() has returned while a report was in flight. The
// directory is started again at once (the closed instance may still be
// finishing that report if its handler was not waited for), left alone for a
// while - the new instance receives nothing - and restarted once more: what
// the two later instances hold for the report's slot must be the same,
// whether the report made it to disk before Close() returned or not.
func restartsAgree(w *cw, r *ev.Result, name string, slot uint32) bool {
	look := func() (string, bool) {
		rep, _, off, present := w.S.VerifSlot(w.A.ID, int(slot-w.S.VerifSnapshot(false).Offset))
		_ = off
		return fmt.Sprintf("present=%v power=%d", present, rep.PowerOutput), true
	}
	if err := w.World.Srv.Start(); err != nil {
		r.Inconc("close in flight: restart: " + err.Error())
		return false
	}
	time.Sleep(500 * time.Millisecond) // reach only: a handler the closed instance left behind finishes meanwhile
	second, _ := look()
	if err := w.World.Srv.Close(); err != nil {
		r.Inconc("close in flight: second close: " + err.Error())
		return false
	}
	if err := w.World.Srv.Start(); err != nil {
		r.Inconc("close in flight: second restart: " + err.Error())
		return false
	}
	third, _ := look()
	r.Count("closeinflight.restart_pairs_compared", 1)
	if second != third {
		r.Violationf("restart-changed-state-after-close-in-flight", map[string]interface{}{"cell": name, "slot": slot, "batch": curBatch},
			"Close() returned while a report for slot %d was in flight; the instance started next holds %s for that slot and received nothing, the instance started after it holds %s", slot, second, third)
		return false
	}
	return true
}
