//go:build test

package main

// Sequential reference model of the server's observable state, written from
// the property texts (C01, C02, C03, C06, C07, C17) and independent of the
// repository's code: only lib/refenc (reference encodings, go-ethereum
// signatures) is used. The targeted-interleaving monitor applies the
// operations in the order the hook imposed and compares the result with the
// server's snapshot.

import (
	"fmt"
	"math/big"
	"sort"
	"sync"

	"github.com/glowlabs-org/gca-backend/server"

	"verifharness/lib/drv"
	"verifharness/lib/refenc"
)

type mWeek struct {
	Week uint32
	Dev  map[[32]byte]*[2016]uint64
}

type model struct {
	mu         sync.Mutex
	GCA        [32]byte
	GCAAvail   bool
	Temp       [32]byte
	Equip      map[uint32]refenc.Auth
	Index      map[[32]byte]uint32
	Bans       map[uint32]bool
	Slots      map[uint32]map[uint32]refenc.Report // device -> absolute slot -> stored record
	Offset     uint32
	History    []mWeek
	Migrations map[[32]byte]refenc.Migration
	Servers    []refenc.AuthServer
	Log        []string // operations in applied order (replay)
}

func newModel(temp [32]byte) *model {
	return &model{Temp: temp, Equip: map[uint32]refenc.Auth{}, Index: map[[32]byte]uint32{}, Bans: map[uint32]bool{},
		Slots: map[uint32]map[uint32]refenc.Report{}, Migrations: map[[32]byte]refenc.Migration{}}
}

func (m *model) logf(f string, a ...interface{}) { m.Log = append(m.Log, fmt.Sprintf(f, a...)) }

// Register: one-shot, gated by the temporary key.
func (m *model) Register(reg refenc.Registration) bool {
	m.mu.Lock()
	defer m.mu.Unlock()
	m.logf("register %x", reg.GCAKey[:4])
	if m.GCAAvail || !refenc.Verify(m.Temp, reg.SigningBytes(), reg.Sig) {
		return false
	}
	m.GCA, m.GCAAvail = reg.GCAKey, true
	return true
}

// Authorize returns whether the request is answered with success.
func (m *model) Authorize(a refenc.Auth) bool {
	m.mu.Lock()
	defer m.mu.Unlock()
	m.logf("authorize id=%d debt=%d", a.ID, a.Debt)
	if !m.GCAAvail || !refenc.Verify(m.GCA, a.SigningBytes(), a.Sig) {
		return false
	}
	if m.Bans[a.ID] {
		return false
	}
	cur, ex := m.Equip[a.ID]
	if ex && cur == a {
		return true
	}
	if !ex {
		m.Equip[a.ID] = a
		m.Index[a.Pub] = a.ID
		m.Slots[a.ID] = map[uint32]refenc.Report{}
		return true
	}
	delete(m.Index, cur.Pub)
	delete(m.Equip, a.ID)
	delete(m.Slots, a.ID)
	m.Bans[a.ID] = true
	return false
}

func overCap(power, capacity uint64) bool {
	if int64(power) < 0 {
		return false
	}
	l := new(big.Int).Mul(new(big.Int).SetUint64(power), big.NewInt(100))
	r := new(big.Int).Mul(new(big.Int).SetUint64(capacity), big.NewInt(135))
	return l.Cmp(r) > 0
}

// Report applies one datagram processed while the clock showed now.
func (m *model) Report(d []byte, now uint32) {
	m.mu.Lock()
	defer m.mu.Unlock()
	if len(d) != 80 {
		m.logf("report short now=%d", now)
		return
	}
	rep, _ := refenc.ParseReport(d)
	m.logf("report id=%d slot=%d power=%d now=%d", rep.ID, rep.Slot, rep.Power, now)
	au, ex := m.Equip[rep.ID]
	if !ex || !refenc.Verify(au.Pub, rep.SigningBytes(), rep.Sig) {
		return
	}
	dn := int64(rep.Slot) - int64(now)
	if dn < -432 || dn > 432 {
		return
	}
	if int64(rep.Slot) < int64(m.Offset) || int64(rep.Slot) >= int64(m.Offset)+4032 {
		return
	}
	if rep.Power == 0 || rep.Power == 1 {
		return
	}
	prev, has := m.Slots[rep.ID][rep.Slot]
	switch {
	case has && prev.Power == 1:
	case has && prev == rep:
	case !has:
		if overCap(rep.Power, au.Capacity) {
			rep.Power = 1
		}
		m.Slots[rep.ID][rep.Slot] = rep
	default:
		prev.Power = 1
		m.Slots[rep.ID][rep.Slot] = prev
	}
}

// PostServer: new keys are appended; a listed key changes only by a ban.
func (m *model) PostServer(s refenc.AuthServer) bool {
	m.mu.Lock()
	defer m.mu.Unlock()
	m.logf("postserver %x banned=%v", s.Pub[:4], s.Banned)
	if !refenc.Verify(m.GCA, s.SigningBytes(), s.Sig) {
		return false
	}
	for i := range m.Servers {
		if m.Servers[i].Pub == s.Pub {
			if !m.Servers[i].Banned && s.Banned {
				m.Servers[i] = s
			}
			return true
		}
	}
	m.Servers = append(m.Servers, s)
	return true
}

func (m *model) Order(o refenc.Migration) bool {
	m.mu.Lock()
	defer m.mu.Unlock()
	m.logf("order %x", o.Equipment[:4])
	if !refenc.Verify(m.GCA, o.SigningBytes(), o.Sig) {
		return false
	}
	for _, s := range o.Servers {
		if !refenc.Verify(o.NewGCA, s.SigningBytes(), s.Sig) {
			return false
		}
	}
	m.Migrations[o.Equipment] = o
	return true
}

// Rotate archives the first week and shifts the window.
func (m *model) Rotate() {
	m.mu.Lock()
	defer m.mu.Unlock()
	m.logf("rotate offset=%d", m.Offset)
	w := mWeek{Week: m.Offset, Dev: map[[32]byte]*[2016]uint64{}}
	for id, sl := range m.Slots {
		p := new([2016]uint64)
		for s, r := range sl {
			if s >= m.Offset && s < m.Offset+2016 {
				p[s-m.Offset] = r.Power
			}
		}
		w.Dev[m.Equip[id].Pub] = p
		for s := range sl {
			if s < m.Offset+2016 {
				delete(sl, s)
			}
		}
	}
	m.History = append(m.History, w)
	m.Offset += 2016
}

// Compare lists the sections in which the server's snapshot differs from the
// model. Impact values, recent lists and record signatures of the archive are
// not predicted (wall-clock derived / not part of the sequential rules).
func (m *model) Compare(s *server.VerifSnap) []string {
	m.mu.Lock()
	defer m.mu.Unlock()
	var out []string
	add := func(f string, a ...interface{}) {
		if len(out) < 12 {
			out = append(out, fmt.Sprintf(f, a...))
		}
	}
	if s.GCAAvailable != m.GCAAvail || (m.GCAAvail && s.GCAKey != m.GCA) {
		add("gca: server avail=%v key=%x model avail=%v key=%x", s.GCAAvailable, s.GCAKey[:4], m.GCAAvail, m.GCA[:4])
	}
	if s.Offset != m.Offset {
		add("offset: server %d model %d", s.Offset, m.Offset)
	}
	if len(s.Equipment) != len(m.Equip) {
		add("equipment: server has %d entries, model %d", len(s.Equipment), len(m.Equip))
	}
	for id, a := range m.Equip {
		sa, ok := s.Equipment[id]
		if !ok || drv.RefAuth(sa) != a {
			add("equipment[%d] differs (present on server: %v)", id, ok)
		}
	}
	if len(s.ShortIDs) != len(m.Index) {
		add("pkindex: server has %d entries, model %d", len(s.ShortIDs), len(m.Index))
	}
	for k, id := range m.Index {
		if sid, ok := s.ShortIDs[k]; !ok || sid != id {
			add("pkindex[%x] server %d (present %v) model %d", k[:4], sid, ok, id)
		}
	}
	if len(s.Bans) != len(m.Bans) {
		add("bans: server %d model %d", len(s.Bans), len(m.Bans))
	}
	for id := range m.Bans {
		if !s.Bans[id] {
			add("bans: %d missing on server", id)
		}
	}
	if len(s.Reports) != len(m.Slots) {
		add("reports: server tracks %d devices, model %d", len(s.Reports), len(m.Slots))
	}
	if len(s.Impact) != len(m.Equip) {
		add("impact: server tracks %d devices, model %d", len(s.Impact), len(m.Equip))
	}
	for id, sl := range m.Slots {
		arr := s.Reports[id]
		if arr == nil {
			add("reports[%d] missing on server", id)
			continue
		}
		for i := 0; i < 4032; i++ {
			want, has := sl[m.Offset+uint32(i)]
			got := drv.RefReport(arr[i])
			if !has {
				want = refenc.Report{}
			}
			if got != want {
				add("reports[%d][%d]: server {slot %d power %d} model {slot %d power %d}", id, i, got.Slot, got.Power, want.Slot, want.Power)
				break
			}
		}
	}
	if len(s.History) != len(m.History) {
		add("archive: server has %d weeks, model %d", len(s.History), len(m.History))
	} else {
		for i, w := range m.History {
			h := s.History[i]
			if h.TimeslotOffset != w.Week || len(h.Devices) != len(w.Dev) {
				add("archive[%d]: server week %d with %d devices, model week %d with %d", i, h.TimeslotOffset, len(h.Devices), w.Week, len(w.Dev))
				continue
			}
			for _, d := range h.Devices {
				p, ok := w.Dev[d.PublicKey]
				if !ok || *p != d.PowerOutputs {
					add("archive[%d] device %x: power values differ from the model (device known to model: %v)", i, d.PublicKey[:4], ok)
				}
			}
		}
	}
	if len(s.Migrations) != len(m.Migrations) {
		add("migrations: server %d model %d", len(s.Migrations), len(m.Migrations))
	}
	for k, o := range m.Migrations {
		so, ok := s.Migrations[k]
		if !ok || so.NewGCA != o.NewGCA || so.NewShortID != o.NewID || so.Signature != o.Sig || len(so.NewServers) != len(o.Servers) {
			add("migrations[%x] differs (present %v)", k[:4], ok)
		}
	}
	if len(s.Servers) != len(m.Servers) {
		add("serverlist: server %d model %d", len(s.Servers), len(m.Servers))
	} else {
		for i, ms := range m.Servers {
			ss := s.Servers[i]
			if ss.PublicKey != ms.Pub || ss.Banned != ms.Banned || ss.Location != ms.Location || ss.HttpPort != ms.HTTP || ss.TcpPort != ms.TCP || ss.UdpPort != ms.UDP || ss.GCAAuthorization != ms.Sig {
				add("serverlist[%d] differs: server banned=%v model banned=%v", i, ss.Banned, ms.Banned)
			}
		}
	}
	sort.Strings(out)
	return out
}
