//go:build test

package main

// Directed workloads of the stress monitor: two interleavings that random
// phases hit only sometimes are aimed at on purpose.
//
//  1. rotation polls: while the REAL (ungated) rotation job archives a large
//     week, several goroutines keep asking all-device-stats for exactly the
//     week that is being rotated (timeslot_offset = the window offset they
//     have just read). Requests that queue on the mutex during the rotation's
//     critical section are served the instant it is released, i.e. at the
//     rotation boundary. Every such request must be answered 200 (live week
//     before, archived week after).
//  2. ban churn: for each of 40 victim devices, 9 goroutines keep re-sending
//     valid reports of the current victim (VerifInject and the real socket,
//     at most 16 datagrams outstanding) while a conflicting authorization
//     bans it.
//
// Judged by: process alive, no handler panic (parent), order-independent
// responses, lock probe, invariants, impact positions, every victim banned.

import (
	"fmt"
	"math/rand"
	"net/http"
	"path/filepath"
	"sync"
	"sync/atomic"
	"time"

	"github.com/glowlabs-org/gca-backend/server"

	"verifharness/lib/drv"
	"verifharness/lib/ev"
	"verifharness/lib/refenc"
	"verifharness/lib/run"
)

// requests whose body is not read: the connection is dropped after the status line
var pollClient = &http.Client{Timeout: 6 * time.Second, Transport: &http.Transport{DisableKeepAlives: true}}

func childDirected(b run.Batch, r *ev.Result) {
	rng := rand.New(rand.NewSource(b.Seed))
	if !lateFreshStart(b, r, rng) || abandoned.Load() {
		return
	}
	if !closeInFlight(b, r, rng) || abandoned.Load() {
		return
	}
	if !abandonCells(b, r, rng) || abandoned.Load() {
		return
	}
	c, err := newCW(filepath.Join(b.Dir, "directed"), rng, r, worldOpt{registered: true})
	if err != nil {
		r.Inconc("directed: " + err.Error())
		return
	}
	w := c
	defer func() { w.shutdown() }()
	nV := 40
	var victims []*drv.Dev
	for i := 0; i < nV; i++ {
		k := refenc.GenKey(rng)
		w.nextID++
		a := w.MkAuth(w.nextID, k.Pub, 1<<40)
		a.Lat, a.Long = float64(rng.Intn(60)), float64(rng.Intn(100)) // fake impact values stay positive
		a = a.Signed(w.GCA.Priv)
		if cde, _, err := w.Authorize(a); err != nil || cde != 200 {
			r.Inconc(fmt.Sprintf("directed: setup authorization failed: %d %v", cde, err))
			return
		}
		d := &drv.Dev{ID: a.ID, Key: k, Auth: a}
		victims = append(victims, d)
		for s := 0; s < 6; s++ { // some content for the weeks that get archived
			w.Inject(d.Report(uint32(100+7*s+i%5), uint64(100+rng.Intn(9000))).Bytes())
		}
	}
	if !rotationPolls(w, r, victims, 4) {
		return
	}
	if !banChurn(w, r, rng, victims) {
		return
	}
	w.quiesce("directed workloads", nil)
}

// rotationPolls returns false when the child must stop (state broken / inconclusive).
func rotationPolls(w *cw, r *ev.Result, devs []*drv.Dev, rotations int) bool {
	type poll struct {
		call, ret int64
		week      uint32
		code      int
		err       string
	}
	const P = 8
	var stop atomic.Bool
	var polls atomic.Int64
	results := make([][]poll, P)
	var wg sync.WaitGroup
	rotN.Store(0)
	jobTrace.Store(true)
	drv.GateRotation(false)
	drv.GateImpact(false)
	for g := 0; g < P; g++ {
		wg.Add(1)
		go func(g int) {
			defer wg.Done()
			for !stop.Load() {
				_, _, off, _ := w.S.VerifSlot(devs[g%len(devs)].ID, 0) // the window offset right now
				p := poll{call: mono(), week: off}
				resp, err := pollClient.Get(fmt.Sprintf("http://127.0.0.1:%d/api/v1/all-device-stats?timeslot_offset=%d", w.HTTP, off))
				if err != nil {
					p.err = err.Error()
				} else {
					p.code = resp.StatusCode
					resp.Body.Close()
				}
				p.ret = mono()
				results[g] = append(results[g], p)
				polls.Add(1)
			}
		}(g)
	}
	// clients that give up after 1-20 ms, while the mutex is busy with the rotations and the polls
	var abandonedReqs atomic.Int64
	var awg sync.WaitGroup
	for g := 0; g < 3; g++ {
		awg.Add(1)
		go func(g int) {
			defer awg.Done()
			abandoningPoller(w, g, &stop, &abandonedReqs, devs[0].Key.Pub)
		}(g)
	}
	type span struct{ from, to int64 }
	var rots []span
	ok := true
	for k := 0; k < rotations && ok; k++ {
		run.Op("directed: rotation %d under stats polls for the rotating week", k)
		before := drv.RotationsDone.Load()
		p0 := polls.Load()
		for i := 0; i < 10000 && polls.Load() < p0+P; i++ { // every poller is in its loop again
			time.Sleep(time.Millisecond)
		}
		setClock(w.S.VerifSnapshot(false).Offset + 3201)
		from := mono()
		for i := 0; i < 15000 && drv.RotationsDone.Load() == before; i++ {
			time.Sleep(time.Millisecond)
		}
		if drv.RotationsDone.Load() == before {
			stop.Store(true)
			if !lockProbe(w.S, r, "a rotation under stats polls for the rotating week", nil) {
				w.broken = true
			} else {
				r.Inconc("directed: the ungated rotation job did not complete a rotation within 15 s")
			}
			return false
		}
		rots = append(rots, span{from, mono()})
		r.Count("directed.rotations_under_polls", 1)
	}
	p0 := polls.Load()
	for i := 0; i < 10000 && polls.Load() < p0+P; i++ { // requests after the last rotation, too
		time.Sleep(time.Millisecond)
	}
	stop.Store(true)
	wg.Wait()
	awg.Wait()
	r.Count("directed.requests_with_1_to_20ms_timeouts", abandonedReqs.Load())
	ia, ra := drv.ImpactArrive.Load(), drv.RotationArrive.Load()
	drv.GateRotation(true)
	drv.GateImpact(true)
	for i := 0; i < 5000 && (drv.ImpactArrive.Load() == ia || drv.RotationArrive.Load() == ra); i++ {
		time.Sleep(time.Millisecond)
	}
	jobTrace.Store(false)
	across, errs := 0, 0
	for g := range results {
		for _, p := range results[g] {
			r.Count("directed.polls", 1)
			for _, s := range rots {
				if p.call <= s.to && p.ret >= s.from {
					across++
					break
				}
			}
			if p.err != "" {
				errs++
				continue
			}
			if p.code != 200 && ok {
				ok = false
				r.Violationf("response-impossible-in-any-sequential-order", map[string]interface{}{"week": p.week, "status": p.code, "batch": curBatch},
					"all-device-stats for week %d (the window offset read just before the request) answered %d; before the rotation it is the live week, after it the archived one: every order gives 200", p.week, p.code)
			}
		}
	}
	r.Eval(int(polls.Load()))
	r.Count("directed.polls_overlapping_a_rotation", int64(across))
	if errs > 0 {
		r.Count("directed.poll_transport_errors", int64(errs))
		if !lockProbe(w.S, r, "rotations under stats polls for the rotating week", nil) {
			w.broken = true
			return false
		}
	}
	return w.quiesce("rotations under stats polls", nil)
}

func banChurn(w *cw, r *ev.Result, rng *rand.Rand, victims []*drv.Dev) bool {
	base := server.VerifUDPHandled()
	var sockSent atomic.Int64
	conns := make([]*udpConn, 4)
	for i := range conns {
		cn, err := netDialUDP(w.UDP)
		if err != nil {
			r.Inconc("directed: " + err.Error())
			return false
		}
		defer cn.Close()
		conns[i] = &udpConn{cn}
	}
	unknownBan := map[uint32]bool{}
	for vi, v := range victims {
		run.Op("directed: churn victim %d (device %d)", vi, v.ID)
		now := w.now()
		const G = 9
		reps := make([][][]byte, G)
		for g := 0; g < G; g++ {
			for i := 0; i < 5; i++ {
				reps[g] = append(reps[g], v.Report(now-400+uint32(g*40+i*7), uint64(2+rng.Intn(100000))).Bytes())
			}
		}
		var stop atomic.Bool
		var done atomic.Int64
		var wg sync.WaitGroup
		for g := 0; g < G; g++ {
			wg.Add(1)
			go func(g int) {
				defer wg.Done()
				for i := 0; !stop.Load(); i++ {
					b := reps[g][i%len(reps[g])]
					if g < 5 {
						w.S.VerifInject(b)
					} else {
						// the listener spawns one goroutine per datagram: keep at most 16 outstanding
						for sockSent.Load()-int64(server.VerifUDPHandled()-base) >= 16 && !stop.Load() {
							time.Sleep(50 * time.Microsecond)
						}
						sockSent.Add(1)
						conns[g-5].c.Write(b)
					}
					done.Add(1)
				}
			}(g)
		}
		waitFor := func(target int64) bool {
			for i := 0; i < 10000 && done.Load() < target; i++ {
				time.Sleep(time.Millisecond)
			}
			return done.Load() >= target
		}
		progressed := waitFor(2 * G)
		c2 := v.Auth
		c2.Debt += 1 + uint64(rng.Intn(5))
		c2 = c2.Signed(w.GCA.Priv)
		code, _, err := w.Authorize(c2)
		progressed = progressed && waitFor(done.Load()+G)
		stop.Store(true)
		wg.Wait()
		for i := 0; i < 3000 && int64(server.VerifUDPHandled()-base) < sockSent.Load(); i++ {
			time.Sleep(time.Millisecond)
		}
		if int64(server.VerifUDPHandled()-base) < sockSent.Load() {
			r.Count("directed.udp_loss", 1)
			sockSent.Store(int64(server.VerifUDPHandled() - base))
		}
		r.Count("directed.victims_churned", 1)
		r.Count("directed.reports_sent", done.Load())
		r.Eval(1)
		switch {
		case err != nil:
			unknownBan[v.ID] = true
			r.Count("directed.transport_errors", 1)
		case code != 500:
			r.Violationf("response-impossible-in-any-sequential-order", map[string]interface{}{"device": v.ID, "status": code, "batch": curBatch},
				"a conflicting authorization for authorized device %d answered %d, every order gives 500 (and a ban)", v.ID, code)
		}
		if !progressed || err != nil {
			if !lockProbe(w.S, r, fmt.Sprintf("ban churn of victim %d", vi), nil) {
				w.broken = true
				return false
			}
		}
	}
	if !w.quiesce("ban churn", nil) {
		return false
	}
	s := w.S.VerifSnapshot(false)
	for _, v := range victims {
		if unknownBan[v.ID] {
			continue
		}
		if _, in := s.Equipment[v.ID]; in || !s.Bans[v.ID] {
			r.Violationf("final-state-impossible-in-any-sequential-order:conflict-ban", map[string]interface{}{"device": v.ID, "batch": curBatch},
				"device %d received two conflicting authorizations but is equipment=%v banned=%v", v.ID, in, s.Bans[v.ID])
		}
	}
	r.Count("directed.churns_completed", 1)
	return true
}

type udpConn struct {
	c interface {
		Write([]byte) (int, error)
		Close() error
	}
}

func childSelfTest(b run.Batch, r *ev.Result) {
	linSelfTest(r, rand.New(rand.NewSource(b.Seed)))
	r.Eval(3)
}
