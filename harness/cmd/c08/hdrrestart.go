//go:build test

// Restart on an energy file reduced to its header. Readings are reported with
// losses, the server rotates once (window offset 2016), the client restarts:
// history.dat is kept, the energy file holds only its header (or only rows older
// than the server window), so the report loop's "latest record" is 0 / predates
// the window while the history still holds lost readings inside it. The client's
// own first background round (stale stamp) is the fault-free round; when it has
// recorded success and everything was delivered the usual oracle applies.
package main

import (
	"bytes"
	"encoding/hex"
	"fmt"
	"math/rand"
	"os"
	"path/filepath"
	"strings"
	"time"

	"github.com/glowlabs-org/gca-backend/client"
	"github.com/glowlabs-org/gca-backend/glow"
	"github.com/glowlabs-org/gca-backend/server"

	"verifharness/lib/drv"
	"verifharness/lib/ev"
	"verifharness/lib/refenc"
	"verifharness/lib/run"
)

func runHdrRestart(sc *scenario, b run.Batch, r *ev.Result) {
	rng := rand.New(rand.NewSource(sc.Seed))
	inconc := func(f string, a ...interface{}) {
		r.Inconc(fmt.Sprintf("scenario hdrrestart/%d (seed %d): ", sc.Index, sc.Seed) + fmt.Sprintf(f, a...))
		r.Count("scenarios_inconclusive", 1)
	}
	trace := func(f string, a ...interface{}) {
		s := fmt.Sprintf(f, a...)
		sc.PhaseTrace = append(sc.PhaseTrace, s)
		run.Op("scenario hdrrestart/%d: %s", sc.Index, s)
	}
	dir := filepath.Join(b.Dir, fmt.Sprintf("h%d", sc.Index))
	defer os.RemoveAll(dir)
	drv.SetClock(0)
	drv.GateRotation(true)
	drv.GateImpact(true)
	var w *drv.World
	var err error
	arrived := drv.RotationArrive.Load()
	for try := 0; try < 3; try++ {
		arrived = drv.RotationArrive.Load()
		if w, err = drv.NewWorld(filepath.Join(dir, fmt.Sprintf("srv%d", try)), rng); err == nil {
			break
		}
		r.Count("world_setup_retried", 1)
	}
	if err != nil {
		inconc("cannot start world: %v", err)
		return
	}
	defer w.Close()
	for dl := time.Now().Add(10 * time.Second); drv.RotationArrive.Load() == arrived; time.Sleep(200 * time.Microsecond) {
		if time.Now().After(dl) {
			inconc("rotation loop did not reach its gate within 10s")
			return
		}
	}
	var dev *drv.Dev
	for try := 0; try < 3; try++ {
		if dev, err = w.AddDevice(1+uint32(rng.Intn(1<<20))+uint32(try), 1<<40); err == nil {
			break
		}
	}
	if err != nil {
		inconc("%v", err)
		return
	}
	O := w.S.VerifSnapshot(false).Offset
	sc.Offset = O
	sc.Now0 = O + 3000 + uint32(rng.Intn(201))
	sc.Now1 = O + 3201 + uint32(rng.Intn(150))
	sc.Event = "rotate"
	drv.SetClock(sc.Now0)
	n := 4 + rng.Intn(10)
	first := sc.Now0 - uint32(rng.Intn(20)) - uint32(n) // every reading stays within 432 of the clock after the rotation
	lostOrig := map[uint32]bool{}
	for i := 0; i < n; i++ {
		cl := []string{"positive", "negative", "sentinel", "unparsable"}[pick(uint64(rng.Int63()), 40, 30, 15, 15)]
		sc.Rows = append(sc.Rows, row{Slot: first + uint32(i), Class: cl, Text: genValue(rng, cl)})
		if i == 0 || rng.Intn(2) == 0 {
			lostOrig[first+uint32(i)] = true
		}
	}
	base := server.VerifUDPHandled()
	relay, err := NewRelay()
	if err != nil {
		inconc("relay: %v", err)
		return
	}
	defer relay.Close()
	proxy, err := NewProxy()
	if err != nil {
		inconc("proxy: %v", err)
		return
	}
	defer proxy.Close()
	if err := relay.SetTarget(w.UDP); err != nil {
		inconc("relay target: %v", err)
		return
	}
	proxy.SetTarget(w.TCP)
	relay.SetPhase("all", func(slot uint32, occ int) Fate {
		if lostOrig[slot] && occ == 0 {
			return Drop
		}
		return Deliver
	})
	handled := func() error {
		if err := relay.Barrier(); err != nil {
			return err
		}
		for dl := time.Now().Add(30 * time.Second); ; time.Sleep(200 * time.Microsecond) {
			f, h := relay.Forwarded(), server.VerifUDPHandled()-base
			if h == f {
				return nil
			}
			if h > f || time.Now().After(dl) {
				return fmt.Errorf("server handled %d datagrams, relay forwarded %d", h, f)
			}
		}
	}
	oldRow := rng.Intn(2) == 0
	origin := first - uint32(rng.Intn(3))
	if oldRow {
		origin = O + 50 // the history reaches back before the window the server will have after its rotation
	}
	cdir := filepath.Join(dir, "client")
	empty := "timestamp,energy\n"
	env := &drv.ClientEnv{Dir: cdir, Key: dev.Key, GCA: w.GCA.Pub, ShortID: dev.ID,
		Servers:       []refenc.MapEntry{{Pub: w.Key.Pub, Location: "127.0.0.1", HTTP: w.HTTP, TCP: proxy.Port, UDP: relay.Port}},
		HistoryOrigin: origin, Energy: &empty, LastSync: drv.FreshSyncStamp()}
	if err := env.Write(); err != nil {
		inconc("client dir: %v", err)
		return
	}
	closeBounded := func(c *client.Client) bool {
		done := make(chan struct{})
		go func() { c.Close(); close(done) }()
		select {
		case <-done:
			return true
		case <-time.After(20 * time.Second):
			return false
		}
	}
	trace("first client life: %d rows are reported, %d originals are lost", n, len(lostOrig))
	c1, err := drv.StartClient(cdir)
	if err != nil {
		inconc("client start: %v", err)
		return
	}
	werr := env.WriteEnergy(energyFile(sc.Rows, 0, glow.GenesisTime, sc.Seed))
	ticked := werr == nil && waitTicks(client.VerifTicks()+2)
	herr := handled()
	if !closeBounded(c1) {
		inconc("client.Close did not return within 20s")
		return
	}
	if werr != nil || !ticked || herr != nil {
		inconc("first life: energy file %v, loop ticked %v, barrier %v", werr, ticked, herr)
		return
	}
	trace("clock advances to %d, the server rotates", sc.Now1)
	drv.SetClock(sc.Now1)
	if k := drv.StepRotation(); k != 1 {
		inconc("rotation did not happen when expected: %d", k)
		return
	}
	// ---- restart: history kept, energy file without any row inside the server window
	reduced := "timestamp,energy\n"
	if oldRow {
		// the rotated file still holds one row, older than the server window
		reduced += fmt.Sprintf("%d,4242\n", glow.GenesisTime+int64(O+100+uint32(rng.Intn(1000)))*300+9)
	}
	if err := env.WriteEnergy(reduced); err != nil {
		inconc("%v", err)
		return
	}
	os.WriteFile(filepath.Join(cdir, client.LastSyncFile), []byte(*drv.StaleSyncStamp()), 0644)
	T0 := client.VerifTicks()
	trace("client restarts: history.dat kept, energy file reduced to %q, stale stamp", reduced)
	c, err := drv.StartClient(cdir)
	if err != nil {
		inconc("client restart: %v", err)
		return
	}
	closed := false
	closeClient := func() {
		if !closed {
			closed = true
			if !closeBounded(c) {
				r.Inconc(fmt.Sprintf("scenario hdrrestart/%d: client.Close did not return within 20s", sc.Index))
			}
		}
	}
	defer closeClient()
	// ---- wait until the client itself has recorded a successful sync
	syncFile := filepath.Join(cdir, client.LastSyncFile)
	for dl := time.Now().Add(40 * time.Second); ; time.Sleep(time.Millisecond) {
		if raw, err := os.ReadFile(syncFile); err == nil && len(raw) > 0 && strings.TrimSpace(string(raw)) != "0" {
			break
		}
		if client.VerifTicks() > T0+90 || time.Now().After(dl) {
			inconc("the client's own rounds did not succeed within 90 ticks / 40s (liveness of background rounds is C11's subject)")
			return
		}
	}
	trace("the client recorded a successful sync at tick %d", client.VerifTicks()-T0)
	if err := handled(); err != nil {
		inconc("%v", err)
		return
	}
	// ---- oracle
	now := drv.Clock()
	snap := w.S.VerifSnapshot(true)
	var post refenc.SyncReply
	var refused bool
	for try := 0; try < 3; try++ {
		if post, refused, err = w.Sync(dev.ID); err == nil {
			break
		}
	}
	if err != nil || refused {
		inconc("raw sync: refused=%v err=%v", refused, err)
		return
	}
	recs := snap.Reports[dev.ID]
	horigin, hist, err := readHistory(cdir)
	if err != nil || recs == nil {
		inconc("history / snapshot unavailable: %v", err)
		return
	}
	log := relay.Log()
	replay := func(extra map[string]interface{}) map[string]interface{} {
		m := map[string]interface{}{"scenario": sc, "proxy_applied": proxy.AppliedLog()}
		var dl []string
		for _, s := range log {
			dl = append(dl, fmt.Sprintf("tick=%d slot=%d fate=%s bytes=%s", s.Tick-T0, s.Slot, s.Fate, hex.EncodeToString(s.Bytes)))
		}
		m["datagrams"] = dl
		for k, v := range extra {
			m[k] = v
		}
		return m
	}
	r.Eval(1)
	r.Count("scenarios_judged", 1)
	r.Count("hdrrestart_scenarios_judged", 1)
	missingBefore := 0
	for i, v := range hist {
		if v < 2 {
			continue
		}
		t := int64(horigin) + int64(i)
		if t < int64(snap.Offset) || t >= int64(snap.Offset)+4032 || t < int64(now)-432 || t > int64(now)+432 {
			r.Count("readings_not_required", 1)
			continue
		}
		idx := int(t - int64(snap.Offset))
		r.Count("required_slots", 1)
		if recs[idx].PowerOutput == 0 {
			r.Violationf("lost-report-not-recovered", replay(map[string]interface{}{"slot": t, "stored_reading": v, "original_was_lost": lostOrig[uint32(t)]}),
				"after a restart on an energy file without rows inside the server window the client completed a fault-free background sync round (last-sync.txt rewritten), everything it sent was delivered, yet the server has no record for slot %d although the client holds reading %d (%s)", t, v, classOfStored(v))
		} else if !post.Bit(idx) {
			r.Violationf("lost-report-not-recovered-bitfield", replay(map[string]interface{}{"slot": t}), "a fresh sync bitfield lacks slot %d after the client's completed round", t)
		} else {
			if lostOrig[uint32(t)] {
				missingBefore++
				r.Count("recovered_slots", 1)
				r.Count("recovered."+classOfStored(v), 1)
			}
		}
		if recs[idx].PowerOutput == 1 {
			r.Violationf("device-slot-banned-by-recovery", replay(map[string]interface{}{"slot": t}), "slot %d of the device is banned on the server", t)
		}
	}
	firstSeen := map[uint32][]byte{}
	for _, s := range log {
		r.Count("dgram.seen", 1)
		if len(s.Bytes) != 80 || s.ID != dev.ID {
			continue
		}
		if fb, ok := firstSeen[s.Slot]; !ok {
			firstSeen[s.Slot] = s.Bytes
		} else {
			r.Count("identity_comparisons", 1)
			if !bytes.Equal(fb, s.Bytes) {
				r.Violationf("retransmission-differs-from-original", replay(map[string]interface{}{"slot": s.Slot}), "two different datagrams were emitted for slot %d", s.Slot)
				break
			}
		}
	}
	if missingBefore > 0 {
		r.Count("hdrrestart.lost_readings_recovered_after_header_only_restart", 1)
	}
	r.Nontrivial(fmt.Sprintf("hdrrestart|%d|%d|%q", n, len(lostOrig), reduced))
	closeClient()
}
