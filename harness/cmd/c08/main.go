//go:build test

// C08 — Lost datagrams are eventually recovered; retransmissions are identical.
//
// Monitor: the real client and the real server run in one child process; the
// client's server map points at a harness UDP relay and TCP proxy (stable
// ports). The relay logs every datagram before it applies a PRNG-determined
// fate (drop / deliver / duplicate / delay-and-reorder); the proxy applies a
// per-connection fate to sync attempts (refuse / reset / close after k bytes /
// garble / pass). After r faulty sync rounds, an optional week rotation or
// server restart, and one fault-free round whose retransmissions are all
// delivered (logical barriers, no wall-clock verdict), the oracle below
// judges the server's records against the client's history file.
package main

import (
	"bytes"
	"encoding/binary"
	"encoding/hex"
	"fmt"
	"hash/fnv"
	"math/rand"
	"os"
	"path/filepath"
	"sort"
	"strings"
	"time"

	"github.com/glowlabs-org/gca-backend/client"
	"github.com/glowlabs-org/gca-backend/glow"
	"github.com/glowlabs-org/gca-backend/server"

	"verifharness/lib/drv"
	"verifharness/lib/ev"
	"verifharness/lib/refenc"
	"verifharness/lib/run"
)

const exhaustiveM = 6

func main() {
	run.Main(run.Spec{
		ID:    "C08",
		Level: "fault_enumeration",
		Pkg:   "./cmd/c08",
		Rule: "one evaluation = one scenario (energy rows of 3..12 slots with positive / negative / sentinel(2) / unparsable(3) readings appearing in 1..3 groups, " +
			"per-datagram fates drop/deliver/dup/delay, 0..2 faulty sync rounds with per-connection fates refuse/reset/short/garble/pass, 0..2 decoy map entries, optional rotation or restart, one fault-free round) judged by the oracle; " +
			"'dense' scenarios: 16..40 consecutive slots starting at a multiple of 8 of the window (or +1/+7), all originals delivered except the slot right after one or two completely received bitfield bytes and a few others, optionally one lost row rewritten by the meter after it was reported; " +
			"'cutoff' scenarios: 500..600 missing slots older than the acceptance range (refused for ever) in front of 10..30 lost slots inside it; 'fdshort' scenarios: a transient descriptor shortage makes accept() fail on the server, then heals; " +
			"'udpdown' scenarios: the UDP port the device reports to is really closed while its newest rows are first reported and open again before the final round; " +
			"'ownround' scenarios: the client's own background round (stale stamp, first round refused) is the fault-free round; new rows appear exactly in the report-loop pass that launches it (send.loop hook) and their originals are lost; " +
			"'hdrrestart' scenarios: readings reported with losses, one rotation, client restart on an energy file without rows inside the server window (history kept), the client's own background round is the fault-free round; " +
			"'twoserver' scenarios: two real servers hold the device, every original lost, round A re-sends 300..500 reports to one server while an overlapping round B is refused there and completes on the other; each server whose round completed is judged. " +
			"Non-trivial = at least one required slot was absent on the server immediately before the final round and present after it (the recovery path was really exercised); " +
			"distinct by (slot classes, per-slot loss history, sync fates, event).",
		Assumptions: []string{
			"readings fit 32 signed bits after scaling (the property excludes others); one energy row per timeslot, except that dense scenarios rewrite one already reported row (what the client may sign then is C09's subject; here only: the stored reading and its retransmissions stay what was first sent)",
			"'eventually' is bounded: the oracle is evaluated after one fault-free sync round whose retransmissions were all handed to the server (relay forwarded-count == server udp.done count)",
			"loopback UDP between relay and server does not lose datagrams; if it did the barrier would time out and the run would be inconclusive, not violated",
			"a final round that does not complete although the path is fault-free makes the scenario inconclusive (the property is conditional on a completed round; reply acceptance is C10's subject)",
			"rotation and impact jobs are gated; rotation happens only when the scenario steps it",
		},
		Plan:  plan,
		Child: child,
		Post: func(c *ev.Check, outs []*run.Outcome) {
			min := int64(20)
			if c.Tier == "thorough" {
				min = 2000
			}
			c.Require("scenarios_judged", min)
			c.Require("required_slots", min*2)
			c.Require("recovered_slots", min)
			c.Require("recovered.negative", 1)
			c.Require("recovered.positive", 1)
			c.Require("recovered.sentinel2", 1)
			c.Require("recovered.unparsable3", 1)
			c.Require("identity_comparisons", min)
			c.Require("dgram.fate.drop", 1)
			c.Require("dgram.fate.dup", 1)
			c.Require("dgram.fate.delay", 1)
			c.Require("dgram.fate.late", 1)
			c.Require("sync_rounds_failed", 1)
			c.Require("event.rotate", 1)
			c.Require("event.week_later", 1)
			c.Require("event.restart", 1)
			c.Require("dense_scenarios_judged", 20)
			c.Require("cutoff_scenarios_judged", 3)
			c.Require("cutoff.500_expired_then_recoverable_before_final_round", 3)
			c.Require("fdshort_scenarios_judged", 2)
			c.Require("udpdown_scenarios_judged", 3)
			c.Require("ownround_scenarios_judged", 3)
			c.Require("hdrrestart_scenarios_judged", 3)
			c.Require("hdrrestart.lost_readings_recovered_after_header_only_restart", 3)
			c.Require("ownround.rows_first_reported_in_the_launching_pass_and_lost", 3)
			c.Require("event.fdshort_accept_failures_seen", 2)
			c.Require("two_server.scenarios_judged", 3)
			c.Require("two_server.round_b_reached_other_server_while_round_a_was_resending", 2)
			c.Require("two_server.round_b_ended_on_the_other_server", 2)
			c.Require("dense.full_byte_then_missing_slot_before_final_round", 20)
			c.Require("rows_rewritten_after_first_report", 3)
			if n := c.Counter("exhaustive_scenarios_judged"); n > 0 {
				c.SetExtra("exhaustive_subspaces", []map[string]interface{}{{
					"what":       fmt.Sprintf("m=%d slots: every original-loss pattern (2^%d) x every retransmission-loss pattern of the penultimate round (2^%d)", exhaustiveM, exhaustiveM, exhaustiveM),
					"size":       1 << (2 * exhaustiveM),
					"judged":     n,
					"exhaustive": n == 1<<(2*exhaustiveM),
				}})
			}
		},
	})
}

func planBase(tier string, seed int64) []run.Batch {
	var bs []run.Batch
	add := func(kind string, from, to int, timeout int) {
		bs = append(bs, run.Batch{Kind: kind, Seed: seed, N: to - from, TimeoutS: timeout,
			Params: map[string]string{"from": fmt.Sprint(from), "to": fmt.Sprint(to)}})
	}
	if tier != "thorough" {
		// 160 random scenarios plus a 256-pattern slice of the exhaustive loss space
		for i := 0; i < 160; i += 5 {
			add("random", i, i+5, 150)
		}
		for i := 0; i < 24; i += 4 {
			add("dense", i, i+4, 150)
		}
		add("twoserver", 0, 2, 200)
		add("twoserver", 2, 4, 200)
		add("cutoff", 0, 2, 200)
		add("cutoff", 2, 4, 200)
		add("fdshort", 0, 3, 200)
		add("udpdown", 0, 4, 200)
		add("ownround", 0, 4, 200)
		add("hdrrestart", 0, 4, 200)
		x := int(uint64(seed)*2654435761%uint64(1<<(2*exhaustiveM))) &^ 63
		for i := 0; i < 256; i += 64 {
			add("exhaustive", (x+i)%(1<<(2*exhaustiveM)), (x+i)%(1<<(2*exhaustiveM))+64, 240)
		}
		return bs
	}
	for i := 0; i < 2000; i += 25 {
		add("random", i, i+25, 240)
	}
	for i := 0; i < 400; i += 25 {
		add("dense", i, i+25, 240)
	}
	for i := 0; i < 60; i += 5 {
		add("twoserver", i, i+5, 240)
	}
	for i := 0; i < 40; i += 5 {
		add("cutoff", i, i+5, 240)
	}
	for i := 0; i < 40; i += 5 {
		add("fdshort", i, i+5, 240)
	}
	for i := 0; i < 40; i += 10 {
		add("udpdown", i, i+10, 240)
		add("ownround", i, i+10, 240)
		add("hdrrestart", i, i+10, 240)
	}
	for i := 0; i < 1<<(2*exhaustiveM); i += 64 {
		add("exhaustive", i, i+64, 240)
	}
	return bs
}

// ---------------------------------------------------------------- scenario

type row struct {
	Slot  uint32 `json:"slot"`
	Text  string `json:"text"`
	Class string `json:"class"`
	Group int    `json:"group"`
}

type scenario struct {
	Kind       string      `json:"kind"`
	Index      int         `json:"index"`
	Seed       int64       `json:"seed"`
	Base       uint32      `json:"clock_at_server_start"`
	Offset     uint32      `json:"offset"`
	Now0       uint32      `json:"now0"`
	Now1       uint32      `json:"now1"`
	Rows       []row       `json:"rows"`
	Groups     int         `json:"groups"`
	InitialG0  bool        `json:"group0_present_at_client_start"`
	Decoys     int         `json:"decoys"`
	DecoyHole  bool        `json:"decoy_udp_is_black_hole"`
	Rounds     [][]TCPFate `json:"faulty_rounds"`
	Event      string      `json:"event"`
	LateGroup  bool        `json:"last_group_written_during_event"`
	LateOrig   bool        `json:"originals_overtaken_by_retransmissions"`
	WeekLater  bool        `json:"received_slots_recur_one_week_later_and_are_lost,omitempty"`
	Now2       uint32      `json:"now2,omitempty"`
	LossA      int         `json:"orig_loss_mask,omitempty"`
	LossB      int         `json:"retrans_loss_mask,omitempty"`
	DenseLost  []uint32    `json:"dense_lost_slots,omitempty"`
	DenseBound []uint32    `json:"dense_lost_right_after_full_byte,omitempty"`
	RewriteAt  uint32      `json:"rewritten_row_slot,omitempty"`
	RewriteTo  string      `json:"rewritten_row_new_text,omitempty"`
	PhaseTrace []string    `json:"trace"`
}

func h64(parts ...interface{}) uint64 {
	h := fnv.New64a()
	fmt.Fprint(h, parts...)
	return h.Sum64()
}

func pick(p uint64, weights ...int) int {
	tot := 0
	for _, w := range weights {
		tot += w
	}
	x := int(p % uint64(tot))
	for i, w := range weights {
		if x < w {
			return i
		}
		x -= w
	}
	return len(weights) - 1
}

func genValue(rng *rand.Rand, class string) string {
	frac := func(v int64) string {
		if v > -1000000 && v < 1000000 && rng.Intn(3) == 0 {
			return fmt.Sprintf("%d.%d", v, 1+rng.Intn(98))
		}
		return fmt.Sprint(v)
	}
	switch class {
	case "positive":
		switch rng.Intn(6) {
		case 0:
			return "24"
		case 1:
			return "2147483647"
		case 2:
			return fmt.Sprint(int64(1)<<30 + rng.Int63n(1<<30))
		default:
			return frac(25 + rng.Int63n(900000))
		}
	case "negative":
		switch rng.Intn(6) {
		case 0:
			return "-24"
		case 1:
			return "-2147483648"
		case 2:
			return fmt.Sprint(-(int64(1)<<30 + rng.Int63n(1<<30)))
		default:
			return frac(-(25 + rng.Int63n(900000)))
		}
	case "sentinel":
		return []string{"0", "-0", "23.9", "-23.99", "5", "1e1", "-7.25", "0.0001"}[rng.Intn(8)]
	default:
		return []string{"abc", "", "1.2.3", "--5", "1e", "error", "12 W"}[rng.Intn(7)]
	}
}

func energyFile(rows []row, uptoGroup int, genesis int64, salt int64) string {
	var sb strings.Builder
	sb.WriteString("timestamp,energy\n")
	rs := append([]row(nil), rows...)
	sort.SliceStable(rs, func(i, j int) bool {
		if rs[i].Group != rs[j].Group {
			return rs[i].Group < rs[j].Group
		}
		return rs[i].Slot < rs[j].Slot
	})
	for _, r := range rs {
		if r.Group > uptoGroup {
			continue
		}
		within := int64(h64(salt, r.Slot) % 300)
		fmt.Fprintf(&sb, "%d,%s\n", genesis+int64(r.Slot)*300+within, r.Text)
	}
	return sb.String()
}

func waitTicks(target uint64) bool {
	dl := time.Now().Add(30 * time.Second)
	for client.VerifTicks() < target {
		if time.Now().After(dl) {
			return false
		}
		time.Sleep(2 * time.Millisecond)
	}
	return true
}

// syncOnce runs one full sync round; done=false means the wall-clock watchdog
// fired (inconclusive, the goroutine is abandoned).
func syncOnce(c *client.Client, latest uint32) (ok bool, done bool) {
	ch := make(chan bool, 1)
	go func() { ch <- c.VerifSyncOnce(latest) }()
	select {
	case ok = <-ch:
		return ok, true
	case <-time.After(30 * time.Second):
		return false, false
	}
}

func readHistory(dir string) (origin uint32, vals []uint32, err error) {
	b, err := os.ReadFile(filepath.Join(dir, client.HistoryFile))
	if err != nil {
		return 0, nil, err
	}
	if len(b) < 4 {
		return 0, nil, fmt.Errorf("history file has %d bytes", len(b))
	}
	origin = binary.LittleEndian.Uint32(b)
	for i := 4; i+4 <= len(b); i += 4 {
		vals = append(vals, binary.LittleEndian.Uint32(b[i:]))
	}
	return origin, vals, nil
}

func classOfStored(v uint32) string {
	switch {
	case v == 2:
		return "sentinel2"
	case v == 3:
		return "unparsable3"
	case int32(v) < 0:
		return "negative"
	}
	return "positive"
}

type runner struct {
	r     *ev.Result
	sc    *scenario
	w     *drv.World
	dev   *drv.Dev
	relay *Relay
	proxy *Proxy
	c     *client.Client
	cdir  string
	base  uint64 // server.VerifUDPHandled() when the relay was created
}

func (x *runner) trace(f string, a ...interface{}) {
	s := fmt.Sprintf(f, a...)
	x.sc.PhaseTrace = append(x.sc.PhaseTrace, s)
	run.Op("scenario %s/%d: %s", x.sc.Kind, x.sc.Index, s)
}

// rawSync asks the server directly (not through the proxy); a transport error
// (the server's own 2.5 s connection deadline on a starved machine) is retried.
func (x *runner) rawSync() (rep refenc.SyncReply, refused bool, err error) {
	for try := 0; try < 3; try++ {
		rep, refused, err = x.w.Sync(x.dev.ID)
		if err == nil {
			return
		}
		x.r.Count("raw_sync_retried", 1)
	}
	return
}

// delivered waits until the server has finished with every datagram the relay
// forwarded (logical barrier).
func (x *runner) delivered() error {
	if err := x.relay.Barrier(); err != nil {
		return err
	}
	return x.handledAll()
}

// handledAll waits until the server's udp.done count equals the relay's forwarded count.
func (x *runner) handledAll() error {
	dl := time.Now().Add(30 * time.Second)
	for {
		f := x.relay.Forwarded()
		h := server.VerifUDPHandled() - x.base
		if h == f {
			return nil
		}
		if h > f {
			return fmt.Errorf("server handled %d datagrams but the relay forwarded only %d", h, f)
		}
		if time.Now().After(dl) {
			return fmt.Errorf("server handled %d of %d forwarded datagrams within 30s (loopback loss?)", h, f)
		}
		time.Sleep(200 * time.Microsecond)
	}
}

// writeGroup makes the rows up to group g visible and waits until the report
// loop has completed one full iteration that started after the write.
func (x *runner) writeGroup(env *drv.ClientEnv, g int) error {
	x.trace("energy rows up to group %d appear", g)
	if err := env.WriteEnergy(energyFile(x.sc.Rows, g, glow.GenesisTime, x.sc.Seed)); err != nil {
		return err
	}
	t := client.VerifTicks()
	if !waitTicks(t + 2) {
		return fmt.Errorf("report loop did not advance 2 ticks within 30s")
	}
	return x.relay.Barrier()
}

func (x *runner) replay(extra map[string]interface{}) map[string]interface{} {
	m := map[string]interface{}{"scenario": x.sc, "proxy_applied": x.proxy.AppliedLog()}
	var dl []string
	for _, s := range x.relay.Log() {
		dl = append(dl, fmt.Sprintf("tick=%d phase=%s slot=%d fate=%s hole=%v down=%v bytes=%s", s.Tick, s.Phase, s.Slot, s.Fate, s.Hole, s.Down, hex.EncodeToString(s.Bytes)))
		if len(dl) >= 200 {
			break
		}
	}
	m["datagrams"] = dl
	for k, v := range extra {
		m[k] = v
	}
	return m
}

func runScenario(sc *scenario, b run.Batch, r *ev.Result) (fatal bool) {
	rng := rand.New(rand.NewSource(sc.Seed))
	x := &runner{r: r, sc: sc}
	inconc := func(f string, a ...interface{}) bool {
		r.Inconc(fmt.Sprintf("scenario %s/%d (seed %d): ", sc.Kind, sc.Index, sc.Seed) + fmt.Sprintf(f, a...))
		r.Count("scenarios_inconclusive", 1)
		return false
	}
	exh := sc.Kind == "exhaustive"
	dense := sc.Kind == "dense"
	cutoff := sc.Kind == "cutoff"
	fdshort := sc.Kind == "fdshort"
	udpdown := sc.Kind == "udpdown"

	// ---- server
	if exh {
		sc.Base = 0
	} else if dense {
		sc.Base = []uint32{0, 0, 2500, 7000}[rng.Intn(4)]
	} else if cutoff {
		sc.Base = 0
	} else {
		switch rng.Intn(3) {
		case 0:
			sc.Base = 0
		case 1:
			sc.Base = uint32(rng.Intn(3000))
		default:
			sc.Base = uint32(5000 + rng.Intn(10000))
		}
	}
	drv.SetClock(sc.Base)
	drv.GateRotation(true)
	drv.GateImpact(true)
	x.trace("start server with clock %d", sc.Base)
	dir := filepath.Join(b.Dir, fmt.Sprintf("s%d", sc.Index))
	defer os.RemoveAll(dir)
	arrived0 := drv.RotationArrive.Load()
	var w *drv.World
	var err error
	for try := 0; try < 3; try++ {
		// set-up only: the server drops HTTP connections after 2.5 s of wall time, which a
		// starved machine can exceed; a fresh directory is tried again
		arrived0 = drv.RotationArrive.Load()
		if w, err = drv.NewWorld(filepath.Join(dir, fmt.Sprintf("srv%d", try)), rng); err == nil {
			break
		}
		r.Count("world_setup_retried", 1)
	}
	if err != nil {
		return inconc("cannot start world: %v", err)
	}
	for dl := time.Now().Add(10 * time.Second); drv.RotationArrive.Load() == arrived0; {
		if time.Now().After(dl) {
			w.Close()
			return inconc("rotation loop did not reach its gate within 10s")
		}
		time.Sleep(200 * time.Microsecond)
	}
	x.w = w
	defer func() { w.Close() }()
	devID := 1 + uint32(rng.Intn(1<<20))
	var dev *drv.Dev
	for try := 0; try < 3; try++ {
		if dev, err = w.AddDevice(devID+uint32(try), 1<<40); err == nil {
			break
		}
		r.Count("world_setup_retried", 1)
	}
	if err != nil {
		return inconc("%v", err)
	}
	x.dev = dev
	O := w.S.VerifSnapshot(false).Offset
	sc.Offset = O

	// ---- scenario shape
	if exh {
		sc.Now0 = O + 1000
		sc.Now1 = sc.Now0
		sc.Groups, sc.Decoys, sc.Event = 1, 0, ""
		sc.Rounds = [][]TCPFate{{{Kind: "pass"}}}
		classes := []string{"positive", "negative", "sentinel", "unparsable", "negative", "positive"}
		for i := 0; i < exhaustiveM; i++ {
			sc.Rows = append(sc.Rows, row{Slot: sc.Now0 - 3 + uint32(i), Class: classes[i], Text: genValue(rng, classes[i]), Group: 0})
		}
	} else if cutoff {
		// A device that kept measuring while it was cut off for days: the server window lacks
		// 500..600 slots the device has readings for that are OLDER than the acceptance range
		// (the server silently refuses them, their bits stay 0 for ever) and, behind them,
		// 10..30 slots inside the range. Nothing was ever sent (rows present at client start).
		sc.Groups, sc.Decoys, sc.Event, sc.InitialG0 = 1, 0, "", true
		sc.Now0 = O + 1100 + uint32(rng.Intn(1500))
		sc.Now1 = sc.Now0
		nExp := 500 + rng.Intn(101)
		for i := 0; i < nExp; i++ {
			cl := []string{"positive", "negative", "sentinel", "unparsable"}[pick(uint64(rng.Int63()), 40, 30, 15, 15)]
			sc.Rows = append(sc.Rows, row{Slot: sc.Now0 - 433 - uint32(i), Class: cl, Text: genValue(rng, cl)})
		}
		used := map[uint32]bool{}
		for k := 10 + rng.Intn(21); k > 0; k-- {
			t := sc.Now0 - uint32(rng.Intn(430))
			if used[t] {
				continue
			}
			used[t] = true
			cl := []string{"positive", "negative", "sentinel", "unparsable"}[pick(uint64(rng.Int63()), 40, 30, 15, 15)]
			sc.Rows = append(sc.Rows, row{Slot: t, Class: cl, Text: genValue(rng, cl)})
		}
		sort.Slice(sc.Rows, func(i, j int) bool { return sc.Rows[i].Slot < sc.Rows[j].Slot })
		if rng.Intn(2) == 0 {
			sc.Rounds = [][]TCPFate{{{Kind: "pass"}}} // one more completed round whose retransmissions are partly lost
		}
	} else if dense {
		// 16..40 consecutive slots starting at a multiple of 8 of the window (or 1 / 7 past it,
		// as controls); every original is delivered except a subset that contains the slot
		// right after one or two completely delivered bytes of the bitfield, plus a few others.
		sc.Groups, sc.Decoys, sc.Event = 1, 0, ""
		n := 16 + rng.Intn(25)
		mis := []uint32{0, 0, 0, 1, 7}[rng.Intn(5)]
		startIdx := uint32(8*(10+rng.Intn(300))) + mis
		sc.Now0 = O + startIdx + uint32(rng.Intn(n))
		sc.Now1 = sc.Now0
		for i := 0; i < n; i++ {
			cl := []string{"positive", "negative", "sentinel", "unparsable"}[pick(uint64(rng.Int63()), 40, 30, 15, 15)]
			sc.Rows = append(sc.Rows, row{Slot: O + startIdx + uint32(i), Class: cl, Text: genValue(rng, cl)})
		}
		var bounds []uint32
		for idx := (startIdx + 7) / 8 * 8; idx < startIdx+uint32(n); idx += 8 {
			if idx >= startIdx+8 {
				bounds = append(bounds, idx)
			}
		}
		rng.Shuffle(len(bounds), func(a, b int) { bounds[a], bounds[b] = bounds[b], bounds[a] })
		nbd := 1 + rng.Intn(2)
		if nbd > len(bounds) {
			nbd = len(bounds)
		}
		lost := map[uint32]bool{}
		protected := map[uint32]bool{}
		for _, bd := range bounds[:nbd] {
			lost[O+bd] = true
			sc.DenseBound = append(sc.DenseBound, O+bd)
			for k := uint32(1); k <= 8; k++ {
				protected[O+bd-k] = true
			}
		}
		for k := rng.Intn(4); k > 0; k-- {
			t := O + startIdx + uint32(rng.Intn(n))
			if !protected[t] {
				lost[t] = true
			}
		}
		for t := range lost {
			sc.DenseLost = append(sc.DenseLost, t)
		}
		sort.Slice(sc.DenseLost, func(a, b int) bool { return sc.DenseLost[a] < sc.DenseLost[b] })
		if rng.Intn(2) == 0 {
			// the retransmissions of one more (completed) round are lost as well
			sc.Rounds = [][]TCPFate{{{Kind: "pass"}}}
		}
		if rng.Intn(2) == 0 {
			// one lost row is a placeholder reading first and is rewritten with a measurement
			// after it was reported: the stored reading (and so every retransmission) must not change
			sc.RewriteAt = sc.DenseLost[rng.Intn(len(sc.DenseLost))]
			for i := range sc.Rows {
				if sc.Rows[i].Slot == sc.RewriteAt {
					cl := []string{"sentinel", "unparsable"}[rng.Intn(2)]
					sc.Rows[i].Class, sc.Rows[i].Text = cl, genValue(rng, cl)
				}
			}
			sc.RewriteTo = genValue(rng, []string{"positive", "negative"}[rng.Intn(2)])
		}
	} else {
		sc.Event = []string{"", "", "", "rotate", "rotate", "restart", "restart", "restart+rotate"}[rng.Intn(8)]
		if strings.Contains(sc.Event, "rotate") {
			sc.Now0 = O + 2900 + uint32(rng.Intn(301))
			sc.Now1 = O + 3201 + uint32(rng.Intn(150))
		} else {
			sc.Now0 = O + uint32(rng.Intn(3201))
			sc.Now1 = sc.Now0 + uint32(rng.Intn(40))
		}
		lo, hi := int64(sc.Now0)-432, int64(sc.Now0)+432
		if lo < int64(O) {
			lo = int64(O)
		}
		if hi > int64(O)+4031 {
			hi = int64(O) + 4031
		}
		m := 3 + rng.Intn(10)
		sc.Groups = 1 + rng.Intn(3)
		sc.InitialG0 = rng.Intn(4) == 0
		sc.Decoys = []int{0, 0, 1, 2}[rng.Intn(4)]
		sc.DecoyHole = rng.Intn(2) == 0
		sc.LateGroup = sc.Event != "" && sc.Groups > 1 && rng.Intn(2) == 0
		used := map[uint32]bool{}
		for len(sc.Rows) < m {
			var s int64
			switch rng.Intn(10) {
			case 0: // older than the acceptance range (never required)
				s = lo - 1 - int64(rng.Intn(30))
			case 1: // newer than the acceptance range
				s = int64(sc.Now0) + 433 + int64(rng.Intn(30))
			default:
				if rng.Intn(3) == 0 { // clustered near the clock
					s = int64(sc.Now0) - 10 + int64(rng.Intn(21))
				} else {
					s = lo + rng.Int63n(hi-lo+1)
				}
			}
			if s < 0 || used[uint32(s)] {
				continue
			}
			used[uint32(s)] = true
			cl := []string{"positive", "negative", "sentinel", "unparsable"}[pick(uint64(rng.Int63()), 35, 30, 20, 15)]
			sc.Rows = append(sc.Rows, row{Slot: uint32(s), Class: cl, Text: genValue(rng, cl)})
		}
		sort.Slice(sc.Rows, func(i, j int) bool { return sc.Rows[i].Slot < sc.Rows[j].Slot })
		for i := range sc.Rows {
			// mostly ascending over the groups (so originals are really sent), sometimes out of order
			sc.Rows[i].Group = i * sc.Groups / len(sc.Rows)
			if rng.Intn(8) == 0 {
				sc.Rows[i].Group = rng.Intn(sc.Groups)
			}
		}
		nr := rng.Intn(3)
		// one scenario in eight: every original is overtaken by its own retransmission
		// (held in the network until just before the final round, while a sync round
		// completes and its retransmissions are delivered)
		sc.LateOrig = rng.Intn(8) == 0 || sc.Index%20 == 7
		if sc.LateOrig {
			sc.Event, sc.LateGroup, sc.InitialG0, nr = "", false, false, 0
			sc.Decoys = 0 // originals certainly travel through the relay, whatever primary the client draws
			// the held-back originals reach the server up to three timeslots after their own retransmissions
			// did: the identical datagram arriving again later is still the same report
			sc.Now1 = sc.Now0 + uint32(rng.Intn(4))
			var fates []TCPFate
			for j := 0; j < 1+sc.Decoys; j++ {
				fates = append(fates, TCPFate{Kind: "pass"})
			}
			sc.Rounds = append(sc.Rounds, fates)
		}
		for k := 0; k < nr; k++ {
			var fates []TCPFate
			for j := 0; j < 1+sc.Decoys; j++ {
				f := TCPFate{Kind: []string{"refuse", "reset", "short", "garble", "pass"}[pick(uint64(rng.Int63()), 20, 20, 25, 10, 25)], K: rng.Intn(1 << 16)}
				if f.Kind == "short" && rng.Intn(3) == 0 {
					f.K = []int{0, 1, 2, 3, 73, 577}[rng.Intn(6)]
				}
				fates = append(fates, f)
			}
			sc.Rounds = append(sc.Rounds, fates)
		}
	}
	if fdshort {
		// generated like a random scenario; the event is a transient descriptor shortage on the server
		sc.Event, sc.LateGroup, sc.LateOrig = "fdshort", false, false
		sc.Now1 = sc.Now0 + uint32(rng.Intn(40))
	}
	if udpdown {
		// generated like a random scenario; the device's UDP target is really closed for a
		// moment while its newest rows are first reported, and open again before the final round
		sc.Event, sc.LateOrig, sc.InitialG0, sc.Decoys, sc.Groups, sc.LateGroup = "udpdown", false, false, 0, 2, true
		sc.Now1 = sc.Now0 + uint32(rng.Intn(40))
		nl := 1 + rng.Intn(2)
		for i := range sc.Rows {
			sc.Rows[i].Group = 0
			if i >= len(sc.Rows)-nl {
				sc.Rows[i].Group = 1
			}
		}
		for k := range sc.Rounds {
			sc.Rounds[k] = sc.Rounds[k][:1]
		}
	}
	if !exh && !dense && !fdshort && !udpdown && !sc.LateOrig && sc.Index%10 == 3 {
		// "one week later": a handful of slots in the upper half of the window are reported and RECEIVED, the
		// window rotates (the server stays up), the clock moves on by exactly one week, and the device's reports
		// for the slots exactly 2016 later are all lost on the way. A sync round must bring every one of them in:
		// whatever the server remembers about last week's slots says nothing about this week's.
		sc.WeekLater = true
		sc.Event, sc.Groups, sc.LateGroup, sc.InitialG0, sc.Decoys, sc.Rounds = "rotate", 2, true, false, 0, nil
		sc.Now0 = O + 2900 + uint32(rng.Intn(301))
		sc.Now1 = O + 3201 + uint32(rng.Intn(150))
		sc.Now2 = sc.Now0 + 2016
		sc.Rows = nil
		used := map[uint32]bool{}
		for len(sc.Rows) < 5+rng.Intn(6) {
			s := sc.Now0 - uint32(rng.Intn(400))
			if used[s] {
				continue
			}
			used[s] = true
			cl := []string{"positive", "negative"}[rng.Intn(2)]
			sc.Rows = append(sc.Rows, row{Slot: s, Class: cl, Text: genValue(rng, cl), Group: 0})
		}
		sort.Slice(sc.Rows, func(i, j int) bool { return sc.Rows[i].Slot < sc.Rows[j].Slot })
		n0 := len(sc.Rows)
		for i := 0; i < n0; i++ {
			cl := []string{"positive", "negative"}[rng.Intn(2)]
			sc.Rows = append(sc.Rows, row{Slot: sc.Rows[i].Slot + 2016, Class: cl, Text: genValue(rng, cl), Group: 1})
		}
	}
	drv.SetClock(sc.Now0)
	minSlot, latest := sc.Rows[0].Slot, sc.Rows[0].Slot
	for _, rw := range sc.Rows {
		if rw.Slot < minSlot {
			minSlot = rw.Slot
		}
		if rw.Slot > latest {
			latest = rw.Slot
		}
	}
	origin := minSlot
	if d := uint32(rng.Intn(6)); d <= origin {
		origin -= d
	}

	// ---- network path
	x.base = server.VerifUDPHandled()
	if x.relay, err = NewRelay(); err != nil {
		return inconc("relay: %v", err)
	}
	defer x.relay.Close()
	if x.proxy, err = NewProxy(); err != nil {
		return inconc("proxy: %v", err)
	}
	defer x.proxy.Close()
	if err := x.relay.SetTarget(w.UDP); err != nil {
		return inconc("relay target: %v", err)
	}
	x.proxy.SetTarget(w.TCP)

	fateRandom := func(phase string, wDrop, wDel, wDup, wDelay int) func(uint32, int) Fate {
		return func(slot uint32, occ int) Fate {
			return []Fate{Drop, Deliver, Dup, Delay, Late}[pick(h64(sc.Seed, phase, slot, occ), wDrop, wDel, wDup, wDelay)]
		}
	}
	fateMask := func(mask int) func(uint32, int) Fate {
		return func(slot uint32, occ int) Fate {
			i := int(slot) - int(sc.Rows[0].Slot)
			if i >= 0 && i < exhaustiveM && mask&(1<<uint(i)) != 0 {
				return Drop
			}
			return Deliver
		}
	}
	fateDense := func(slot uint32, occ int) Fate {
		for _, t := range sc.DenseLost {
			if t == slot {
				return Drop
			}
		}
		return Deliver
	}
	if exh {
		x.relay.SetPhase("originals", fateMask(sc.LossA))
	} else if dense {
		x.relay.SetPhase("originals", fateDense)
	} else if sc.WeekLater {
		x.relay.SetPhase("originals", func(uint32, int) Fate { return Deliver })
	} else if sc.LateOrig {
		x.relay.SetPhase("originals", func(uint32, int) Fate { return Late })
	} else {
		x.relay.SetPhase("originals", fateRandom("o", 45, 30, 10, 15))
	}

	// ---- client
	entries := []refenc.MapEntry{{Pub: w.Key.Pub, Location: "127.0.0.1", HTTP: w.HTTP, TCP: x.proxy.Port, UDP: x.relay.Port}}
	for i := 0; i < sc.Decoys; i++ {
		e := entries[0]
		e.Pub = refenc.GenKey(rng).Pub
		if sc.DecoyHole {
			e.UDP = x.relay.HolePort
		}
		entries = append(entries, e)
	}
	x.cdir = filepath.Join(dir, "client")
	initial := "timestamp,energy\n"
	firstGroup := 0
	if sc.InitialG0 {
		initial = energyFile(sc.Rows, 0, glow.GenesisTime, sc.Seed)
		firstGroup = 1
	}
	env := &drv.ClientEnv{Dir: x.cdir, Key: dev.Key, GCA: w.GCA.Pub, ShortID: dev.ID, Servers: entries, HistoryOrigin: origin,
		Energy: &initial, LastSync: drv.FreshSyncStamp()}
	if err := env.Write(); err != nil {
		return inconc("client dir: %v", err)
	}
	x.trace("start client (history origin %d, %d map entries)", origin, len(entries))
	c, err := drv.StartClient(x.cdir)
	if err != nil {
		return inconc("client start: %v", err)
	}
	x.c = c
	closed := false
	closeClient := func() {
		if closed {
			return
		}
		closed = true
		done := make(chan struct{})
		go func() { c.Close(); close(done) }()
		select {
		case <-done:
		case <-time.After(20 * time.Second):
			r.Inconc(fmt.Sprintf("scenario %s/%d: client.Close did not return within 20s", sc.Kind, sc.Index))
		}
	}
	defer closeClient()

	// ---- originals
	lastEarly := sc.Groups - 1
	if sc.LateGroup {
		lastEarly--
	}
	for g := firstGroup; g <= lastEarly; g++ {
		if err := x.writeGroup(env, g); err != nil {
			return inconc("%v", err)
		}
	}
	if firstGroup > lastEarly {
		// nothing new to emit before the rounds; still let the loop run once
		if !waitTicks(client.VerifTicks() + 1) {
			return inconc("report loop does not tick")
		}
	}

	// ---- a reported row is rewritten by the meter
	if sc.RewriteTo != "" {
		rows2 := append([]row(nil), sc.Rows...)
		for i := range rows2 {
			if rows2[i].Slot == sc.RewriteAt {
				rows2[i].Text = sc.RewriteTo
			}
		}
		x.trace("energy row of slot %d is rewritten: %q", sc.RewriteAt, sc.RewriteTo)
		if err := env.WriteEnergy(energyFile(rows2, sc.Groups, glow.GenesisTime, sc.Seed)); err != nil {
			return inconc("%v", err)
		}
		if !waitTicks(client.VerifTicks() + 2) {
			return inconc("report loop did not advance 2 ticks within 30s")
		}
		if err := x.relay.Barrier(); err != nil {
			return inconc("%v", err)
		}
		r.Count("rows_rewritten_after_first_report", 1)
	}

	// ---- faulty rounds
	for k, fates := range sc.Rounds {
		x.proxy.SetPlan(fates)
		if exh {
			x.relay.SetPhase(fmt.Sprintf("round%d", k), fateMask(sc.LossB))
		} else if dense {
			x.relay.SetPhase(fmt.Sprintf("round%d", k), func(uint32, int) Fate { return Drop })
		} else if sc.LateOrig {
			x.relay.SetPhase(fmt.Sprintf("round%d", k), fateRandom(fmt.Sprintf("r%d", k), 20, 70, 10, 0))
		} else {
			x.relay.SetPhase(fmt.Sprintf("round%d", k), fateRandom(fmt.Sprintf("r%d", k), 50, 25, 10, 15))
		}
		x.trace("faulty sync round %d, connection fates %v", k, fates)
		ok, done := syncOnce(c, latest)
		if !done {
			closed = true // the client may be wedged; never call Close on it
			return inconc("VerifSyncOnce did not return within 30s in faulty round %d", k)
		}
		if ok {
			r.Count("sync_rounds_completed_under_faults", 1)
		} else {
			r.Count("sync_rounds_failed", 1)
		}
		if err := x.relay.Barrier(); err != nil {
			return inconc("%v", err)
		}
	}
	x.proxy.SetPlan(nil)

	// ---- the UDP port the device reports to is closed for a moment
	if sc.Event == "udpdown" {
		if err := x.relay.Barrier(); err != nil {
			return inconc("%v", err)
		}
		x.trace("UDP port of the device's server is closed; rows of group %d appear and are reported into the closed port", sc.Groups-1)
		x.relay.ClosePort()
		err := env.WriteEnergy(energyFile(sc.Rows, sc.Groups-1, glow.GenesisTime, sc.Seed))
		ticked := err == nil && waitTicks(client.VerifTicks()+2)
		if rerr := x.relay.ReopenPort(); rerr != nil {
			// the closed port number was taken by some other process of the host (it lies in the
			// ephemeral range): this scenario cannot go on, which says nothing about the client
			r.Count("scenarios_abandoned_port_taken_by_another_process", 1)
			x.trace("relay port could not be bound again: %v", rerr)
			return false
		}
		if err != nil || !ticked {
			return inconc("udp outage: energy file %v, loop ticked %v", err, ticked)
		}
		x.trace("UDP port is open again")
		if err := x.relay.Barrier(); err != nil {
			return inconc("%v", err)
		}
		r.Count("event.udpdown", 1)
	}

	// ---- transient descriptor shortage on the server
	if sc.Event == "fdshort" {
		if err := x.relay.Barrier(); err != nil {
			return inconc("%v", err)
		}
		x.trace("descriptor shortage: accept() fails on the server while a peer connects, then it heals")
		hit, err := descriptorShortage(w.TCP, func() int { return bytes.Count(w.ReadFile("server.log"), []byte("Failed to accept connection")) })
		if err != nil {
			return inconc("descriptor shortage set-up: %v", err)
		}
		if hit > 0 {
			r.Count("event.fdshort_accept_failures_seen", 1)
		}
		r.Count("event.fdshort", 1)
	}

	// ---- rotation / restart
	if strings.Contains(sc.Event, "restart") {
		x.trace("server goes down")
		x.relay.SetPhase("down", nil)
		// cut the path first (nothing is forwarded from here on), then let the server
		// finish what it was already handed: no datagram can fall between barrier and shutdown
		x.relay.SetTarget(0)
		x.proxy.SetTarget(0)
		if err := x.handledAll(); err != nil {
			return inconc("before restart: %v", err)
		}
		if err := w.Srv.Close(); err != nil {
			return inconc("server close: %v", err)
		}
		if sc.LateGroup {
			if err := x.writeGroup(env, sc.Groups-1); err != nil {
				return inconc("%v", err)
			}
		}
		x.trace("server comes back")
		arrived := drv.RotationArrive.Load()
		if err := w.Srv.Start(); err != nil {
			r.Violationf("server-does-not-restart", x.replay(nil), "server failed to start again on its directory: %v", err)
			return false
		}
		// the new instance's rotation loop must be parked at its gate before it can be stepped
		for dl := time.Now().Add(10 * time.Second); drv.RotationArrive.Load() == arrived; {
			if time.Now().After(dl) {
				return inconc("rotation loop of the restarted server did not reach its gate within 10s")
			}
			time.Sleep(200 * time.Microsecond)
		}
		if err := x.relay.SetTarget(w.UDP); err != nil {
			return inconc("relay re-target: %v", err)
		}
		x.proxy.SetTarget(w.TCP)
		r.Count("event.restart", 1)
	}
	if strings.Contains(sc.Event, "rotate") {
		x.trace("clock advances to %d, rotation steps", sc.Now1)
		drv.SetClock(sc.Now1)
		if n := drv.StepRotation(); n != 1 {
			return inconc("rotation did not happen when expected (now-offset=%d): %d", sc.Now1-O, n)
		}
		r.Count("event.rotate", 1)
	} else {
		drv.SetClock(sc.Now1)
	}
	if sc.WeekLater {
		x.trace("clock advances by one week to %d", sc.Now2)
		drv.SetClock(sc.Now2)
		x.relay.SetPhase("late-originals", func(uint32, int) Fate { return Drop })
		if err := x.writeGroup(env, sc.Groups-1); err != nil {
			return inconc("%v", err)
		}
		r.Count("event.week_later", 1)
	} else if sc.LateGroup && !strings.Contains(sc.Event, "restart") && sc.Event != "udpdown" {
		x.relay.SetPhase("late-originals", fateRandom("l", 45, 30, 10, 15))
		if err := x.writeGroup(env, sc.Groups-1); err != nil {
			return inconc("%v", err)
		}
	}

	// ---- final fault-free round
	x.relay.SetPhase("final", nil)
	x.relay.Flush()
	if err := x.delivered(); err != nil {
		return inconc("before final round: %v", err)
	}
	gone := func(what string) bool {
		if sc.Event == "fdshort" && w.S != nil && !goroutineIn("server.(*GCAServer).threadedListenForSyncRequests") {
			// certain, not a matter of timing: nobody accepts sync connections any more
			r.Violationf("sync-service-gone-after-descriptor-shortage", x.replay(nil),
				"after a transient descriptor shortage healed, %s and no goroutine of the process is in threadedListenForSyncRequests any more: the listening socket is open, nobody accepts - no sync round can ever complete again, lost reports are never recovered", what)
			return true
		}
		return false
	}
	pre, refused, err := x.rawSync()
	if err != nil || refused {
		if err != nil && gone("three raw sync requests went unanswered") {
			return false
		}
		return inconc("raw sync before the final round: refused=%v err=%v", refused, err)
	}
	// The server gives a sync connection 2.5 s of wall time; on a starved machine a
	// fault-free round can still fail. The property speaks of a round that completes,
	// so the fault-free round is repeated (at most 3 times) until one does.
	for try := 1; ; try++ {
		x.trace("final fault-free sync round (try %d)", try)
		ok, done := syncOnce(c, latest)
		if !done {
			closed = true
			return inconc("VerifSyncOnce did not return within 30s in the final round")
		}
		if ok {
			break
		}
		r.Count("final_round_repeated", 1)
		if try == 3 {
			if gone("three fault-free sync rounds in a row failed") {
				return false
			}
			return inconc("three fault-free sync rounds in a row did not complete")
		}
	}
	if err := x.delivered(); err != nil {
		return inconc("after final round: %v", err)
	}

	// ---- oracle
	x.trace("judge")
	now := drv.Clock()
	snap := w.S.VerifSnapshot(true)
	post, refused, err := x.rawSync()
	if refused {
		r.Violationf("sync-refused-for-authorized-device", x.replay(nil), "the server refused a raw sync request for the authorized device after the final round")
		return false
	}
	if err != nil {
		return inconc("raw sync after the final round failed three times: %v", err)
	}
	recs := snap.Reports[dev.ID]
	if recs == nil {
		return inconc("snapshot has no records for the device")
	}
	horigin, hist, err := readHistory(x.cdir)
	if err != nil {
		return inconc("history: %v", err)
	}
	r.Eval(1)
	r.Count("scenarios_judged", 1)
	if exh {
		r.Count("exhaustive_scenarios_judged", 1)
	}
	if cutoff {
		r.Count("cutoff_scenarios_judged", 1)
		exp, rec := 0, 0
		for i, v := range hist {
			if t := int64(horigin) + int64(i); v >= 2 && t < int64(now)-432 {
				exp++
			} else if v >= 2 && !pre.Bit(int(t-int64(pre.Offset))) && pre.Offset == snap.Offset {
				rec++
			}
		}
		r.Max("max.cutoff_expired_missing_slots", int64(exp))
		if exp >= 500 && rec > 0 {
			r.Count("cutoff.500_expired_then_recoverable_before_final_round", 1)
		}
	}
	if fdshort {
		r.Count("fdshort_scenarios_judged", 1)
	}
	if udpdown {
		r.Count("udpdown_scenarios_judged", 1)
	}
	if dense {
		r.Count("dense_scenarios_judged", 1)
		for _, t := range sc.DenseBound {
			idx := int(t - pre.Offset)
			if pre.Offset == snap.Offset && idx >= 8 && pre.Bitfield[idx/8-1] == 0xff && !pre.Bit(idx) {
				r.Count("dense.full_byte_then_missing_slot_before_final_round", 1)
			}
		}
	}
	var sig []string
	recoveredHere := 0
	readings := 0
	for i, v := range hist {
		if v < 2 {
			continue
		}
		readings++
		t := int64(horigin) + int64(i)
		inWindow := t >= int64(snap.Offset) && t < int64(snap.Offset)+4032
		inRange := t >= int64(now)-432 && t <= int64(now)+432
		if !inWindow || !inRange {
			r.Count("readings_not_required", 1)
			continue
		}
		idx := int(t - int64(snap.Offset))
		r.Count("required_slots", 1)
		cls := classOfStored(v)
		if recs[idx].PowerOutput == 0 {
			r.Violationf("lost-report-not-recovered", x.replay(map[string]interface{}{"slot": t, "stored_reading": v, "now": now, "offset": snap.Offset}),
				"after a completed fault-free sync round the server has no record for slot %d (now %d, window offset %d) although the client holds reading %d (%s)", t, now, snap.Offset, v, cls)
		}
		if !post.Bit(idx) || post.Offset != snap.Offset {
			if post.Offset != snap.Offset {
				r.Violationf("sync-offset-disagrees-with-state", x.replay(nil), "raw sync reports offset %d, snapshot %d", post.Offset, snap.Offset)
			} else {
				r.Violationf("lost-report-not-recovered-bitfield", x.replay(map[string]interface{}{"slot": t, "stored_reading": v}),
					"after a completed fault-free sync round a fresh sync bitfield still lacks slot %d (client reading %d, %s)", t, v, cls)
			}
		}
		if pre.Offset == snap.Offset && !pre.Bit(idx) && recs[idx].PowerOutput != 0 {
			recoveredHere++
			r.Count("recovered_slots", 1)
			r.Count("recovered."+cls, 1)
		}
	}
	r.Count("client_readings", int64(readings))
	// identical retransmissions
	first := map[uint32][]byte{}
	perSlot := map[uint32][]string{}
	log := x.relay.Log()
	for _, s := range log {
		r.Count("dgram.seen", 1)
		if s.Hole {
			r.Count("dgram.to_black_hole", 1)
		} else if s.Down {
			r.Count("dgram.server_down", 1)
		} else {
			r.Count("dgram.fate."+s.Fate.String(), 1)
		}
		if len(s.Bytes) != 80 || s.ID != dev.ID {
			r.Count("dgram.foreign", 1)
			continue
		}
		f := "x"
		if !s.Hole && !s.Down {
			f = s.Fate.String()[:2]
		}
		perSlot[s.Slot] = append(perSlot[s.Slot], s.Phase[:1]+f)
		if fb, ok := first[s.Slot]; !ok {
			first[s.Slot] = s.Bytes
		} else {
			r.Count("identity_comparisons", 1)
			if !bytes.Equal(fb, s.Bytes) {
				fr, _ := refenc.ParseReport(fb)
				lr, _ := refenc.ParseReport(s.Bytes)
				r.Violationf("retransmission-differs-from-original", x.replay(map[string]interface{}{"slot": s.Slot, "first": hex.EncodeToString(fb), "later": hex.EncodeToString(s.Bytes)}),
					"two different datagrams were emitted for slot %d: first power %d (0x%x), later (phase %s) power %d (0x%x)", s.Slot, fr.Power, fr.Power, s.Phase, lr.Power, lr.Power)
				break
			}
		}
	}
	// no banned slot
	for i := range recs {
		if recs[i].PowerOutput == 1 {
			r.Violationf("device-slot-banned-by-recovery", x.replay(map[string]interface{}{"slot": int64(snap.Offset) + int64(i)}),
				"slot %d of the device is banned on the server at the end of the scenario", int64(snap.Offset)+int64(i))
			break
		}
	}
	if recoveredHere > 0 {
		for _, rw := range sc.Rows {
			sig = append(sig, fmt.Sprintf("%d%s:%s", int64(rw.Slot)-int64(sc.Now0), rw.Class[:2], strings.Join(perSlot[rw.Slot], "")))
		}
		r.Nontrivial(fmt.Sprintf("%s|%v|%s|%d", strings.Join(sig, ","), x.proxy.AppliedLog(), sc.Event, sc.Decoys))
	}
	r.Max("max.retransmissions_in_one_scenario", int64(len(log)))
	if sc.Index%16 == 0 {
		r.Sample(map[string]interface{}{"kind": sc.Kind, "index": sc.Index, "seed": sc.Seed, "rows": sc.Rows, "event": sc.Event, "faulty_rounds": sc.Rounds,
			"decoys": sc.Decoys, "recovered_in_final_round": recoveredHere, "datagrams_seen": len(log), "proxy": x.proxy.AppliedLog()})
	}
	closeClient()
	return false
}

func childBase(b run.Batch, r *ev.Result) {
	var from, to int
	fmt.Sscan(b.P("from"), &from)
	fmt.Sscan(b.P("to"), &to)
	for i := from; i < to; i++ {
		sc := &scenario{Kind: b.Kind, Index: i}
		if b.Kind == "hdrrestart" {
			sc.Seed = b.Seed*1000003 + 680000 + int64(i)
			runHdrRestart(sc, b, r)
			continue
		}
		if b.Kind == "ownround" {
			sc.Seed = b.Seed*1000003 + 650000 + int64(i)
			runOwnRound(sc, b, r)
			continue
		}
		if b.Kind == "twoserver" {
			sc.Seed = b.Seed*1000003 + 600000 + int64(i)
			runTwoServer(sc, b, r)
			continue
		}
		if b.Kind == "cutoff" {
			sc.Seed = b.Seed*1000003 + 400000 + int64(i)
		} else if b.Kind == "fdshort" {
			sc.Seed = b.Seed*1000003 + 450000 + int64(i)
		} else if b.Kind == "udpdown" {
			sc.Seed = b.Seed*1000003 + 470000 + int64(i)
		} else if b.Kind == "dense" {
			sc.Seed = b.Seed*1000003 + 300000 + int64(i)
		} else if b.Kind == "exhaustive" {
			sc.Seed = b.Seed*1000003 + 7777
			sc.LossA = i >> exhaustiveM
			sc.LossB = i & (1<<exhaustiveM - 1)
		} else {
			sc.Seed = b.Seed*1000003 + int64(i)
		}
		runScenario(sc, b, r)
		if r.NumViolations() > 10 {
			return
		}
	}
}
