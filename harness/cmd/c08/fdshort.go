//go:build test

// Transient descriptor shortage (RLIMIT_NOFILE is process-wide: the scenario
// owns its child while it lasts). A raw socket is created beforehand; then the
// soft limit is lowered to the lowest free descriptor number and the holes
// below it are filled, so accept() fails with EMFILE on the server while the
// raw socket connects to its sync port; after 80 ms the limit is restored.
// The client in the same process only runs its report loop meanwhile (no sync
// round is started during the shortage; a failed energy-file read is a no-op).
package main

import (
	"os"
	"runtime"
	"sort"
	"strconv"
	"strings"
	"syscall"
	"time"
)

func lowestFreeFd() (int, error) {
	ents, err := os.ReadDir("/proc/self/fd")
	if err != nil {
		return 0, err
	}
	var fds []int
	for _, e := range ents {
		if n, err := strconv.Atoi(e.Name()); err == nil {
			fds = append(fds, n)
		}
	}
	sort.Ints(fds)
	return fds[len(fds)-1] + 1, nil
}

// descriptorShortage returns how many accept failures the server logged.
func descriptorShortage(tcpPort uint16, acceptFailures func() int) (int, error) {
	before := acceptFailures()
	fd, err := syscall.Socket(syscall.AF_INET, syscall.SOCK_STREAM, 0)
	if err != nil {
		return 0, err
	}
	defer syscall.Close(fd)
	var old syscall.Rlimit
	if err := syscall.Getrlimit(syscall.RLIMIT_NOFILE, &old); err != nil {
		return 0, err
	}
	limit, err := lowestFreeFd()
	if err != nil {
		return 0, err
	}
	if err := syscall.Setrlimit(syscall.RLIMIT_NOFILE, &syscall.Rlimit{Cur: uint64(limit), Max: old.Max}); err != nil {
		return 0, err
	}
	var filler []int
	for {
		f, err := syscall.Open("/dev/null", syscall.O_RDONLY, 0)
		if err != nil {
			break
		}
		filler = append(filler, f)
	}
	syscall.Connect(fd, &syscall.SockaddrInet4{Port: int(tcpPort), Addr: [4]byte{127, 0, 0, 1}})
	time.Sleep(80 * time.Millisecond)
	rerr := syscall.Setrlimit(syscall.RLIMIT_NOFILE, &old)
	for _, f := range filler {
		syscall.Close(f)
	}
	if rerr != nil {
		return 0, rerr
	}
	time.Sleep(20 * time.Millisecond)
	return acceptFailures() - before, nil
}

// goroutineIn reports whether any goroutine of the process has a frame of the
// given function (atomic snapshot).
func goroutineIn(fn string) bool {
	buf := make([]byte, 1<<20)
	for {
		n := runtime.Stack(buf, true)
		if n < len(buf) {
			buf = buf[:n]
			break
		}
		buf = make([]byte, 2*len(buf))
	}
	return strings.Contains(string(buf), fn)
}
