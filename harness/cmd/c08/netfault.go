//go:build test

// Fault-injecting network path between the real client and the real server:
// a UDP relay and a TCP proxy with ports that stay stable for a whole
// scenario (a server restart on new ephemeral ports only re-targets them).
package main

import (
	"encoding/binary"
	"fmt"
	"io"
	"net"
	"sync"
	"time"

	"github.com/glowlabs-org/gca-backend/client"
)

// ---------------------------------------------------------------- UDP relay

type Fate int

const (
	Drop Fate = iota
	Deliver
	Dup
	Late  // hold back until the next flush (arrives after whatever was sent in between)
	Delay // hold back, release behind the next 1..4 forwarded datagrams or at the next flush (reordering)
)

func (f Fate) String() string { return [...]string{"drop", "deliver", "dup", "late", "delay"}[f] }

// Seen is one datagram as the relay saw it (before any fate was applied).
type Seen struct {
	Slot  uint32
	ID    uint32
	Bytes []byte
	Tick  uint64 // client send.loop tick when it was read
	Phase string
	Fate  Fate
	Hole  bool // arrived on the black-hole port (decoy server entry): never forwarded
	Down  bool // server was down: not forwarded
}

type heldDgram struct {
	b    []byte
	left int // released once this many further datagrams have been forwarded
}

type Relay struct {
	in, hole  *net.UDPConn
	Port      uint16
	HolePort  uint16
	mu        sync.Mutex
	out       *net.UDPConn
	fate      func(slot uint32, occ int) Fate
	phase     string
	log       []Seen
	occ       map[uint32]int
	held      []heldDgram
	forwarded uint64
	fwdErr    uint64
	markers   map[uint64]chan struct{}
	nextMark  uint64
	wg        sync.WaitGroup
}

func listenUDP() (*net.UDPConn, uint16, error) {
	c, err := net.ListenUDP("udp", &net.UDPAddr{IP: net.ParseIP("127.0.0.1")})
	if err != nil {
		return nil, 0, err
	}
	c.SetReadBuffer(1 << 20)
	return c, uint16(c.LocalAddr().(*net.UDPAddr).Port), nil
}

func NewRelay() (*Relay, error) {
	r := &Relay{occ: map[uint32]int{}, markers: map[uint64]chan struct{}{}, phase: "init",
		fate: func(uint32, int) Fate { return Deliver }}
	var err error
	if r.in, r.Port, err = listenUDP(); err != nil {
		return nil, err
	}
	if r.hole, r.HolePort, err = listenUDP(); err != nil {
		r.in.Close()
		return nil, err
	}
	r.wg.Add(2)
	go r.read(r.in, false)
	go r.read(r.hole, true)
	return r, nil
}

// ClosePort really closes the relay's UDP port (a datagram sent to it is answered
// with ICMP port unreachable); ReopenPort binds the same port number again.
func (r *Relay) ClosePort() {
	r.mu.Lock()
	c := r.in
	r.mu.Unlock()
	c.Close()
}

func (r *Relay) ReopenPort() error {
	var c *net.UDPConn
	var err error
	for try := 0; try < 1500; try++ { // another process may hold the number for a moment as an ephemeral source port
		if c, err = net.ListenUDP("udp", &net.UDPAddr{IP: net.ParseIP("127.0.0.1"), Port: int(r.Port)}); err == nil {
			break
		}
		time.Sleep(2 * time.Millisecond)
	}
	if err != nil {
		return err
	}
	c.SetReadBuffer(1 << 20)
	r.mu.Lock()
	r.in = c
	r.mu.Unlock()
	r.wg.Add(1)
	go r.read(c, false)
	return nil
}

func (r *Relay) read(c *net.UDPConn, hole bool) {
	defer r.wg.Done()
	buf := make([]byte, 2048)
	for {
		n, _, err := c.ReadFromUDP(buf)
		if err != nil {
			return
		}
		b := append([]byte(nil), buf[:n]...)
		r.mu.Lock()
		if n == 9 && b[0] == 'M' {
			id := binary.LittleEndian.Uint64(b[1:])
			if ch, ok := r.markers[id]; ok {
				close(ch)
				delete(r.markers, id)
			}
			r.mu.Unlock()
			continue
		}
		s := Seen{Bytes: b, Tick: client.VerifTicks(), Phase: r.phase, Hole: hole}
		if n >= 8 {
			s.ID = binary.LittleEndian.Uint32(b[0:])
			s.Slot = binary.LittleEndian.Uint32(b[4:])
		}
		occ := r.occ[s.Slot]
		r.occ[s.Slot]++
		switch {
		case hole:
			s.Fate = Drop
		case r.out == nil:
			s.Fate = Drop
			s.Down = true
		default:
			s.Fate = r.fate(s.Slot, occ)
			switch s.Fate {
			case Deliver:
				r.forward(b)
				r.release()
			case Dup:
				r.forward(b)
				r.forward(b)
				r.release()
			case Late:
				r.held = append(r.held, heldDgram{b, 1 << 30})
			case Delay:
				r.held = append(r.held, heldDgram{b, 1 + int(b[len(b)-1])%4})
			}
		}
		r.log = append(r.log, s)
		r.mu.Unlock()
	}
}

// forward and release are called with r.mu held.
func (r *Relay) forward(b []byte) {
	if r.out == nil {
		return
	}
	if _, err := r.out.Write(b); err != nil {
		r.fwdErr++
		return
	}
	r.forwarded++
}

func (r *Relay) release() {
	var keep, out []heldDgram
	for _, h := range r.held {
		h.left--
		if h.left <= 0 {
			out = append(out, h)
		} else {
			keep = append(keep, h)
		}
	}
	r.held = keep
	for _, h := range out {
		r.forward(h.b)
	}
}

// Flush forwards every held-back datagram.
func (r *Relay) Flush() {
	r.mu.Lock()
	for _, h := range r.held {
		r.forward(h.b)
	}
	r.held = nil
	r.mu.Unlock()
}

// SetPhase installs the fate function for the datagrams to come.
func (r *Relay) SetPhase(name string, fate func(slot uint32, occ int) Fate) {
	r.mu.Lock()
	r.phase = name
	if fate == nil {
		fate = func(uint32, int) Fate { return Deliver }
	}
	r.fate = fate
	r.mu.Unlock()
}

// SetTarget points the relay at the server's UDP port; 0 = server is down.
func (r *Relay) SetTarget(port uint16) error {
	r.mu.Lock()
	defer r.mu.Unlock()
	if r.out != nil {
		r.out.Close()
		r.out = nil
	}
	if port == 0 {
		r.held = nil // whatever was still in flight dies with the path
		return nil
	}
	c, err := net.DialUDP("udp", nil, &net.UDPAddr{IP: net.ParseIP("127.0.0.1"), Port: int(port)})
	if err != nil {
		return err
	}
	r.out = c
	return nil
}

func (r *Relay) Forwarded() uint64 {
	r.mu.Lock()
	defer r.mu.Unlock()
	return r.forwarded
}

func (r *Relay) Log() []Seen {
	r.mu.Lock()
	defer r.mu.Unlock()
	return append([]Seen(nil), r.log...)
}

// Barrier returns once every datagram that was sent to the relay before the
// call has been read and processed: marker datagrams are queued behind them
// in the sockets' receive queues (loopback delivery is synchronous with the
// sender's write). A lost marker yields an error (inconclusive), no verdict.
func (r *Relay) Barrier() error {
	for _, port := range []uint16{r.Port, r.HolePort} {
		r.mu.Lock()
		r.nextMark++
		id := r.nextMark
		ch := make(chan struct{})
		r.markers[id] = ch
		r.mu.Unlock()
		c, err := net.DialUDP("udp", nil, &net.UDPAddr{IP: net.ParseIP("127.0.0.1"), Port: int(port)})
		if err != nil {
			return err
		}
		m := make([]byte, 9)
		m[0] = 'M'
		binary.LittleEndian.PutUint64(m[1:], id)
		_, err = c.Write(m)
		c.Close()
		if err != nil {
			return err
		}
		select {
		case <-ch:
		case <-time.After(20 * time.Second):
			return fmt.Errorf("relay marker was not read within 20s")
		}
	}
	return nil
}

func (r *Relay) Close() {
	r.mu.Lock()
	in := r.in
	r.mu.Unlock()
	in.Close()
	r.hole.Close()
	r.wg.Wait()
	r.mu.Lock()
	if r.out != nil {
		r.out.Close()
		r.out = nil
	}
	r.mu.Unlock()
}

// ---------------------------------------------------------------- TCP proxy

type TCPFate struct {
	Kind string `json:"kind"` // refuse | reset | short | garble | pass
	K    int    `json:"k,omitempty"`
}

type Proxy struct {
	ln      net.Listener
	Port    uint16
	mu      sync.Mutex
	target  uint16
	plan    []TCPFate
	Applied []string // what every connection got, in accept order
	wg      sync.WaitGroup
}

func NewProxy() (*Proxy, error) {
	ln, err := net.Listen("tcp", "127.0.0.1:0")
	if err != nil {
		return nil, err
	}
	p := &Proxy{ln: ln, Port: uint16(ln.Addr().(*net.TCPAddr).Port)}
	p.wg.Add(1)
	go func() {
		defer p.wg.Done()
		for {
			c, err := ln.Accept()
			if err != nil {
				return
			}
			p.mu.Lock()
			f := TCPFate{Kind: "pass"}
			if len(p.plan) > 0 {
				f = p.plan[0]
				p.plan = p.plan[1:]
			}
			tgt := p.target
			if tgt == 0 {
				f = TCPFate{Kind: "down"}
			}
			p.Applied = append(p.Applied, f.Kind)
			p.mu.Unlock()
			p.wg.Add(1)
			go func() {
				defer p.wg.Done()
				p.handle(c.(*net.TCPConn), f, tgt)
			}()
		}
	}()
	return p, nil
}

func (p *Proxy) handle(c *net.TCPConn, f TCPFate, tgt uint16) {
	defer c.Close()
	c.SetDeadline(time.Now().Add(8 * time.Second))
	if f.Kind == "refuse" || f.Kind == "down" {
		return
	}
	req := make([]byte, 4)
	if _, err := io.ReadFull(c, req); err != nil {
		return
	}
	if f.Kind == "reset" {
		c.SetLinger(0)
		return
	}
	s, err := net.DialTimeout("tcp", fmt.Sprintf("127.0.0.1:%d", tgt), 5*time.Second)
	if err != nil {
		return
	}
	defer s.Close()
	s.SetDeadline(time.Now().Add(8 * time.Second))
	if _, err := s.Write(req); err != nil {
		return
	}
	reply, _ := io.ReadAll(s)
	switch f.Kind {
	case "short":
		k := f.K
		if len(reply) > 0 {
			k %= len(reply) // strictly shorter than the genuine reply
		} else {
			k = 0
		}
		reply = reply[:k]
	case "garble":
		if len(reply) > 2 {
			i := 2 + f.K%(len(reply)-2)
			reply = append([]byte(nil), reply...)
			reply[i] ^= 1 << (uint(f.K) % 8)
		}
	}
	c.Write(reply)
}

func (p *Proxy) SetTarget(port uint16) {
	p.mu.Lock()
	p.target = port
	p.mu.Unlock()
}

// SetPlan installs the fates of the next connections; nil = pass everything.
func (p *Proxy) SetPlan(plan []TCPFate) {
	p.mu.Lock()
	p.plan = append([]TCPFate(nil), plan...)
	p.mu.Unlock()
}

func (p *Proxy) AppliedLog() []string {
	p.mu.Lock()
	defer p.mu.Unlock()
	return append([]string(nil), p.Applied...)
}

func (p *Proxy) Close() {
	p.ln.Close()
	p.wg.Wait()
}
