//go:build test

// The client's OWN background sync round as the fault-free round. With a stale
// last-sync stamp the report loop launches a round at the end of pass 1, 4, 7 …
// (ticks%4==3 after each launch) while no round has succeeded. The first round
// is refused by the proxy. New energy rows are made to appear exactly in pass 4,
// the pass that launches the second round (send.loop hook, run by the loop
// itself before it reads the file); their originals are lost in the network.
// When the client has recorded a successful sync (last-sync.txt rewritten,
// which happens after its last retransmission) and everything was delivered,
// the usual oracle applies: every in-window, in-range slot the history holds is
// on the server. No VerifSyncOnce is used here.
package main

import (
	"bytes"
	"encoding/hex"
	"fmt"
	"math/rand"
	"os"
	"path/filepath"
	"strings"
	"time"

	"github.com/glowlabs-org/gca-backend/client"
	"github.com/glowlabs-org/gca-backend/glow"
	"github.com/glowlabs-org/gca-backend/server"

	"verifharness/lib/drv"
	"verifharness/lib/ev"
	"verifharness/lib/refenc"
	"verifharness/lib/run"
)

func runOwnRound(sc *scenario, b run.Batch, r *ev.Result) {
	rng := rand.New(rand.NewSource(sc.Seed))
	inconc := func(f string, a ...interface{}) {
		r.Inconc(fmt.Sprintf("scenario ownround/%d (seed %d): ", sc.Index, sc.Seed) + fmt.Sprintf(f, a...))
		r.Count("scenarios_inconclusive", 1)
	}
	trace := func(f string, a ...interface{}) {
		s := fmt.Sprintf(f, a...)
		sc.PhaseTrace = append(sc.PhaseTrace, s)
		run.Op("scenario ownround/%d: %s", sc.Index, s)
	}
	dir := filepath.Join(b.Dir, fmt.Sprintf("o%d", sc.Index))
	defer os.RemoveAll(dir)
	drv.SetClock(0)
	drv.GateRotation(true)
	drv.GateImpact(true)
	var w *drv.World
	var err error
	for try := 0; try < 3; try++ {
		if w, err = drv.NewWorld(filepath.Join(dir, fmt.Sprintf("srv%d", try)), rng); err == nil {
			break
		}
		r.Count("world_setup_retried", 1)
	}
	if err != nil {
		inconc("cannot start world: %v", err)
		return
	}
	defer w.Close()
	var dev *drv.Dev
	for try := 0; try < 3; try++ {
		if dev, err = w.AddDevice(1+uint32(rng.Intn(1<<20))+uint32(try), 1<<40); err == nil {
			break
		}
	}
	if err != nil {
		inconc("%v", err)
		return
	}
	O := w.S.VerifSnapshot(false).Offset
	sc.Offset = O
	sc.Now0 = O + 500 + uint32(rng.Intn(2500))
	sc.Now1 = sc.Now0
	drv.SetClock(sc.Now0)
	// group 0: present at start (never sent); group 1: appears in the launching pass
	na, nb := 2+rng.Intn(6), 1+rng.Intn(4)
	first := sc.Now0 - uint32(rng.Intn(40)) - uint32(na+nb)
	newRows := map[uint32]bool{}
	for i := 0; i < na+nb; i++ {
		cl := []string{"positive", "negative", "sentinel", "unparsable"}[pick(uint64(rng.Int63()), 40, 30, 15, 15)]
		g := 0
		if i >= na {
			g = 1
			newRows[first+uint32(i)] = true
		}
		sc.Rows = append(sc.Rows, row{Slot: first + uint32(i), Class: cl, Text: genValue(rng, cl), Group: g})
	}
	sc.Groups = 2
	base := server.VerifUDPHandled()
	relay, err := NewRelay()
	if err != nil {
		inconc("relay: %v", err)
		return
	}
	defer relay.Close()
	proxy, err := NewProxy()
	if err != nil {
		inconc("proxy: %v", err)
		return
	}
	defer proxy.Close()
	if err := relay.SetTarget(w.UDP); err != nil {
		inconc("relay target: %v", err)
		return
	}
	proxy.SetTarget(w.TCP)
	proxy.SetPlan([]TCPFate{{Kind: []string{"refuse", "reset"}[rng.Intn(2)]}})
	// the first datagram of a new row is its original: lost. Everything else is delivered.
	relay.SetPhase("all", func(slot uint32, occ int) Fate {
		if newRows[slot] && occ == 0 {
			return Drop
		}
		return Deliver
	})
	cdir := filepath.Join(dir, "client")
	initial := energyFile(sc.Rows, 0, glow.GenesisTime, sc.Seed)
	env := &drv.ClientEnv{Dir: cdir, Key: dev.Key, GCA: w.GCA.Pub, ShortID: dev.ID,
		Servers:       []refenc.MapEntry{{Pub: w.Key.Pub, Location: "127.0.0.1", HTTP: w.HTTP, TCP: proxy.Port, UDP: relay.Port}},
		HistoryOrigin: first, Energy: &initial, LastSync: drv.StaleSyncStamp()}
	if err := env.Write(); err != nil {
		inconc("client dir: %v", err)
		return
	}
	T0 := client.VerifTicks()
	full := energyFile(sc.Rows, 1, glow.GenesisTime, sc.Seed)
	wrote := make(chan error, 1)
	client.VerifSetHook("send.loop", func(*client.Client) {
		if client.VerifTicks() == T0+4 {
			// pass 4 is about to read the file: the new rows are first reported in the very
			// pass that launches the next background round
			wrote <- env.WriteEnergy(full)
		}
	})
	defer client.VerifClearHooks()
	trace("start client (stale stamp), %d rows present, %d rows will appear in pass 4; first round is refused", na, nb)
	c, err := drv.StartClient(cdir)
	if err != nil {
		inconc("client start: %v", err)
		return
	}
	closed := false
	closeClient := func() {
		if closed {
			return
		}
		closed = true
		done := make(chan struct{})
		go func() { c.Close(); close(done) }()
		select {
		case <-done:
		case <-time.After(20 * time.Second):
			r.Inconc(fmt.Sprintf("scenario ownround/%d: client.Close did not return within 20s", sc.Index))
		}
	}
	defer closeClient()
	select {
	case err := <-wrote:
		if err != nil {
			inconc("energy file: %v", err)
			return
		}
	case <-time.After(30 * time.Second):
		inconc("report loop did not reach pass 4 within 30s")
		return
	}
	// ---- wait until the client itself has recorded a successful sync
	syncFile := filepath.Join(cdir, client.LastSyncFile)
	for dl := time.Now().Add(40 * time.Second); ; time.Sleep(time.Millisecond) {
		if raw, err := os.ReadFile(syncFile); err == nil && len(raw) > 0 && strings.TrimSpace(string(raw)) != "0" {
			break
		}
		if client.VerifTicks() > T0+90 || time.Now().After(dl) {
			inconc("the client's own rounds did not succeed within 90 ticks / 40s (liveness of background rounds is C11's subject)")
			return
		}
	}
	trace("the client recorded a successful sync at tick %d", client.VerifTicks()-T0)
	if err := relay.Barrier(); err != nil {
		inconc("%v", err)
		return
	}
	for dl := time.Now().Add(30 * time.Second); ; time.Sleep(200 * time.Microsecond) {
		f, h := relay.Forwarded(), server.VerifUDPHandled()-base
		if h == f {
			break
		}
		if h > f || time.Now().After(dl) {
			inconc("server handled %d datagrams, relay forwarded %d", h, f)
			return
		}
	}
	// ---- oracle
	now := drv.Clock()
	snap := w.S.VerifSnapshot(true)
	var post refenc.SyncReply
	var refused bool
	for try := 0; try < 3; try++ {
		if post, refused, err = w.Sync(dev.ID); err == nil {
			break
		}
	}
	if err != nil || refused {
		inconc("raw sync: refused=%v err=%v", refused, err)
		return
	}
	recs := snap.Reports[dev.ID]
	horigin, hist, err := readHistory(cdir)
	if err != nil || recs == nil {
		inconc("history / snapshot unavailable: %v", err)
		return
	}
	log := relay.Log()
	replay := func(extra map[string]interface{}) map[string]interface{} {
		m := map[string]interface{}{"scenario": sc, "proxy_applied": proxy.AppliedLog()}
		var dl []string
		for _, s := range log {
			dl = append(dl, fmt.Sprintf("tick=%d slot=%d fate=%s bytes=%s", s.Tick-T0, s.Slot, s.Fate, hex.EncodeToString(s.Bytes)))
		}
		m["datagrams"] = dl
		for k, v := range extra {
			m[k] = v
		}
		return m
	}
	r.Eval(1)
	r.Count("scenarios_judged", 1)
	r.Count("ownround_scenarios_judged", 1)
	lostOrig := 0
	for _, s := range log {
		if newRows[s.Slot] && s.Fate == Drop && s.Tick == T0+4 {
			lostOrig++
		}
	}
	if lostOrig == nb {
		r.Count("ownround.rows_first_reported_in_the_launching_pass_and_lost", 1)
	}
	for i, v := range hist {
		if v < 2 {
			continue
		}
		t := int64(horigin) + int64(i)
		if t < int64(snap.Offset) || t >= int64(snap.Offset)+4032 || t < int64(now)-432 || t > int64(now)+432 {
			r.Count("readings_not_required", 1)
			continue
		}
		idx := int(t - int64(snap.Offset))
		r.Count("required_slots", 1)
		if recs[idx].PowerOutput == 0 {
			r.Violationf("lost-report-not-recovered", replay(map[string]interface{}{"slot": t, "stored_reading": v, "first_reported_in_launching_pass": newRows[uint32(t)]}),
				"the client completed a fault-free background sync round (last-sync.txt rewritten) and all its retransmissions were delivered, yet the server has no record for slot %d although the client holds reading %d (%s)", t, v, classOfStored(v))
		} else if !post.Bit(idx) {
			r.Violationf("lost-report-not-recovered-bitfield", replay(map[string]interface{}{"slot": t}), "a fresh sync bitfield lacks slot %d after the client's completed round", t)
		} else {
			r.Count("recovered_slots", 1)
			r.Count("recovered."+classOfStored(v), 1)
		}
		if recs[idx].PowerOutput == 1 {
			r.Violationf("device-slot-banned-by-recovery", replay(map[string]interface{}{"slot": t}), "slot %d of the device is banned on the server", t)
		}
	}
	firstSeen := map[uint32][]byte{}
	for _, s := range log {
		r.Count("dgram.seen", 1)
		if len(s.Bytes) != 80 || s.ID != dev.ID {
			continue
		}
		if fb, ok := firstSeen[s.Slot]; !ok {
			firstSeen[s.Slot] = s.Bytes
		} else {
			r.Count("identity_comparisons", 1)
			if !bytes.Equal(fb, s.Bytes) {
				r.Violationf("retransmission-differs-from-original", replay(map[string]interface{}{"slot": s.Slot}), "two different datagrams were emitted for slot %d", s.Slot)
				break
			}
		}
	}
	r.Nontrivial(fmt.Sprintf("ownround|%d|%d|%v", na, nb, proxy.AppliedLog()))
	closeClient()
}
