//go:build test

// Two-server scenarios: two real servers hold the device; sync round A
// completes against one of them (X) and is still re-sending several hundred
// reports (1 ms apart) when round B, started in a second goroutine, is refused
// by X and completes against the other server (Y), making Y the primary.
// Retransmissions belong to the server whose bitfield asked for them: after
// both rounds returned and everything was delivered, every server whose round
// completed must hold every in-window, in-range slot the client has a reading
// for. Which of the two servers becomes X is decided by the client's own
// random choice and read off the relays; the verdict does not depend on it.
package main

import (
	"bytes"
	"encoding/hex"
	"fmt"
	"math/rand"
	"os"
	"path/filepath"
	"time"

	"github.com/glowlabs-org/gca-backend/client"
	"github.com/glowlabs-org/gca-backend/glow"
	"github.com/glowlabs-org/gca-backend/server"

	"verifharness/lib/drv"
	"verifharness/lib/ev"
	"verifharness/lib/refenc"
	"verifharness/lib/run"
)

type side struct {
	w     *drv.World
	relay *Relay
	proxy *Proxy
}

func runTwoServer(sc *scenario, b run.Batch, r *ev.Result) {
	rng := rand.New(rand.NewSource(sc.Seed))
	inconc := func(f string, a ...interface{}) {
		r.Inconc(fmt.Sprintf("scenario twoserver/%d (seed %d): ", sc.Index, sc.Seed) + fmt.Sprintf(f, a...))
		r.Count("scenarios_inconclusive", 1)
	}
	trace := func(f string, a ...interface{}) {
		s := fmt.Sprintf(f, a...)
		sc.PhaseTrace = append(sc.PhaseTrace, s)
		run.Op("scenario twoserver/%d: %s", sc.Index, s)
	}
	dir := filepath.Join(b.Dir, fmt.Sprintf("t%d", sc.Index))
	defer os.RemoveAll(dir)
	drv.SetClock(0)
	drv.GateRotation(true)
	drv.GateImpact(true)
	trace("start two servers")
	var sd [2]*side
	devID := 1 + uint32(rng.Intn(1<<20))
	var dev *drv.Dev
	for i := range sd {
		var w *drv.World
		var err error
		for try := 0; try < 3; try++ {
			if w, err = drv.NewWorld(filepath.Join(dir, fmt.Sprintf("srv%d_%d", i, try)), rng); err == nil {
				break
			}
			r.Count("world_setup_retried", 1)
		}
		if err != nil {
			inconc("cannot start world %d: %v", i, err)
			return
		}
		defer w.Close()
		sd[i] = &side{w: w}
		if i == 0 {
			for try := 0; try < 3; try++ {
				if dev, err = w.AddDevice(devID, 1<<40); err == nil {
					break
				}
			}
		} else {
			for try := 0; try < 3; try++ {
				var st int
				var body []byte
				if st, body, err = w.Authorize(w.MkAuth(devID, dev.Key.Pub, 1<<40)); err == nil && st != 200 {
					err = fmt.Errorf("status %d %s", st, body)
				}
				if err == nil {
					break
				}
			}
		}
		if err != nil {
			inconc("cannot authorize the device on server %d: %v", i, err)
			return
		}
	}
	O := sd[0].w.S.VerifSnapshot(false).Offset
	if o1 := sd[1].w.S.VerifSnapshot(false).Offset; o1 != O {
		inconc("servers start with different window offsets %d / %d", O, o1)
		return
	}
	sc.Offset = O
	n := 300 + rng.Intn(200)
	sc.Now0 = O + 600 + uint32(rng.Intn(2000))
	sc.Now1 = sc.Now0
	drv.SetClock(sc.Now0)
	first := sc.Now0 - uint32(n/2)
	for i := 0; i < n; i++ {
		cl := []string{"positive", "negative", "sentinel", "unparsable"}[pick(uint64(rng.Int63()), 40, 30, 15, 15)]
		sc.Rows = append(sc.Rows, row{Slot: first + uint32(i), Class: cl, Text: genValue(rng, cl)})
	}
	latest := first + uint32(n) - 1
	base := server.VerifUDPHandled()
	var entries []refenc.MapEntry
	for i := range sd {
		var err error
		if sd[i].relay, err = NewRelay(); err != nil {
			inconc("relay: %v", err)
			return
		}
		defer sd[i].relay.Close()
		if sd[i].proxy, err = NewProxy(); err != nil {
			inconc("proxy: %v", err)
			return
		}
		defer sd[i].proxy.Close()
		if err := sd[i].relay.SetTarget(sd[i].w.UDP); err != nil {
			inconc("relay target: %v", err)
			return
		}
		sd[i].proxy.SetTarget(sd[i].w.TCP)
		// every original is lost: both servers start without a single report
		sd[i].relay.SetPhase("originals", func(uint32, int) Fate { return Drop })
		entries = append(entries, refenc.MapEntry{Pub: sd[i].w.Key.Pub, Location: "127.0.0.1", HTTP: sd[i].w.HTTP, TCP: sd[i].proxy.Port, UDP: sd[i].relay.Port})
	}
	handledAll := func() error {
		for i := range sd {
			if err := sd[i].relay.Barrier(); err != nil {
				return err
			}
		}
		dl := time.Now().Add(30 * time.Second)
		for {
			f := sd[0].relay.Forwarded() + sd[1].relay.Forwarded()
			h := server.VerifUDPHandled() - base
			if h == f {
				return nil
			}
			if h > f {
				return fmt.Errorf("servers handled %d datagrams but the relays forwarded only %d", h, f)
			}
			if time.Now().After(dl) {
				return fmt.Errorf("servers handled %d of %d forwarded datagrams within 30s", h, f)
			}
			time.Sleep(200 * time.Microsecond)
		}
	}
	cdir := filepath.Join(dir, "client")
	empty := "timestamp,energy\n"
	env := &drv.ClientEnv{Dir: cdir, Key: dev.Key, GCA: sd[0].w.GCA.Pub, ShortID: dev.ID, Servers: entries, HistoryOrigin: first,
		Energy: &empty, LastSync: drv.FreshSyncStamp()}
	if err := env.Write(); err != nil {
		inconc("client dir: %v", err)
		return
	}
	trace("start client, %d consecutive slots from %d", n, first)
	c, err := drv.StartClient(cdir)
	if err != nil {
		inconc("client start: %v", err)
		return
	}
	closed := false
	closeClient := func() {
		if closed {
			return
		}
		closed = true
		done := make(chan struct{})
		go func() { c.Close(); close(done) }()
		select {
		case <-done:
		case <-time.After(20 * time.Second):
			r.Inconc(fmt.Sprintf("scenario twoserver/%d: client.Close did not return within 20s", sc.Index))
		}
	}
	defer closeClient()
	if err := env.WriteEnergy(energyFile(sc.Rows, 0, glow.GenesisTime, sc.Seed)); err != nil {
		inconc("%v", err)
		return
	}
	if !waitTicks(client.VerifTicks() + 2) {
		inconc("report loop did not advance 2 ticks within 30s")
		return
	}
	for i := range sd {
		if err := sd[i].relay.Barrier(); err != nil {
			inconc("%v", err)
			return
		}
		sd[i].relay.SetPhase("rounds", nil)
	}

	// ---- round A: completes against whichever server the client draws (= X)
	trace("round A starts")
	ra := make(chan bool, 1)
	go func() { ra <- c.VerifSyncOnce(latest) }()
	inRounds := func(i int) int {
		k := 0
		for _, s := range sd[i].relay.Log() {
			if s.Phase == "rounds" {
				k++
			}
		}
		return k
	}
	X := -1
	aDone, okA := false, false
	for dl := time.Now().Add(40 * time.Second); X < 0; time.Sleep(200 * time.Microsecond) {
		for i := range sd {
			if inRounds(i) >= 5 {
				X = i
			}
		}
		select {
		case okA = <-ra:
			aDone = true
		default:
		}
		if aDone && X < 0 {
			inconc("round A returned %v before it re-sent anything", okA)
			return
		}
		if time.Now().After(dl) {
			closed = true
			inconc("round A did not start re-sending within 40s")
			return
		}
	}
	Y := 1 - X
	// ---- round B: X refuses, so B completes against Y and makes Y the primary
	sd[X].proxy.SetPlan([]TCPFate{{Kind: "refuse"}, {Kind: "refuse"}, {Kind: "refuse"}})
	trace("round A is re-sending to server %d; round B starts, server %d refuses it", X, X)
	rb := make(chan bool, 1)
	go func() { rb <- c.VerifSyncOnce(latest) }()
	overlapped := false // B reached the other server (and made it primary) while A was still re-sending
	bDone, okB := false, false
	for dl := time.Now().Add(60 * time.Second); !(aDone && bDone); time.Sleep(200 * time.Microsecond) {
		if !aDone {
			select {
			case okA = <-ra:
				aDone = true
			default:
				if !overlapped && inRounds(Y) > 0 {
					overlapped = true
				}
			}
		}
		if !bDone {
			select {
			case okB = <-rb:
				bDone = true
			default:
			}
		}
		if time.Now().After(dl) {
			closed = true
			inconc("rounds A/B did not both return within 60s (A done: %v, B done: %v)", aDone, bDone)
			return
		}
	}
	sd[X].proxy.SetPlan(nil)
	if !okA {
		inconc("round A did not complete although it was re-sending")
		return
	}
	if err := handledAll(); err != nil {
		inconc("%v", err)
		return
	}

	// ---- oracle: every server whose round completed holds every required slot
	trace("judge (round B completed: %v, overlapped: %v)", okB, overlapped)
	now := drv.Clock()
	horigin, hist, err := readHistory(cdir)
	if err != nil {
		inconc("history: %v", err)
		return
	}
	r.Eval(1)
	r.Count("scenarios_judged", 1)
	r.Count("two_server.scenarios_judged", 1)
	if overlapped {
		r.Count("two_server.round_b_reached_other_server_while_round_a_was_resending", 1)
	}
	if okB && inRounds(Y) > 0 {
		r.Count("two_server.round_b_ended_on_the_other_server", 1)
	}
	replay := func(extra map[string]interface{}) map[string]interface{} {
		rows := sc.Rows
		sc2 := *sc
		sc2.Rows = nil
		m := map[string]interface{}{"scenario": sc2, "first_slot": first, "slots": len(rows), "X": X, "proxy_X": sd[X].proxy.AppliedLog(), "proxy_Y": sd[Y].proxy.AppliedLog(),
			"datagrams_seen_by_relay_X": len(sd[X].relay.Log()), "datagrams_seen_by_relay_Y": len(sd[Y].relay.Log())}
		for k, v := range extra {
			m[k] = v
		}
		return m
	}
	judge := func(i int, name string) {
		snap := sd[i].w.S.VerifSnapshot(true)
		var post refenc.SyncReply
		var refused bool
		var err error
		for try := 0; try < 3; try++ {
			if post, refused, err = sd[i].w.Sync(dev.ID); err == nil {
				break
			}
		}
		if err != nil || refused {
			inconc("raw sync with server %s: refused=%v err=%v", name, refused, err)
			return
		}
		recs := snap.Reports[dev.ID]
		if recs == nil {
			inconc("snapshot of server %s has no records for the device", name)
			return
		}
		missing, firstMissing := 0, int64(-1)
		for k, v := range hist {
			if v < 2 {
				continue
			}
			t := int64(horigin) + int64(k)
			if t < int64(snap.Offset) || t >= int64(snap.Offset)+4032 || t < int64(now)-432 || t > int64(now)+432 {
				r.Count("readings_not_required", 1)
				continue
			}
			idx := int(t - int64(snap.Offset))
			r.Count("required_slots", 1)
			if recs[idx].PowerOutput == 0 || !post.Bit(idx) {
				missing++
				if firstMissing < 0 {
					firstMissing = t
				}
			} else {
				r.Count("recovered_slots", 1)
				r.Count("recovered."+classOfStored(v), 1)
			}
			if recs[idx].PowerOutput == 1 {
				r.Violationf("device-slot-banned-by-recovery", replay(map[string]interface{}{"slot": t, "server": name}), "slot %d of the device is banned on server %s", t, name)
			}
		}
		if missing > 0 {
			r.Violationf("lost-report-not-recovered", replay(map[string]interface{}{"server": name, "missing": missing, "first_missing_slot": firstMissing}),
				"a sync round completed against server %s and every datagram was delivered, yet %d slots the client has a reading for are missing there (first: %d); relay of that server saw %d datagrams",
				name, missing, firstMissing, len(sd[i].relay.Log()))
		}
	}
	judge(X, "X")
	if okB && inRounds(Y) > 0 {
		judge(Y, "Y")
	}
	// ---- phase C: a server that has confirmed everything loses its report log. What one
	// server (or an earlier life of the same server) confirmed says nothing about another:
	// a round that completes against a server whose bitfield asks for slots is answered with
	// those slots.
	if okB && inRounds(Y) > 0 && r.NumViolations() == 0 {
		round := func(what string) (bool, bool) {
			ch := make(chan bool, 1)
			go func() { ch <- c.VerifSyncOnce(latest) }()
			select {
			case ok := <-ch:
				return ok, true
			case <-time.After(60 * time.Second):
				closed = true
				inconc("%s did not return within 60s", what)
				return false, false
			}
		}
		trace("round C: both servers hold every report, whichever answers confirms all of them")
		if _, ok := round("round C"); !ok {
			return
		}
		if err := handledAll(); err != nil {
			inconc("%v", err)
			return
		}
		trace("server %d is stopped, loses equipment-reports.dat and is started again; server %d refuses the next round", Y, X)
		// nothing is forwarded to the port of the instance that is going away (a datagram forwarded
		// into the gap would be counted as forwarded and never handled)
		sd[Y].relay.SetPhase("restart", func(uint32, int) Fate { return Drop })
		if err := sd[Y].relay.Barrier(); err != nil {
			inconc("%v", err)
			return
		}
		if err := sd[Y].w.Close(); err != nil {
			inconc("close of server %d: %v", Y, err)
			return
		}
		if err := os.Truncate(filepath.Join(sd[Y].w.Dir, "equipment-reports.dat"), 0); err != nil {
			inconc("truncate: %v", err)
			return
		}
		if err := sd[Y].w.Start(); err != nil {
			inconc("restart of server %d: %v", Y, err)
			return
		}
		if err := sd[Y].relay.SetTarget(sd[Y].w.UDP); err != nil {
			inconc("relay target: %v", err)
			return
		}
		sd[Y].proxy.SetTarget(sd[Y].w.TCP)
		sd[Y].relay.SetPhase("rounds", nil)
		sd[X].proxy.SetPlan([]TCPFate{{Kind: "refuse"}, {Kind: "refuse"}, {Kind: "refuse"}})
		okD, ok := round("round D")
		sd[X].proxy.SetPlan(nil)
		if !ok {
			return
		}
		if err := handledAll(); err != nil {
			inconc("%v", err)
			return
		}
		if okD {
			r.Count("two_server.round_against_a_server_that_lost_its_reports", 1)
			judge(Y, "Y after it lost its report log")
		}
	}
	firstSeen := map[uint32][]byte{}
	for i := range sd {
		for _, s := range sd[i].relay.Log() {
			r.Count("dgram.seen", 1)
			if len(s.Bytes) != 80 || s.ID != dev.ID {
				continue
			}
			if fb, ok := firstSeen[s.Slot]; !ok {
				firstSeen[s.Slot] = s.Bytes
			} else {
				r.Count("identity_comparisons", 1)
				if !bytes.Equal(fb, s.Bytes) {
					r.Violationf("retransmission-differs-from-original", replay(map[string]interface{}{"slot": s.Slot, "first": hex.EncodeToString(fb), "later": hex.EncodeToString(s.Bytes)}),
						"two different datagrams were emitted for slot %d", s.Slot)
					break
				}
			}
		}
	}
	r.Nontrivial(fmt.Sprintf("twoserver|%d|%d|%v|%v", n, X, okB, overlapped))
	closeClient()
}
