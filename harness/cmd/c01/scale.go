package main

import (
	"fmt"
	"math/rand"
	"os"
	"path/filepath"

	"verifharness/lib/drv"
	"verifharness/lib/ev"
	"verifharness/lib/refenc"
	"verifharness/lib/run"
)

// scaleRound is one server lifetime at scale: hundreds of devices (so that more distinct keys
// have been verified than any small cache holds), more accepted reports than the recent-report
// list keeps, a restart on that log, and a report-log fault that heals. In each situation the
// same judge as everywhere else delivers unacceptable datagrams (which must change nothing) and
// acceptable controls.
func scaleRound(b run.Batch, r *ev.Result, seed int64) {
	rng := rand.New(rand.NewSource(seed))
	drv.SetClock(0)
	drv.GateRotation(true)
	drv.GateImpact(true)
	dw, err := drv.NewWorld(filepath.Join(b.Dir, "scale"), rng)
	if err != nil {
		r.Inconc("cannot start world: " + err.Error())
		return
	}
	defer os.RemoveAll(dw.Dir)
	defer dw.Close()
	w := &world{World: dw, rng: rng, r: r, auth: map[uint32]refenc.Auth{}, banned: map[uint32]bool{}}
	n := 262 + rng.Intn(12)
	if b.Tier == "thorough" {
		n = 520 + rng.Intn(40)
	}
	devs := make([]*drv.Dev, 0, n)
	for i := 0; i < n; i++ {
		d, err := dw.AddDevice(1000+uint32(i)*3+uint32(rng.Intn(3)), 1000000)
		if err != nil {
			r.Inconc(err.Error())
			return
		}
		devs = append(devs, d)
		w.auth[d.ID] = d.Auth
	}
	w.A, w.B = devs[0], devs[1]
	w.X = &drv.Dev{ID: 5, Key: refenc.GenKey(rng)}
	w.U = &drv.Dev{ID: 7, Key: refenc.GenKey(rng)}
	r.Max("scale.devices", int64(n))

	// ---- (1) every device reports once, in order: n distinct keys have been verified
	now := uint32(300)
	drv.SetClock(now)
	run.Op("scale: %d devices report once", n)
	for i, d := range devs {
		w.Inject(d.Report(now-uint32(i%3), 2+uint64(rng.Intn(1000))).Bytes())
	}
	before := w.S.VerifSnapshot(true)
	w.membership(before)
	stored := 0
	for i, d := range devs {
		if arr := before.Reports[d.ID]; arr != nil && arr[int(now)-i%3].PowerOutput >= 2 {
			stored++
		}
	}
	if stored != n {
		r.Violationf("acceptable-report-not-recorded", map[string]interface{}{"devices": n, "stored": stored}, "scale: %d devices sent one acceptable report each, %d are recorded", n, stored)
		return
	}
	// a report naming device i signed by the key of the device verified d positions later
	slot := now - 10
	for _, dist := range []int{64, 128, 255, 256, 257, n - 1} {
		for i := 0; i < 3; i++ {
			j := (i + dist) % n
			if j == i {
				continue
			}
			rep := refenc.Report{ID: devs[i].ID, Slot: slot, Power: 2 + uint64(rng.Intn(1000))}.Signed(devs[j].Key.Priv)
			before = w.judge(rep.Bytes(), fmt.Sprintf("scale.signed_by_device_%d_later", dist), now, before, i == 1)
			r.Count("scale.foreign_key_datagrams", 1)
		}
	}
	// and the genuine owners are still accepted
	for i := 0; i < 3; i++ {
		before = w.judge(devs[i].Report(slot-1, 2+uint64(rng.Intn(1000))).Bytes(), "scale.genuine_after_many_keys", now, before, false)
	}
	if r.NumViolations() > 0 {
		return
	}

	// ---- (2) more accepted reports than the recent-report list keeps, then a restart
	run.Op("scale: bulk reports")
	bulk := 0
	for s := uint32(1); s <= 4; s++ {
		for _, d := range devs {
			w.Inject(d.Report(now-20-s, 2+uint64(rng.Intn(1000))).Bytes())
			bulk++
		}
	}
	r.Max("scale.reports_on_disk", int64(len(w.ReadFile("equipment-reports.dat"))/80))
	run.Op("restart")
	if err := dw.Restart(); err != nil {
		r.Violationf("restart-failed", nil, "server restart failed: %v", err)
		return
	}
	r.Count("scale.restarts", 1)
	before = w.S.VerifSnapshot(true)
	w.membership(before)
	valid := devs[2].Report(now-40, 77).Bytes()
	rejects := map[string][]byte{
		"scale.after_restart.bitflip":        flipBit(valid, 70+rng.Intn(500)),
		"scale.after_restart.unknown_device": w.U.Report(now-40, 77).Bytes(),
		"scale.after_restart.sentinel":       devs[2].Report(now-40, 1).Bytes(),
		"scale.after_restart.stale":          devs[2].Report(now+433, 77).Bytes(),
		"scale.after_restart.wrong_key":      refenc.Report{ID: devs[2].ID, Slot: now - 40, Power: 77}.Signed(devs[3].Key.Priv).Bytes(),
		"scale.after_restart.noise":          func() []byte { p := make([]byte, 80); rng.Read(p); return p }(),
	}
	for _, class := range []string{"scale.after_restart.bitflip", "scale.after_restart.unknown_device", "scale.after_restart.sentinel", "scale.after_restart.stale", "scale.after_restart.wrong_key", "scale.after_restart.noise"} {
		before = w.judge(rejects[class], class, now, before, class == "scale.after_restart.noise")
		r.Count("scale.rejected_after_restart_on_long_log", 1)
	}
	before = w.judge(valid, "scale.after_restart.genuine", now, before, false)
	if r.NumViolations() > 0 {
		return
	}

	// ---- (3) the report log cannot be written for a while (it is /dev/full), then heals
	path := filepath.Join(w.Dir, "equipment-reports.dat")
	keep := path + ".keep"
	if os.Rename(path, keep) != nil || os.Symlink("/dev/full", path) != nil {
		os.Remove(path)
		os.Rename(keep, path)
		return
	}
	run.Op("scale: report log is /dev/full")
	for i := 10; i < 13; i++ {
		w.Inject(devs[i].Report(now-50, 2+uint64(rng.Intn(1000))).Bytes()) // accepted in memory; cannot be persisted
	}
	os.Remove(path)
	os.Rename(keep, path)
	run.Op("scale: report log healed")
	before = w.S.VerifSnapshot(true)
	for _, class := range []string{"scale.after_restart.bitflip", "scale.after_restart.unknown_device", "scale.after_restart.sentinel", "scale.after_restart.wrong_key", "scale.after_restart.noise"} {
		before = w.judge(rejects[class], "scale.after_log_fault."+class[20:], now, before, class == "scale.after_restart.bitflip")
		r.Count("scale.rejected_after_log_fault", 1)
	}
	w.judge(devs[20].Report(now-50, 99).Bytes(), "scale.after_log_fault.genuine", now, before, false)
	r.Count("scale.rounds", 1)
}
