//go:build test

package main

// highwin: (clock, window) configurations at the top of the 32-bit timeslot
// range: window offsets 2^32-4288 (the window ends at 2^32-256), 2^32-2272 and
// 2^32-256 (the window reaches beyond the last timeslot). The offset is
// trusted disk state: one validly signed empty weekly record labelled
// offset-2016 is placed in the history file before the first start. Besides
// the ordinary classes, validly signed reports of an authorized device for
// the timeslots at the OTHER end of the range (0, 1, .. a few hundred) and for
// the wrapped partners of now±432 and offset+4031 are delivered: numerically
// they are four billion slots away from clock and window and must leave every
// observable as it was.

import (
	"encoding/hex"
	"fmt"
	"math/rand"
	"os"
	"path/filepath"

	"verifharness/lib/drv"
	"verifharness/lib/ev"
	"verifharness/lib/refenc"
	"verifharness/lib/run"
)

func highWindowRound(b run.Batch, r *ev.Result, seed int64) {
	rng := rand.New(rand.NewSource(seed))
	var off uint32
	fmt.Sscan(b.P("offset"), &off)
	drv.SetClock(off)
	drv.GateRotation(true)
	drv.GateImpact(true)
	dir := filepath.Join(b.Dir, "srvhigh")
	e, err := drv.NewServerDir(dir, rng, true)
	if err != nil {
		r.Inconc(err.Error())
		return
	}
	defer os.RemoveAll(dir)
	st := refenc.Stats{Week: off - 2016}
	st.Sig = refenc.Sign(e.Key.Priv, st.SigningBytes())
	if err := os.WriteFile(filepath.Join(dir, "allDeviceStats.dat"), st.Bytes(), 0644); err != nil {
		r.Inconc(err.Error())
		return
	}
	if err := e.Start(); err != nil {
		r.Inconc("server start on the pre-seeded directory: " + err.Error())
		return
	}
	dw := &drv.World{Srv: e, GCA: refenc.GenKey(rng), Devs: map[uint32]*drv.Dev{}, Rng: rng}
	defer dw.Close()
	defer drv.SetClock(off) // nothing to rotate while closing
	if code, body, err := e.Register(dw.GCA.Pub, e.Temp.Priv); err != nil || code != 200 {
		r.Inconc(fmt.Sprintf("GCA registration failed: status %d err %v body %s", code, err, body))
		return
	}
	w := &world{World: dw, rng: rng, r: r, auth: map[uint32]refenc.Auth{}, banned: map[uint32]bool{}}
	capacity := uint64(100000 + rng.Intn(100000))
	if w.A, err = dw.AddDevice(10+uint32(rng.Intn(50)), capacity); err != nil {
		r.Inconc(err.Error())
		return
	}
	if w.B, err = dw.AddDevice(100+uint32(rng.Intn(50)), capacity*2); err != nil {
		r.Inconc(err.Error())
		return
	}
	if w.X, err = dw.AddDevice(200+uint32(rng.Intn(50)), capacity); err != nil {
		r.Inconc(err.Error())
		return
	}
	if code, err := dw.BanDevice(w.X.ID); err != nil || code == 200 {
		r.Inconc(fmt.Sprintf("could not ban device X: status %d err %v", code, err))
		return
	}
	w.auth[w.A.ID], w.auth[w.B.ID] = w.A.Auth, w.B.Auth
	w.banned[w.X.ID] = true
	w.U = &drv.Dev{ID: 300 + uint32(rng.Intn(50)), Key: refenc.GenKey(rng)}
	if got := w.S.VerifSnapshot(false).Offset; got != off {
		r.Inconc(fmt.Sprintf("pre-seeded window offset is %d, want %d", got, off))
		return
	}
	var clocks []uint32
	for _, d := range []int64{0, 1, 431, 432, 433, 2015, 2016, 3200, int64(rng.Intn(3200))} {
		if n := int64(off) + d; n <= 0xffffffff {
			clocks = append(clocks, uint32(n))
		}
	}
	for _, n := range []int64{0xffffffff, 0xffffffff - 100, 0xffffffff - 431, 0xffffffff - 432, 0xffffffff - 433} {
		if n >= int64(off) && n-int64(off) <= 3200 {
			clocks = append(clocks, uint32(n))
		}
	}
	for _, now := range clocks {
		drv.SetClock(now)
		before := w.S.VerifSnapshot(true)
		if before.Offset != off {
			r.Inconc(fmt.Sprintf("offset moved unexpectedly: %d want %d", before.Offset, off))
			return
		}
		dgs := w.datagrams(now, off, false)
		// the other end of the timeslot range, validly signed by authorized devices
		far := []uint32{0, 1, 2, 5, 100, 200, 300, 431, 432, 433, 2016, 4031, now + 432, now + 433, now + 100, now - 432 + 0, off + 4031, off + 4032, off + 2016}
		for i := 0; i < 6; i++ {
			far = append(far, uint32(rng.Intn(5000)))
		}
		for _, s := range far {
			d := w.A
			if rng.Intn(3) == 0 {
				d = w.B
			}
			dgs = append(dgs, dg{d.Report(s, 2+uint64(rng.Intn(1000))).Bytes(), "highwin.far_or_wrapped_slot"})
		}
		nfar := 0
		for i, d := range dgs {
			if d.class == "highwin.far_or_wrapped_slot" {
				if ok, _, _ := w.acceptable(d.b, now, before); !ok {
					nfar++
				}
			}
			before = w.judge(d.b, d.class, now, before, i%7 == 3 || len(d.b) != 80)
			if r.NumViolations() > 20 {
				return
			}
		}
		r.Count("highwin.configurations", 1)
		r.Count("highwin.unacceptable_far_slots_delivered", int64(nfar))
		for _, old := range w.accepted {
			before = w.judge(old, "replay.old", now, before, false)
		}
		if len(dgs) > 0 {
			r.Sample(map[string]interface{}{"now": now, "offset": off, "class": "highwin", "bytes": hex.EncodeToString(dgs[len(dgs)-1].b)})
		}
	}
}
