//go:build test

// C01 — Only authentic, authorized, in-window reports change server state.
//
// Monitor: real server (in a child process) with rotation and impact jobs
// gated; for every (clock, window offset) configuration and every datagram:
// snapshot → deliver → snapshot; the reference acceptability predicate and
// the slot model (both written here, independent of the repository's code)
// decide what the difference between the two snapshots must be.
package main

import (
	"bytes"
	"encoding/hex"
	"fmt"
	"io"
	"math/big"
	"math/rand"
	"net"
	"os"
	"path/filepath"
	"syscall"
	"time"

	"github.com/glowlabs-org/gca-backend/server"

	"verifharness/lib/drv"
	"verifharness/lib/ev"
	"verifharness/lib/refenc"
	"verifharness/lib/run"
)

func main() {
	run.Main(run.Spec{
		ID:    "C01",
		Level: "exploration",
		Pkg:   "./cmd/c01",
		Rule: "datagrams are generated per (now, window offset) configuration from classes: random bytes of length 0..200; a valid report with single/multi bit flips and field swaps; " +
			"re-signings under every other key in the system and over wrong signing bytes; slot boundaries now±432/433 and window start-1/start/end-1/end; power 0/1/2; unknown/banned/never-authorized ids; " +
			"truncated/padded datagrams; acceptable positive controls; one server lifetime at scale (more than 256 devices whose keys were all verified, foreign-key datagrams at cache-like distances, a restart on a report log longer than the recent-report list, a report-log write fault that heals). Non-trivial = an 80-byte (after truncation) datagram naming a device id known to the server, i.e. one that gets past the length and lookup front; " +
			"distinct by (bytes, now, offset).",
		Assumptions: []string{
			"rotation and impact jobs are gated at their loop heads while datagrams are judged (they perform no action then)",
			"datagrams delivered through VerifInject take the path of managedHandleEquipmentReport exactly as the UDP listener calls it; a sample of every class also goes through the real socket",
			"2^640 datagrams are sampled by class, not enumerated",
		},
		Plan:  plan,
		Child: child,
		Post: func(c *ev.Check, outs []*run.Outcome) {
			c.Require("accepted_positive_controls", 4)
			c.Require("highwin.unacceptable_far_slots_delivered", 50)
			c.Require("via_socket", 10)
			c.Require("queued.judged", 1)
			c.Require("scale.rounds", 1)
			c.Require("scale.foreign_key_datagrams", 12)
			c.Require("scale.rejected_after_restart_on_long_log", 6)
			c.Require("scale.rejected_after_log_fault", 5)
			for _, g := range []string{"rej.length", "rej.unknown_device", "rej.banned_device", "rej.signature", "rej.time_window", "rej.storage_window", "rej.sentinel"} {
				c.Require(g, 1)
			}
		},
	})
}

type config struct {
	Offset uint32
	Delta  uint32 // now - offset
}

func planBase(tier string, seed int64) []run.Batch {
	deltas := []uint32{0, 1, 431, 432, 433, 2015, 2016, 2017, 3199, 3200, 3599, 3600}
	var bs []run.Batch
	nb, rounds := 8, 1
	if tier == "thorough" {
		nb, rounds = 48, 3
	}
	for i := 0; i < nb; i++ {
		bs = append(bs, run.Batch{Kind: "datagrams", Seed: seed*1000 + int64(i), N: len(deltas), TimeoutS: 170,
			Params: map[string]string{"slice": fmt.Sprint(i % 8), "of": "8", "rounds": fmt.Sprint(rounds)}})
	}
	ns := 1
	if tier == "thorough" {
		ns = 4
	}
	for i, off := range []uint32{2130438 * 2016, 2130439 * 2016, 2130440 * 2016} {
		if tier == "thorough" || i == int(seed%3) || i == 2 {
			bs = append(bs, run.Batch{Kind: "highwin", Seed: seed*1000 + 700 + int64(i), N: 1, TimeoutS: 170, Params: map[string]string{"offset": fmt.Sprint(off)}})
		}
	}
	for i := 0; i < ns; i++ {
		bs = append(bs, run.Batch{Kind: "scale", Seed: seed*1000 + 500 + int64(i), N: 1, TimeoutS: 170})
	}
	return bs
}

// ---------------------------------------------------------------- reference rules

type world struct {
	*drv.World
	A, B, X  *drv.Dev
	U        *drv.Dev // never authorized (until a mid-run authorization in a later week)
	C        *drv.Dev
	accepted [][]byte
	// the harness's own record of who is authorized / banned (from the GCA-signed
	// authorizations it submitted), independent of what the server believes
	auth   map[uint32]refenc.Auth
	banned map[uint32]bool
	rng    *rand.Rand
	r      *ev.Result
	logLen int64
	step   int
}

// acceptable implements the property's predicate on the leading 80 bytes.
func (w *world) acceptable(d []byte, now uint32, snap *server.VerifSnap) (ok bool, reason string, rep refenc.Report) {
	if len(d) < 80 {
		return false, "length", rep
	}
	rep, _ = refenc.ParseReport(d[:80])
	if w.banned[rep.ID] {
		return false, "banned_device", rep
	}
	au, exists := w.auth[rep.ID]
	if !exists {
		return false, "unknown_device", rep
	}
	if !refenc.Verify(au.Pub, rep.SigningBytes(), rep.Sig) {
		return false, "signature", rep
	}
	dn := int64(rep.Slot) - int64(now)
	if dn < -432 || dn > 432 {
		return false, "time_window", rep
	}
	if int64(rep.Slot) < int64(snap.Offset) || int64(rep.Slot) >= int64(snap.Offset)+4032 {
		return false, "storage_window", rep
	}
	if rep.Power == 0 || rep.Power == 1 {
		return false, "sentinel", rep
	}
	return true, "", rep
}

func overCapacity(power, capacity uint64) bool {
	if int64(power) < 0 {
		return false
	}
	l := new(big.Int).Mul(new(big.Int).SetUint64(power), big.NewInt(100))
	r := new(big.Int).Mul(new(big.Int).SetUint64(capacity), big.NewInt(135))
	return l.Cmp(r) > 0
}

// judge delivers one datagram and compares the effect with the model.
func (w *world) judge(d []byte, class string, now uint32, before *server.VerifSnap, viaSocket bool) *server.VerifSnap {
	w.step++
	run.Op("deliver class=%s now=%d offset=%d socket=%v bytes=%s", class, now, before.Offset, viaSocket, hex.EncodeToString(d))
	logBefore := w.ReadFile("equipment-reports.dat")
	if viaSocket {
		if err := w.SendUDP(d); err != nil {
			w.r.Inconc("socket delivery: " + err.Error())
			return before
		}
		w.r.Count("via_socket", 1)
	} else {
		w.Inject(d)
		w.r.Count("via_hook", 1)
	}
	after := w.S.VerifSnapshot(true)
	logAfter := w.ReadFile("equipment-reports.dat")
	diff := drv.DiffSnap(before, after)
	w.r.Eval(1)

	eff := d
	if viaSocket && len(eff) > 80 {
		eff = eff[:80] // the listener reads at most 80 bytes of a datagram
	}
	if !viaSocket && len(eff) != 80 {
		// the hook path hands the bytes over as they are; only 80 byte inputs are in its domain
		eff = nil
	}
	replay := map[string]interface{}{"class": class, "bytes": hex.EncodeToString(d), "now": now, "offset": before.Offset, "socket": viaSocket}
	ok, reason, rep := false, "length", refenc.Report{}
	if eff != nil {
		ok, reason, rep = w.acceptable(eff, now, before)
	}
	if viaSocket && ok && diff.Empty() && before.Reports[rep.ID] != nil {
		// The socket barrier counts completed datagrams of this process' listeners; a stray
		// datagram of another process aimed at a reused port can satisfy it early. Before an
		// acceptable datagram is judged to have had no effect, give the listener time.
		idx := int(rep.Slot - before.Offset)
		prev := before.Reports[rep.ID][idx]
		if prev.PowerOutput != 1 && drv.RefReport(prev) != rep {
			for i := 0; i < 200 && diff.Empty(); i++ {
				time.Sleep(10 * time.Millisecond)
				after = w.S.VerifSnapshot(true)
				logAfter = w.ReadFile("equipment-reports.dat")
				diff = drv.DiffSnap(before, after)
			}
			w.r.Count("socket_barrier_rechecks", 1)
		}
	}
	if len(eff) == 80 {
		if _, known := w.auth[rep.ID]; known || w.banned[rep.ID] {
			w.r.Nontrivial(fmt.Sprintf("%x/%d/%d", eff, now, before.Offset))
		}
	}
	if !ok {
		w.r.Count("rej."+reason, 1)
		w.r.Count("rejected."+class, 1)
		if !diff.Empty() {
			w.r.Violationf("unacceptable-datagram-changed-state:"+reason, replay, "datagram of class %s (reference verdict: not acceptable, %s) changed server state: %s", class, reason, diff)
		}
		if !bytes.Equal(logBefore, logAfter) {
			w.r.Violationf("unacceptable-datagram-logged:"+reason, replay, "datagram of class %s (not acceptable: %s) changed the persisted report log (%d -> %d bytes)", class, reason, len(logBefore), len(logAfter))
		}
		return after
	}
	// acceptable: slot model
	idx := int(rep.Slot - before.Offset)
	prev := before.Reports[rep.ID][idx]
	cur := after.Reports[rep.ID][idx]
	capacity := w.auth[rep.ID].Capacity
	w.r.Count("acceptable."+class, 1)
	if before.Reports[rep.ID] == nil || after.Reports[rep.ID] == nil {
		w.r.Violationf("authorized-device-has-no-report-window", replay, "device %d is authorized and not banned according to the authorizations submitted, but the server holds no report window for it", rep.ID)
		return after
	}
	switch {
	case prev.PowerOutput == 1:
		w.r.Count("model.banned_stays", 1)
		if !diff.Empty() {
			w.r.Violationf("acceptable-on-banned-slot-changed-state", replay, "report for an already banned slot changed state: %s", diff)
		}
	case drv.RefReport(prev) == rep:
		w.r.Count("model.replay_noop", 1)
		if !diff.Empty() {
			w.r.Violationf("replay-changed-state", replay, "exact replay of the stored report changed state: %s", diff)
		}
	case prev.PowerOutput == 0:
		if overCapacity(rep.Power, capacity) {
			w.r.Count("model.empty_to_banned", 1)
			if cur.PowerOutput != 1 {
				w.r.Violationf("overcapacity-not-banned", replay, "over-capacity report (power %d, capacity %d) left slot value %d, want 1", rep.Power, capacity, cur.PowerOutput)
			}
		} else {
			w.r.Count("model.empty_to_report", 1)
			w.r.Count("accepted_positive_controls", 1)
			if len(w.accepted) < 12 {
				w.accepted = append(w.accepted, append([]byte(nil), eff...))
			}
			if drv.RefReport(cur) != rep {
				w.r.Violationf("acceptable-report-not-recorded", replay, "acceptable report for an empty slot was not recorded as sent: slot holds %+v", drv.RefReport(cur))
			}
		}
		if !diffOnlySlotAndRecent(diff, rep.ID, idx) {
			w.r.Violationf("acceptable-report-side-effect", replay, "acceptable report changed more than its own slot: %s", diff)
		}
	default:
		w.r.Count("model.report_to_banned", 1)
		if cur.PowerOutput != 1 {
			w.r.Violationf("equivocation-not-banned", replay, "second distinct report left slot value %d, want 1", cur.PowerOutput)
		}
		if !diffOnlySlotAndRecent(diff, rep.ID, idx) {
			w.r.Violationf("acceptable-report-side-effect", replay, "equivocating report changed more than its own slot: %s", diff)
		}
	}
	// report log: may grow only by exactly this datagram
	if !bytes.Equal(logBefore, logAfter) {
		if !(len(logAfter) == len(logBefore)+80 && bytes.Equal(logAfter[:len(logBefore)], logBefore) && bytes.Equal(logAfter[len(logBefore):], eff)) {
			w.r.Violationf("report-log-not-append-of-datagram", replay, "report log changed other than by appending the datagram (%d -> %d bytes)", len(logBefore), len(logAfter))
		}
		w.r.Count("log_appends", 1)
	} else if prev.PowerOutput == 0 {
		w.r.Violationf("accepted-report-not-persisted", replay, "accepted report for an empty slot was not appended to the report log")
	}
	return after
}

func diffOnlySlotAndRecent(d drv.Diff, dev uint32, idx int) bool {
	want := fmt.Sprintf("reports[%d]", dev)
	for _, s := range d.Sections {
		if s != want && s != "recentlist" {
			return false
		}
	}
	for _, s := range d.Slots {
		if s.Dev != dev || s.Index != idx {
			return false
		}
	}
	return true
}

// membership compares the server's view of who is authorized / banned with the
// authorizations the harness submitted.
func (w *world) membership(snap *server.VerifSnap) {
	for id, a := range w.auth {
		e, ok := snap.Equipment[id]
		if !ok || snap.Bans[id] || drv.RefAuth(e) != a {
			w.r.Violationf("membership-diverged:authorized-device-missing", map[string]interface{}{"id": id}, "device %d was authorized by a GCA-signed authorization and never banned, but the server does not list it as authorized (listed=%v banned=%v)", id, ok, snap.Bans[id])
		}
	}
	for id := range w.banned {
		if _, ok := snap.Equipment[id]; ok || !snap.Bans[id] {
			w.r.Violationf("membership-diverged:banned-device-authorized", map[string]interface{}{"id": id}, "device %d was banned by a conflicting authorization, but the server lists it as authorized=%v banned=%v", id, ok, snap.Bans[id])
		}
	}
	for id := range snap.Equipment {
		if _, ok := w.auth[id]; !ok {
			w.r.Violationf("membership-diverged:unexpected-device", map[string]interface{}{"id": id}, "server lists device %d as authorized although no valid authorization for it is outstanding", id)
		}
	}
	w.r.Count("membership.checks", 1)
}

// surfaces cross-checks the public endpoints against the snapshot.
func (w *world) surfaces(snap *server.VerifSnap) {
	for _, d := range []*drv.Dev{w.A, w.B} {
		rep, refused, err := w.Sync(d.ID)
		if err != nil || refused {
			w.r.Violationf("sync-surface-unavailable", nil, "sync for authorized device %d failed: refused=%v err=%v", d.ID, refused, err)
			continue
		}
		for i := 0; i < 4032; i++ {
			if rep.Bit(i) != (snap.Reports[d.ID][i].PowerOutput != 0) {
				w.r.Violationf("sync-bitfield-disagrees-with-state", map[string]interface{}{"dev": d.ID, "index": i}, "sync bit %d of device %d is %v but stored power is %d", i, d.ID, rep.Bit(i), snap.Reports[d.ID][i].PowerOutput)
				break
			}
		}
		st, rr, err := w.RecentReports(d.Key.Pub)
		if err != nil || st != 200 || len(rr) != 4032 {
			w.r.Violationf("recent-reports-unavailable", nil, "recent-reports for device %d: status %d err %v n=%d", d.ID, st, err, len(rr))
			continue
		}
		for i := 0; i < 4032; i++ {
			if rr[i] != drv.RefReport(snap.Reports[d.ID][i]) {
				w.r.Violationf("recent-reports-disagree-with-state", map[string]interface{}{"dev": d.ID, "index": i}, "recent-reports entry %d of device %d differs from stored record", i, d.ID)
				break
			}
		}
		w.r.Count("surface_checks", 2)
	}
	for _, wk := range []uint32{snap.Offset, snap.Offset + 2016} {
		st, stats, _, err := w.GetStats(fmt.Sprintf("timeslot_offset=%d", wk))
		if err != nil || st != 200 {
			w.r.Violationf("live-stats-unavailable", nil, "stats for live week %d: status %d err %v", wk, st, err)
			continue
		}
		for _, ds := range stats.Devices {
			id, ok := snap.ShortIDs[ds.Pub]
			if !ok {
				w.r.Violationf("stats-unknown-device", nil, "live stats list a device key that is not authorized")
				continue
			}
			base := int(wk - snap.Offset)
			for i := 0; i < 2016; i++ {
				if ds.Power[i] != snap.Reports[id][base+i].PowerOutput {
					w.r.Violationf("stats-disagree-with-state", map[string]interface{}{"dev": id, "index": base + i}, "live stats slot %d of device %d is %d but stored power is %d", base+i, id, ds.Power[i], snap.Reports[id][base+i].PowerOutput)
					break
				}
			}
		}
		w.r.Count("surface_checks", 1)
	}
}

// ---------------------------------------------------------------- generator

func flipBit(b []byte, i int) []byte {
	c := append([]byte(nil), b...)
	c[i/8] ^= 1 << (uint(i) % 8)
	return c
}

type dg struct {
	b     []byte
	class string
}

func (w *world) datagrams(now, offset uint32, full bool) []dg {
	rng := w.rng
	var out []dg
	add := func(class string, b []byte) { out = append(out, dg{b, class}) }
	inWin := func(s int64) bool { return s >= 0 && s <= 0xffffffff }
	// a slot that is acceptable in this configuration, if any
	lo := int64(now) - 432
	if lo < int64(offset) {
		lo = int64(offset)
	}
	hi := int64(now) + 432
	if hi > int64(offset)+4031 {
		hi = int64(offset) + 4031
	}
	if hi > 0xffffffff { // a window whose end lies beyond the last 32-bit timeslot
		hi = 0xffffffff
	}
	freshSlot := func() (uint32, bool) {
		if lo > hi {
			return 0, false
		}
		return uint32(lo + rng.Int63n(hi-lo+1)), true
	}
	power := func() uint64 { return 2 + uint64(rng.Intn(1000)) }

	// (i) random strings
	nr := 12
	if full {
		nr = 60
	}
	for i := 0; i < nr; i++ {
		l := rng.Intn(201)
		b := make([]byte, l)
		rng.Read(b)
		if l >= 4 && rng.Intn(2) == 0 { // aim at a known device id
			copy(b, w.A.Report(0, 0).Bytes()[:4])
		}
		add("random", b)
	}
	// (ii) valid report and mutations of it (never delivered itself before its mutants)
	if s, ok := freshSlot(); ok {
		v := w.A.Report(s, power()).Bytes()
		flips := 48
		if full {
			flips = 640
		}
		perm := rng.Perm(640)
		for _, i := range perm[:flips] {
			add("bitflip", flipBit(v, i))
		}
		for k := 0; k < 8; k++ {
			c := append([]byte(nil), v...)
			for j := 0; j < 2+rng.Intn(7); j++ {
				c = flipBit(c, rng.Intn(640))
			}
			add("multiflip", c)
		}
		sw := append([]byte(nil), v...)
		copy(sw[0:4], v[4:8])
		copy(sw[4:8], v[0:4])
		add("fieldswap", sw)
		sw = append([]byte(nil), v...)
		copy(sw[8:12], v[12:16])
		copy(sw[12:16], v[8:12])
		add("fieldswap", sw)
		sw = append([]byte(nil), v...)
		copy(sw[16:48], v[48:80])
		copy(sw[48:80], v[16:48])
		add("fieldswap", sw)
		// (vii) truncated / padded
		add("truncated", v[:79])
		add("truncated", v[:16])
		for _, l := range []int{81, 160, 200} {
			p := make([]byte, l)
			copy(p, v)
			rng.Read(p[80:])
			add("padded", p)
		}
		// (vii') prefixes of a genuine report whose cut-off bytes are zero: a listener that
		// zero-pads short datagrams would see the genuine report. The power is varied until the
		// signature ends in 0x00 (expected 256 signings).
		if s2, ok := freshSlot(); ok {
			for p := uint64(2); p < 6000; p++ {
				g := w.A.Report(s2, p)
				gb := g.Bytes()
				if gb[79] != 0 {
					continue
				}
				add("truncated.zero_tail", gb[:79])
				w.r.Count("ground.signature_ending_in_zero", 1)
				if gb[78] == 0 {
					add("truncated.zero_tail", gb[:78])
				}
				break
			}
		}
		// (iii) re-signings
		r := refenc.Report{ID: w.A.ID, Slot: s, Power: power()}
		for name, k := range map[string]refenc.Key{"B": w.B.Key, "X": w.X.Key, "U": w.U.Key, "GCA": w.GCA, "temp": w.Temp, "server": w.Key} {
			add("resigned."+name, r.Signed(k.Priv).Bytes())
		}
		wrong := func(name string, sb []byte) {
			q := r
			q.Sig = refenc.Sign(w.A.Key.Priv, sb)
			add("wrongbytes."+name, q.Bytes())
		}
		body := r.SigningBytes()[15:]
		wrong("noprefix", body)
		wrong("otherprefix", append([]byte("EquipmentAuthorization"), body...))
		be := make([]byte, 16)
		be[0], be[1], be[2], be[3] = byte(r.ID>>24), byte(r.ID>>16), byte(r.ID>>8), byte(r.ID)
		be[4], be[5], be[6], be[7] = byte(r.Slot>>24), byte(r.Slot>>16), byte(r.Slot>>8), byte(r.Slot)
		for i := 0; i < 8; i++ {
			be[8+i] = byte(r.Power >> (56 - 8*uint(i)))
		}
		wrong("bigendian", append([]byte("EquipmentReport"), be...))
		ro := append([]byte("EquipmentReport"), body[4:8]...)
		ro = append(ro, body[0:4]...)
		ro = append(ro, body[8:]...)
		wrong("reordered", ro)
		// random-nonce signature over the right bytes is acceptable (another valid signature)
		q := r
		q.Slot, _ = freshSlot()
		q.Sig = refenc.SignRand(w.A.Key.Priv, q.SigningBytes())
		add("randnonce", q.Bytes())
		// (v) sentinel powers
		for _, p := range []uint64{0, 1, 2} {
			s2, _ := freshSlot()
			add(fmt.Sprintf("power%d", p), w.B.Report(s2, p).Bytes())
		}
		// (vi) ids
		s3, _ := freshSlot()
		add("id.banned", w.X.Report(s3, power()).Bytes())
		add("id.neverauthorized", w.U.Report(s3, power()).Bytes())
		for _, id := range []uint32{0, 0xffffffff} {
			add("id.extreme", refenc.Report{ID: id, Slot: s3, Power: power()}.Signed(w.A.Key.Priv).Bytes())
		}
		// ids that alias an authorized id under truncation / sign confusion, validly signed by that device's key
		for _, id := range []uint32{w.A.ID + 1<<8, w.A.ID + 1<<16, w.A.ID + 1<<24, w.A.ID | 1<<31, w.A.ID ^ 1, w.A.ID<<8 | w.A.ID>>24} {
			add("id.alias", refenc.Report{ID: id, Slot: s3, Power: power()}.Signed(w.A.Key.Priv).Bytes())
		}
	}
	// (v') validly signed sentinel powers aimed at slots that ALREADY hold an accepted report
	for i, old := range w.accepted {
		if i >= 4 {
			break
		}
		if r, err := refenc.ParseReport(old); err == nil && r.ID == w.A.ID {
			add("power0.occupied", w.A.Report(r.Slot, 0).Bytes())
			add("power1.occupied", w.A.Report(r.Slot, 1).Bytes())
		}
	}
	// (x) signature malleability: the algebraic twin (r, N-s) of a genuine signature, for a
	// report that was already delivered and for one that never was
	for i, old := range w.accepted {
		if i >= 3 {
			break
		}
		r, _ := refenc.ParseReport(old)
		r.Sig = refenc.TwinSig(r.Sig)
		add("sigtwin.delivered", r.Bytes())
	}
	if s, ok := freshSlot(); ok {
		r := w.A.Report(s, power())
		r.Sig = refenc.TwinSig(r.Sig)
		add("sigtwin.fresh", r.Bytes())
	}
	// (ix) forgeries that reuse the signature of a datagram the server has ALREADY accepted
	for _, old := range w.accepted {
		for k := 0; k < 3; k++ {
			c := append([]byte(nil), old...)
			switch k {
			case 0: // another slot inside the acceptance range, same signature
				if s, ok := freshSlot(); ok {
					c[4], c[5], c[6], c[7] = byte(s), byte(s>>8), byte(s>>16), byte(s>>24)
				}
			case 1: // another power, same signature
				c[8+rng.Intn(4)] ^= byte(1 + rng.Intn(255))
			case 2: // single bit flip in the signed fields
				c = flipBit(c, 32+rng.Intn(96))
			}
			add("sigreuse", c)
		}
	}
	// (iv) boundary slots (whether or not any slot is acceptable here)
	for _, s := range []int64{int64(now) - 433, int64(now) - 432, int64(now) - 431, int64(now), int64(now) + 431, int64(now) + 432, int64(now) + 433,
		int64(offset) - 1, int64(offset), int64(offset) + 1, int64(offset) + 2015, int64(offset) + 2016, int64(offset) + 4031, int64(offset) + 4032, int64(offset) + 4033} {
		if !inWin(s) {
			continue
		}
		d := w.A
		if rng.Intn(2) == 0 {
			d = w.B
		}
		add("boundary", d.Report(uint32(s), power()).Bytes())
	}
	// (viii) positive controls and equivocation / replay / overcapacity on them
	for k := 0; k < 3; k++ {
		if s, ok := freshSlot(); ok {
			d := w.A
			if k == 1 {
				d = w.B
			}
			v := d.Report(s, power())
			add("control", v.Bytes())
			switch rng.Intn(4) {
			case 0:
				add("control.replay", v.Bytes())
			case 1:
				add("control.equivocate", d.Report(s, v.Power+1).Bytes())
				add("control.afterban", d.Report(s, v.Power+2).Bytes())
			case 2:
				q := v
				q.Sig = refenc.SignRand(d.Key.Priv, v.SigningBytes())
				add("control.resigned_same_content", q.Bytes())
			}
		}
	}
	if s, ok := freshSlot(); ok {
		add("control.overcapacity", w.A.Report(s, w.A.Auth.Capacity*135/100+1).Bytes())
		s2, _ := freshSlot()
		add("control.negative", w.A.Report(s2, uint64(1<<64-5000)).Bytes())
	}
	return out
}

// queuedAcrossClockChange: datagrams that arrive while the server lock is held for a long time
// (a rotation parked in its file append: the history file is a named pipe for the moment) and that
// can only be processed after the clock has moved on. "Within 432 slots of the server's current
// timeslot" is judged when the report can change state, i.e. after the lock became available.
func (w *world) queuedAcrossClockChange() {
	snap := w.S.VerifSnapshot(true)
	off := snap.Offset
	now := off + 3201
	// the two slots used below must be empty (earlier configurations of this server lifetime stored reports
	// at random slots of the same region; a second report for an occupied slot would be an equivocation)
	if arr := snap.Reports[w.A.ID]; arr != nil {
		for k := 0; k < 200 && (arr[int(now-432-off)].PowerOutput != 0 || arr[int(now-430-off)].PowerOutput != 0); k++ {
			now++
		}
		if arr[int(now-432-off)].PowerOutput != 0 || arr[int(now-430-off)].PowerOutput != 0 {
			w.r.Count("queued.not_established", 1)
			return
		}
	}
	drv.SetClock(now)
	path := filepath.Join(w.Dir, "allDeviceStats.dat")
	keep := path + ".keep"
	if err := os.Rename(path, keep); err != nil {
		return
	}
	restore := func(extra []byte) {
		os.Remove(path)
		os.Rename(keep, path)
		if len(extra) > 0 {
			if f, err := os.OpenFile(path, os.O_APPEND|os.O_WRONLY, 0644); err == nil {
				f.Write(extra)
				f.Close()
			}
		}
	}
	if err := syscall.Mkfifo(path, 0644); err != nil {
		restore(nil)
		return
	}
	arrived := make(chan struct{}, 8)
	server.VerifSetHook("udp.ready", func(*server.GCAServer) { arrived <- struct{}{} })
	defer server.VerifSetHook("udp.ready", func(*server.GCAServer) {})
	run.Op("queued-across-clock-change now=%d offset=%d", now, off)
	rotated := make(chan int, 1)
	go func() { rotated <- drv.StepRotation() }()
	// the rotation must be parked inside its critical section: the main mutex stays taken
	parked := 0
	for i := 0; i < 2500 && parked < 30; i++ {
		if mf, _ := w.S.VerifTryLock(); mf {
			parked = 0
		} else {
			parked++
		}
		time.Sleep(2 * time.Millisecond)
	}
	var drained []byte
	drain := func() {
		if f, err := os.OpenFile(path, os.O_RDONLY, 0); err == nil {
			drained, _ = io.ReadAll(f)
			f.Close()
		}
	}
	if parked < 30 {
		// not established (e.g. the rotation did not start): unblock whatever waits and leave
		go drain()
		select {
		case <-rotated:
		case <-time.After(20 * time.Second):
		}
		restore(drained)
		w.r.Count("queued.not_established", 1)
		return
	}
	late := w.A.Report(now-432, 2+uint64(w.rng.Intn(1000)))   // 434 slots old once the clock has moved
	ontime := w.A.Report(now-430, 2+uint64(w.rng.Intn(1000))) // 432 slots old then: still acceptable
	conn, err := net.Dial("udp", fmt.Sprintf("127.0.0.1:%d", w.UDP))
	if err != nil {
		go drain()
		<-rotated
		restore(drained)
		return
	}
	defer conn.Close()
	handledBefore := server.VerifUDPHandled()
	conn.Write(late.Bytes())
	conn.Write(ontime.Bytes())
	got := 0
	for got < 2 {
		select {
		case <-arrived:
			got++
		case <-time.After(5 * time.Second):
			got = 99
		}
	}
	time.Sleep(30 * time.Millisecond) // let both handlers reach the mutex (only widens the window)
	drv.SetClock(now + 2)
	drain() // lets the parked rotation finish; the queued handlers run after it
	select {
	case n := <-rotated:
		if n != 1 {
			w.r.Count("queued.not_established", 1)
		}
	case <-time.After(30 * time.Second):
		w.r.Inconc("the rotation parked on the named pipe did not finish")
		restore(drained)
		return
	}
	restore(drained)
	for i := 0; i < 5000 && server.VerifUDPHandled() < handledBefore+2; i++ {
		time.Sleep(time.Millisecond)
	}
	if got != 2 || server.VerifUDPHandled() < handledBefore+2 {
		w.r.Count("queued.not_established", 1)
		return
	}
	after := w.S.VerifSnapshot(true)
	rep := map[string]interface{}{"now_at_arrival": now, "now_when_lock_became_free": now + 2, "offset_after_rotation": after.Offset, "late": hex.EncodeToString(late.Bytes()), "ontime": hex.EncodeToString(ontime.Bytes())}
	w.r.Eval(2)
	w.r.Nontrivial(fmt.Sprintf("queued/%d/%d", now, off))
	arr := after.Reports[w.A.ID]
	if arr == nil || after.Offset != off+2016 {
		w.r.Count("queued.not_established", 1)
		return
	}
	if got := arr[int(late.Slot-after.Offset)]; got.PowerOutput != 0 {
		w.r.Violationf("stale-report-integrated-after-waiting-for-the-lock", rep, "a report for slot %d arrived at clock %d, waited for the server lock and was integrated at clock %d (434 slots old)", late.Slot, now, now+2)
	}
	if got := arr[int(ontime.Slot-after.Offset)]; drv.RefReport(got) != ontime {
		w.r.Violationf("acceptable-report-not-recorded", rep, "a report for slot %d (432 slots old when the lock became free) that waited for the server lock was not recorded", ontime.Slot)
	} else {
		w.r.Count("queued.control_accepted", 1)
	}
	w.r.Count("queued.judged", 1)
}

// ---------------------------------------------------------------- child

func childBase(b run.Batch, r *ev.Result) {
	if b.Kind == "scale" {
		scaleRound(b, r, b.Seed)
		return
	}
	if b.Kind == "highwin" {
		highWindowRound(b, r, b.Seed)
		return
	}
	rounds := 1
	fmt.Sscan(b.P("rounds"), &rounds)
	for k := 0; k < rounds && r.NumViolations() == 0; k++ {
		round(b, r, b.Seed*16+int64(k), k)
	}
}

// round is one server lifetime (well below the 120 s test-mode limit).
func round(b run.Batch, r *ev.Result, seed int64, k int) {
	rng := rand.New(rand.NewSource(seed))
	drv.SetClock(0)
	drv.GateRotation(true)
	drv.GateImpact(true)
	dw, err := drv.NewWorld(filepath.Join(b.Dir, fmt.Sprintf("srv%d", k)), rng)
	if err != nil {
		r.Inconc("cannot start world: " + err.Error())
		return
	}
	defer os.RemoveAll(dw.Dir)
	defer dw.Close()
	w := &world{World: dw, rng: rng, r: r, auth: map[uint32]refenc.Auth{}, banned: map[uint32]bool{}}
	capacity := uint64(100000 + rng.Intn(100000))
	if w.A, err = dw.AddDevice(10+uint32(rng.Intn(50)), capacity); err != nil {
		r.Inconc(err.Error())
		return
	}
	if w.B, err = dw.AddDevice(100+uint32(rng.Intn(50)), capacity*2); err != nil {
		r.Inconc(err.Error())
		return
	}
	if w.X, err = dw.AddDevice(200+uint32(rng.Intn(50)), capacity); err != nil {
		r.Inconc(err.Error())
		return
	}
	if st, err := dw.BanDevice(w.X.ID); err != nil || st == 200 {
		r.Inconc(fmt.Sprintf("could not ban device X: status %d err %v", st, err))
		return
	}
	w.auth[w.A.ID], w.auth[w.B.ID] = w.A.Auth, w.B.Auth
	w.banned[w.X.ID] = true
	w.U = &drv.Dev{ID: 300 + uint32(rng.Intn(50)), Key: refenc.GenKey(rng)}

	var slice, of int
	fmt.Sscan(b.P("slice"), &slice)
	fmt.Sscan(b.P("of"), &of)
	full := b.Tier == "thorough" || slice == 0
	deltas := []uint32{0, 1, 431, 432, 433, 2015, 2016, 2017, 3199, 3200, 3599, 3600, 3601, 4031, 4032, 4033, 4463, 4464, 4465, 8064}
	deltas = append(deltas, uint32(rng.Intn(3601)), uint32(rng.Intn(3601)), uint32(3600+rng.Intn(900)))
	offsets := []uint32{0, 2016, 4032}
	// Each child takes the configurations whose index falls into its slice.
	ci := 0
	for oi, off := range offsets {
		// membership changes between weeks: what counts is who is authorized *now*
		if oi == 1 {
			if c, err := dw.AddDevice(400+uint32(rng.Intn(50)), capacity); err == nil {
				w.U, w.C = c, w.U // U becomes authorized; its earlier rejected reports stay rejected history
				_ = w.C
				w.auth[c.ID] = c.Auth
				r.Count("membership.authorized_midrun", 1)
			}
			// a restart must not change who is authorized or banned
			run.Op("restart")
			drv.SetClock(w.S.VerifSnapshot(false).Offset) // no start-up catch-up rotation wanted here
			if err := dw.Restart(); err != nil {
				r.Violationf("restart-failed", nil, "server restart failed: %v", err)
				return
			}
			r.Count("membership.restarts", 1)
		}
		if oi == 2 {
			banB := func() (int, error) {
				if rng.Intn(2) == 0 {
					return dw.BanDevice(w.B.ID)
				}
				// conflicting authorization for B's id that carries ANOTHER registered device's key
				a := w.B.Auth
				a.Pub = w.A.Key.Pub
				st, _, err := dw.Authorize(a.Signed(dw.GCA.Priv))
				r.Count("membership.banned_by_conflict_with_other_devices_key", 1)
				return st, err
			}
			if st, err := banB(); err == nil && st != 200 {
				delete(w.auth, w.B.ID)
				w.banned[w.B.ID] = true
				w.X, w.B = w.B, w.A // B is banned from now on
				r.Count("membership.banned_midrun", 1)
			}
		}
		// reach the offset by real rotations
		for {
			snap := w.S.VerifSnapshot(false)
			if snap.Offset >= off {
				break
			}
			drv.SetClock(snap.Offset + 3201)
			if n := drv.StepRotation(); n != 1 {
				r.Inconc(fmt.Sprintf("rotation did not happen when expected (now-offset=3201): %d", n))
				return
			}
		}
		for _, dl := range deltas {
			ci++
			if ci%of != slice {
				continue
			}
			now := off + dl
			drv.SetClock(now)
			before := w.S.VerifSnapshot(true)
			if before.Offset != off {
				r.Inconc(fmt.Sprintf("offset moved unexpectedly: %d want %d", before.Offset, off))
				return
			}
			w.membership(before)
			dgs := w.datagrams(now, off, full)
			for i, d := range dgs {
				viaSocket := i%7 == 3 || len(d.b) != 80
				before = w.judge(d.b, d.class, now, before, viaSocket)
				if r.NumViolations() > 20 {
					return
				}
			}
			w.surfaces(before)
			// replay datagrams accepted earlier (possibly in a week that has rotated away since)
			for _, old := range w.accepted {
				before = w.judge(old, "replay.old", now, before, false)
			}
			r.Count("configurations", 1)
			if len(dgs) > 0 {
				r.Sample(map[string]interface{}{"now": now, "offset": off, "class": dgs[len(dgs)/2].class, "bytes": hex.EncodeToString(dgs[len(dgs)/2].b)})
			}
		}
	}
	if slice%2 == 1 && r.NumViolations() == 0 {
		w.queuedAcrossClockChange()
	}
	if mf, sf := w.S.VerifTryLock(); !mf || !sf {
		r.Violationf("lock-held-at-quiescence", nil, "a server mutex is still held after all datagrams were processed (main free=%v, servers free=%v)", mf, sf)
	}
}
