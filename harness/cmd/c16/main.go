//go:build test

// C16 — Energy readings become report values by fixed rules, for every file
// content.
//
// Monitor: real clients (child processes, plain build). For every calibration
// file variant a client is provisioned and started; malformed calibration must
// make NewClient return an error, valid calibration must read back exactly.
// For every generated energy file the client's reader (VerifReadEnergyFile)
// is called and its records are compared with the independent reference rule
// in lib/efref (own CSV record splitter, own integer syntax, value rule with
// exact truncation through math/big). All clients run freely meanwhile (their
// report loop reads the same files): every datagram arriving at the UDP sink
// must verify under the client's key and carry a (slot, value) the reference
// derives from some row written to that client. A dedicated wire run waits for
// loop ticks after each file and expects the datagrams of its new rows.
package main

import (
	"fmt"
	"math"
	"math/rand"
	"os"
	"path/filepath"
	"strconv"
	"strings"
	"time"

	"github.com/glowlabs-org/gca-backend/client"
	"github.com/glowlabs-org/gca-backend/glow"

	"verifharness/lib/drv"
	"verifharness/lib/efref"
	"verifharness/lib/ev"
	"verifharness/lib/refenc"
	"verifharness/lib/run"
)

// strictFarFuture: rows whose distance to genesis does not fit 32 bits of
// seconds. (Decision: such a row must be skipped or land in its true slot; the
// wrapped slot is a violation - /repo got a fix: commit for it.) Original note:
// seconds. The property leaves open whether they are "unusable" (skipped) or
// belong to the slot containing them; the deployed arithmetic wraps modulo
// 2^32 seconds. All outcomes are accepted and counted (farfuture.*); set to
// true to make the wrapped slot a violation.
const strictFarFuture = true

func main() {
	run.Main(run.Spec{
		ID:    "C16",
		Level: "exploration",
		Pkg:   "./cmd/c16",
		Rule: "files are generated per calibration variant from classes: clean CSV (header present/absent/variant, 2 or 3 columns, LF/CRLF, quoted fields), one CSV-level defect at a random row (single column, extra column, bare quote, quote+junk, unterminated quote, blank field line), single-column first row, token soup, structural extremes (empty, header only, no final newline, many rows), absent file, rows with distinct unusable fields of 120-3000 bytes, files of 64 KiB to 4 MiB (tens of thousands of rows; byte 2^20 inside the timestamp, inside the reading, on the newline, file size 2^20 -1/0/+1), same-length rewrite of an already parsed file with its modification time restored; " +
			"timestamps: around genesis, slot boundaries, 32-bit second boundary, far future, before genesis, beyond int64, non-numeric; readings: +-24 boundary, truncation targets, negatives, scientific, hex, huge, NaN/Inf, text. " +
			"Non-trivial = a file for which the reference rule demands at least one record or that has a CSV-level error; distinct by (calibration text, file text).",
		Assumptions: []string{
			"linux/amd64 only: conversion of a negative float64 to uint64 is platform defined in Go; the two's complement result is what this platform produces",
			"strconv.ParseFloat defines 'field 1 is a float' in the reference as well (shared trusted base); everything else in the reference is independent of the repository",
			"value rule asserted for finite calibration with non-zero divider and finite readings whose scaled value is below 2^63 in magnitude; NaN/Inf/overflow/zero divider: absence of crash only",
			"rows at or after genesis + 2^32 seconds: skipped, true slot or slot of the seconds modulo 2^32 are all accepted (counted as farfuture.*)",
			"test build: genesis is the child's start time; default calibration 1000/1000; the client's own report loop runs concurrently and reads the same files",
		},
		Plan:  plan,
		Child: child,
		Post: func(c *ev.Check, outs []*run.Outcome) {
			for _, k := range []string{"rows.ts.in-range/scaled", "rows.ts.in-range/below-24", "rows.ts.in-range/unparseable", "rows.ts.before-genesis", "rows.ts.not-an-int64", "rows.row.too-few-fields",
				"files.csv_error", "files.wellformed", "files.absent", "records.negative_scaled", "records.matched", "calib.valid_readback", "calib.malformed_rejected", "calib.malformed_after_earlier_life", "calib.absent_defaults",
				"rows.boundary24", "farfuture.probes", "files.single_column_first_row", "rewrite.same_size_same_mtime",
				"gen.long-fields", "big.files", "big.limit_inside_timestamp", "big.limit_inside_reading", "big.limit_on_newline", "big.size_at_limit"} {
				c.Require(k, 1)
			}
			c.Require("records.matched", 1000)
			c.Require("wire.expected_seen", 10)
			c.Require("wire.datagrams_judged", 10)
			if n := c.Counter("wire.expected_missing"); n > 0 {
				c.Inconc(fmt.Sprintf("%d expected datagrams were not seen at the sink", n))
			}
		},
	})
}

func planBase(tier string, seed int64) []run.Batch {
	nb, ncal, nfiles, nwire := 16, 28, 36, 14
	if tier == "thorough" {
		nb, ncal, nfiles, nwire = 192, 14, 112, 20
	}
	// every child cycles through all 14 calibration classes (ncal is a multiple of 14)
	var bs []run.Batch
	for i := 0; i < nb; i++ {
		bs = append(bs, run.Batch{Kind: "files", Seed: seed*100003 + int64(i), N: ncal * nfiles, TimeoutS: 100,
			Params: map[string]string{"ncal": fmt.Sprint(ncal), "nfiles": fmt.Sprint(nfiles), "nwire": fmt.Sprint(nwire)}})
	}
	return bs
}

// ---------------------------------------------------------------- calibration

type calib struct {
	text    *string // nil: no file
	class   string  // absent | valid | malformed | ambiguous
	mult    float64 // expected read-back (valid / ambiguous when accepted)
	div     float64
	inRange bool // finite, non-zero divider: value rule applies
}

func fmtF(rng *rand.Rand, f float64) string {
	switch rng.Intn(4) {
	case 0:
		return strconv.FormatFloat(f, 'g', -1, 64)
	case 1:
		return strconv.FormatFloat(f, 'e', -1, 64)
	case 2:
		return strconv.FormatFloat(f, 'f', -1, 64)
	}
	return strconv.FormatFloat(f, 'g', 6, 64)
}

func genCalib(rng *rand.Rand, idx int) calib {
	two := func(a, b string, ending int) string {
		switch ending {
		case 0:
			return a + "\n" + b + "\n"
		case 1:
			return a + "\n" + b
		}
		return a + "\n" + b + "\n\n"
	}
	mk := func(class, text string, l1, l2 string) calib {
		c := calib{text: &text, class: class}
		c.mult, _ = strconv.ParseFloat(l1, 64)
		c.div, _ = strconv.ParseFloat(l2, 64)
		c.inRange = !math.IsNaN(c.mult) && !math.IsNaN(c.div) && !math.IsInf(c.mult, 0) && !math.IsInf(c.div, 0) && c.div != 0
		return c
	}
	valid := func(a, b string) calib { return mk("valid", two(a, b, rng.Intn(2)), a, b) }
	bad := func(text string) calib { return calib{text: &text, class: "malformed"} }
	rf := func(lo, hi float64) float64 {
		f := lo * math.Pow(hi/lo, rng.Float64())
		if rng.Intn(3) == 0 {
			f = -f
		}
		return f
	}
	switch idx % 14 {
	case 0:
		return calib{class: "absent", mult: client.EnergyMultiplierDefault, div: client.EnergyDividerDefault, inRange: true}
	case 1:
		return valid("1000", "1000")
	case 2:
		return valid("-2000", "1000")
	case 3:
		a, b := 2+rng.Intn(9), 11+rng.Intn(9)
		if rng.Intn(2) == 0 {
			a, b = b, a
		}
		return valid(fmt.Sprint(a), fmt.Sprint(b))
	case 4, 5:
		return valid(fmtF(rng, rf(0.001, 5000)), fmtF(rng, rf(0.5, 5000)))
	case 6:
		return [](func() calib){
			func() calib { return valid("1", "1") },
			func() calib { return valid("2.5e3", "1E3") },
			func() calib { return valid("0x1p10", "0x1p10") },
			func() calib { return valid("+4", "+3") },
			func() calib { return valid("1000", "-1000") },
			func() calib { return valid("0.001", "1") },
		}[rng.Intn(6)]()
	case 7:
		return [](func() calib){
			func() calib { return valid("1000", "0") },
			func() calib { return valid("0", "0") },
			func() calib { return valid("-3", "-0") },
			func() calib { return valid("0", "1000") },
		}[rng.Intn(4)]()
	case 8:
		return [](func() calib){
			func() calib { return valid("1e300", "1e-300") },
			func() calib { return valid("NaN", "1") },
			func() calib { return valid("1", "Inf") },
			func() calib { return valid("-Inf", "2") },
			func() calib { return valid("1e-300", "1e300") },
			func() calib { return valid("4e18", "1") },
		}[rng.Intn(6)]()
	case 9:
		return bad([]string{"", "1000", "1000\n", "\n", "\n\n", "1000\n\n", "1000\n\n1000\n", "\n1000\n1000\n"}[rng.Intn(8)])
	case 10:
		return bad([]string{"abc\n1000\n", "1000\nabc\n", "multiplier=1000\ndivider=1000\n", "1000x\n1000\n", "1000\n1000x\n", "1,000\n1000\n", "1000;1000\n", "1000,1000\n", "1000 1000\n", "1000\n1.0.0\n", "--5\n3\n", "1e\n1\n"}[rng.Intn(12)])
	case 11:
		// padded numbers, CRLF, extra lines, out-of-range literals: the text
		// does not say whether these are malformed; error or exact value.
		v := [][3]string{
			{" 1000\n1000\n", "1000", "1000"}, {"1000 \n1000\n", "1000", "1000"}, {"1000\n1000 \n", "1000", "1000"}, {"\t3\n7\n", "3", "7"},
			{"3\r\n7\r\n", "3", "7"}, {"3\r\n7", "3", "7"}, {"3\n7\n9\n", "3", "7"}, {"3\n7\nabc\n", "3", "7"}, {"3\n7\n\n\n", "3", "7"},
			{"1e999\n1\n", "1e999", "1"}, {"1\n-1e999\n", "1", "-1e999"}, {"1_000\n1000\n", "1000", "1000"},
		}[rng.Intn(12)]
		return mk("ambiguous", v[0], v[1], v[2])
	case 12:
		return valid(fmt.Sprint(1+rng.Intn(5000)), fmt.Sprint(1+rng.Intn(5000)))
	default:
		return valid(fmtF(rng, -rf(0.01, 100)), fmtF(rng, rf(0.01, 100)))
	}
}

// ---------------------------------------------------------------- file generator

type fgen struct {
	rng     *rand.Rand
	genesis int64
	mult    float64
	div     float64
	scaleOK bool
	big     bool
	seq     int64 // running timestamp for sequential rows
}

const two32 = int64(1) << 32

func (g *fgen) ts() string {
	rng := g.rng
	if rng.Intn(40) == 0 {
		return g.longField()
	}
	G := g.genesis
	d := func(v int64) string { return strconv.FormatInt(v, 10) }
	switch k := rng.Intn(100); {
	case k < 40:
		return d(G + rng.Int63n(300000))
	case k < 52:
		g.seq += int64(rng.Intn(700))
		return d(G + g.seq)
	case k < 60:
		return d(G + []int64{0, 1, 299, 300, 301, 599, 600, two32 - 1, two32 - 296, two32 - 300, two32 - 301}[rng.Intn(11)])
	case k < 66:
		return d(G + rng.Int63n(two32))
	case k < 72: // beyond the 32-bit second range
		switch rng.Intn(6) {
		case 0:
			return d(G + two32)
		case 1:
			return d(G + two32 + rng.Int63n(1000000))
		case 2:
			return d(G*1000 + rng.Int63n(1000)) // a meter that writes milliseconds
		case 3:
			return d(G + 300*two32 - 1 - rng.Int63n(600))
		case 4:
			return d(G + 300*two32 + rng.Int63n(600))
		}
		return d(math.MaxInt64 - rng.Int63n(3))
	case k < 80: // before genesis
		return []string{d(G - 1), d(G - 300), d(G - 1 - rng.Int63n(1000000000)), "0", "-1", d(-G), d(math.MinInt64), "1", "-0"}[rng.Intn(9)]
	case k < 84: // not representable
		return []string{"9223372036854775808", "-9223372036854775809", "18446744073709551616", "99999999999999999999999999"}[rng.Intn(4)]
	case k < 88: // valid but unusual integer syntax
		t := G + rng.Int63n(300000)
		return []string{"+" + d(t), "000" + d(t), "+0" + d(t)}[rng.Intn(3)]
	default: // not an integer
		t := d(G + rng.Int63n(300000))
		return []string{"timestamp", "abc", "", " ", " " + t, t + " ", "1.7e9", t + ".0", "0x" + t, "١٧٠٠", t[:3] + "_" + t[3:], t + "\t", "-", "+", "--" + t, t + "e0", "NaN", "١" + t, t[:4] + " " + t[4:], "\ufeff" + t}[rng.Intn(20)]
	}
}

func (g *fgen) val() string {
	rng := g.rng
	if rng.Intn(25) == 0 {
		return g.longField()
	}
	ff := func(f float64) string { return fmtF(rng, f) }
	switch k := rng.Intn(100); {
	case k < 12:
		return []string{"24", "-24", "23.999999999999996", "-23.999999999999996", "24.000000000000004", "-24.000000000000004", "2.4e1", "-2.4E1", "0x1.8p4", "-0x1.8p4", "24.0", "+24",
			"23.99999999999999999999", "-23.99999999999999999999", "24.5", "-24.5", "25", "-25", "23.5", "-23.5", "0x1.7ffffffffffffp4", "240e-1", "0.24e2"}[rng.Intn(23)]
	case k < 20:
		return []string{"0", "-0", "0.0", "1e-320", "-5", "23", "-23.5", "1e-5", "5e-324", "-1", "1", "2", "3", "+0", "0x0p0", ".5", "5."}[rng.Intn(17)]
	case k < 38:
		return strconv.FormatFloat(24+rng.Float64()*5e6, 'f', rng.Intn(7), 64)
	case k < 50:
		return strconv.FormatFloat(-(24 + rng.Float64()*5e6), 'f', rng.Intn(7), 64)
	case k < 56:
		return ff((rng.Float64() - 0.5) * math.Pow(10, float64(rng.Intn(16))))
	case k < 60:
		return strconv.FormatInt(rng.Int63n(20000000)-10000000, 10)
	case k < 70: // truncation targets: scaled value close to an integer from either side
		if !g.scaleOK {
			return "100.999999"
		}
		kk := float64(rng.Int63n(2000000) - 1000000)
		frac := []float64{0.999999, 0.000001, 0.5, 0.9999999999, 0, 0.25}[rng.Intn(6)]
		if kk < 0 {
			frac = -frac
		}
		return strconv.FormatFloat((kk+frac)*g.div/g.mult, 'g', -1, 64)
	case k < 80:
		return []string{"1e12", "4294967296", "4294972296", "-4294962296", "9007199254740992", "9007199254740993", "9223372036854775807", "9223372036854775808", "-9223372036854775808", "-9223372036854775809",
			"9223372036854774784", "-9223372036854774784", "1e19", "-1e19", "1.8e19", "18446744073709551615", "18446744073709551616", "1e300", "-1e300", "1.7976931348623157e308", "1e999", "-1e999", "1e15", "-1e15", "4.6e18", "-4.6e18", "9.2e15", "-9.3e15"}[rng.Intn(28)]
	case k < 85:
		return []string{"NaN", "nan", "Inf", "-Inf", "+Inf", "Infinity", "-infinity", "iNf", "+nan", "-NaN"}[rng.Intn(10)]
	case k < 89:
		return []string{"0x1p-2", "0x1.fffffffffffffp+62", "0X1P+63", "-0x1p63", "0x1p5", "-0x1.9p6", "0x10", "0x1_0p2", "0x.8p6"}[rng.Intn(9)]
	default:
		return []string{"", " ", "error", "n/a", "12abc", "1.2.3", "--5", "5-", "1e", "e5", ".", "+", "-", "0x", "1_000", "١٢٣", " 100", "100 ", "1 000", "1,5", "12\"3", "\"", "a\nb", "null", "1e5e5", "1/2", "100W", "1.000,5", "\t100", "100\r"}[rng.Intn(30)]
	}
}

// longField: an unusable field of hundreds to thousands of bytes whose text
// differs from every other one from its first bytes on.
func (g *fgen) longField() string {
	rng := g.rng
	n := 165 + rng.Intn(300)
	switch rng.Intn(8) {
	case 0:
		n = 500 + rng.Intn(2500)
	case 1:
		n = 120 + rng.Intn(60)
	}
	var sb strings.Builder
	switch rng.Intn(4) {
	case 0: // more digits than a float64 can hold
		if n < 310 {
			n += 310
		}
		sb.WriteByte(byte('1' + rng.Intn(9)))
		for sb.Len() < n {
			sb.WriteByte(byte('0' + rng.Intn(10)))
		}
	case 1: // firmware error text
		fmt.Fprintf(&sb, "ERR %08x: ", rng.Uint32())
		words := []string{"sensor", "fault", "CT clamp", "overrange", "i2c timeout", "retry", "0x%04x", "phase B", "checksum"}
		for sb.Len() < n {
			fmt.Fprintf(&sb, words[rng.Intn(len(words))]+" ", rng.Intn(65536))
		}
	case 2: // a number followed by junk
		fmt.Fprintf(&sb, "%d.", rng.Int63())
		for sb.Len() < n {
			sb.WriteByte("0123456789abcdef-+.eE_ "[rng.Intn(23)])
		}
	default: // text with separators (needs quoting)
		fmt.Fprintf(&sb, "%x", rng.Int63())
		for sb.Len() < n {
			sb.WriteString([]string{"a", "7", ",", "\"", " ", "\n", "xyz", "é"}[rng.Intn(8)])
		}
	}
	return sb.String()
}

// enc writes one field; style 0 = as short as RFC 4180 allows, 1 = always quoted.
func enc(f string, style int) string {
	need := strings.ContainsAny(f, ",\"\n\r") || style == 1
	if !need {
		return f
	}
	return `"` + strings.ReplaceAll(f, `"`, `""`) + `"`
}

func (g *fgen) row(cols int, quoted bool) string {
	st := 0
	fs := []string{g.ts(), g.val()}
	for len(fs) < cols {
		fs = append(fs, []string{"", "x", "7", "ok,fine", "0.5"}[g.rng.Intn(5)])
	}
	for i := range fs {
		st = 0
		if quoted && g.rng.Intn(3) == 0 {
			st = 1
		}
		fs[i] = enc(fs[i], st)
	}
	return strings.Join(fs, ",")
}

func (g *fgen) header(cols int) (string, bool) {
	h := []string{"timestamp,energy (mWh)", "timestamp,energy", "Timestamp,Energy", "time,value", "#timestamp,energy", "\"timestamp\",\"energy (mWh)\"", "timestamp, energy"}[g.rng.Intn(7)]
	if g.rng.Intn(4) == 0 {
		return "", false
	}
	for i := 2; i < cols; i++ {
		h += ",extra"
	}
	return h, true
}

// file returns the content and a label of the generator class.
func (g *fgen) file() (string, string) {
	rng := g.rng
	g.seq = rng.Int63n(100000)
	nl := "\n"
	if rng.Intn(5) == 0 {
		nl = "\r\n"
	}
	join := func(rows []string, final bool) string {
		s := strings.Join(rows, nl)
		if final && len(rows) > 0 {
			s += nl
		}
		return s
	}
	clean := func(n, cols int) []string {
		var rows []string
		if h, ok := g.header(cols); ok {
			rows = append(rows, h)
		}
		q := rng.Intn(3) == 0
		for i := 0; i < n; i++ {
			rows = append(rows, g.row(cols, q))
			if rng.Intn(25) == 0 {
				rows = append(rows, "") // blank line
			}
		}
		return rows
	}
	if rng.Intn(12) == 0 {
		// many rows with distinct, very long unusable fields (each one is logged by the reader)
		var rows []string
		if h, ok := g.header(2); ok {
			rows = append(rows, h)
		}
		for i, n := 0, 3+rng.Intn(14); i < n; i++ {
			t := strconv.FormatInt(g.genesis+rng.Int63n(300000), 10)
			switch rng.Intn(6) {
			case 0:
				rows = append(rows, enc(g.longField(), 0)+","+strconv.FormatFloat(24+rng.Float64()*1e5, 'f', 2, 64))
			case 1:
				rows = append(rows, t+","+enc(g.longField(), 1))
			default:
				rows = append(rows, t+","+enc(g.longField(), 0))
			}
		}
		return join(rows, rng.Intn(6) != 0), "long-fields"
	}
	switch k := rng.Intn(100); {
	case k < 52:
		cols := 2
		if rng.Intn(8) == 0 {
			cols = 3 + rng.Intn(2)
		}
		return join(clean(rng.Intn(40), cols), rng.Intn(6) != 0), "clean"
	case k < 68:
		rows := clean(1+rng.Intn(25), 2)
		pos := rng.Intn(len(rows) + 1)
		var defect string
		switch rng.Intn(8) {
		case 0:
			defect = g.ts()
			if strings.ContainsAny(defect, ",\"\n\r") {
				defect = "17"
			}
		case 1:
			defect = g.row(3, false)
		case 2:
			defect = g.ts() + `,12"3`
		case 3:
			defect = `"` + g.ts() + `"x,100`
		case 4:
			defect = g.ts() + `,"100`
		case 5:
			defect = " "
		case 6:
			defect = g.row(2, false) + ","
		default:
			defect = `"` + g.ts()
		}
		rows = append(rows[:pos], append([]string{defect}, rows[pos:]...)...)
		return join(rows, rng.Intn(6) != 0), "one-defect"
	case k < 76:
		// single column first row (the pinned crash), then ordinary rows
		var rows []string
		first := []string{"timestamp", g.ts(), "energy log v2", "17"}[rng.Intn(4)]
		if strings.ContainsAny(first, ",\"\n\r") {
			first = "x"
		}
		rows = append(rows, first)
		n := rng.Intn(12)
		for i := 0; i < n; i++ {
			if rng.Intn(3) == 0 {
				t := g.ts()
				if strings.ContainsAny(t, ",\"\n\r") {
					t = "5"
				}
				rows = append(rows, t)
			} else {
				rows = append(rows, g.row(2, false))
			}
		}
		return join(rows, rng.Intn(4) != 0), "single-column-first"
	case k < 88:
		tok := []func() string{g.ts, g.val, func() string { return "," }, func() string { return "," }, func() string { return "\n" }, func() string { return "\n" }, func() string { return "\"" },
			func() string { return "\r\n" }, func() string { return "\r" }, func() string { return " " }, func() string { return "\"\"" }, func() string { return g.row(2, true) + "\n" }}
		var sb strings.Builder
		for i, n := 0, rng.Intn(60); i < n; i++ {
			sb.WriteString(tok[rng.Intn(len(tok))]())
		}
		return sb.String(), "token-soup"
	case k < 97:
		switch rng.Intn(9) {
		case 0:
			return "", "extreme"
		case 1:
			return "timestamp,energy (mWh)\n", "extreme"
		case 2:
			return "\n\n\r\n\n", "extreme"
		case 3:
			return join(clean(5, 2), false) + "\r", "extreme"
		case 4:
			return "\ufeff" + join(clean(5, 2), true), "extreme"
		case 5:
			n := 400
			if g.big {
				n = 1500
			}
			return join(clean(n, 2), true), "extreme"
		case 6:
			return g.row(2, false), "extreme"
		case 7:
			return ",\n,\n" + g.row(2, false) + "\n", "extreme"
		}
		return join(clean(3, 2), true) + "\"", "extreme"
	default:
		return "", "absent"
	}
}

// ---------------------------------------------------------------- one client

type clientRun struct {
	idx     int
	env     *drv.ClientEnv
	cal     calib
	adm     map[efref.Rec]bool
	anySlot map[uint32]bool
	mustSee []efref.Rec
	seen    map[efref.Rec]bool
}

func (cr *clientRun) admit(p *efref.Parsed) {
	for _, e := range p.Exps {
		for _, a := range e.Alts {
			if e.AnyValue {
				cr.anySlot[a.Slot] = true
			} else {
				cr.adm[a] = true
			}
		}
	}
}

func calText(c calib) string {
	if c.text == nil {
		return "<absent>"
	}
	return *c.text
}

func sameF(a, b float64) bool {
	if math.IsNaN(a) || math.IsNaN(b) {
		return math.IsNaN(a) && math.IsNaN(b)
	}
	return math.Float64bits(a) == math.Float64bits(b)
}

type world struct {
	r       *ev.Result
	rng     *rand.Rand
	b       run.Batch
	genesis int64
	sink    *drv.UDPSink
	rogue   *drv.RogueSync
	byID    map[uint32]*clientRun
	gca     [32]byte
}

func (w *world) newRun(idx int, cal calib, energy *string) *clientRun {
	id := uint32(1000 + idx*7 + w.rng.Intn(7))
	cr := &clientRun{idx: idx, cal: cal, adm: map[efref.Rec]bool{}, anySlot: map[uint32]bool{}, seen: map[efref.Rec]bool{}}
	cr.env = &drv.ClientEnv{
		Dir: filepath.Join(w.b.Dir, fmt.Sprintf("cl%03d", idx)), Key: refenc.GenKey(w.rng), GCA: w.gca, ShortID: id,
		Servers:       []refenc.MapEntry{w.rogue.Entry(w.sink.Port, false)},
		HistoryOrigin: 0, CTSettings: cal.text, Energy: energy, LastSync: drv.FreshSyncStamp(),
	}
	if idx%3 == 1 {
		// a device whose history begins some time after genesis: what the reader makes of a row does not
		// depend on what the history can store (rows before the history origin are records like any other)
		cr.env.HistoryOrigin = uint32(1 + w.rng.Intn(3000))
		w.r.Count("clients.history_origin_after_genesis", 1)
	}
	w.byID[id] = cr
	return cr
}

// judgeFile compares the reader's answer for the file currently in place.
func (w *world) judgeFile(cr *clientRun, c *client.Client, content string, absent bool, label string) {
	r := w.r
	mult, div := cr.cal.mult, cr.cal.div
	p := efref.Reference([]byte(content), w.genesis, mult, div)
	if !absent {
		cr.admit(p)
	}
	got, err := c.VerifReadEnergyFile()
	r.Eval(1)
	r.Count("gen."+label, 1)
	recs := make([]efref.Rec, len(got))
	for i, g := range got {
		recs[i] = efref.Rec{Slot: g.Timeslot, Value: g.Energy}
	}
	replay := map[string]interface{}{"calibration": calText(cr.cal), "file": forReplay(content), "genesis": w.genesis, "batch": w.b}
	if absent {
		r.Count("files.absent", 1)
		if err == nil && len(got) > 0 {
			r.Violationf("records-from-absent-file", replay, "the energy file does not exist but the reader returned %d records", len(got))
		}
		return
	}
	for cl, n := range p.Classes {
		r.Count("rows."+cl, int64(n))
	}
	if len(p.Exps) > 0 || p.CSVError != "" {
		r.Nontrivial(calText(cr.cal) + "\x00" + content)
	}
	if p.FieldCount == 1 {
		r.Count("files.single_column_first_row", 1)
	}
	if p.CSVError != "" {
		r.Count("files.csv_error", 1)
	} else {
		r.Count("files.wellformed", 1)
	}
	if err != nil {
		if p.CSVError != "" {
			r.Count("files.csv_error.reader_returned_error", 1)
		} else {
			r.Violationf("error-on-well-formed-file", replay, "the reader returned an error for a file that is well-formed CSV throughout: %v", err)
			return
		}
	}
	ok, why, class := efref.Match(p, recs)
	if !ok {
		kind := "well-formed-file"
		if p.CSVError != "" {
			kind = "file-with-csv-error"
		}
		replay["got"] = fmt.Sprint(recs)
		r.Violationf("rule-mismatch:"+class, replay, "%s (calibration %q -> mult %v div %v): %s", kind, calText(cr.cal), mult, div, why)
		return
	}
	r.Count("records.matched", int64(len(recs)))
	for _, e := range p.Exps {
		if e.Must && !e.AnyValue && strings.HasSuffix(e.Class, "/scaled") && int64(e.Alts[0].Value) < 0 {
			r.Count("records.negative_scaled", 1)
		}
	}
	if strings.Contains(content, "24") {
		for _, e := range p.Exps {
			if e.Must && (strings.Contains(e.Text, `"24`) || strings.Contains(e.Text, `"-24`) || strings.Contains(e.Text, "23.99999")) {
				r.Count("rows.boundary24", 1)
			}
		}
	}
}

// farFuture probes what happens to a single row beyond the 32-bit second range.
func (w *world) farFuture(cr *clientRun, c *client.Client) {
	r := w.r
	d := two32 + w.rng.Int63n(1000000000000)
	content := fmt.Sprintf("timestamp,energy (mWh)\n%d,100\n", w.genesis+d)
	p := efref.Reference([]byte(content), w.genesis, cr.cal.mult, cr.cal.div)
	cr.admit(p)
	run.Op("far future probe client=%d d=%d", cr.idx, d)
	if err := cr.env.WriteEnergy(content); err != nil {
		r.Inconc("cannot write energy file: " + err.Error())
		return
	}
	got, _ := c.VerifReadEnergyFile()
	r.Count("farfuture.probes", 1)
	switch {
	case len(got) == 0:
		r.Count("farfuture.skipped", 1)
	case len(got) == 1 && int64(got[0].Timeslot) == d/300:
		r.Count("farfuture.true_slot", 1)
	case len(got) == 1 && got[0].Timeslot == uint32(d%two32)/300:
		r.Count("farfuture.slot_of_seconds_mod_2^32", 1)
		if strictFarFuture {
			r.Violationf("far-future-timestamp-wrapped-into-wrong-slot", map[string]interface{}{"file": content, "genesis": w.genesis},
				"row %d s after genesis was reported for slot %d (its slot is %d)", d, got[0].Timeslot, d/300)
		}
	default:
		r.Violationf("rule-mismatch:far-future", map[string]interface{}{"file": content, "genesis": w.genesis, "got": fmt.Sprint(got)}, "far-future row yielded %v", got)
	}
}

func waitTicks(n uint64, r *ev.Result) bool {
	t0 := client.VerifTicks()
	deadline := time.Now().Add(15 * time.Second)
	for client.VerifTicks() < t0+n {
		if time.Now().After(deadline) {
			r.Inconc("client report loop did not tick within 15 s (wall-clock watchdog)")
			return false
		}
		time.Sleep(3 * time.Millisecond)
	}
	return true
}

func (w *world) calibrationRun(idx int, nfiles int) {
	r, rng := w.r, w.rng
	cal := genCalib(rng, idx)
	g := &fgen{rng: rng, genesis: w.genesis, mult: cal.mult, div: cal.div, scaleOK: cal.inRange && cal.mult != 0, big: w.b.Tier == "thorough"}
	var energy *string
	first, firstLabel := "", "absent"
	if rng.Intn(5) != 0 {
		first, firstLabel = g.file()
		if firstLabel != "absent" {
			energy = &first
		}
	}
	cr := w.newRun(idx, cal, energy)
	if cal.class == "malformed" && idx%2 == 0 {
		// An earlier life in the same directory: the device ran with a valid
		// calibration (or with none) before the file became malformed, e.g. by
		// a rewrite that was cut short. What an earlier start read is not what
		// the file says now.
		earlier := fmt.Sprintf("%d\n%d\n", 2+rng.Intn(5000), 1+rng.Intn(3000))
		cr.env.CTSettings, cr.env.Energy = &earlier, nil
		if idx%4 == 0 {
			cr.env.CTSettings = nil
		}
		if err := cr.env.Write(); err != nil {
			r.Inconc("cannot provision client: " + err.Error())
			return
		}
		run.Op("earlier life client=%d calibration=%q", idx, earlier)
		c0, err := drv.StartClient(cr.env.Dir)
		if err != nil {
			os.RemoveAll(cr.env.Dir)
			r.Violationf("valid-calibration-rejected", map[string]interface{}{"calibration": earlier, "batch": w.b}, "NewClient failed on ct-settings %q: %v", earlier, err)
			return
		}
		c0.Close()
		cr.env.CTSettings, cr.env.Energy = cal.text, energy
		r.Count("calib.malformed_after_earlier_life", 1)
	}
	if err := cr.env.Write(); err != nil {
		r.Inconc("cannot provision client: " + err.Error())
		return
	}
	defer os.RemoveAll(cr.env.Dir)
	if energy != nil {
		cr.admit(efref.Reference([]byte(first), w.genesis, cal.mult, cal.div))
	}
	run.Op("NewClient client=%d calibration=%q energy=%q", idx, calText(cal), first)
	c, err := drv.StartClient(cr.env.Dir)
	r.Eval(1)
	r.Count("calib.class."+cal.class, 1)
	replay := map[string]interface{}{"calibration": calText(cal), "batch": w.b}
	switch cal.class {
	case "malformed":
		if err == nil {
			st := c.VerifState()
			c.Close()
			r.Violationf("malformed-calibration-accepted", replay, "NewClient accepted ct-settings %q (multiplier %v divider %v)", calText(cal), st.Multiplier, st.Divider)
			return
		}
		r.Count("calib.malformed_rejected", 1)
		return
	case "ambiguous":
		if err != nil {
			r.Count("calib.ambiguous_rejected", 1)
			return
		}
		r.Count("calib.ambiguous_accepted", 1)
	default:
		if err != nil {
			r.Violationf("valid-calibration-rejected", replay, "NewClient failed on ct-settings %q: %v", calText(cal), err)
			return
		}
	}
	defer c.Close()
	st := c.VerifState()
	if !sameF(st.Multiplier, cal.mult) || !sameF(st.Divider, cal.div) {
		r.Violationf("calibration-readback-differs", replay, "ct-settings %q read back as multiplier %v divider %v, want first line %v second line %v", calText(cal), st.Multiplier, st.Divider, cal.mult, cal.div)
		return
	}
	if cal.class == "absent" {
		r.Count("calib.absent_defaults", 1)
	} else {
		r.Count("calib.valid_readback", 1)
	}
	if !cal.inRange {
		r.Count("calib.outside_value_domain", 1)
	}
	if energy != nil {
		w.judgeFile(cr, c, first, false, firstLabel)
	}
	for fi := 0; fi < nfiles; fi++ {
		content, label := g.file()
		absent := label == "absent"
		if len(content) < 3000 {
			run.Op("energy file client=%d #%d class=%s %q", idx, fi, label, content)
		} else {
			run.Op("energy file client=%d #%d class=%s (%d bytes)", idx, fi, label, len(content))
		}
		if absent {
			os.Remove(filepath.Join(cr.env.Dir, client.EnergyFile))
		} else if err := cr.env.WriteEnergy(content); err != nil {
			r.Inconc("cannot write energy file: " + err.Error())
			return
		}
		w.judgeFile(cr, c, content, absent, label)
		if fi == 0 && len(r.Samples) < 3 {
			r.Sample(map[string]interface{}{"calibration": calText(cal), "file": content, "class": label})
		}
		if r.NumViolations() > 20 {
			return
		}
	}
	w.sameSizeRewrite(cr, c)
	w.farFuture(cr, c)
}

// wireRun feeds files with new rows to a free-running client and waits for
// loop ticks; the datagrams of the new rows are expected at the sink.
func (w *world) wireRun(idx int, nfiles int) {
	r, rng := w.r, w.rng
	var cal calib
	for {
		cal = genCalib(rng, 1+rng.Intn(6))
		if cal.inRange && cal.mult != 0 {
			break
		}
	}
	header := "timestamp,energy (mWh)\n"
	cr := w.newRun(idx, cal, &header)
	if err := cr.env.Write(); err != nil {
		r.Inconc("cannot provision client: " + err.Error())
		return
	}
	defer os.RemoveAll(cr.env.Dir)
	run.Op("NewClient (wire) client=%d calibration=%q", idx, calText(cal))
	c, err := drv.StartClient(cr.env.Dir)
	if err != nil {
		r.Violationf("valid-calibration-rejected", map[string]interface{}{"calibration": calText(cal)}, "NewClient failed on ct-settings %q: %v", calText(cal), err)
		return
	}
	defer c.Close()
	g := &fgen{rng: rng, genesis: w.genesis, mult: cal.mult, div: cal.div, scaleOK: true}
	rows := []string{}
	slot := int64(0)
	for fi := 0; fi < nfiles; fi++ {
		var fresh []string
		for k, n := 0, 1+rng.Intn(4); k < n; k++ {
			slot += 1 + int64(rng.Intn(3))
			var v string
			for {
				v = g.val()
				if !strings.ContainsAny(v, ",\"\n\r") {
					break
				}
			}
			fresh = append(fresh, fmt.Sprintf("%d,%s", w.genesis+slot*300+int64(rng.Intn(300)), v))
		}
		rows = append(rows, fresh...)
		content := header + strings.Join(rows, "\n") + "\n"
		p := efref.Reference([]byte(content), w.genesis, cal.mult, cal.div)
		if p.CSVError != "" {
			r.Inconc("wire generator produced a malformed file")
			return
		}
		cr.admit(p)
		// expectations for the fresh rows only
		pf := efref.Reference([]byte(strings.Join(fresh, "\n")+"\n"), w.genesis, cal.mult, cal.div)
		for _, e := range pf.Exps {
			if e.Must && !e.AnyValue {
				cr.mustSee = append(cr.mustSee, e.Alts[0])
			}
		}
		run.Op("wire file client=%d #%d fresh=%q", idx, fi, fresh)
		if err := cr.env.WriteEnergy(content); err != nil {
			r.Inconc("cannot write energy file: " + err.Error())
			return
		}
		r.Count("wire.files", 1)
		if !waitTicks(2, r) {
			return
		}
	}
}

// judgeDatagrams attributes every datagram at the sink to its client by id.
func (w *world) judgeDatagrams() {
	r := w.r
	// the senders are closed; give the sink's reader a moment to drain the socket
	for last, same := -1, 0; same < 5; {
		n := w.sink.Count()
		if n == last {
			same++
		} else {
			same = 0
		}
		last = n
		time.Sleep(2 * time.Millisecond)
	}
	for _, pkt := range w.sink.Packets() {
		replay := map[string]interface{}{"datagram": fmt.Sprintf("%x", pkt), "genesis": w.genesis, "batch": w.b}
		if len(pkt) != 80 {
			r.Violationf("datagram-length", replay, "datagram of %d bytes at the sink", len(pkt))
			continue
		}
		rep, _ := refenc.ParseReport(pkt)
		cr := w.byID[rep.ID]
		if cr == nil {
			r.Inconc(fmt.Sprintf("datagram with unknown short id %d at the sink", rep.ID))
			continue
		}
		r.Eval(1)
		r.Count("wire.datagrams_judged", 1)
		replay["calibration"] = calText(cr.cal)
		if !refenc.Verify(cr.env.Key.Pub, rep.SigningBytes(), rep.Sig) {
			r.Violationf("datagram-signature-invalid", replay, "datagram (slot %d, power %d) does not verify under the client's key over the reference signing bytes", rep.Slot, rep.Power)
			continue
		}
		rec := efref.Rec{Slot: rep.Slot, Value: rep.Power}
		if !cr.adm[rec] && !cr.anySlot[rep.Slot] {
			r.Violationf("datagram-value-not-from-rule", replay, "datagram (slot %d, power %d) is not what the rule derives from any row written to this client (calibration %q)", rep.Slot, rep.Power, calText(cr.cal))
			continue
		}
		cr.seen[rec] = true
	}
	for _, cr := range w.byID {
		for _, m := range cr.mustSee {
			if cr.seen[m] {
				r.Count("wire.expected_seen", 1)
				if int64(m.Value) < 0 {
					r.Count("wire.expected_seen_negative", 1)
				}
			} else {
				r.Count("wire.expected_missing", 1)
				r.Note("expected datagram (slot %d, power %d) of client %d not seen", m.Slot, m.Value, cr.idx)
			}
		}
	}
}

func childBase(b run.Batch, r *ev.Result) {
	rng := rand.New(rand.NewSource(b.Seed))
	var ncal, nfiles, nwire int
	fmt.Sscan(b.P("ncal"), &ncal)
	fmt.Sscan(b.P("nfiles"), &nfiles)
	fmt.Sscan(b.P("nwire"), &nwire)
	sink, err := drv.NewUDPSink()
	if err != nil {
		r.Inconc("cannot open UDP sink: " + err.Error())
		return
	}
	defer sink.Close()
	rogue, err := drv.NewRogueSync(rng, nil)
	if err != nil {
		r.Inconc("cannot open TCP listener: " + err.Error())
		return
	}
	defer rogue.Close()
	w := &world{r: r, rng: rng, b: b, genesis: glow.GenesisTime, sink: sink, rogue: rogue, byID: map[uint32]*clientRun{}}
	rng.Read(w.gca[:])
	// the wire run first: its waits do not depend on what came before
	w.wireRun(0, nwire)
	w.bigRun(500)
	start := time.Now()
	for i := 0; i < ncal && r.NumViolations() <= 20; i++ {
		// A test-mode client whose NewClient failed (malformed calibration) cannot
		// be closed and makes the process panic by design 120 s later: never get near.
		if time.Since(start) > 70*time.Second {
			r.Inconc("child ran for more than 70 s (wall-clock guard against the test-mode 120 s client limit)")
			break
		}
		w.calibrationRun(1+i, nfiles)
	}
	w.judgeDatagrams()
}
