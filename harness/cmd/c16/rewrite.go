//go:build test

package main

// Same-length rewrite of the energy file with the previous modification time
// restored: the records must be a function of the file's content only (and the
// calibration), not of what the client parsed from an earlier content.

import (
	"fmt"
	"os"
	"path/filepath"
	"strings"

	"github.com/glowlabs-org/gca-backend/client"

	"verifharness/lib/run"
)

func (w *world) sameSizeRewrite(cr *clientRun, c *client.Client) {
	r, rng := w.r, w.rng
	path := filepath.Join(cr.env.Dir, client.EnergyFile)
	// version 1: fixed-width values so that every mutation keeps the length
	pairs := [][2]string{{"ERR", "731"}, {"412.5", "214.5"}, {"-50.0", "150.0"}, {"100000", "100001"}, {"23.9", "24.9"}, {"n/a", "0.5"}, {"9e05", "9e03"}, {"00731", "731.0"}}
	n := 3 + rng.Intn(6)
	type rw struct {
		ts  int64
		val string
	}
	var rows1, rows2 []rw
	slot := int64(rng.Intn(50))
	for i := 0; i < n; i++ {
		slot += 1 + int64(rng.Intn(3))
		p := pairs[rng.Intn(len(pairs))]
		a, b := p[0], p[1]
		if rng.Intn(2) == 0 {
			a, b = b, a
		}
		t := w.genesis + slot*300 + int64(rng.Intn(300))
		rows1 = append(rows1, rw{t, a})
		switch rng.Intn(3) {
		case 0:
			rows2 = append(rows2, rw{t, b}) // value rewritten
		case 1:
			rows2 = append(rows2, rw{t, a}) // unchanged
		default:
			rows2 = append(rows2, rw{t + 300, b}) // next slot, other value
			slot++
		}
	}
	// at least one row moves to another slot and one changes its value
	rows2[0] = rw{rows1[0].ts + 300, rows1[0].val}
	if rows2[0].ts >= rows1[1].ts/300*300 && n > 1 {
		rows2[0].ts = rows1[0].ts - 300
	}
	for _, p := range pairs {
		if rows1[n-1].val == p[0] {
			rows2[n-1] = rw{rows1[n-1].ts, p[1]}
		} else if rows1[n-1].val == p[1] {
			rows2[n-1] = rw{rows1[n-1].ts, p[0]}
		}
	}
	render := func(rows []rw) string {
		var sb strings.Builder
		sb.WriteString("timestamp,energy (mWh)\n")
		for _, x := range rows {
			fmt.Fprintf(&sb, "%d,%s\n", x.ts, x.val)
		}
		return sb.String()
	}
	v1, v2 := render(rows1), render(rows2)
	if len(v1) != len(v2) || v1 == v2 {
		r.Count("rewrite.generator_skipped", 1)
		return
	}
	run.Op("rewrite probe client=%d v1=%q", cr.idx, v1)
	if err := cr.env.WriteEnergy(v1); err != nil {
		r.Inconc("cannot write energy file: " + err.Error())
		return
	}
	st1, err := os.Stat(path)
	if err != nil {
		r.Inconc("cannot stat energy file: " + err.Error())
		return
	}
	w.judgeFile(cr, c, v1, false, "rewrite-v1") // the client has parsed version 1
	mode := "rename"
	if rng.Intn(3) == 0 {
		mode = "in-place"
	}
	run.Op("rewrite probe client=%d mode=%s v2=%q", cr.idx, mode, v2)
	if mode == "rename" {
		tmp := path + ".tmp"
		if err := os.WriteFile(tmp, []byte(v2), 0644); err != nil {
			r.Inconc("cannot write energy file: " + err.Error())
			return
		}
		os.Chtimes(tmp, st1.ModTime(), st1.ModTime())
		if err := os.Rename(tmp, path); err != nil {
			r.Inconc("cannot rename energy file: " + err.Error())
			return
		}
	} else {
		f, err := os.OpenFile(path, os.O_WRONLY, 0644)
		if err != nil {
			r.Inconc("cannot open energy file: " + err.Error())
			return
		}
		f.WriteAt([]byte(v2), 0)
		f.Close()
		os.Chtimes(path, st1.ModTime(), st1.ModTime())
	}
	st2, err := os.Stat(path)
	if err != nil || st2.Size() != st1.Size() || !st2.ModTime().Equal(st1.ModTime()) {
		r.Count("rewrite.not_established", 1)
		return
	}
	r.Count("rewrite.same_size_same_mtime", 1)
	r.Count("rewrite.mode."+mode, 1)
	w.judgeFile(cr, c, v2, false, "rewrite-same-size-same-mtime")
}
