//go:build test

// C14 — Archive download is a consistent, public-only snapshot.
//
// Monitor: the real server runs in child processes. (a) Gap injection: the
// `archive.beforeFile` hook fires six times per request (before each of the
// five public files and before server.pubkey); for every gap and every write
// burst the burst is performed synchronously inside the gap. (b) Concurrent
// writers (authorize / ban / report / equivocate / rotate) run while readers
// download archives (race-detector build). (c) Bursts of concurrent GETs
// against the rate limiter. Every 200 response is unzipped and judged by the
// archive verifier written here (reference decoders and crypto only); the
// admission times are judged by interval arithmetic (certain violations only).
package main

import (
	"archive/zip"
	"bytes"
	"crypto/sha256"
	"encoding/hex"
	"encoding/json"
	"fmt"
	"io"
	"math/rand"
	"net"
	"net/http"
	"os"
	"os/exec"
	"os/signal"
	"path/filepath"
	"runtime"
	"sort"
	"strconv"
	"strings"
	"sync"
	"sync/atomic"
	"syscall"
	"time"

	"github.com/glowlabs-org/gca-backend/server"

	"verifharness/lib/drv"
	"verifharness/lib/ev"
	"verifharness/lib/refenc"
	"verifharness/lib/run"
)

func main() {
	run.Main(run.Spec{
		ID:    "C14",
		Level: "exploration",
		Pkg:   "./cmd/c14",
		Rule: "an evaluation is one 200 archive response that was unzipped and judged. Non-trivial = (a) an archive during which a write burst was performed synchronously inside one of the six gaps " +
			"(distinct by server state × gap × burst × seed), or (b) an archive during whose request at least one public file was observed to grow (size before sending ≠ size after receiving; " +
			"distinct by run and entry lengths), or (c) an archive whose handler was released into / fired at an append that was visibly in progress (file size not record-aligned or statistics file starting to grow; " +
			"distinct by seed, attempt and entry lengths). Quiescent archives (rate bursts, final reads) are judged but counted as trivial.",
		Assumptions: []string{
			"the quantifier 'every write burst in every gap' is covered for the bursts {new device + first report, GCA registration + first device + report, rotation, ban by conflicting authorization, equivocating report, forged altered copy of a registered authorization, authorization of a new device while the authorization file cannot be appended to (ENOSPC via /dev/full) followed by that device's report} × 6 gaps × server states {fresh, rotated, restarted | gcaPubKey.dat absent, empty, absent with server-generated keys}; other interleavings are sampled by random concurrent writers only",
			"a point inside a single record append (between two write calls / between two pages of one write) is not reachable by hooks: split or torn appends are only seen if a reader hits the window; the generators steer readers towards it (requests fired when allDeviceStats.dat starts to grow; the handler held in the gap in front of a file until that file's size shows an append in progress), detection stays probabilistic",
			"an entry that ends inside a record at a multiple of 4096 bytes is what a reader sees during ONE write call on Linux/ext4 (known finding, three files); an entry that ends inside a record anywhere else needs a multi-write record and has its own key",
			"rate oracle: client send/receive instants and the limiter's time.Now() come from one process-wide monotonic clock; only limit+1 admissions that certainly fall into less than one window are raised; wrongful 429s are not judged here (C19)",
			"an error response (non-200) is accepted: an unregistered server has no gcaPubKey.dat and answers 500; only 200 responses are archives",
			"a 0-byte gcaPubKey.dat entry is accepted as the empty prefix (the file is created and then written at registration; the server itself treats the empty file as 'not registered'); closure then requires that the archive holds no authorization",
			"the race detector is a verdict for everything reported while archive readers run against writers (RaceIsViolation)",
		},
		Plan:            plan,
		Child:           child,
		RaceIsViolation: true,
		ClassifyDeath: func(c *ev.Check, o *run.Outcome) bool {
			// test-mode servers panic by design after 120 s of life; the children end every
			// instance after ~45 s, so this only happens when the machine is starved of CPU
			// Either way nothing is concluded from that batch: it is discarded and
			// counted; Post turns the run inconclusive if too many were lost.
			if strings.Contains(o.Stderr, "server lived for longer than 120 seconds") {
				c.AddCounter("batches_discarded.server_life_limit", 1)
				c.Note("batch %d (%s) discarded: a test-mode server reached its built-in 120 s life limit (machine overloaded)", o.Batch.Index, o.Batch.Kind)
				return true
			}
			if o.TimedOut && o.Batch.Kind == "conc" {
				c.AddCounter("batches_discarded.watchdog", 1)
				c.Note("batch %d (%s) discarded: wall-clock watchdog (machine overloaded); last ops: %v", o.Batch.Index, o.Batch.Kind, o.OplogTail)
				return true
			}
			return false
		},
		Post: func(c *ev.Check, outs []*run.Outcome) {
			for _, k := range []string{"archives_verified", "gap.cases_200", "gap.bursts_effective", "gapreg.cases_200", "gapreg.empty_key_archives",
				"conc.archives_with_concurrent_append", "conc.runs", "rate.decisive_bursts", "rate.staggered_on_schedule", "rate.held_in_time", "rate.status_200", "rate.status_429", "rate.requests_from_other_source_addresses", "rate.sustained_requests",
				"verified.reports", "verified.authorizations", "verified.stats_records", "verified.entries", "prefix_checks_after_quiescence", "privkey_scans",
				"hunt.archives", "statsappend.chased_requests", "tornstart.started", "tornstart.archives", "fifo.parked", "shortwrite.episodes", "shortwrite.archives"} {
				c.Require(k, 1)
			}
			for g := 1; g <= 6; g++ {
				c.Require(fmt.Sprintf("gap.fired.g%d", g), 1)
			}
			for _, bu := range []string{"newdev", "rotation", "ban", "equivocate", "forged", "faultauth"} {
				c.Require("gap.effective."+bu, 6)
			}
			c.Require("gapreg.effective", 4)
			if c.Tier == "thorough" {
				c.Require("bigfile.archives_checked", 1)
			}
			c.Require("conc.rotations", 1)
			// a few concurrent runs lost to an overloaded machine do not change what the
			// others showed; many lost runs do
			planned := 0
			for _, o := range outs {
				if o.Batch.Kind == "conc" {
					planned++
				}
			}
			lost := c.Counter("batches_discarded.server_life_limit") + c.Counter("batches_discarded.watchdog")
			if planned > 0 {
				c.Require("conc.runs", int64(planned-planned/10))
			}
			if lost*10 > int64(len(outs)) {
				c.Inconc(fmt.Sprintf("%d of %d batches were lost to watchdogs (machine overloaded)", lost, len(outs)))
			}
		},
	})
}

// ---------------------------------------------------------------- plan

func planBase(tier string, seed int64) []run.Batch {
	var bs []run.Batch
	n := 0
	only := os.Getenv("C14_KINDS") // debugging aid: run only these batch kinds (the verdict is then inconclusive at best)
	add := func(b run.Batch) {
		b.Seed = seed*100000 + int64(n)*7 + 1
		n++
		if only == "" || strings.Contains(","+only+",", ","+b.Kind+",") {
			bs = append(bs, b)
		}
	}
	// one concurrent run per child: a child that is lost to the watchdog on an
	// overloaded machine then costs one run, not a whole series
	reps, concChildren, runsPer, ratePlain, rateRace, statsAppend := 1, 20, 1, 2, 1, 2
	if tier == "thorough" {
		reps, concChildren, runsPer, ratePlain, rateRace, statsAppend = 4, 600, 1, 8, 2, 12
	}
	// concurrent batches first: they are the long ones
	for i := 0; i < concChildren; i++ {
		add(run.Batch{Kind: "conc", Variant: "race", N: runsPer, TimeoutS: 60 + 70*runsPer, Params: map[string]string{"runs": fmt.Sprint(runsPer)}})
	}
	for rep := 0; rep < reps; rep++ {
		for _, st := range []string{"fresh", "rotated", "restarted"} {
			add(run.Batch{Kind: "gap", N: 36, TimeoutS: 110, Params: map[string]string{"state": st}})
		}
		for _, v := range []string{"absent", "empty", "ownkeys"} {
			add(run.Batch{Kind: "gapreg", N: 6, TimeoutS: 110, Params: map[string]string{"variant": v}})
		}
	}
	for i := 0; i < statsAppend; i++ {
		add(run.Batch{Kind: "statsappend", N: 6, TimeoutS: 110})
		add(run.Batch{Kind: "hunt", N: 18, TimeoutS: 110})
	}
	for i := 0; i < reps; i++ {
		add(run.Batch{Kind: "tornstart", N: 10, TimeoutS: 110})
		add(run.Batch{Kind: "fifo", N: 6, TimeoutS: 110})
		add(run.Batch{Kind: "shortwrite", N: 2, TimeoutS: 150})
	}
	if tier == "thorough" {
		// one public file above 1 GiB (needs ~1.2 GB of scratch disk and ~3 GB of memory for a minute)
		add(run.Batch{Kind: "bigfile", N: 1, TimeoutS: 300})
	}
	for i := 0; i < ratePlain; i++ {
		add(run.Batch{Kind: "rate", N: 14, TimeoutS: 110})
	}
	for i := 0; i < rateRace; i++ {
		add(run.Batch{Kind: "rate", Variant: "race", N: 14, TimeoutS: 110})
	}
	return bs
}

func childBase(b run.Batch, r *ev.Result) {
	switch b.Kind {
	case "gap":
		childGap(b, r)
	case "gapreg":
		childGapReg(b, r)
	case "conc":
		childConc(b, r)
	case "rate":
		childRate(b, r)
	case "statsappend":
		childStatsAppend(b, r)
	case "hunt":
		childHunt(b, r)
	case "tornstart":
		childTornStart(b, r)
	case "fifo":
		childFifo(b, r)
	case "shortwrite":
		childShortWrite(b, r)
	case "shortwrite-server":
		childShortWriteServer(b, r)
	case "shortwrite-restart":
		childShortWriteRestart(b, r)
	case "bigfile":
		childBigFile(b, r)
	default:
		r.Inconc("unknown batch kind " + b.Kind)
	}
}

// ---------------------------------------------------------------- archive verifier

var publicFiles = []string{"allDeviceStats.dat", "equipment-reports.dat", "equipment-authorizations.dat", "gcaPubKey.dat", "gcaTempPubKey.dat"}

const (
	reportLen   = 80
	authLen     = 148
	devStatsLen = 32 + 2016*8*2
)

type digest struct {
	Len int
	Sum [32]byte
}

// archInfo is what is kept of a judged archive for the prefix comparison
// against the files after quiescence.
type archInfo struct {
	Entries   map[string]digest
	Ctx       map[string]interface{}
	Unaligned []string // entries that end inside a record
}

type verifier struct {
	r     *ev.Result
	batch run.Batch
	mu    sync.Mutex
	sigOK map[[32]byte]bool
}

func newVerifier(b run.Batch, r *ev.Result) *verifier {
	return &verifier{r: r, batch: b, sigOK: map[[32]byte]bool{}}
}

func (v *verifier) replay(ctx map[string]interface{}, extra ...interface{}) map[string]interface{} {
	m := map[string]interface{}{"batch": v.batch}
	for k, x := range ctx {
		m[k] = x
	}
	for i := 0; i+1 < len(extra); i += 2 {
		m[fmt.Sprint(extra[i])] = extra[i+1]
	}
	return m
}

// verifySig is refenc.Verify with a cache keyed by (key, message, signature).
func (v *verifier) verifySig(pub [32]byte, msg []byte, sig [64]byte) bool {
	h := sha256.New()
	h.Write(pub[:])
	h.Write(sig[:])
	h.Write(msg)
	var k [32]byte
	copy(k[:], h.Sum(nil))
	v.mu.Lock()
	ok, hit := v.sigOK[k]
	v.mu.Unlock()
	if hit {
		return ok
	}
	ok = refenc.Verify(pub, msg, sig)
	v.mu.Lock()
	v.sigOK[k] = ok
	v.mu.Unlock()
	return ok
}

func containsKeyMaterial(hay []byte, priv [32]byte) bool {
	return bytes.Contains(hay, priv[:]) || bytes.Contains(hay, priv[:16]) || bytes.Contains(hay, priv[16:])
}

// verify judges one 200 response body. It raises violations itself and
// returns the entry digests (nil if the body is not a usable zip).
func (v *verifier) verify(body []byte, priv [32]byte, ctx map[string]interface{}) *archInfo {
	r := v.r
	r.Eval(1)
	r.Count("archives_verified", 1)
	// private key: raw bytes of the response
	r.Count("privkey_scans", 1)
	if containsKeyMaterial(body, priv) {
		r.Violationf("private-key-leak", v.replay(ctx, "where", "raw zip bytes"), "the raw zip bytes contain the server's private key")
	}
	zr, err := zip.NewReader(bytes.NewReader(body), int64(len(body)))
	if err != nil {
		r.Violationf("archive-not-a-zip", v.replay(ctx, "head", hex.EncodeToString(body[:min(len(body), 64)])), "200 response of %d bytes is not a zip archive: %v", len(body), err)
		return nil
	}
	ent := map[string][]byte{}
	var order []string
	for _, f := range zr.File {
		rc, err := f.Open()
		if err != nil {
			r.Violationf("archive-entry-unreadable", v.replay(ctx, "entry", f.Name), "entry %s cannot be opened: %v", f.Name, err)
			return nil
		}
		data, err := io.ReadAll(rc)
		rc.Close()
		if err != nil {
			r.Violationf("archive-entry-unreadable", v.replay(ctx, "entry", f.Name), "entry %s cannot be decompressed: %v", f.Name, err)
			return nil
		}
		if _, dup := ent[f.Name]; dup {
			r.Violationf("archive-entry-set", v.replay(ctx, "entry", f.Name), "entry %s occurs twice", f.Name)
		}
		ent[f.Name] = data
		order = append(order, f.Name)
		r.Count("privkey_scans", 1)
		if containsKeyMaterial(data, priv) {
			r.Violationf("private-key-leak", v.replay(ctx, "where", f.Name), "entry %s (%d bytes) contains the server's private key", f.Name, len(data))
		}
	}
	want := map[string]bool{"server.pubkey": true, "README": true}
	for _, n := range publicFiles {
		want[n] = true
	}
	setOK := true
	for n := range want {
		if _, ok := ent[n]; !ok {
			setOK = false
			r.Violationf("archive-entry-set", v.replay(ctx, "entries", order), "entry %s is missing; entries: %v", n, order)
		}
	}
	for _, n := range order {
		if !want[n] {
			setOK = false
			r.Violationf("archive-entry-set", v.replay(ctx, "entries", order), "unexpected entry %s; entries: %v", n, order)
		}
	}
	if !setOK {
		return nil
	}
	r.Count("verified.entries", int64(len(order)))
	documented := append(append([]string{}, publicFiles...), "server.pubkey", "README")
	if fmt.Sprint(order) == fmt.Sprint(documented) {
		r.Count("obs.entry_order_as_documented", 1)
	} else {
		r.Count("obs.entry_order_other", 1)
	}
	info := &archInfo{Entries: map[string]digest{}, Ctx: ctx}
	lens := map[string]int{}
	for n, d := range ent {
		info.Entries[n] = digest{Len: len(d), Sum: sha256.Sum256(d)}
		lens[n] = len(d)
	}
	rp := func(extra ...interface{}) map[string]interface{} {
		return v.replay(ctx, append([]interface{}{"entry_lengths", lens}, extra...)...)
	}

	// record alignment
	// A cut inside a record whose position is a multiple of the 4096-byte page
	// size is what a reader sees while ONE write call is in progress (the
	// kernel publishes the new file size page-wise); any other cut needs a
	// record that was written by more than one call. The two get different keys.
	cutKey := func(name string, l int) string {
		if l%4096 == 0 {
			return "unaligned-entry-at-page-multiple:" + name
		}
		return "unaligned-entry:" + name
	}
	aligned := true
	if l := len(ent["equipment-reports.dat"]); l%reportLen != 0 {
		aligned = false
		info.Unaligned = append(info.Unaligned, "equipment-reports.dat")
		r.Violationf(cutKey("equipment-reports.dat", l), rp(), "equipment-reports.dat has %d bytes, not a multiple of %d: the archive ends inside a record", l, reportLen)
	}
	if l := len(ent["equipment-authorizations.dat"]); l%authLen != 0 {
		aligned = false
		info.Unaligned = append(info.Unaligned, "equipment-authorizations.dat")
		r.Violationf(cutKey("equipment-authorizations.dat", l), rp(), "equipment-authorizations.dat has %d bytes, not a multiple of %d: the archive ends inside a record", l, authLen)
	}
	if l := len(ent["gcaPubKey.dat"]); l != 0 && l != 32 {
		aligned = false
		r.Violationf("unaligned-entry:gcaPubKey.dat", rp(), "gcaPubKey.dat has %d bytes, want 32 (or 0 before registration)", l)
	}
	if l := len(ent["gcaTempPubKey.dat"]); l != 32 {
		aligned = false
		r.Violationf("unaligned-entry:gcaTempPubKey.dat", rp(), "gcaTempPubKey.dat has %d bytes, want 32", l)
	}
	if l := len(ent["server.pubkey"]); l != 32 {
		aligned = false
		r.Violationf("unaligned-entry:server.pubkey", rp(), "server.pubkey has %d bytes, want 32", l)
	}
	stats, serr := refenc.ParseStatsStream(ent["allDeviceStats.dat"])
	if serr != nil {
		info.Unaligned = append(info.Unaligned, "allDeviceStats.dat")
		r.Violationf(cutKey("allDeviceStats.dat", len(ent["allDeviceStats.dat"])), rp(), "allDeviceStats.dat (%d bytes) is not a sequence of whole records: %v", len(ent["allDeviceStats.dat"]), serr)
	}
	if len(ent["gcaPubKey.dat"]) == 0 {
		r.Count("obs.archive_with_empty_gca_key", 1)
	}
	if !aligned {
		// reports / authorizations / keys cannot be cut into records: no closure
		// judgement for this archive (the alignment violation stands)
		return info
	}

	// dependency closure
	var gca, spub [32]byte
	haveGCA := len(ent["gcaPubKey.dat"]) == 32
	copy(gca[:], ent["gcaPubKey.dat"])
	copy(spub[:], ent["server.pubkey"])
	first := map[uint32][32]byte{}
	authKeys := map[[32]byte]bool{}
	ab := ent["equipment-authorizations.dat"]
	for i := 0; i+authLen <= len(ab); i += authLen {
		a, err := refenc.ParseAuth(ab[i : i+authLen])
		if err != nil {
			r.Violationf("unaligned-entry:equipment-authorizations.dat", rp("index", i/authLen), "authorization record %d does not parse: %v", i/authLen, err)
			continue
		}
		if !haveGCA {
			r.Violationf("authorization-unverifiable", rp("index", i/authLen, "record", hex.EncodeToString(ab[i:i+authLen])), "archive holds authorization %d (device %d) but no GCA key (gcaPubKey.dat entry is empty)", i/authLen, a.ID)
		} else if !v.verifySig(gca, a.SigningBytes(), a.Sig) {
			r.Violationf("authorization-unverifiable", rp("index", i/authLen, "record", hex.EncodeToString(ab[i:i+authLen]), "gca", hex.EncodeToString(gca[:])), "authorization %d (device %d) does not verify under the archived GCA key", i/authLen, a.ID)
		}
		if _, ok := first[a.ID]; !ok {
			first[a.ID] = a.Pub
		}
		authKeys[a.Pub] = true
		r.Count("verified.authorizations", 1)
	}
	rb := ent["equipment-reports.dat"]
	for i := 0; i+reportLen <= len(rb); i += reportLen {
		rep, err := refenc.ParseReport(rb[i : i+reportLen])
		if err != nil {
			r.Violationf("unaligned-entry:equipment-reports.dat", rp("index", i/reportLen), "report record %d does not parse: %v", i/reportLen, err)
			continue
		}
		k, ok := first[rep.ID]
		if !ok {
			r.Violationf("dangling-report", rp("index", i/reportLen, "record", hex.EncodeToString(rb[i:i+reportLen])), "report %d names device %d, which has no authorization in the same archive (%d authorizations archived)", i/reportLen, rep.ID, len(ab)/authLen)
		} else if !v.verifySig(k, rep.SigningBytes(), rep.Sig) {
			r.Violationf("report-unverifiable", rp("index", i/reportLen, "record", hex.EncodeToString(rb[i:i+reportLen])), "report %d of device %d does not verify under the key of the first archived authorization for that id", i/reportLen, rep.ID)
		}
		r.Count("verified.reports", 1)
	}
	off := 0
	sb := ent["allDeviceStats.dat"]
	for i, s := range stats {
		l := 4 + len(s.Devices)*devStatsLen + 4 + 64
		raw := sb[off : off+l]
		off += l
		// the reference encoder re-serialises the parsed record; the signature
		// is over "AllDeviceStats" || record without signature
		msg := s.SigningBytes()
		if !bytes.Equal(msg[14:], raw[:l-64]) {
			r.Inconc(fmt.Sprintf("reference encoder does not reproduce stats record %d from its own parse", i))
			continue
		}
		if !v.verifySig(spub, msg, s.Sig) {
			r.Violationf("stats-unverifiable", rp("index", i, "week", s.Week, "server_pubkey", hex.EncodeToString(spub[:])), "statistics record %d (week offset %d, %d devices) does not verify under the archived server.pubkey", i, s.Week, len(s.Devices))
		}
		for _, d := range s.Devices {
			if !authKeys[d.Pub] {
				r.Count("obs.stats_device_without_archived_authorization", 1)
			}
		}
		r.Count("verified.stats_records", 1)
	}
	return info
}

// prefixCheck compares the archived entries with the files read from disk
// after quiescence.
func (v *verifier) prefixCheck(infos []*archInfo, dir string, phase string) {
	files := map[string][]byte{}
	for _, n := range publicFiles {
		b, err := os.ReadFile(filepath.Join(dir, n))
		if err != nil && !os.IsNotExist(err) {
			v.r.Inconc("cannot read " + n + " after quiescence: " + err.Error())
			return
		}
		files[n] = b
	}
	keys, _ := os.ReadFile(filepath.Join(dir, "server.keys"))
	type ck struct {
		n string
		l int
	}
	cache := map[ck][32]byte{}
	for _, in := range infos {
		if in == nil {
			continue
		}
		for _, n := range publicFiles {
			d := in.Entries[n]
			f := files[n]
			v.r.Count("prefix_checks_"+phase, 1)
			if d.Len > len(f) {
				v.r.Violationf("entry-not-a-prefix:"+n, v.replay(in.Ctx, "entry_len", d.Len, "file_len", len(f)), "archived %s has %d bytes but the file has only %d after quiescence", n, d.Len, len(f))
				continue
			}
			sum, ok := cache[ck{n, d.Len}]
			if !ok {
				sum = sha256.Sum256(f[:d.Len])
				cache[ck{n, d.Len}] = sum
			}
			if sum != d.Sum {
				v.r.Violationf("entry-not-a-prefix:"+n, v.replay(in.Ctx, "entry_len", d.Len, "file_len", len(f)), "archived %s (%d bytes) is not a prefix of the file (%d bytes) read after quiescence", n, d.Len, len(f))
			}
			if d.Len < len(f) {
				v.r.Count("obs.entry_shorter_than_final_file", 1)
			}
		}
		if d, ok := in.Entries["server.pubkey"]; ok && len(keys) >= 32 {
			if d.Len != 32 || d.Sum != sha256.Sum256(keys[:32]) {
				v.r.Count("obs.server_pubkey_differs_from_keyfile", 1)
			}
		}
	}
}

// ---------------------------------------------------------------- fetching and the rate oracle

type rec struct {
	S, R   time.Duration // send / receive instants on the process' monotonic clock
	Status int
	Burst  int
	Src    int // 0: default source address; k: 127.0.0.(k+1)
}

type fetcher struct {
	hc   *http.Client
	// srcs are clients bound to other loopback source addresses
	// (127.0.0.2 …): the limit is the server's, not one caller's, so odd
	// bursts spread their requests over all of them.
	srcs []*http.Client
	n    atomic.Uint64
	url  string
	base time.Time
	mu   sync.Mutex
	recs []rec
}

func newFetcher(port uint16) *fetcher {
	var srcs []*http.Client
	for i := 2; i <= 7; i++ {
		d := &net.Dialer{Timeout: 10 * time.Second, LocalAddr: &net.TCPAddr{IP: net.IPv4(127, 0, 0, byte(i))}}
		srcs = append(srcs, &http.Client{Timeout: 40 * time.Second, Transport: &http.Transport{DialContext: d.DialContext, MaxIdleConnsPerHost: 64, IdleConnTimeout: 1 * time.Second}})
	}
	return &fetcher{
		srcs: srcs,
		hc:   &http.Client{Timeout: 40 * time.Second, Transport: &http.Transport{MaxIdleConnsPerHost: 64, IdleConnTimeout: 1 * time.Second}}, // below the test server's 2.5 s keep-alive limit
		url:  fmt.Sprintf("http://127.0.0.1:%d/api/v1/archive", port),
		base: time.Now(),
	}
}

func (f *fetcher) close() {
	f.hc.CloseIdleConnections()
	for _, c := range f.srcs {
		c.CloseIdleConnections()
	}
}

// get issues one GET. s is taken before the request is handed to the
// transport, r after the status line and headers have been read, so the
// limiter's decision instant lies in [s, r].
func (f *fetcher) get(burst int) (int, []byte, error) {
	req, err := http.NewRequest("GET", f.url, nil)
	if err != nil {
		return 0, nil, err
	}
	s := time.Since(f.base)
	hc, src := f.hc, 0
	if burst%2 == 1 {
		if src = int(f.n.Add(1) % uint64(len(f.srcs)+1)); src > 0 {
			hc = f.srcs[src-1]
		}
	}
	resp, err := hc.Do(req)
	r := time.Since(f.base)
	if err != nil {
		return 0, nil, err
	}
	body, err := io.ReadAll(resp.Body)
	resp.Body.Close()
	f.mu.Lock()
	f.recs = append(f.recs, rec{S: s, R: r, Status: resp.StatusCode, Burst: burst, Src: src})
	f.mu.Unlock()
	return resp.StatusCode, body, err
}

func recs0(f *fetcher, tag int) []rec {
	f.mu.Lock()
	defer f.mu.Unlock()
	var out []rec
	for _, x := range f.recs {
		if x.Burst == tag || x.Burst == tag+1000 {
			out = append(out, x)
		}
	}
	return out
}

// densest returns the largest number of records, among those accepted by
// keep, that certainly fall into less than one window (max R − min S <
// window), together with one such set.
func densest(recs []rec, window time.Duration, keep func(rec) bool) (int, []rec) {
	var ok []rec
	for _, x := range recs {
		if keep(x) {
			ok = append(ok, x)
		}
	}
	sort.Slice(ok, func(i, j int) bool { return ok[i].S < ok[j].S })
	best := 0
	var witness []rec
	for i := range ok {
		lo := ok[i].S
		var set []rec
		for j := i; j < len(ok); j++ {
			if ok[j].R-lo < window {
				set = append(set, ok[j])
			}
		}
		if len(set) > best {
			best, witness = len(set), set
		}
	}
	return best, witness
}

// judgeRate applies the rate oracle to everything one fetcher (= one server
// instance = one limiter) recorded.
func judgeRate(v *verifier, f *fetcher, phase string) {
	c := server.VerifConsts()
	limit, window := c.ApiArchiveLimit, c.ApiArchiveRate
	f.mu.Lock()
	recs := append([]rec(nil), f.recs...)
	f.mu.Unlock()
	n, wit := densest(recs, window, func(x rec) bool { return x.Status == 200 })
	v.r.Max("max.certain_200_in_one_window", int64(n))
	if n > limit {
		v.r.Violationf("rate-limit-exceeded", v.replay(map[string]interface{}{"phase": phase, "limit": limit, "window_ns": int64(window), "witness": wit}),
			"%d archive requests were answered 200 although send of the first to receive of the last spans less than one window (%v): limit is %d", n, window, limit)
	}
	v.r.Count("rate.requests_judged", int64(len(recs)))
	for _, x := range recs {
		if x.Src > 0 {
			v.r.Count("rate.requests_from_other_source_addresses", 1)
		}
	}
}

// ---------------------------------------------------------------- helpers shared by the children

func fileSizes(dir string) [5]int64 {
	var out [5]int64
	for i, n := range publicFiles {
		if st, err := os.Stat(filepath.Join(dir, n)); err == nil {
			out[i] = st.Size()
		} else {
			out[i] = -1
		}
	}
	return out
}

// pickSlot returns a slot a report is acceptable for right now.
func pickSlot(rng *rand.Rand, now, offset uint32) uint32 {
	lo := int64(now) - 300
	if lo < int64(offset) {
		lo = int64(offset)
	}
	hi := int64(now) + 300
	if hi > int64(offset)+4031 {
		hi = int64(offset) + 4031
	}
	if hi < lo {
		return now
	}
	return uint32(lo + rng.Int63n(hi-lo+1))
}

// serverLife is how long a child keeps one server instance busy (test-mode
// servers panic by design after 120 s).
const serverLife = 45 * time.Second

// newWorld starts a registered server; a start that fails on a transport
// error (overloaded machine: the server's 2.5 s read timeout) is retried on a
// fresh directory.
func newWorld(dir string, rng *rand.Rand) (w *drv.World, err error) {
	for i := 0; i < 3; i++ {
		if w, err = drv.NewWorld(dir, rng); err == nil {
			return w, nil
		}
		os.RemoveAll(dir)
		time.Sleep(200 * time.Millisecond)
	}
	return nil, err
}

// authorize posts an authorization; transport errors are retried (the request
// is idempotent: an exact duplicate is a no-op, a conflict that was already
// applied is refused). Under heavy CPU load the server's 2.5 s read timeout
// resets connections.
func authorize(e *drv.Srv, a refenc.Auth) (st int, body []byte, err error) {
	for i := 0; i < 6; i++ {
		if st, body, err = e.Authorize(a); err == nil {
			return
		}
		time.Sleep(50 * time.Millisecond)
	}
	return
}

func addDevice(w *drv.World, rng *rand.Rand, id uint32) (*drv.Dev, error) {
	k := refenc.GenKey(rng)
	a := mkAuth(rng, w.GCA, id, k.Pub)
	st, body, err := authorize(w.Srv, a)
	if err != nil || st != 200 {
		return nil, fmt.Errorf("authorization of device %d failed: status %d err %v body %.100s", id, st, err, body)
	}
	d := &drv.Dev{ID: id, Key: k, Auth: a}
	w.Devs[id] = d
	return d, nil
}

func mkAuth(rng *rand.Rand, gca refenc.Key, id uint32, pub [32]byte) refenc.Auth {
	a := refenc.Auth{ID: id, Pub: pub, Lat: float64(rng.Intn(120) - 60), Long: float64(rng.Intn(300) - 150), Capacity: uint64(100000 + rng.Intn(100000)),
		Debt: uint64(rng.Intn(1000)), Expiration: 100000 + uint32(rng.Intn(1000)), Initialization: uint32(rng.Intn(100)), Fee: uint64(rng.Intn(100000))}
	return a.Signed(gca.Priv)
}

// ---------------------------------------------------------------- (a) gap injection

var (
	hookGap atomic.Int32
	hookFn  atomic.Value // func(int)
)

func installGapHook() {
	hookFn.Store(func(int) {})
	server.VerifSetHook("archive.beforeFile", func(s *server.GCAServer) {
		g := int(hookGap.Add(1))
		hookFn.Load().(func(int))(g)
	})
}

type gapWorld struct {
	*drv.World
	b      run.Batch
	rng    *rand.Rand
	r      *ev.Result
	v      *verifier
	f      *fetcher
	nextID uint32
	infos  []*archInfo
	priv   [32]byte
}

func (w *gapWorld) offset() uint32 { return w.S.VerifSnapshot(false).Offset }

// newDevice authorizes a fresh device and delivers n reports for it.
func (w *gapWorld) newDevice(n int) (*drv.Dev, []refenc.Report, error) {
	w.nextID += 1 + uint32(w.rng.Intn(5))
	d, err := addDevice(w.World, w.rng, w.nextID)
	if err != nil {
		return nil, nil, err
	}
	var reps []refenc.Report
	used := map[uint32]bool{}
	for i := 0; i < n; i++ {
		s := pickSlot(w.rng, drv.Clock(), w.offset())
		if used[s] {
			continue
		}
		used[s] = true
		rep := d.Report(s, uint64(2+w.rng.Intn(1000)))
		w.Inject(rep.Bytes())
		reps = append(reps, rep)
	}
	return d, reps, nil
}

// rotate moves the clock past the trigger and lets the real rotator run once.
func (w *gapWorld) rotate() int {
	drv.SetClock(w.offset() + 3201 + uint32(w.rng.Intn(200)))
	return drv.StepRotation()
}

// getPaced fetches one archive, pacing requests so that the limiter admits
// them; a 429 is simply retried.
func (w *gapWorld) getPaced() (int, []byte, error) {
	for attempt := 0; ; attempt++ {
		time.Sleep(65 * time.Millisecond)
		hookGap.Store(0)
		st, body, err := w.f.get(-1)
		if err == nil && st == http.StatusTooManyRequests && attempt < 40 {
			w.r.Count("gap.retried_429", 1)
			continue
		}
		return st, body, err
	}
}

type victim struct {
	dev *drv.Dev
	rep refenc.Report
}

// forgeAuth returns an altered copy of a registered authorization: same id and
// device key, one other field changed, and a signature the GCA never made.
func forgeAuth(a refenc.Auth, rng *rand.Rand) refenc.Auth {
	switch rng.Intn(4) {
	case 0:
		a.Debt += 1 + uint64(rng.Intn(1000))
	case 1:
		a.Capacity += 1 + uint64(rng.Intn(1000000))
	case 2:
		a.Expiration += 1 + uint32(rng.Intn(1000))
	default:
		a.Fee += 1 + uint64(rng.Intn(1000))
	}
	switch rng.Intn(3) {
	case 0: // original signature kept
	case 1:
		rng.Read(a.Sig[:])
	default: // validly signed, but by a key that is not the GCA's
		a = a.Signed(refenc.GenKey(rng).Priv)
	}
	return a
}

func (w *gapWorld) postForged(orig refenc.Auth, rng *rand.Rand) (int, error) {
	st, _, err := authorize(w.Srv, forgeAuth(orig, rng))
	return st, err
}

// faultyAuthorize submits a valid authorization for a fresh device while
// equipment-authorizations.dat is replaced by a symlink to /dev/full, so that
// the append fails with ENOSPC; the file is put back before it returns.
func (w *gapWorld) faultyAuthorize() (*drv.Dev, int, error) {
	p := filepath.Join(w.Dir, "equipment-authorizations.dat")
	held := p + ".held"
	w.nextID += 1 + uint32(w.rng.Intn(5))
	k := refenc.GenKey(w.rng)
	a := mkAuth(w.rng, w.GCA, w.nextID, k.Pub)
	if err := os.Rename(p, held); err != nil {
		return nil, 0, err
	}
	if err := os.Symlink("/dev/full", p); err != nil {
		os.Rename(held, p)
		return nil, 0, err
	}
	st, _, err := w.Authorize(a) // no retry: one request, one fault
	os.Remove(p)
	if rerr := os.Rename(held, p); rerr != nil {
		return nil, st, rerr
	}
	return &drv.Dev{ID: a.ID, Key: k, Auth: a}, st, err
}

// runCase performs one (gap, burst) case on a registered server.
func (w *gapWorld) runCase(state string, gap int, burst string) bool {
	ctx := map[string]interface{}{"kind": "gap", "state": state, "gap": gap, "burst": burst}
	var vic victim
	if burst == "ban" || burst == "equivocate" || burst == "forged" {
		d, reps, err := w.newDevice(1 + w.rng.Intn(3))
		if err != nil || len(reps) == 0 {
			w.r.Inconc(fmt.Sprintf("cannot prepare victim device: %v", err))
			return false
		}
		vic = victim{d, reps[w.rng.Intn(len(reps))]}
	}
	var fired, effective, overload, answered atomic.Bool
	var note atomic.Value
	hookFn.Store(func(g int) {
		if g != gap || fired.Swap(true) {
			return
		}
		before := fileSizes(w.Dir)
		switch burst {
		case "newdev":
			if _, _, err := w.newDevice(1); err != nil {
				note.Store(err.Error())
			}
		case "rotation":
			if n := w.rotate(); n < 0 {
				overload.Store(true)
			} else if n != 1 {
				note.Store(fmt.Sprintf("StepRotation performed %d rotations", n))
			}
		case "ban":
			a := vic.dev.Auth
			a.Debt++
			if st, _, err := authorize(w.Srv, a.Signed(w.GCA.Priv)); err != nil || st == 200 {
				note.Store(fmt.Sprintf("conflicting authorization answered %d %v", st, err))
			}
		case "equivocate":
			w.Inject(vic.dev.Report(vic.rep.Slot, vic.rep.Power+1).Bytes())
		case "forged":
			// altered copy of a registered authorization that the GCA never signed:
			// must be refused whatever the server already knows about the device
			st, err := w.postForged(vic.dev.Auth, w.rng)
			w.r.Count(fmt.Sprintf("gap.forged.status_%d", st), 1)
			answered.Store(err == nil)
			if err != nil {
				note.Store(err.Error())
			}
		case "faultauth":
			// the authorization file cannot be appended to (ENOSPC) while a new device is
			// authorized; whatever the answer, the device then reports
			d, st, err := w.faultyAuthorize()
			w.r.Count(fmt.Sprintf("gap.faultauth.status_%d", st), 1)
			answered.Store(err == nil)
			if err != nil {
				note.Store(err.Error())
			} else {
				w.Inject(d.Report(pickSlot(w.rng, drv.Clock(), w.offset()), uint64(2+w.rng.Intn(1000))).Bytes())
			}
		}
		after := fileSizes(w.Dir)
		grew := func(i int, by int64) bool { return after[i]-before[i] == by }
		switch burst {
		case "newdev":
			effective.Store(grew(2, authLen) && grew(1, reportLen))
		case "rotation":
			effective.Store(after[0] > before[0])
		case "ban":
			effective.Store(grew(2, authLen))
		case "equivocate":
			effective.Store(grew(1, reportLen))
		case "forged", "faultauth":
			// on a correct server these bursts change nothing; the case counts when the server answered
			effective.Store(answered.Load())
		}
	})
	run.Op("gap case state=%s gap=%d burst=%s clock=%d", state, gap, burst, drv.Clock())
	st, body, err := w.getPaced()
	hookFn.Store(func(int) {})
	if err != nil {
		w.r.Inconc(fmt.Sprintf("archive request failed: %v", err))
		return false
	}
	if st != 200 {
		// a registered server with all files present has no reason to fail; this
		// is not a statement of C14 (availability), so it is only recorded
		w.r.Count(fmt.Sprintf("gap.status_%d", st), 1)
		w.r.Inconc(fmt.Sprintf("registered server answered %d to a paced archive request (state %s gap %d burst %s): %.200s", st, state, gap, burst, body))
		return false
	}
	w.r.Count("gap.cases_200", 1)
	if n := int(hookGap.Load()); n != 6 {
		w.r.Inconc(fmt.Sprintf("archive.beforeFile fired %d times during a 200 request, the design assumes 6", n))
	}
	if !fired.Load() {
		w.r.Inconc(fmt.Sprintf("gap %d was not reached in a 200 request", gap))
		return false
	}
	w.r.Count(fmt.Sprintf("gap.fired.g%d", gap), 1)
	if effective.Load() {
		w.r.Count("gap.bursts_effective", 1)
		w.r.Count("gap.effective."+burst, 1)
		w.r.Nontrivial(fmt.Sprintf("gap/%s/%d/%s/%d", state, gap, burst, w.b.Seed))
	} else if overload.Load() {
		w.r.Count("gap.rotation_step_watchdog", 1) // driver watchdog on an overloaded machine; Post requires enough effective cases
	} else {
		s, _ := note.Load().(string)
		w.r.Inconc(fmt.Sprintf("burst %s in gap %d had no effect on the files (%s)", burst, gap, s))
	}
	info := w.v.verify(body, w.priv, ctx)
	w.infos = append(w.infos, info)
	if info != nil {
		// sequential case: the files are quiescent right now
		w.v.prefixCheck([]*archInfo{info}, w.Dir, "immediate")
		if w.rng.Intn(6) == 0 {
			w.r.Sample(map[string]interface{}{"state": state, "gap": gap, "burst": burst, "entry_lengths": lensOf(info)})
		}
	}
	return true
}

func lensOf(in *archInfo) map[string]int {
	m := map[string]int{}
	for n, d := range in.Entries {
		m[n] = d.Len
	}
	return m
}

func childGap(b run.Batch, r *ev.Result) {
	rng := rand.New(rand.NewSource(b.Seed))
	state := b.P("state")
	drv.SetClock(500 + uint32(rng.Intn(300)))
	drv.GateRotation(true)
	drv.GateImpact(true)
	installGapHook()
	dir := filepath.Join(b.Dir, "srv")
	born := time.Now()
	dw, err := newWorld(dir, rng)
	if err != nil {
		r.Inconc("cannot start world: " + err.Error())
		return
	}
	defer os.RemoveAll(dir)
	w := &gapWorld{World: dw, b: b, rng: rng, r: r, v: newVerifier(b, r), nextID: uint32(10 + rng.Intn(100)), priv: dw.Key.Priv}
	closed := false
	defer func() {
		if !closed {
			w.Close()
		}
	}()
	if [32]byte(w.S.VerifPrivateKey()) != w.priv {
		r.Inconc("server did not adopt the pre-seeded server.keys")
		return
	}
	for i := 0; i < 2+rng.Intn(3); i++ {
		if _, _, err := w.newDevice(1 + rng.Intn(5)); err != nil {
			r.Inconc(err.Error())
			return
		}
	}
	if state == "rotated" || state == "restarted" {
		for i := 0; i < 1+rng.Intn(2); i++ {
			if n := w.rotate(); n < 0 {
				r.Count("gap.rotation_step_watchdog", 1) // overloaded machine: this child contributes nothing, Post requires enough cases from the others
				return
			} else if n != 1 {
				r.Inconc(fmt.Sprintf("set-up rotation did not happen (%d)", n))
				return
			}
			if _, _, err := w.newDevice(1 + rng.Intn(3)); err != nil {
				r.Inconc(err.Error())
				return
			}
		}
	}
	if state == "restarted" {
		run.Op("restart")
		if err := w.Restart(); err != nil {
			r.Inconc("restart failed: " + err.Error())
			return
		}
		born = time.Now()
	}
	w.f = newFetcher(w.HTTP)
	defer w.f.close()

	type cs struct {
		gap   int
		burst string
	}
	var cases []cs
	for g := 1; g <= 6; g++ {
		for _, bu := range []string{"newdev", "rotation", "ban", "equivocate", "forged", "faultauth"} {
			cases = append(cases, cs{g, bu})
		}
	}
	rng.Shuffle(len(cases), func(i, j int) { cases[i], cases[j] = cases[j], cases[i] })
	for i, c := range cases {
		if time.Since(born) > serverLife {
			r.Count("gap.cases_skipped_server_life_limit", int64(len(cases)-i))
			break
		}
		w.runCase(state, c.gap, c.burst)
		if r.NumViolations() > 20 {
			break
		}
	}
	judgeRate(w.v, w.f, "gap")
	closed = true
	if err := w.Close(); err != nil {
		r.Note("close: %v", err)
	}
	w.v.prefixCheck(w.infos, dir, "after_quiescence")
}

// childGapReg: the server is NOT registered when the archive request starts;
// the burst (registration + first device + first report) happens in the gap.
func childGapReg(b run.Batch, r *ev.Result) {
	rng := rand.New(rand.NewSource(b.Seed))
	variant := b.P("variant")
	drv.SetClock(500 + uint32(rng.Intn(300)))
	drv.GateRotation(true)
	drv.GateImpact(true)
	installGapHook()
	v := newVerifier(b, r)
	gaps := rng.Perm(6)
	for _, g0 := range gaps {
		gap := g0 + 1
		dir := filepath.Join(b.Dir, fmt.Sprintf("srv-%d", gap))
		func() {
			defer os.RemoveAll(dir)
			e, err := drv.NewServerDir(dir, rng, variant != "ownkeys")
			if err != nil {
				r.Inconc(err.Error())
				return
			}
			if variant == "empty" {
				// the state a crash between create and write of the key file leaves
				// behind (and the state every registration passes through)
				os.WriteFile(filepath.Join(dir, "gcaPubKey.dat"), nil, 0644)
			}
			if err := e.Start(); err != nil {
				r.Inconc("server start: " + err.Error())
				return
			}
			closed := false
			defer func() {
				if !closed {
					e.Close()
				}
			}()
			priv := [32]byte(e.S.VerifPrivateKey())
			kf := e.ReadFile("server.keys")
			if len(kf) < 64 || !bytes.Equal(kf[32:64], priv[:]) {
				r.Inconc("server.keys on disk does not hold the private key the server uses")
				return
			}
			if variant != "ownkeys" && priv != e.Key.Priv {
				r.Inconc("server did not adopt the pre-seeded server.keys")
				return
			}
			w := &gapWorld{World: &drv.World{Srv: e, GCA: refenc.GenKey(rng), Devs: map[uint32]*drv.Dev{}, Rng: rng}, b: b, rng: rng, r: r, v: v,
				nextID: uint32(10 + rng.Intn(100)), priv: priv}
			w.f = newFetcher(e.HTTP)
			defer w.f.close()
			ctx := map[string]interface{}{"kind": "gapreg", "variant": variant, "gap": gap, "burst": "register+device+report"}
			var fired, effective atomic.Bool
			var note atomic.Value
			burst := func() {
				before := fileSizes(dir)
				var st int
				var body []byte
				var err error
				for i := 0; i < 6; i++ {
					if st, body, err = e.Register(w.GCA.Pub, e.Temp.Priv); err == nil {
						break
					}
					time.Sleep(50 * time.Millisecond)
				}
				// a retry after a lost response is refused as "already registered": the key file decides
				if err != nil || (st != 200 && !bytes.Equal(e.ReadFile("gcaPubKey.dat"), w.GCA.Pub[:])) {
					note.Store(fmt.Sprintf("registration answered %d %v %.100s", st, err, body))
					return
				}
				if _, _, err := w.newDevice(1); err != nil {
					note.Store(err.Error())
					return
				}
				after := fileSizes(dir)
				effective.Store(after[3] == 32 && before[3] <= 0 && after[2]-before[2] == authLen && after[1]-before[1] == reportLen)
			}
			hookFn.Store(func(g int) {
				if g != gap || fired.Swap(true) {
					return
				}
				burst()
			})
			run.Op("gapreg case variant=%s gap=%d", variant, gap)
			st, body, err := w.getPaced()
			hookFn.Store(func(int) {})
			if err != nil {
				r.Inconc(fmt.Sprintf("archive request failed: %v", err))
				return
			}
			r.Count(fmt.Sprintf("gapreg.%s.g%d.status_%d", variant, gap, st), 1)
			var infos []*archInfo
			if fired.Load() {
				r.Count(fmt.Sprintf("gap.fired.g%d", gap), 1)
				if effective.Load() {
					r.Count("gapreg.effective", 1)
				} else {
					s, _ := note.Load().(string)
					r.Inconc(fmt.Sprintf("registration burst in gap %d had no effect (%s)", gap, s))
				}
			} else {
				r.Count("gapreg.gap_not_reached", 1)
			}
			if st == 200 {
				r.Count("gapreg.cases_200", 1)
				if fired.Load() && effective.Load() {
					r.Nontrivial(fmt.Sprintf("gapreg/%s/%d/%d", variant, gap, b.Seed))
				}
				info := v.verify(body, priv, ctx)
				infos = append(infos, info)
				if info != nil {
					if info.Entries["gcaPubKey.dat"].Len == 0 {
						r.Count("gapreg.empty_key_archives", 1)
					}
					v.prefixCheck([]*archInfo{info}, dir, "immediate")
					if gap == 3 {
						r.Sample(map[string]interface{}{"variant": variant, "gap": gap, "burst": "register+device+report", "status": st, "entry_lengths": lensOf(info)})
					}
				}
			} else {
				// an error response is acceptable; it must not be an archive
				if _, zerr := zip.NewReader(bytes.NewReader(body), int64(len(body))); zerr == nil && len(body) > 0 {
					r.Count("obs.non200_with_zip_body", 1)
				}
			}
			// if the gap was never reached the server is still unregistered: register now,
			// then a quiescent archive of the registered server must be consistent too
			if !fired.Load() {
				burst()
			}
			ctx2 := map[string]interface{}{"kind": "gapreg-after", "variant": variant, "gap": gap}
			if st2, body2, err := w.getPaced(); err == nil && st2 == 200 {
				r.Count("gapreg.quiescent_200_after_registration", 1)
				infos = append(infos, v.verify(body2, priv, ctx2))
			} else {
				r.Count("gapreg.quiescent_non200_after_registration", 1)
			}
			judgeRate(v, w.f, "gapreg")
			closed = true
			if err := e.Close(); err != nil {
				r.Note("close: %v", err)
			}
			v.prefixCheck(infos, dir, "after_quiescence")
		}()
		if r.NumViolations() > 20 {
			return
		}
	}
}

// ---------------------------------------------------------------- (b) concurrent writers

type registry struct {
	mu      sync.Mutex
	devs    []*drv.Dev
	lastRep map[uint32]refenc.Report
	nextID  uint32
}

func (g *registry) add(d *drv.Dev) {
	g.mu.Lock()
	g.devs = append(g.devs, d)
	g.mu.Unlock()
}

func (g *registry) pick(rng *rand.Rand, remove bool) *drv.Dev {
	g.mu.Lock()
	defer g.mu.Unlock()
	if len(g.devs) == 0 {
		return nil
	}
	i := rng.Intn(len(g.devs))
	d := g.devs[i]
	if remove && len(g.devs) > 2 {
		g.devs[i] = g.devs[len(g.devs)-1]
		g.devs = g.devs[:len(g.devs)-1]
	}
	return d
}

func (g *registry) newID(rng *rand.Rand) uint32 {
	g.mu.Lock()
	defer g.mu.Unlock()
	g.nextID += 1 + uint32(rng.Intn(3))
	return g.nextID
}

func childConc(b run.Batch, r *ev.Result) {
	runs, _ := strconv.Atoi(b.P("runs"))
	drv.GateRotation(true)
	drv.GateImpact(true)
	for i := 0; i < runs; i++ {
		concRun(b, r, i)
		if r.NumViolations() > 10 {
			return
		}
	}
}

func concRun(b run.Batch, r *ev.Result, idx int) {
	rng := rand.New(rand.NewSource(b.Seed*1000 + int64(idx)))
	drv.SetClock(500 + uint32(rng.Intn(300)))
	dir := filepath.Join(b.Dir, fmt.Sprintf("srv-%d", idx))
	defer os.RemoveAll(dir)
	born := time.Now()
	w, err := newWorld(dir, rng)
	if err != nil {
		r.Inconc("cannot start world: " + err.Error())
		return
	}
	closed := false
	defer func() {
		if !closed {
			w.Close()
		}
	}()
	priv := w.Key.Priv
	if [32]byte(w.S.VerifPrivateKey()) != priv {
		r.Inconc("server did not adopt the pre-seeded server.keys")
		return
	}
	v := newVerifier(b, r)
	f := newFetcher(w.HTTP)
	defer f.close()
	reg := &registry{lastRep: map[uint32]refenc.Report{}, nextID: uint32(10 + rng.Intn(100))}
	for i := 0; i < 2+rng.Intn(5); i++ {
		d, err := addDevice(w, rng, reg.newID(rng))
		if err != nil {
			r.Inconc(err.Error())
			return
		}
		reg.add(d)
		rep := d.Report(pickSlot(rng, drv.Clock(), 0), uint64(2+rng.Intn(1000)))
		w.Inject(rep.Bytes())
		reg.lastRep[d.ID] = rep
	}
	// open the UDP socket of the driver before goroutines share it
	if err := w.SendUDP(make([]byte, 80)); err != nil {
		r.Note("udp warm-up: %v", err)
	}
	nW := 4 + rng.Intn(13)
	nR := 2 + rng.Intn(3)
	ops := 30 + rng.Intn(50)
	rotations := 1 + rng.Intn(2)
	run.Op("conc run %d writers=%d readers=%d ops=%d rotations=%d", idx, nW, nR, ops, rotations)
	var offset atomic.Uint32 // window offset as last seen by the rotating writer
	var wg sync.WaitGroup
	var stop, pause, chaseAbort atomic.Bool
	var rwg sync.WaitGroup
	var imu sync.Mutex
	var infos []*archInfo
	judge := func(st int, body []byte, before, after [5]int64, who string) {
		if st != 200 {
			r.Count(fmt.Sprintf("conc.status_%d", st), 1)
			return
		}
		r.Count("conc.status_200", 1)
		ctx := map[string]interface{}{"kind": "conc", "run": idx, "reader": who, "sizes_before": before, "sizes_after": after}
		info := v.verify(body, priv, ctx)
		if info == nil {
			return
		}
		imu.Lock()
		infos = append(infos, info)
		imu.Unlock()
		if before != after {
			r.Count("conc.archives_with_concurrent_append", 1)
			r.Nontrivial(fmt.Sprintf("conc/%d/%d/%v", b.Seed, idx, lensOf(info)))
		}
		if before[0] != after[0] {
			r.Count("conc.archives_during_stats_append", 1)
		}
		if l := int64(info.Entries[publicFiles[0]].Len); l > before[0] && who == "chaser" {
			r.Count("conc.chased_archives_holding_the_new_record", 1)
		}
	}
	chase := func(seed int64) {
		chaseStats(dir, f, &chaseAbort, seed, true, func(st int, body []byte, before, after [5]int64) {
			r.Count("conc.chased_requests", 1)
			judge(st, body, before, after, "chaser")
		})
	}
	for wi := 0; wi < nW; wi++ {
		wg.Add(1)
		wrng := rand.New(rand.NewSource(rng.Int63()))
		go func(wi int, rng *rand.Rand) {
			defer wg.Done()
			rotAt := map[int]bool{}
			if wi == 0 {
				for k := 1; k <= rotations; k++ {
					rotAt[k*ops/(rotations+1)] = true
				}
			}
			for op := 0; op < ops; op++ {
				if time.Since(born) > serverLife {
					r.Count("conc.writers_cut_short_server_life_limit", 1)
					return
				}
				if rotAt[op] {
					// Steer readers into the statistics append: ordinary readers pause so
					// that the limiter has room, a chaser polls the file size and fires
					// the admitted number of GETs the moment the file starts to grow.
					pause.Store(true)
					time.Sleep(server.VerifConsts().ApiArchiveRate + 10*time.Millisecond)
					off := w.S.VerifSnapshot(false).Offset
					drv.SetClock(off + 3201 + uint32(rng.Intn(200)))
					chased := make(chan struct{})
					go func(seed int64) {
						defer close(chased)
						chase(seed)
					}(rng.Int63())
					n := drv.StepRotation()
					if n < 0 {
						// driver watchdog (overloaded machine): this run goes on without that rotation
						r.Count("conc.rotation_step_watchdog", 1)
						n = 0
					}
					offset.Store(off + uint32(n)*2016)
					r.Count("conc.rotations", int64(n))
					if n == 0 {
						chaseAbort.Store(true)
					}
					<-chased
					chaseAbort.Store(false)
					pause.Store(false)
					continue
				}
				switch p := rng.Intn(100); {
				case p < 30: // new device
					k := refenc.GenKey(rng)
					a := mkAuth(rng, w.GCA, reg.newID(rng), k.Pub)
					if st, _, err := authorize(w.Srv, a); err == nil && st == 200 {
						reg.add(&drv.Dev{ID: a.ID, Key: k, Auth: a})
						r.Count("conc.authorized", 1)
					}
				case p < 36: // conflicting authorization: ban
					if d := reg.pick(rng, true); d != nil {
						a := d.Auth
						a.Debt += 1 + uint64(rng.Intn(5))
						if rng.Intn(2) == 0 {
							a.Pub = refenc.GenKey(rng).Pub // conflict that carries a different key
						}
						w.Authorize(a.Signed(w.GCA.Priv))
						r.Count("conc.conflicting_authorizations", 1)
					}
				case p < 38: // exact duplicate
					if d := reg.pick(rng, false); d != nil {
						w.Authorize(d.Auth)
					}
				case p < 40: // forged altered copy of a registered authorization
					if d := reg.pick(rng, false); d != nil {
						w.Authorize(forgeAuth(d.Auth, rng))
						r.Count("conc.forged_authorizations", 1)
					}
				case p < 44: // report of a device nobody authorized
					k := refenc.GenKey(rng)
					w.Inject(refenc.Report{ID: 900000 + uint32(rng.Intn(1000)), Slot: drv.Clock(), Power: 5}.Signed(k.Priv).Bytes())
				default:
					d := reg.pick(rng, false)
					if d == nil {
						continue
					}
					rep := d.Report(pickSlot(rng, drv.Clock(), offset.Load()), uint64(2+rng.Intn(1000)))
					if p < 52 { // equivocate on the device's last reported slot
						reg.mu.Lock()
						last, ok := reg.lastRep[d.ID]
						reg.mu.Unlock()
						if ok {
							rep = d.Report(last.Slot, last.Power+1+uint64(rng.Intn(5)))
						}
					}
					reg.mu.Lock()
					reg.lastRep[d.ID] = rep
					reg.mu.Unlock()
					if rng.Intn(3) == 0 {
						w.SendUDP(rep.Bytes())
					} else {
						w.Inject(rep.Bytes())
					}
					r.Count("conc.reports_sent", 1)
				}
			}
		}(wi, wrng)
	}
	for ri := 0; ri < nR; ri++ {
		rwg.Add(1)
		go func(ri int) {
			defer rwg.Done()
			final := false
			for tries := 0; tries < 4000; tries++ {
				if stop.Load() {
					final = true
				}
				if time.Since(born) > serverLife+10*time.Second {
					return
				}
				if pause.Load() && !final {
					time.Sleep(time.Millisecond)
					continue
				}
				before := fileSizes(dir)
				st, body, err := f.get(-1)
				after := fileSizes(dir)
				if err != nil {
					r.Note("reader: %v", err)
					time.Sleep(5 * time.Millisecond)
					continue
				}
				judge(st, body, before, after, fmt.Sprint(ri))
				if st != 200 {
					time.Sleep(time.Duration(2+ri) * time.Millisecond)
					continue
				}
				if final {
					return
				}
			}
		}(ri)
	}
	wg.Wait()
	stop.Store(true)
	rwg.Wait()
	judgeRate(v, f, "conc")
	closed = true
	if err := w.Close(); err != nil {
		r.Note("close: %v", err)
	}
	v.prefixCheck(infos, dir, "after_quiescence")
	r.Count("conc.runs", 1)
	r.Max("max.conc_writers", int64(nW))
	if idx == 0 && b.Index == 0 && len(infos) > 0 {
		r.Sample(map[string]interface{}{"kind": "conc", "writers": nW, "readers": nR, "ops_per_writer": ops, "archives": len(infos), "last_entry_lengths": lensOf(infos[len(infos)-1])})
	}
}

// chaseStats waits until allDeviceStats.dat starts to grow (a rotation is
// appending its record), then issues as many concurrent GETs as the limiter
// admits and hands every response to each. It only steers the schedule: any
// client could send its request at that moment.
func chaseStats(dir string, f *fetcher, abort *atomic.Bool, seed int64, stagger bool, each func(st int, body []byte, before, after [5]int64)) {
	crng := rand.New(rand.NewSource(seed))
	statsPath := filepath.Join(dir, publicFiles[0])
	size := func() int64 {
		if st, err := os.Stat(statsPath); err == nil {
			return st.Size()
		}
		return -1
	}
	s0 := size()
	deadline := time.Now().Add(25 * time.Second)
	for size() == s0 {
		if abort.Load() || time.Now().After(deadline) {
			return
		}
		time.Sleep(20 * time.Microsecond)
	}
	var cwg sync.WaitGroup
	for k := 0; k < server.VerifConsts().ApiArchiveLimit; k++ {
		var delay time.Duration
		if stagger {
			delay = time.Duration(k) * time.Duration(crng.Intn(400)) * time.Microsecond
		}
		cwg.Add(1)
		go func() {
			defer cwg.Done()
			time.Sleep(delay)
			before := fileSizes(dir)
			before[0] = s0
			st, body, err := f.get(-1)
			after := fileSizes(dir)
			if err != nil {
				return
			}
			each(st, body, before, after)
		}()
	}
	cwg.Wait()
}

// ---------------------------------------------------------------- (b') archives aimed at a statistics append

// childStatsAppend: a server with many devices (one statistics record is
// 1–2 MB, written by one write call) rotates several times; the archive
// requests are fired the moment the file starts to grow, with and without
// CPU contention, so that the handler reads the file while the append is in
// progress.
func childStatsAppend(b run.Batch, r *ev.Result) {
	rng := rand.New(rand.NewSource(b.Seed))
	drv.SetClock(500 + uint32(rng.Intn(300)))
	drv.GateRotation(true)
	drv.GateImpact(true)
	dir := filepath.Join(b.Dir, "srv")
	defer os.RemoveAll(dir)
	born := time.Now()
	dw, err := newWorld(dir, rng)
	if err != nil {
		r.Inconc("cannot start world: " + err.Error())
		return
	}
	closed := false
	defer func() {
		if !closed {
			dw.Close()
		}
	}()
	w := &gapWorld{World: dw, b: b, rng: rng, r: r, v: newVerifier(b, r), nextID: uint32(10 + rng.Intn(100)), priv: dw.Key.Priv}
	nDev := 35 + rng.Intn(30)
	var devs []*drv.Dev
	for i := 0; i < nDev; i++ {
		d, _, err := w.newDevice(1)
		if err != nil {
			r.Inconc(err.Error())
			return
		}
		devs = append(devs, d)
	}
	w.f = newFetcher(w.HTTP)
	defer w.f.close()
	ncpu := runtime.NumCPU()
	prev := runtime.GOMAXPROCS(0)
	defer runtime.GOMAXPROCS(prev)
	var imu sync.Mutex
	var infos []*archInfo
	var abort atomic.Bool
	for k := 0; k < b.N; k++ {
		if time.Since(born) > serverLife {
			r.Count("cut_short_server_life_limit."+b.Kind, 1)
			break
		}
		time.Sleep(server.VerifConsts().ApiArchiveRate + 10*time.Millisecond)
		contended := k%2 == 1
		run.Op("stats append %d devices=%d contended=%v", k, nDev, contended)
		s0 := fileSizes(dir)[0]
		drv.SetClock(w.offset() + 3201 + uint32(rng.Intn(200)))
		doneBefore := drv.RotationsDone.Load()
		var stopHogs atomic.Bool
		var hwg sync.WaitGroup
		if contended {
			// more runnable threads than cores while the record is written: the
			// kernel may preempt the writer inside its write call
			runtime.GOMAXPROCS(3 * ncpu)
			for h := 0; h < 3*ncpu; h++ {
				hwg.Add(1)
				go func() {
					defer hwg.Done()
					for x := 0; !stopHogs.Load() && drv.RotationsDone.Load() == doneBefore; x++ {
						_ = x * x
					}
				}()
			}
		}
		chased := make(chan struct{})
		go func(seed int64) {
			defer close(chased)
			chaseStats(dir, w.f, &abort, seed, false, func(st int, body []byte, before, after [5]int64) {
				r.Count("statsappend.chased_requests", 1)
				if st != 200 {
					r.Count(fmt.Sprintf("statsappend.status_%d", st), 1)
					return
				}
				info := w.v.verify(body, w.priv, map[string]interface{}{"kind": "statsappend", "rotation": k, "devices": nDev, "contended": contended, "stats_size_before": s0})
				if info == nil {
					return
				}
				imu.Lock()
				infos = append(infos, info)
				imu.Unlock()
				r.Nontrivial(fmt.Sprintf("statsappend/%d/%d/%v", b.Seed, k, lensOf(info)))
				switch l := int64(info.Entries[publicFiles[0]].Len); {
				case len(info.Unaligned) > 0:
					r.Count("statsappend.entry_cut_inside_new_record", 1)
				case l == s0:
					r.Count("statsappend.entry_without_new_record", 1)
				default:
					r.Count("statsappend.entry_with_whole_new_record", 1)
				}
			})
		}(rng.Int63())
		n := drv.StepRotation()
		stopHogs.Store(true)
		if n <= 0 {
			abort.Store(true)
		}
		<-chased
		abort.Store(false)
		hwg.Wait()
		runtime.GOMAXPROCS(prev)
		if n < 0 {
			r.Count("statsappend.rotation_step_watchdog", 1)
			break
		}
		if n != 1 {
			r.Inconc(fmt.Sprintf("rotation did not happen (%d)", n))
			return
		}
		r.Count("statsappend.rotations", 1)
		off := w.offset()
		for _, d := range devs {
			w.Inject(d.Report(pickSlot(rng, drv.Clock(), off), uint64(2+rng.Intn(1000))).Bytes())
		}
	}
	judgeRate(w.v, w.f, "statsappend")
	closed = true
	if err := w.Close(); err != nil {
		r.Note("close: %v", err)
	}
	w.v.prefixCheck(infos, dir, "after_quiescence")
}

// ---------------------------------------------------------------- (b'') the handler is released into an append in progress

// childHunt: delay injection with an adaptive delay. A writer goroutine
// appends records (reports / authorizations / one rotation) while the archive
// handler waits in the gap in front of that file; the handler is released
// the moment the file's size shows an append in progress (size not
// record-aligned, or the statistics file starting to grow). Nothing is
// changed in the middle of a write call; the handler merely arrives at an
// instant at which a real reader could arrive.
func childHunt(b run.Batch, r *ev.Result) {
	rng := rand.New(rand.NewSource(b.Seed))
	drv.SetClock(500 + uint32(rng.Intn(300)))
	drv.GateRotation(true)
	drv.GateImpact(true)
	installGapHook()
	dir := filepath.Join(b.Dir, "srv")
	defer os.RemoveAll(dir)
	born := time.Now()
	dw, err := newWorld(dir, rng)
	if err != nil {
		r.Inconc("cannot start world: " + err.Error())
		return
	}
	closed := false
	defer func() {
		if !closed {
			dw.Close()
		}
	}()
	w := &gapWorld{World: dw, b: b, rng: rng, r: r, v: newVerifier(b, r), nextID: uint32(10 + rng.Intn(100)), priv: dw.Key.Priv}
	nDev := 12 + rng.Intn(12)
	var devs []*drv.Dev
	for i := 0; i < nDev; i++ {
		d, _, err := w.newDevice(1)
		if err != nil {
			r.Inconc(err.Error())
			return
		}
		devs = append(devs, d)
	}
	w.f = newFetcher(w.HTTP)
	defer w.f.close()
	size := func(i int) int64 {
		if st, err := os.Stat(filepath.Join(dir, publicFiles[i])); err == nil {
			return st.Size()
		}
		return -1
	}
	power := uint64(2)
	targets := []string{"stats", "reports", "authorizations"}
	for k := 0; k < b.N; k++ {
		if time.Since(born) > serverLife {
			r.Count("cut_short_server_life_limit."+b.Kind, 1)
			break
		}
		target := targets[k%3]
		gap := k%3 + 1
		run.Op("hunt %d target=%s", k, target)
		var stopW atomic.Bool
		wdone := make(chan struct{})
		s0 := size(0)
		wseed := rng.Int63()
		power++
		pw := power
		writer := func() {
			defer close(wdone)
			wr := rand.New(rand.NewSource(wseed))
			switch target {
			case "stats":
				drv.SetClock(w.S.VerifSnapshot(false).Offset + 3201 + uint32(wr.Intn(200)))
				if n := drv.StepRotation(); n < 0 {
					r.Count("hunt.rotation_step_watchdog", 1)
				} else if n != 1 {
					r.Inconc(fmt.Sprintf("hunt: rotation did not happen (%d)", n))
				}
			case "reports":
				// every (device, slot) takes a first report and one conflicting report
				now, off := drv.Clock(), w.S.VerifSnapshot(false).Offset
				for round := 0; round < 2 && !stopW.Load(); round++ {
					for ds := -300; ds <= 300 && !stopW.Load(); ds++ {
						slot := int64(now) + int64(ds)
						if slot < int64(off) || slot > int64(off)+4031 {
							continue
						}
						for _, d := range devs {
							w.Inject(d.Report(uint32(slot), pw+uint64(round)*1000).Bytes())
							r.Count("hunt.reports_written", 1)
						}
					}
				}
			case "authorizations":
				// a fresh device and then its ban: two records, no net growth of the device set
				for i := 0; i < 400 && !stopW.Load(); i++ {
					k := refenc.GenKey(wr)
					a := mkAuth(wr, w.GCA, 500000+uint32(wr.Intn(1<<30)), k.Pub)
					w.Authorize(a)
					a.Debt++
					w.Authorize(a.Signed(w.GCA.Priv))
					r.Count("hunt.authorizations_written", 2)
				}
			}
		}
		var fired, saw atomic.Bool
		hookFn.Store(func(g int) {
			if g != gap || fired.Swap(true) {
				return
			}
			go writer()
			deadline := time.Now().Add(2 * time.Second)
			for time.Now().Before(deadline) {
				var mid bool
				switch target {
				case "stats":
					mid = size(0) != s0
				case "reports":
					mid = size(1)%reportLen != 0
				case "authorizations":
					mid = size(2)%authLen != 0
				}
				if mid {
					saw.Store(true)
					return
				}
				select {
				case <-wdone:
					return
				default:
				}
			}
		})
		st, body, err := w.getPaced()
		hookFn.Store(func(int) {})
		stopW.Store(true)
		if fired.Load() {
			<-wdone
		}
		if err != nil || st != 200 {
			r.Count(fmt.Sprintf("hunt.status_%d", st), 1)
			continue
		}
		r.Count("hunt.archives", 1)
		if saw.Load() {
			r.Count("hunt.released_into_append."+target, 1)
		}
		info := w.v.verify(body, w.priv, map[string]interface{}{"kind": "hunt", "attempt": k, "target": target, "released_into_append": saw.Load()})
		if info != nil {
			w.infos = append(w.infos, info)
			if saw.Load() {
				r.Nontrivial(fmt.Sprintf("hunt/%d/%d/%v", b.Seed, k, lensOf(info)))
			}
			for _, n := range info.Unaligned {
				r.Count("hunt.entry_cut_inside_record."+n, 1)
			}
		}
		if r.NumViolations() > 30 {
			break
		}
	}
	judgeRate(w.v, w.f, "hunt")
	closed = true
	if err := w.Close(); err != nil {
		r.Note("close: %v", err)
	}
	w.v.prefixCheck(w.infos, dir, "after_quiescence")
}

// ---------------------------------------------------------------- (d) start on a directory with a torn tail

// childTornStart: the server is stopped, 1..recordLen-1 bytes of a valid next
// record are appended to one public file (what a crash or a short write in the
// middle of an append leaves behind), the server is started again. The
// property says nothing about whether it must start; IF it starts, new
// devices and reports are added and every archive has to satisfy the archive
// oracles. A control episode without a tail must start.
func childTornStart(b run.Batch, r *ev.Result) {
	rng := rand.New(rand.NewSource(b.Seed))
	drv.GateRotation(true)
	drv.GateImpact(true)
	targets := []string{"none", "equipment-reports.dat", "equipment-authorizations.dat", "allDeviceStats.dat"}
	for k := 0; k < b.N; k++ {
		target := targets[k%len(targets)]
		if k < 2 {
			target = []string{"none", "equipment-reports.dat"}[k]
		}
		drv.SetClock(500 + uint32(rng.Intn(300)))
		dir := filepath.Join(b.Dir, fmt.Sprintf("srv-%d", k))
		func() {
			defer os.RemoveAll(dir)
			dw, err := newWorld(dir, rng)
			if err != nil {
				r.Inconc("cannot start world: " + err.Error())
				return
			}
			up := true
			defer func() {
				if up {
					dw.Close()
				}
			}()
			w := &gapWorld{World: dw, b: b, rng: rng, r: r, v: newVerifier(b, r), nextID: uint32(10 + rng.Intn(100)), priv: dw.Key.Priv}
			var devs []*drv.Dev
			for i := 0; i < 2+rng.Intn(3); i++ {
				d, _, err := w.newDevice(1 + rng.Intn(4))
				if err != nil {
					r.Inconc(err.Error())
					return
				}
				devs = append(devs, d)
			}
			if target == "allDeviceStats.dat" || rng.Intn(2) == 0 {
				if n := w.rotate(); n < 0 {
					r.Count("tornstart.rotation_step_watchdog", 1)
					return
				} else if n != 1 {
					r.Inconc(fmt.Sprintf("tornstart: set-up rotation did not happen (%d)", n))
					return
				}
				for _, d := range devs {
					w.Inject(d.Report(pickSlot(rng, drv.Clock(), w.offset()), uint64(2+rng.Intn(1000))).Bytes())
				}
			}
			if err := w.Close(); err != nil {
				r.Note("close: %v", err)
			}
			up = false
			// the tail: the first bytes of a record that would have been valid
			var tail []byte
			switch target {
			case "equipment-reports.dat":
				d := devs[rng.Intn(len(devs))]
				tail = d.Report(drv.Clock()+1+uint32(rng.Intn(50)), uint64(2+rng.Intn(1000))).Bytes()[:1+rng.Intn(reportLen-1)]
			case "equipment-authorizations.dat":
				tail = mkAuth(rng, w.GCA, 700000+uint32(rng.Intn(1000)), refenc.GenKey(rng).Pub).Bytes()[:1+rng.Intn(authLen-1)]
			case "allDeviceStats.dat":
				cur := w.ReadFile(target)
				recs, err := refenc.ParseStatsStream(cur)
				if err != nil || len(recs) == 0 {
					r.Inconc("tornstart: no statistics record to tear")
					return
				}
				last := recs[len(recs)-1].Bytes()
				tail = last[:1+rng.Intn(len(last)-1)]
			}
			if tail != nil {
				f, err := os.OpenFile(filepath.Join(dir, target), os.O_APPEND|os.O_WRONLY, 0644)
				if err != nil {
					r.Inconc(err.Error())
					return
				}
				f.Write(tail)
				f.Close()
			}
			run.Op("tornstart episode %d target=%s tail=%d bytes", k, target, len(tail))
			r.Count("tornstart.episodes", 1)
			if err := w.Start(); err != nil {
				r.Count("tornstart.refused_to_start."+target, 1)
				if target == "none" {
					r.Inconc("control: server does not restart on an untouched directory: " + err.Error())
				}
				return
			}
			up = true
			r.Count("tornstart.started", 1)
			r.Count("tornstart.started."+target, 1)
			w.priv = [32]byte(w.S.VerifPrivateKey())
			w.f = newFetcher(w.HTTP)
			defer w.f.close()
			ctx := map[string]interface{}{"kind": "tornstart", "episode": k, "file": target, "tail_bytes": len(tail)}
			var infos []*archInfo
			for round := 0; round < 2; round++ {
				if round == 1 {
					// new facts behind the tail
					if _, _, err := w.newDevice(1 + rng.Intn(3)); err != nil {
						r.Count("tornstart.new_device_refused", 1)
					}
					for _, d := range devs {
						w.Inject(d.Report(pickSlot(rng, drv.Clock(), w.offset()), uint64(2+rng.Intn(1000))).Bytes())
					}
				}
				st, body, err := w.getPaced()
				if err != nil || st != 200 {
					r.Count(fmt.Sprintf("tornstart.status_%d", st), 1)
					continue
				}
				r.Count("tornstart.archives", 1)
				info := w.v.verify(body, w.priv, ctx)
				infos = append(infos, info)
				if info != nil && tail != nil {
					r.Nontrivial(fmt.Sprintf("tornstart/%d/%d/%d/%v", b.Seed, k, round, lensOf(info)))
				}
			}
			judgeRate(w.v, w.f, "tornstart")
			if err := w.Close(); err != nil {
				r.Note("close: %v", err)
			}
			up = false
			w.v.prefixCheck(infos, dir, "after_quiescence")
		}()
		if r.NumViolations() > 20 {
			return
		}
	}
}

// ---------------------------------------------------------------- (e) a public file above 1 GiB (thorough only)

// childBigFile grows equipment-reports.dat beyond 1 GiB with blocks of valid
// reports (written straight to the file while no writer is active; the
// archive handler only ever reads the file), downloads one archive and
// stream-checks the entry: length, record alignment, every record verifies
// under its device's archived authorization, prefix of the file on disk.
func childBigFile(b run.Batch, r *ev.Result) {
	rng := rand.New(rand.NewSource(b.Seed))
	drv.SetClock(500 + uint32(rng.Intn(300)))
	drv.GateRotation(true)
	drv.GateImpact(true)
	dir := filepath.Join(b.Dir, "srv")
	defer os.RemoveAll(dir)
	dw, err := newWorld(dir, rng)
	if err != nil {
		r.Inconc("cannot start world: " + err.Error())
		return
	}
	up := true
	defer func() {
		if up {
			dw.Close()
		}
	}()
	w := &gapWorld{World: dw, b: b, rng: rng, r: r, v: newVerifier(b, r), nextID: uint32(10 + rng.Intn(100)), priv: dw.Key.Priv}
	var block []byte
	// 200 reports = 16 000 bytes: the repetition lies inside deflate's 32 KB window, so the
	// archive stays small although signatures are incompressible
	for i := 0; i < 4; i++ {
		d, _, err := w.newDevice(2)
		if err != nil {
			r.Inconc(err.Error())
			return
		}
		for s := 0; s < 50; s++ {
			block = append(block, d.Report(uint32(1000+s), uint64(2+rng.Intn(100000))).Bytes()...)
		}
	}
	target := int64(1<<30) + int64(20+rng.Intn(60))<<20 + int64(rng.Intn(1000))*reportLen
	path := filepath.Join(dir, "equipment-reports.dat")
	f, err := os.OpenFile(path, os.O_APPEND|os.O_WRONLY, 0644)
	if err != nil {
		r.Inconc(err.Error())
		return
	}
	big := bytes.Repeat(block, 1000) // 16 MB
	st0, _ := f.Stat()
	for size := st0.Size(); size < target; size += int64(len(big)) {
		if _, err := f.Write(big); err != nil {
			f.Close()
			r.Inconc("cannot grow the reports file (disk?): " + err.Error())
			return
		}
	}
	f.Close()
	big = nil
	st1, _ := os.Stat(path)
	run.Op("bigfile: equipment-reports.dat grown to %d bytes", st1.Size())
	r.Max("max.bigfile_bytes", st1.Size())
	hc := &http.Client{Timeout: 4 * time.Minute}
	resp, err := hc.Get(fmt.Sprintf("http://127.0.0.1:%d/api/v1/archive", w.HTTP))
	if err != nil {
		r.Inconc("bigfile: archive request failed: " + err.Error())
		return
	}
	body, err := io.ReadAll(resp.Body)
	resp.Body.Close()
	if err != nil || resp.StatusCode != 200 {
		r.Inconc(fmt.Sprintf("bigfile: archive answered %d %v", resp.StatusCode, err))
		return
	}
	if err := w.Close(); err != nil {
		r.Note("close: %v", err)
	}
	up = false
	ctx := map[string]interface{}{"kind": "bigfile", "file_bytes": st1.Size()}
	w.v.verifyBig(body, w.priv, path, ctx)
	os.Remove(path)
}

// verifyBig judges an archive whose equipment-reports.dat entry is too large
// to hold in memory several times: everything else goes through verify (on a
// copy of the archive in which that entry is empty), the reports entry is
// streamed.
func (v *verifier) verifyBig(body []byte, priv [32]byte, diskPath string, ctx map[string]interface{}) {
	r := v.r
	const name = "equipment-reports.dat"
	zr, err := zip.NewReader(bytes.NewReader(body), int64(len(body)))
	if err != nil {
		r.Violationf("archive-not-a-zip", v.replay(ctx), "200 response of %d bytes is not a zip archive: %v", len(body), err)
		return
	}
	if containsKeyMaterial(body, priv) {
		r.Violationf("private-key-leak", v.replay(ctx, "where", "raw zip bytes"), "the raw zip bytes contain the server's private key")
	}
	var small bytes.Buffer
	zw := zip.NewWriter(&small)
	var big *zip.File
	var auths []byte
	for _, zf := range zr.File {
		wr, _ := zw.Create(zf.Name)
		if zf.Name == name && big == nil {
			big = zf
			continue
		}
		rc, err := zf.Open()
		if err != nil {
			r.Violationf("archive-entry-unreadable", v.replay(ctx, "entry", zf.Name), "entry %s cannot be opened: %v", zf.Name, err)
			return
		}
		data, err := io.ReadAll(io.LimitReader(rc, 1<<28))
		rc.Close()
		if err != nil {
			r.Violationf("archive-entry-unreadable", v.replay(ctx, "entry", zf.Name), "entry %s cannot be decompressed: %v", zf.Name, err)
			return
		}
		wr.Write(data)
		if zf.Name == "equipment-authorizations.dat" {
			auths = data
		}
	}
	zw.Close()
	v.verify(small.Bytes(), priv, ctx) // entry set, the other entries, their closure
	if big == nil {
		return // verify has reported the missing entry
	}
	first := map[uint32][32]byte{}
	for i := 0; i+authLen <= len(auths); i += authLen {
		if a, err := refenc.ParseAuth(auths[i : i+authLen]); err == nil {
			if _, ok := first[a.ID]; !ok {
				first[a.ID] = a.Pub
			}
		}
	}
	rc, err := big.Open()
	if err != nil {
		r.Violationf("archive-entry-unreadable", v.replay(ctx, "entry", name), "entry %s cannot be opened: %v", name, err)
		return
	}
	defer rc.Close()
	disk, err := os.Open(diskPath)
	if err != nil {
		r.Inconc("bigfile: cannot open the file on disk: " + err.Error())
		return
	}
	defer disk.Close()
	okRec := map[[reportLen]byte]bool{}
	buf := make([]byte, reportLen*4096)
	dbuf := make([]byte, len(buf))
	var total int64
	var carry []byte // last 31 bytes of the previous chunk, for the key scan
	bad := 0
	for {
		n, rerr := io.ReadFull(rc, buf)
		chunk := buf[:n]
		if n > 0 {
			if m, _ := io.ReadFull(disk, dbuf[:n]); m < n || !bytes.Equal(dbuf[:n], chunk) {
				r.Violationf("entry-not-a-prefix:"+name, v.replay(ctx, "at", total), "archived %s differs from the file on disk within the %d bytes after offset %d", name, n, total)
				return
			}
			if containsKeyMaterial(append(carry, chunk...), priv) {
				r.Violationf("private-key-leak", v.replay(ctx, "where", name), "entry %s contains the server's private key", name)
			}
			if n >= 31 {
				carry = append(carry[:0], chunk[n-31:]...)
			}
			for i := 0; i+reportLen <= n && bad < 5; i += reportLen {
				key := [reportLen]byte(chunk[i : i+reportLen])
				if okRec[key] {
					continue
				}
				rep, _ := refenc.ParseReport(chunk[i : i+reportLen])
				k, ok := first[rep.ID]
				if !ok {
					bad++
					r.Violationf("dangling-report", v.replay(ctx, "offset", total+int64(i)), "report at offset %d names device %d, which has no authorization in the same archive", total+int64(i), rep.ID)
				} else if !v.verifySig(k, rep.SigningBytes(), rep.Sig) {
					bad++
					r.Violationf("report-unverifiable", v.replay(ctx, "offset", total+int64(i)), "report at offset %d of device %d does not verify under the key of the first archived authorization for that id", total+int64(i), rep.ID)
				} else {
					okRec[key] = true
				}
			}
			total += int64(n)
			r.Count("verified.reports", int64(n/reportLen))
		}
		if rerr != nil {
			if rerr != io.EOF && rerr != io.ErrUnexpectedEOF {
				r.Violationf("archive-entry-unreadable", v.replay(ctx, "entry", name), "entry %s cannot be decompressed: %v", name, rerr)
				return
			}
			break
		}
	}
	r.Max("max.bigfile_entry_bytes", total)
	r.Count("bigfile.archives_checked", 1)
	r.Count("prefix_checks_after_quiescence", 1)
	if total%reportLen != 0 {
		key := "unaligned-entry:" + name
		if total%4096 == 0 {
			key = "unaligned-entry-at-page-multiple:" + name
		}
		st, _ := disk.Stat()
		r.Violationf(key, v.replay(ctx, "entry_len", total, "file_len", st.Size()), "%s has %d bytes, not a multiple of %d: the archive ends inside a record (file on disk: %d bytes)", name, total, reportLen, st.Size())
	}
	r.Nontrivial(fmt.Sprintf("bigfile/%d/%d", v.batch.Seed, total))
	r.Sample(map[string]interface{}{"kind": "bigfile", "entry_bytes": total, "zip_bytes": len(body)})
}

// ---------------------------------------------------------------- (f) the READ of one public file held open, independent of hook positions

// threadsWaitingForFifoPartner reports whether a thread of this process is
// blocked in open() on a FIFO (kernel wait channel wait_for_partner).
func threadsWaitingForFifoPartner() bool {
	ws, _ := filepath.Glob("/proc/self/task/*/wchan")
	for _, p := range ws {
		if b, err := os.ReadFile(p); err == nil && strings.Contains(string(b), "wait_for_partner") {
			return true
		}
	}
	return false
}

// parkRead holds the handler's read of one public file open without any hook:
// the file is swapped for a named pipe, so that whoever opens it for reading
// blocks in open(); once a reader is parked there the real file is put back
// (the reader stays on the pipe), the burst runs through the server against
// the real files, and then the pipe is fed the real file's content of that
// moment, i.e. exactly what a read of the file at that moment returns.
func (w *gapWorld) parkRead(name string, burst func() bool, ctx map[string]interface{}) {
	r := w.r
	p := filepath.Join(w.Dir, name)
	realp, ff := p+".real", p+".fifo"
	type resp struct {
		st   int
		body []byte
		err  error
	}
	for attempt := 0; attempt < 5; attempt++ {
		time.Sleep(65 * time.Millisecond)
		if err := os.Rename(p, realp); err != nil {
			r.Inconc("fifo: " + err.Error())
			return
		}
		if err := syscall.Mkfifo(p, 0644); err != nil {
			os.Rename(realp, p)
			r.Inconc("fifo: mkfifo: " + err.Error())
			return
		}
		resCh := make(chan resp, 1)
		go func() {
			st, body, err := w.f.get(-1)
			resCh <- resp{st, body, err}
		}()
		parked := false
		var early *resp
		deadline := time.Now().Add(3 * time.Second)
		for time.Now().Before(deadline) && !parked && early == nil {
			select {
			case x := <-resCh:
				early = &x
			default:
				parked = threadsWaitingForFifoPartner()
				if !parked {
					time.Sleep(200 * time.Microsecond)
				}
			}
		}
		// the real file goes back; a parked reader stays on the pipe
		os.Rename(p, ff)
		if err := os.Rename(realp, p); err != nil {
			r.Inconc("fifo: cannot restore " + name + ": " + err.Error())
			return
		}
		burstOK := false
		if parked {
			burstOK = burst()
		}
		data, _ := os.ReadFile(p)
		fd, oerr := syscall.Open(ff, syscall.O_WRONLY|syscall.O_NONBLOCK, 0)
		if oerr == nil {
			syscall.SetNonblock(fd, false)
			pf := os.NewFile(uintptr(fd), ff)
			pf.Write(data)
			pf.Close()
		} else {
			parked = false // nobody was waiting on the pipe after all
		}
		os.Remove(ff)
		var x resp
		if early != nil {
			x = *early
		} else {
			select {
			case x = <-resCh:
			case <-time.After(30 * time.Second):
				r.Inconc("fifo: archive request did not return after the pipe was fed")
				return
			}
		}
		if x.err == nil && x.st == http.StatusTooManyRequests {
			continue
		}
		r.Count("fifo.episodes", 1)
		if x.err != nil || x.st != 200 {
			r.Count(fmt.Sprintf("fifo.status_%d", x.st), 1)
			return
		}
		ctx["parked"] = parked
		info := w.v.verify(x.body, w.priv, ctx)
		w.infos = append(w.infos, info)
		if parked {
			r.Count("fifo.parked", 1)
			r.Count("fifo.parked."+name, 1)
			if burstOK {
				r.Count("fifo.bursts_effective", 1)
				if info != nil {
					r.Nontrivial(fmt.Sprintf("fifo/%d/%s/%v", w.b.Seed, name, lensOf(info)))
				}
			}
		} else {
			r.Count("fifo.not_parked", 1)
		}
		return
	}
}

func childFifo(b run.Batch, r *ev.Result) {
	rng := rand.New(rand.NewSource(b.Seed))
	drv.SetClock(500 + uint32(rng.Intn(300)))
	drv.GateRotation(true)
	drv.GateImpact(true)
	v := newVerifier(b, r)
	// registered server: the read of equipment-reports.dat (and once of the
	// authorizations) is parked, burst = new device + its first report
	func() {
		dir := filepath.Join(b.Dir, "srv")
		defer os.RemoveAll(dir)
		dw, err := newWorld(dir, rng)
		if err != nil {
			r.Inconc("cannot start world: " + err.Error())
			return
		}
		w := &gapWorld{World: dw, b: b, rng: rng, r: r, v: v, nextID: uint32(10 + rng.Intn(100)), priv: dw.Key.Priv}
		for i := 0; i < 2+rng.Intn(3); i++ {
			if _, _, err := w.newDevice(1 + rng.Intn(4)); err != nil {
				r.Inconc(err.Error())
				dw.Close()
				return
			}
		}
		w.f = newFetcher(w.HTTP)
		for k := 0; k < b.N-2; k++ {
			name := "equipment-reports.dat"
			if k == 2 {
				name = "equipment-authorizations.dat"
			}
			run.Op("fifo episode %d file=%s", k, name)
			w.parkRead(name, func() bool {
				before := fileSizes(dir)
				if _, _, err := w.newDevice(1); err != nil {
					return false
				}
				after := fileSizes(dir)
				return after[2]-before[2] == authLen && after[1]-before[1] == reportLen
			}, map[string]interface{}{"kind": "fifo", "file": name, "burst": "newdev", "episode": k})
		}
		judgeRate(v, w.f, "fifo")
		w.f.close()
		dw.Close()
		v.prefixCheck(w.infos, dir, "after_quiescence")
	}()
	// unregistered server with an empty gcaPubKey.dat: the read of the
	// authorizations is parked, burst = registration + first device + report
	for k := 0; k < 2; k++ {
		dir := filepath.Join(b.Dir, fmt.Sprintf("srv-u%d", k))
		func() {
			defer os.RemoveAll(dir)
			e, err := drv.NewServerDir(dir, rng, true)
			if err != nil {
				r.Inconc(err.Error())
				return
			}
			os.WriteFile(filepath.Join(dir, "gcaPubKey.dat"), nil, 0644)
			if err := e.Start(); err != nil {
				r.Inconc("server start: " + err.Error())
				return
			}
			defer e.Close()
			w := &gapWorld{World: &drv.World{Srv: e, GCA: refenc.GenKey(rng), Devs: map[uint32]*drv.Dev{}, Rng: rng}, b: b, rng: rng, r: r, v: v,
				nextID: uint32(10 + rng.Intn(100)), priv: e.Key.Priv}
			w.f = newFetcher(e.HTTP)
			defer w.f.close()
			run.Op("fifo unregistered episode %d", k)
			w.parkRead("equipment-authorizations.dat", func() bool {
				st, _, err := e.Register(w.GCA.Pub, e.Temp.Priv)
				if err != nil || st != 200 {
					return false
				}
				_, _, err = w.newDevice(1)
				return err == nil
			}, map[string]interface{}{"kind": "fifo-unregistered", "file": "equipment-authorizations.dat", "burst": "register+device+report", "episode": k})
			e.Close()
			v.prefixCheck(w.infos, dir, "after_quiescence")
		}()
	}
}

// ---------------------------------------------------------------- (g) a short write of the weekly statistics record

// childShortWrite: a rotation runs in a process of its own whose file size
// limit ends inside the record that the rotation appends (the write is cut
// short and fails: a full disk). Whatever that process does - it may die, it
// may carry on and try again - every archive served afterwards, by it and by
// a server restarted on the directory, has to satisfy the archive oracles.
func childShortWrite(b run.Batch, r *ev.Result) {
	rng := rand.New(rand.NewSource(b.Seed))
	drv.GateRotation(true)
	drv.GateImpact(true)
	self, err := os.Executable()
	if err != nil {
		r.Inconc(err.Error())
		return
	}
	for ep := 0; ep < b.N; ep++ {
		dir := filepath.Join(b.Dir, fmt.Sprintf("srv-%d", ep))
		gdir := filepath.Join(b.Dir, fmt.Sprintf("g-%d", ep))
		func() {
			defer os.RemoveAll(dir)
			defer os.RemoveAll(gdir)
			drv.SetClock(500 + uint32(rng.Intn(300)))
			dw, err := newWorld(dir, rng)
			if err != nil {
				r.Inconc("cannot start world: " + err.Error())
				return
			}
			w := &gapWorld{World: dw, b: b, rng: rng, r: r, v: newVerifier(b, r), nextID: uint32(10 + rng.Intn(100)), priv: dw.Key.Priv}
			nDev := 2 + rng.Intn(3)
			var devs []*drv.Dev
			for i := 0; i < nDev; i++ {
				d, _, err := w.newDevice(1 + rng.Intn(3))
				if err != nil {
					r.Inconc(err.Error())
					dw.Close()
					return
				}
				devs = append(devs, d)
			}
			if n := w.rotate(); n != 1 {
				if n < 0 {
					r.Count("shortwrite.rotation_step_watchdog", 1)
				} else {
					r.Inconc(fmt.Sprintf("shortwrite: set-up rotation did not happen (%d)", n))
				}
				dw.Close()
				return
			}
			off := w.offset()
			for _, d := range devs {
				w.Inject(d.Report(pickSlot(rng, drv.Clock(), off), uint64(2+rng.Intn(1000))).Bytes())
			}
			dw.Close()
			size := fileSizes(dir)[0]
			recLen := int64(4 + nDev*devStatsLen + 4 + 64)
			limit := size + 1 + rng.Int63n(recLen-1)
			run.Op("shortwrite episode %d: stats file %d bytes, record %d bytes, limit %d", ep, size, recLen, limit)
			params := map[string]string{"dir": dir, "offset": fmt.Sprint(off), "limit": fmt.Sprint(limit), "episode": fmt.Sprint(ep),
				"clock": fmt.Sprint(off + 3300 + uint32(rng.Intn(100)))}
			r.Count("shortwrite.episodes", 1)
			gr, stderr := spawnStage(self, b, "shortwrite-server", gdir, params, r)
			switch {
			case gr != nil:
				r.Count("shortwrite.server_process_survived", 1)
				mergeResult(r, gr)
			case strings.Contains(stderr, "failed to save all device stats"):
				r.Count("shortwrite.server_process_died_on_failed_append", 1)
			default:
				r.Count("shortwrite.server_process_died_otherwise", 1)
				r.Note("shortwrite: server process ended without result: %.300s", run.CrashLine(stderr))
			}
			r.Max("max.shortwrite_stats_tail_after_fault", fileSizes(dir)[0]-size)
			// in any case: a server restarted on the directory, again in a process of its
			// own (a loader that chokes on the directory must not take this child down;
			// whether it has to start is not C14's business)
			os.RemoveAll(gdir)
			gr, stderr = spawnStage(self, b, "shortwrite-restart", gdir, params, r)
			if gr != nil {
				mergeResult(r, gr)
			} else {
				r.Count("shortwrite.restart_process_died", 1)
				r.Note("shortwrite: restart process ended without result: %.300s", run.CrashLine(stderr))
			}
		}()
		if r.NumViolations() > 20 {
			return
		}
	}
}

// spawnStage runs one stage of an episode in a process of its own (this
// binary in its child role) and returns its result, or nil and its stderr if
// it died.
func spawnStage(self string, b run.Batch, kind, gdir string, params map[string]string, r *ev.Result) (*ev.Result, string) {
	os.MkdirAll(gdir, 0755)
	gb := run.Batch{Index: b.Index, Seed: b.Seed, Tier: b.Tier, Kind: kind, Dir: gdir, Params: params}
	raw, _ := json.Marshal(gb)
	bf := filepath.Join(gdir, "batch.json")
	os.WriteFile(bf, raw, 0644)
	cmd := exec.Command(self, "child", bf)
	cmd.Dir = gdir
	se, _ := os.Create(filepath.Join(gdir, "stderr"))
	defer se.Close()
	cmd.Stderr = se
	if err := cmd.Start(); err != nil {
		r.Inconc("cannot start stage process: " + err.Error())
		return nil, ""
	}
	done := make(chan error, 1)
	go func() { done <- cmd.Wait() }()
	select {
	case <-done:
	case <-time.After(60 * time.Second):
		cmd.Process.Kill()
		<-done
		r.Count("shortwrite.stage_process_watchdog", 1)
	}
	stderr, _ := os.ReadFile(filepath.Join(gdir, "stderr"))
	if len(stderr) > 20000 {
		stderr = stderr[:20000]
	}
	gr, err := ev.LoadResult(filepath.Join(gdir, "result.json"))
	if err != nil {
		return nil, string(stderr)
	}
	return gr, string(stderr)
}

func mergeResult(r, gr *ev.Result) {
	r.Eval(int(gr.Evaluations))
	r.Distinct = append(r.Distinct, gr.Distinct...) // hashes of the stage's non-trivial cases (the parent de-duplicates)
	for k, n := range gr.Counters {
		if strings.HasPrefix(k, "max.") {
			r.Max(k, n)
		} else {
			r.Count(k, n)
		}
	}
	for _, x := range gr.Violations {
		r.Violation(x.Key, x.Desc, x.Replay)
	}
	for _, x := range gr.Inconclusive {
		r.Inconc(x)
	}
}

// childShortWriteRestart: a server started on the directory the faulty
// rotation left behind; if it starts, one more rotation and two archives.
func childShortWriteRestart(b run.Batch, r *ev.Result) {
	dir := b.P("dir")
	clock, _ := strconv.ParseUint(b.P("clock"), 10, 32)
	drv.GateRotation(true)
	drv.GateImpact(true)
	drv.SetClock(uint32(clock))
	e := &drv.Srv{Dir: dir}
	if err := e.Start(); err != nil {
		r.Count("shortwrite.refused_to_restart", 1)
		return
	}
	defer e.Close()
	r.Count("shortwrite.restarted", 1)
	v := newVerifier(b, r)
	w := &gapWorld{World: &drv.World{Srv: e}, b: b, r: r, v: v, priv: [32]byte(e.S.VerifPrivateKey())}
	w.f = newFetcher(e.HTTP)
	defer w.f.close()
	ctx := map[string]interface{}{"kind": "shortwrite-restarted", "episode": b.P("episode"), "limit": b.P("limit")}
	var infos []*archInfo
	for round := 0; round < 2; round++ {
		if round == 1 {
			if n := drv.StepRotation(); n == 1 {
				r.Count("shortwrite.rotations_after_restart", 1)
			}
		}
		if st, body, err := w.getPaced(); err == nil && st == 200 {
			r.Count("shortwrite.archives", 1)
			info := v.verify(body, w.priv, ctx)
			infos = append(infos, info)
			if info != nil {
				r.Nontrivial(fmt.Sprintf("shortwrite/%d/%s/%d/%v", b.Seed, b.P("episode"), round, lensOf(info)))
			}
		} else {
			r.Count(fmt.Sprintf("shortwrite.status_%d", st), 1)
		}
	}
	e.Close()
	v.prefixCheck(infos, dir, "after_quiescence")
}

// childShortWriteServer is the process with the file size limit.
func childShortWriteServer(b run.Batch, r *ev.Result) {
	signal.Ignore(syscall.SIGXFSZ)
	dir := b.P("dir")
	off64, _ := strconv.ParseUint(b.P("offset"), 10, 32)
	limit, _ := strconv.ParseUint(b.P("limit"), 10, 64)
	off := uint32(off64)
	drv.GateRotation(true)
	drv.GateImpact(true)
	drv.SetClock(off + 3000)
	e := &drv.Srv{Dir: dir}
	if err := e.Start(); err != nil {
		r.Inconc("shortwrite: server does not start on the prepared directory: " + err.Error())
		return
	}
	defer e.Close()
	v := newVerifier(b, r)
	priv := [32]byte(e.S.VerifPrivateKey())
	var old syscall.Rlimit
	if err := syscall.Getrlimit(syscall.RLIMIT_FSIZE, &old); err != nil {
		r.Inconc("getrlimit: " + err.Error())
		return
	}
	if err := syscall.Setrlimit(syscall.RLIMIT_FSIZE, &syscall.Rlimit{Cur: limit, Max: old.Max}); err != nil {
		r.Inconc("setrlimit: " + err.Error())
		return
	}
	drv.SetClock(off + 3300)
	run.Op("rotation with RLIMIT_FSIZE=%d", limit)
	n := drv.StepRotation() // a server that panics on the failed append ends the process here
	syscall.Setrlimit(syscall.RLIMIT_FSIZE, &old)
	r.Count(fmt.Sprintf("shortwrite.live.first_pass_rotations_%d", n), 1)
	n2 := drv.StepRotation() // the next pass of the loop, the disk has room again
	r.Count(fmt.Sprintf("shortwrite.live.second_pass_rotations_%d", n2), 1)
	w := &gapWorld{World: &drv.World{Srv: e}, b: b, r: r, v: v, priv: priv}
	w.f = newFetcher(e.HTTP)
	defer w.f.close()
	ctx := map[string]interface{}{"kind": "shortwrite-live", "limit": limit, "first_pass": n, "second_pass": n2}
	var infos []*archInfo
	for round := 0; round < 2; round++ {
		if st, body, err := w.getPaced(); err == nil && st == 200 {
			r.Count("shortwrite.archives", 1)
			infos = append(infos, v.verify(body, priv, ctx))
		}
	}
	e.Close()
	v.prefixCheck(infos, dir, "after_quiescence")
}

// ---------------------------------------------------------------- (c) rate limit

func childRate(b run.Batch, r *ev.Result) {
	rng := rand.New(rand.NewSource(b.Seed))
	drv.SetClock(500 + uint32(rng.Intn(300)))
	drv.GateRotation(true)
	drv.GateImpact(true)
	dir := filepath.Join(b.Dir, "srv")
	defer os.RemoveAll(dir)
	born := time.Now()
	dw, err := newWorld(dir, rng)
	if err != nil {
		r.Inconc("cannot start world: " + err.Error())
		return
	}
	closed := false
	defer func() {
		if !closed {
			dw.Close()
		}
	}()
	w := &gapWorld{World: dw, b: b, rng: rng, r: r, v: newVerifier(b, r), nextID: uint32(10 + rng.Intn(100)), priv: dw.Key.Priv}
	for i := 0; i < 1+rng.Intn(3); i++ {
		if _, _, err := w.newDevice(1 + rng.Intn(4)); err != nil {
			r.Inconc(err.Error())
			return
		}
	}
	w.f = newFetcher(w.HTTP)
	defer w.f.close()
	c := server.VerifConsts()
	sizes := []int{2, 3, 4, 5, 8, 40, 40, 40}
	for len(sizes) < b.N {
		sizes = append(sizes, 2+rng.Intn(39))
	}
	rng.Shuffle(len(sizes), func(i, j int) { sizes[i], sizes[j] = sizes[j], sizes[i] })
	var imu sync.Mutex
	var infos []*archInfo
	for bi, n := range sizes {
		if time.Since(born) > serverLife {
			r.Count("cut_short_server_life_limit."+b.Kind, 1)
			break
		}
		// let the previous window pass (not needed for soundness, it makes bursts independent)
		time.Sleep(c.ApiArchiveRate + time.Duration(10+rng.Intn(30))*time.Millisecond)
		if bi%3 == 1 {
			n = c.ApiArchiveLimit // exactly the limit, then a rotation, then two more (below): as little time as possible
		}
		run.Op("rate burst %d of %d concurrent GETs", bi, n)
		start := make(chan struct{})
		var wg sync.WaitGroup
		for k := 0; k < n; k++ {
			wg.Add(1)
			go func() {
				defer wg.Done()
				<-start
				st, body, err := w.f.get(bi)
				if err != nil {
					r.Count("rate.errors", 1)
					return
				}
				switch st {
				case 200:
					r.Count("rate.status_200", 1)
					info := w.v.verify(body, w.priv, map[string]interface{}{"kind": "rate", "burst": bi, "size": n})
					imu.Lock()
					infos = append(infos, info)
					imu.Unlock()
				case http.StatusTooManyRequests:
					r.Count("rate.status_429", 1)
				default:
					r.Count(fmt.Sprintf("rate.status_%d", st), 1)
				}
			}()
		}
		close(start)
		wg.Wait()
		if bi%3 == 1 {
			// a week rotation completes inside the rate window of this burst, more requests follow at once:
			// the window belongs to the limiter, whatever else happens on the server meanwhile
			off := w.S.VerifSnapshot(false).Offset
			drv.SetClock(off + 3201 + uint32(rng.Intn(100)))
			// (StepRotation returns only when the loop is back at its gate, one check period later: the
			// rotation is released in the background and the window offset is watched instead)
			stepped := make(chan int, 1)
			go func() { stepped <- drv.StepRotation() }()
			for i := 0; i < 2000 && w.S.VerifSnapshot(false).Offset == off; i++ {
				time.Sleep(50 * time.Microsecond)
			}
			if w.S.VerifSnapshot(false).Offset != off {
				r.Count("rate.rotations_inside_a_window", 1)
			}
			defer func() { <-stepped }()
			var wg2 sync.WaitGroup
			for k := 0; k < 4; k++ {
				if k == 2 {
					time.Sleep(3 * time.Millisecond) // whatever the rotation still does after its critical section has happened by now
				}
				wg2.Add(1)
				go func() {
					defer wg2.Done()
					st, body, err := w.f.get(bi)
					if err != nil {
						r.Count("rate.errors", 1)
						return
					}
					switch st {
					case 200:
						r.Count("rate.status_200", 1)
						info := w.v.verify(body, w.priv, map[string]interface{}{"kind": "rate", "burst": bi, "after": "rotation"})
						imu.Lock()
						infos = append(infos, info)
						imu.Unlock()
					case http.StatusTooManyRequests:
						r.Count("rate.status_429", 1)
					default:
						r.Count(fmt.Sprintf("rate.status_%d", st), 1)
					}
				}()
			}
			wg2.Wait()
		}
		// was this burst able to show a certain over-admission at all?
		w.f.mu.Lock()
		recs := append([]rec(nil), w.f.recs...)
		w.f.mu.Unlock()
		if n > c.ApiArchiveLimit {
			if m, _ := densest(recs, c.ApiArchiveRate, func(x rec) bool { return x.Burst == bi }); m > c.ApiArchiveLimit {
				r.Count("rate.decisive_bursts", 1)
			} else {
				r.Count("rate.undecisive_bursts", 1)
			}
		}
		r.Count("rate.bursts", 1)
	}
	// Staggered patterns: `early` admitted requests at the start of a window,
	// limit-early more late in the same window, then a burst just after the
	// early ones have aged out. A sliding window admits only `early` requests of
	// that burst; a limiter that forgets requests which are still inside the
	// window admits up to limit of them. The schedule decides nothing: the
	// responses go to the same certain-violation interval oracle as all others.
	nPat := 8
	if b.Tier == "thorough" {
		nPat = 24
	}
	fire := func(tag int, at time.Time, n int, wg *sync.WaitGroup, firstRecv *atomic.Int64) {
		for k := 0; k < n; k++ {
			wg.Add(1)
			go func() {
				defer wg.Done()
				if d := time.Until(at); d > 0 {
					time.Sleep(d)
				}
				st, body, err := w.f.get(tag)
				if firstRecv != nil {
					firstRecv.CompareAndSwap(0, int64(time.Since(w.f.base)))
				}
				if err != nil {
					r.Count("rate.errors", 1)
					return
				}
				switch st {
				case 200:
					r.Count("rate.status_200", 1)
					info := w.v.verify(body, w.priv, map[string]interface{}{"kind": "rate-staggered", "pattern": tag})
					imu.Lock()
					infos = append(infos, info)
					imu.Unlock()
				case http.StatusTooManyRequests:
					r.Count("rate.status_429", 1)
				default:
					r.Count(fmt.Sprintf("rate.status_%d", st), 1)
				}
			}()
		}
	}
	limit, window := c.ApiArchiveLimit, c.ApiArchiveRate
	for pi := 0; pi < nPat && limit >= 2; pi++ {
		if time.Since(born) > serverLife {
			r.Count("cut_short_server_life_limit."+b.Kind, 1)
			break
		}
		tag := 1000 + pi
		early := 1 + pi%(limit-1)
		late := limit - early
		burst := limit + rng.Intn(limit+1)
		// late group at 25 %..92 % of the window after the early responses, burst 0.3..4 ms after the window
		lateAt := window * time.Duration(25+rng.Intn(68)) / 100
		burstAfter := time.Duration(300+rng.Intn(3700)) * time.Microsecond
		time.Sleep(window + time.Duration(10+rng.Intn(20))*time.Millisecond) // empty window first
		run.Op("rate staggered pattern %d early=%d late=%d at %v burst=%d at window+%v", pi, early, late, lateAt, burst, burstAfter)
		var wg sync.WaitGroup
		var firstRecv atomic.Int64
		fire(tag, time.Now(), early, &wg, &firstRecv)
		wg.Wait()
		// every early admission happened before this instant, so a burst sent a window later finds them expired
		t0 := time.Now()
		fire(tag, t0.Add(lateAt), late, &wg, nil)
		fire(tag, t0.Add(window+burstAfter), burst, &wg, nil)
		wg.Wait()
		r.Count("rate.staggered_patterns", 1)
		// could this pattern have shown a certain over-admission? (late group + burst, any status, inside one window)
		w.f.mu.Lock()
		recs := append([]rec(nil), w.f.recs...)
		w.f.mu.Unlock()
		lo := time.Duration(firstRecv.Load())
		if m, _ := densest(recs, window, func(x rec) bool { return x.Burst == tag && x.S > lo }); m > limit {
			r.Count("rate.staggered_on_schedule", 1)
		} else {
			r.Count("rate.staggered_slipped", 1)
		}
	}
	// Held-request choreography: request A is admitted and parked in its first
	// gap; a window later B, C, D are served, E is refused;
	// then A is made to fail (its file is renamed away for the moment) and F
	// follows at once. Whatever a failing request does to the limiter, B, C, D
	// and F within one window is one admission too many. Judged by the interval
	// oracle only.
	installGapHook()
	nCh := 4
	if b.Tier == "thorough" {
		nCh = 8
	}
	if b.Variant == "race" {
		nCh = 0 // a 60 ms window is too tight for the race build; the plain children run it
	}
	for ci := 0; ci < nCh; ci++ {
		if time.Since(born) > serverLife {
			r.Count("cut_short_server_life_limit."+b.Kind, 1)
			break
		}
		tag := 2000 + ci
		time.Sleep(window + time.Duration(10+rng.Intn(20))*time.Millisecond)
		run.Op("rate held-request choreography %d", ci)
		var armed atomic.Bool
		reached, release := make(chan struct{}), make(chan struct{})
		armed.Store(true)
		hookFn.Store(func(g int) {
			// the first handler to reach any gap after arming is A (nothing else is in flight)
			if armed.CompareAndSwap(true, false) {
				close(reached)
				<-release
			}
		})
		type resp struct {
			st   int
			body []byte
			err  error
		}
		one := func(tag int, out chan<- resp) {
			st, body, err := w.f.get(tag)
			out <- resp{st, body, err}
		}
		aCh := make(chan resp, 1)
		go one(3000+ci, aCh)
		select {
		case <-reached:
		case <-time.After(10 * time.Second):
			armed.Store(false)
			close(release)
			<-aCh
			hookFn.Store(func(int) {})
			r.Count("rate.held_slipped", 1)
			continue
		}
		time.Sleep(window + time.Duration(5+rng.Intn(10))*time.Millisecond) // A's own admission ages out
		bcd := make(chan resp, 3)
		for k := 0; k < limit; k++ {
			go one(tag, bcd)
		}
		var got []resp
		for k := 0; k < limit; k++ {
			got = append(got, <-bcd)
		}
		eCh := make(chan resp, 1)
		one(tag, eCh)
		e := <-eCh
		tmp := filepath.Join(dir, "gcaTempPubKey.dat")
		renamed := os.Rename(tmp, tmp+".away") == nil
		close(release)
		a := <-aCh
		if renamed {
			if err := os.Rename(tmp+".away", tmp); err != nil {
				r.Inconc("cannot restore gcaTempPubKey.dat: " + err.Error())
				return
			}
		}
		fCh := make(chan resp, 1)
		one(tag, fCh)
		f := <-fCh
		hookFn.Store(func(int) {})
		all200 := true
		for _, x := range append(got, f, a, e) {
			if x.err != nil {
				r.Count("rate.errors", 1)
				continue
			}
			r.Count(fmt.Sprintf("rate.status_%d", x.st), 1)
			if x.st == 200 {
				infos = append(infos, w.v.verify(x.body, w.priv, map[string]interface{}{"kind": "rate-held", "choreography": ci}))
			}
		}
		for _, x := range got {
			if x.err != nil || x.st != 200 {
				all200 = false
			}
		}
		if os.Getenv("C14_DEBUG") != "" {
			var line []string
			for _, x := range recs0(w.f, tag) {
				line = append(line, fmt.Sprintf("%d@%.1f-%.1f", x.Status, float64(x.S)/1e6, float64(x.R)/1e6))
			}
			r.Note("held %d variant=%s: A=%d %v", ci, b.Variant, a.st, line)
		}
		r.Count(fmt.Sprintf("rate.held.A_status_%d", a.st), 1)
		r.Count(fmt.Sprintf("rate.held.E_status_%d", e.st), 1)
		r.Count(fmt.Sprintf("rate.held.F_status_%d", f.st), 1)
		w.f.mu.Lock()
		recs := append([]rec(nil), w.f.recs...)
		w.f.mu.Unlock()
		// B, C, D, E, F (any status) inside one window, B..D served, A failed: had F been served, the oracle would be certain
		m, _ := densest(recs, window, func(x rec) bool { return x.Burst == tag })
		if all200 && a.err == nil && a.st == 500 && f.err == nil && m >= limit+2 {
			r.Count("rate.held_on_schedule", 1)
			r.Count("rate.held_in_time", 1)
		} else if all200 && a.err == nil && a.st == 200 && f.err == nil && m >= limit+2 {
			// the schedule was kept but the parked request did not fail: this server had
			// read the file before the hook point, the choreography does not apply to it
			r.Count("rate.held_request_did_not_fail", 1)
			r.Count("rate.held_in_time", 1)
		} else {
			r.Count("rate.held_slipped", 1)
		}
	}
	// sustained saturation: ten callers ask back to back over several windows, so at every instant
	// at which an admission leaves the window several requests are just arriving or just being decided
	if time.Since(born) < serverLife {
		run.Op("rate: sustained saturation, 12 callers x 40 GETs, 0-15 ms apart")
		var wg sync.WaitGroup
		for g := 0; g < 12; g++ {
			wg.Add(1)
			pause := rand.New(rand.NewSource(b.Seed + int64(g)*7919))
			go func() {
				defer wg.Done()
				for i := 0; i < 40; i++ {
					time.Sleep(time.Duration(pause.Intn(15000)) * time.Microsecond) // admissions spread over the window, arrivals at every instant
					if st, _, err := w.f.get(9000); err == nil && st == 200 {
						r.Count("rate.sustained_200", 1)
					}
					r.Count("rate.sustained_requests", 1)
				}
			}()
		}
		wg.Wait()
	}
	judgeRate(w.v, w.f, "rate")
	r.Sample(map[string]interface{}{"kind": "rate", "burst_sizes": sizes, "staggered_patterns": nPat, "limit": c.ApiArchiveLimit, "window": c.ApiArchiveRate.String()})
	closed = true
	if err := w.Close(); err != nil {
		r.Note("close: %v", err)
	}
	w.v.prefixCheck(infos, dir, "after_quiescence")
}
