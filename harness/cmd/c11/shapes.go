//go:build test

// Reply byte strings: random strings of every length class, and mutations of
// genuine replies re-signed with the contacted server's key so that the
// client's parser gets past the signature check.
package main

import (
	"encoding/binary"
	"encoding/hex"
	"fmt"
	"math/rand"
	"time"

	"github.com/glowlabs-org/gca-backend/client"
	"github.com/glowlabs-org/gca-backend/glow"

	"verifharness/lib/ev"
	"verifharness/lib/refenc"
	"verifharness/lib/run"
)

type shapeEnv struct {
	rng      *rand.Rand
	dev      refenc.Key
	gca      refenc.Key
	srv      refenc.Key
	udp      uint16
	closedPt uint16
	latest   uint32
}

var lenThresholds = []int{0, 1, 2, 3, 71, 72, 73, 135, 136, 137, 575, 576, 577, 647, 648, 649, 711, 712, 713, 714, 815, 816, 817, 1000, 4096, 65533, 65534, 65535}

var shapeClasses = []string{"random", "consistent-random", "signed-random", "signed-devkey", "genuine", "prefix-larger", "prefix-smaller", "trunc-field",
	"loc-oversize", "list-overrun", "junk-between", "wrong-devkey", "bad-time", "edge-time", "bad-server-sig", "bogus-gca", "valid-migration", "many-servers",
	"refusal", "empty", "dup-flags"}

// classes that are also driven through complete sync rounds (adoption path)
var fullRoundClasses = []string{"genuine", "valid-migration", "many-servers", "dup-flags", "signed-random", "signed-devkey", "trunc-field", "loc-oversize", "list-overrun",
	"junk-between", "bogus-gca", "bad-server-sig", "refusal", "consistent-random", "edge-time", "prefix-larger"}

func (e shapeEnv) pickLen(min, max int) int {
	if e.rng.Intn(2) == 0 {
		for tries := 0; tries < 20; tries++ {
			n := lenThresholds[e.rng.Intn(len(lenThresholds))]
			if n >= min && n <= max {
				return n
			}
		}
	}
	if e.rng.Intn(3) == 0 { // small values are where the thresholds are
		hi := 1500
		if hi > max {
			hi = max
		}
		if hi > min {
			return min + e.rng.Intn(hi-min+1)
		}
	}
	return min + e.rng.Intn(max-min+1)
}

func (e shapeEnv) freshServers(n int, signer refenc.Key, locLen int) []refenc.AuthServer {
	var out []refenc.AuthServer
	for i := 0; i < n; i++ {
		loc := "127.0.0.1"
		for len(loc) < locLen {
			loc += "."
		}
		s := refenc.AuthServer{Pub: refenc.GenKey(e.rng).Pub, Banned: e.rng.Intn(3) == 0, Location: loc, HTTP: 0, TCP: e.closedPt, UDP: e.udp}
		out = append(out, s.Signed(signer.Priv))
	}
	return out
}

func serversBytes(l []refenc.AuthServer) []byte {
	var b []byte
	for _, s := range l {
		b = append(b, s.Bytes()...)
	}
	return b
}

// fixed builds the 576 fixed bytes of a reply body.
func (e shapeEnv) fixed(dev [32]byte, newGCA [32]byte, newID uint32) []byte {
	b := make([]byte, 576)
	copy(b, dev[:])
	binary.LittleEndian.PutUint32(b[32:], []uint32{0, e.latest - 1, e.rng.Uint32()}[e.rng.Intn(3)])
	e.rng.Read(b[36:540])
	copy(b[540:], newGCA[:])
	binary.LittleEndian.PutUint32(b[572:], newID)
	return b
}

// wire appends time and the server's signature and the length prefix: the
// result passes the client's signature check whatever the payload is.
func wire(payload []byte, unix uint64, priv [32]byte) []byte {
	body := append([]byte(nil), payload...)
	var t [8]byte
	binary.LittleEndian.PutUint64(t[:], unix)
	body = append(body, t[:]...)
	sig := refenc.Sign(priv, body)
	body = append(body, sig[:]...)
	out := make([]byte, 2, 2+len(body))
	binary.LittleEndian.PutUint16(out, uint16(len(body)))
	return append(out, body...)
}

func (e shapeEnv) gen(class string) []byte {
	rng := e.rng
	now := uint64(time.Now().Unix())
	var zero32 [32]byte
	var zero64 [64]byte
	genuinePayload := func(list []refenc.AuthServer) []byte {
		p := e.fixed(e.dev.Pub, zero32, 0)
		p = append(p, serversBytes(list)...)
		return append(p, zero64[:]...)
	}
	rnd := func(n int) []byte { b := make([]byte, n); rng.Read(b); return b }
	switch class {
	case "random":
		return rnd(e.pickLen(0, 65537))
	case "consistent-random":
		n := e.pickLen(0, 65535)
		b := make([]byte, 2, 2+n)
		binary.LittleEndian.PutUint16(b, uint16(n))
		return append(b, rnd(n)...)
	case "signed-random":
		n := e.pickLen(72, 65535)
		return wire(rnd(n-72), now, e.srv.Priv)
	case "signed-devkey":
		n := e.pickLen(712, 65535)
		p := rnd(n - 72)
		copy(p, e.dev.Pub[:])
		copy(p[540:572], zero32[:])
		return wire(p, now, e.srv.Priv)
	case "genuine":
		return wire(genuinePayload(e.freshServers(rng.Intn(4), e.gca, 0)), now, e.srv.Priv)
	case "dup-flags":
		l := e.freshServers(1+rng.Intn(3), e.gca, 0)
		d := l[rng.Intn(len(l))]
		d.Banned = !d.Banned
		l = append(l, d.Signed(e.gca.Priv))
		rng.Shuffle(len(l), func(a, b int) { l[a], l[b] = l[b], l[a] })
		return wire(genuinePayload(l), now, e.srv.Priv)
	case "prefix-larger":
		w := wire(genuinePayload(e.freshServers(rng.Intn(3), e.gca, 0)), now, e.srv.Priv)
		n := len(w) - 2
		binary.LittleEndian.PutUint16(w, uint16(n+1+rng.Intn(65535-n)))
		return w
	case "prefix-smaller":
		w := wire(genuinePayload(e.freshServers(rng.Intn(3), e.gca, 0)), now, e.srv.Priv)
		binary.LittleEndian.PutUint16(w, uint16(rng.Intn(len(w)-2)))
		return w
	case "trunc-field":
		p := genuinePayload(e.freshServers(1+rng.Intn(3), e.gca, 0))
		cuts := []int{0, 1, 31, 32, 36, 539, 540, 572, 575, 576, 577, 576 + 32, 576 + 33, 576 + 34, 576 + 34 + 9, 576 + 40 + 9, len(p) - 64 - 1, len(p) - 64, len(p) - 1}
		k := cuts[rng.Intn(len(cuts))]
		if k > len(p) {
			k = len(p)
		}
		return wire(p[:k], now, e.srv.Priv)
	case "loc-oversize":
		l := e.freshServers(1+rng.Intn(3), e.gca, 0)
		p := genuinePayload(l)
		// location length byte of the first / last record
		off := 576 + 33
		if rng.Intn(2) == 0 && len(l) > 1 {
			off = 576 + len(serversBytes(l[:len(l)-1])) + 33
		}
		p[off] = []byte{255, 200, byte(len(l[0].Location) + 1), byte(len(l[0].Location) + 70), 0}[rng.Intn(5)]
		return wire(p, now, e.srv.Priv)
	case "list-overrun":
		l := e.freshServers(1+rng.Intn(3), e.gca, 0)
		sb := serversBytes(l)
		cut := 1 + rng.Intn(len(l[len(l)-1].Bytes())-1)
		p := e.fixed(e.dev.Pub, zero32, 0)
		p = append(p, sb[:len(sb)-cut]...)
		p = append(p, zero64[:]...)
		return wire(p, now, e.srv.Priv)
	case "junk-between":
		l := e.freshServers(1+rng.Intn(3), e.gca, 0)
		p := e.fixed(e.dev.Pub, zero32, 0)
		junk := rnd(1 + rng.Intn(120))
		pos := rng.Intn(len(l) + 1)
		p = append(p, serversBytes(l[:pos])...)
		p = append(p, junk...)
		p = append(p, serversBytes(l[pos:])...)
		p = append(p, zero64[:]...)
		return wire(p, now, e.srv.Priv)
	case "wrong-devkey":
		p := genuinePayload(e.freshServers(rng.Intn(3), e.gca, 0))
		ok := refenc.GenKey(rng)
		copy(p, ok.Pub[:])
		return wire(p, now, e.srv.Priv)
	case "bad-time":
		d := uint64(24*3600 + 60 + rng.Intn(1000000))
		t := now + d
		if rng.Intn(2) == 0 {
			t = now - d
		}
		if rng.Intn(6) == 0 {
			t = []uint64{0, 1<<64 - 1, 1 << 63}[rng.Intn(3)]
		}
		return wire(genuinePayload(e.freshServers(rng.Intn(3), e.gca, 0)), t, e.srv.Priv)
	case "edge-time":
		t := now + 24*3600 - 120
		if rng.Intn(2) == 0 {
			t = now - 24*3600 + 120
		}
		return wire(genuinePayload(e.freshServers(rng.Intn(3), e.gca, 0)), t, e.srv.Priv)
	case "bad-server-sig":
		l := e.freshServers(1+rng.Intn(3), e.gca, 0)
		i := rng.Intn(len(l))
		if rng.Intn(2) == 0 {
			l[i].Sig[rng.Intn(64)] ^= 1 << uint(rng.Intn(8))
		} else {
			l[i] = l[i].Signed(e.srv.Priv) // signed by the server instead of the GCA
		}
		return wire(genuinePayload(l), now, e.srv.Priv)
	case "bogus-gca":
		g2 := refenc.GenKey(rng)
		l := e.freshServers(1+rng.Intn(2), g2, 0)
		p := e.fixed(e.dev.Pub, g2.Pub, rng.Uint32())
		p = append(p, serversBytes(l)...)
		var ms [64]byte
		switch rng.Intn(3) {
		case 0:
			rng.Read(ms[:])
		case 1: // signed by the server, not by the GCA
			ms = refenc.Migration{Equipment: e.dev.Pub, NewGCA: g2.Pub, NewID: binary.LittleEndian.Uint32(p[572:]), Servers: l}.Signed(e.srv.Priv).Sig
		}
		return wire(append(p, ms[:]...), now, e.srv.Priv)
	case "valid-migration":
		g2 := refenc.GenKey(rng)
		l := e.freshServers(1+rng.Intn(3), g2, 0)
		l[0].Banned = false
		l[0] = l[0].Signed(g2.Priv)
		if rng.Intn(2) == 0 {
			// the order lists one key twice: the authorization first, its ban record later, then a usable server
			k := e.freshServers(1, g2, 0)[0]
			k.Banned = false
			k = k.Signed(g2.Priv)
			kb := k
			kb.Banned = true
			kb = kb.Signed(g2.Priv)
			l = append([]refenc.AuthServer{k, kb}, l...)
		}
		id := rng.Uint32()
		p := e.fixed(e.dev.Pub, g2.Pub, id)
		p = append(p, serversBytes(l)...)
		ms := refenc.Migration{Equipment: e.dev.Pub, NewGCA: g2.Pub, NewID: id, Servers: l}.Signed(e.gca.Priv).Sig
		return wire(append(p, ms[:]...), now, e.srv.Priv)
	case "many-servers":
		per := 104 + 9
		max := (65535 - 712) / per
		n := max - rng.Intn(3)
		if rng.Intn(2) == 0 {
			n = 50 + rng.Intn(max-50)
		}
		// one signature serves all (distinct keys are not needed to stress the list code)
		base := e.freshServers(1, e.gca, 0)[0]
		l := make([]refenc.AuthServer, 0, n)
		l = append(l, base)
		l = append(l, e.freshServers(7, e.gca, 0)...)
		for len(l) < n {
			l = append(l, l[rng.Intn(8)])
		}
		return wire(genuinePayload(l), now, e.srv.Priv)
	case "refusal":
		return []byte{0}
	case "empty":
		return nil
	}
	panic("unknown shape class " + class)
}

// shapesChild: nd reply strings go straight into the client's reply parser
// (one TCP connection each, no tick sleep); nf go through complete judged
// rounds with every monitor.
func shapesChild(b run.Batch, r *ev.Result, cover bool) {
	var nd, nf int
	fmt.Sscan(b.P("direct"), &nd)
	fmt.Sscan(b.P("full"), &nf)
	rng := rand.New(rand.NewSource(b.Seed*977 + 5))

	// ---- direct parser feed on one long-lived client
	fx := &ctx{r: r, cc: &caseCfg{Kind: "shapefx", Index: 0, Seed: b.Seed*977 + 6, Servers: []srvCfg{{Outcome: "success"}}},
		rng: rand.New(rand.NewSource(b.Seed*977 + 6)), dir: b.Dir + "/shapefx"}
	func() {
		defer fx.teardown()
		if err := fx.setup(); err != nil {
			fx.inconc("setup: %v", err)
			return
		}
		fx.prevMem, fx.prevFile = map[[32]byte]bool{}, map[[32]byte]bool{}
		fx.T0 = client.VerifTicks()
		c, err := startClient(fx.cdir)
		if err != nil {
			fx.inconc("client start: %v", err)
			return
		}
		fx.c = c
		rg := fx.rogues[0]
		genuineBehave := rg.behave
		env := shapeEnv{rng: rng, dev: fx.dev, gca: fx.gca, srv: rg.Key, udp: fx.sink.Port, closedPt: fx.closedPt, latest: fx.latest}
		gcas := client.GCAServer{Location: "127.0.0.1", TcpPort: rg.Port, UdpPort: fx.sink.Port}
		for i := 0; i < nd; i++ {
			class := shapeClasses[i%len(shapeClasses)]
			raw := env.gen(class)
			h := ""
			if len(raw) <= 1200 {
				h = " hex=" + hex.EncodeToString(raw)
			}
			run.Op("shape direct i=%d class=%s len=%d sha=%s%s", i, class, len(raw), sha(raw), h)
			rg.setBehave(func(int) action { return action{Kind: "reply", Reply: raw, CloseAfter: -1, Tag: -1} })
			_, _, _, _, _, err := c.VerifServerSync(gcas, glow.PublicKey(rg.Key.Pub), glow.PublicKey(fx.gca.Pub))
			r.Eval(1)
			r.Count("shapes", 1)
			if err == nil {
				r.Count("shapes.accepted."+class, 1)
			} else {
				r.Count("shapes.rejected."+class, 1)
			}
			if len(raw) >= 2 && int(binary.LittleEndian.Uint16(raw)) <= len(raw)-2 {
				r.Nontrivial(fmt.Sprintf("%s|%d", class, len(raw)))
			}
			r.Max("max.reply_bytes", int64(len(raw)))
			if i%97 == 0 {
				r.Sample(map[string]interface{}{"shape_class": class, "reply_len": len(raw), "sha256_8": sha(raw), "accepted": err == nil})
			}
		}
		// the client that digested all of this must still be healthy
		rg.setBehave(genuineBehave)
		if ok, abort := fx.round("after direct shapes"); abort {
			return
		} else if ok {
			r.Count("fixture_round_ok", 1)
		}
		st := fx.c.VerifState()
		_, hasPrimary := st.Servers[st.PrimaryServer]
		fx.emission("after direct shapes", hasPrimary)
	}()
	if r.NumViolations() > 0 {
		return
	}
	// ---- complete rounds
	for i := 0; i < nf; i++ {
		class := fullRoundClasses[i%len(fullRoundClasses)]
		cc := &caseCfg{Kind: "shape", Index: i, Seed: b.Seed*1000 + int64(i), Shape: class, Servers: []srvCfg{{Outcome: "custom"}}}
		if i%3 == 1 {
			cc.Servers = append(cc.Servers, srvCfg{Outcome: "success"})
		}
		if i%3 == 2 {
			cc.Servers = append(cc.Servers, srvCfg{Outcome: "success", Banned: true})
		}
		cc.Liveness = cover && i%8 == 0
		if runCase(cc, b, r) {
			return
		}
	}
}

var startClient = func(dir string) (*client.Client, error) { return client.NewClient(dir) }

var _ = ev.NewResult
