//go:build test

// C11 — No server behaviour can crash, wedge or mislead the client.
//
// Monitor: the real client runs in a child process against 1..5 rogue sync
// servers (each holds a real key, so replies can be validly signed) and a UDP
// sink. Three input families: (i) reply byte strings of every length class,
// (ii) mutations of genuine replies re-signed with the contacted server's key,
// (iii) every assignment of {refused, reset, short, badsig, success} to the
// configured servers. After every sync round: lock probe, ban monotonicity in
// memory and on disk, primary server, dial log of servers known to be banned,
// report emission (tick-bounded), a later background sync, and a restart.
package main

import (
	"crypto/sha256"
	"encoding/binary"
	"encoding/hex"
	"encoding/json"
	"fmt"
	"math/rand"
	"net"
	"os"
	"path/filepath"
	"sort"
	"sync"
	"time"

	"github.com/glowlabs-org/gca-backend/client"
	"github.com/glowlabs-org/gca-backend/glow"

	"verifharness/lib/drv"
	"verifharness/lib/ev"
	"verifharness/lib/refenc"
	"verifharness/lib/run"
)

var outcomes = []string{"refused", "reset", "short", "badsig", "success"}

const nOutcomeCases = 5 + 25 + 125 + 625 + 3125 // 3905
const nAllBanned = 5

func main() {
	if len(os.Args) >= 5 && os.Args[1] == "victim" {
		victimMain() // grandchild role of the iofault cases
		return
	}
	run.Main(run.Spec{
		ID:    "C11",
		Level: "fault_enumeration",
		Pkg:   "./cmd/c11",
		Rule: "evaluations = judged sync rounds (VerifSyncOnce returns, then all monitors) + reply byte strings handed to the client's reply parser over a real TCP connection. " +
			"Non-trivial = a round of a configuration with at least one failing or banned server, or a reply whose declared length is satisfied by the bytes sent (the parser proper is entered); " +
			"distinct by (outcome vector, initial ban mask, round label, round result) resp. (shape class, body length).",
		Assumptions: []string{
			"rogue servers answer or close within milliseconds; a server that holds a connection open forever (the client has no read deadline) is outside the enumerated outcomes",
			"the dial monitor sees dials to listening ports only; a banned server always keeps a listener so that a dial to it would be seen",
			"a lock leak / wedged loop is concluded from an atomic goroutine snapshot (report loop parked on the client mutex, no goroutine that could hold it), never from elapsed time; wall-clock watchdogs only yield inconclusive",
			"replies never ban the replying server itself when the 'primary not banned after a successful round' clause is judged (the client selects before it learns; such replies are generated, counted, and excluded from that clause)",
			"a validly GCA-signed migration replaces the whole server map (trusted GCA decision): servers that disappear that way are not counted as lost ban knowledge",
			"block coverage of the locking functions is evidence of which paths were driven; paths not driven are not decided (listed in coverage.locking_code_coverage)",
		},
		Plan:  plan,
		Child: child,
		Post:  post,
	})
}

func planBase(tier string, seed int64) []run.Batch {
	var bs []run.Batch
	if dbg := os.Getenv("C11_DEBUG_IDS"); dbg != "" {
		// debugging aid: run the given outcome cases (JSON list) in parallel batches, nothing else
		for i := 0; i < 16; i++ {
			bs = append(bs, run.Batch{Kind: "outcomes", Seed: seed, TimeoutS: 300, Params: map[string]string{"ids": dbg}})
		}
		return bs
	}
	// long-outage cases take ~20 s each: they start first, one per child
	no := 2
	if tier == "thorough" {
		no = 8
	}
	for i := 0; i < no; i++ {
		bs = append(bs, run.Batch{Kind: "outage", Seed: seed, N: 1, TimeoutS: 300, Params: map[string]string{"from": fmt.Sprint(i), "to": fmt.Sprint(i + 1)}})
	}
	nio := 4
	if tier == "thorough" {
		nio = 40
	}
	for i := 0; i < nio; i += 4 {
		bs = append(bs, run.Batch{Kind: "iofault", Seed: seed, N: 4, TimeoutS: 300, Params: map[string]string{"from": fmt.Sprint(i), "to": fmt.Sprint(i + 4)}})
	}
	// the coverage-instrumented child comes first: its build time overlaps with the other batches
	bs = append(bs, run.Batch{Kind: "cover", Seed: seed, Variant: "cover", TimeoutS: 300, Params: map[string]string{"direct": "100", "full": "16"}})
	if tier != "thorough" {
		ids := sampleOutcomeCases(seed, 200)
		per := 13
		for i := 0; i < len(ids); i += per {
			j := i + per
			if j > len(ids) {
				j = len(ids)
			}
			raw, _ := json.Marshal(ids[i:j])
			bs = append(bs, run.Batch{Kind: "outcomes", Seed: seed, N: j - i, TimeoutS: 150, Params: map[string]string{"ids": string(raw)}})
		}
		for i := 0; i < 6; i += 2 {
			bs = append(bs, run.Batch{Kind: "stall", Seed: seed, N: 2, TimeoutS: 200, Params: map[string]string{"from": fmt.Sprint(i), "to": fmt.Sprint(i + 2)}})
		}
		bs = append(bs, run.Batch{Kind: "overlap", Seed: seed, N: 16, TimeoutS: 150, Params: map[string]string{"from": "0", "to": "16"}})
		for i := 0; i < 3; i++ {
			bs = append(bs, run.Batch{Kind: "shapes", Seed: seed*100 + int64(i), N: 200, TimeoutS: 150, Params: map[string]string{"direct": "200", "full": "10"}})
		}
		return bs
	}
	var ids []int
	for i := 0; i < nOutcomeCases+nAllBanned; i++ {
		ids = append(ids, i)
	}
	// interleave so that every batch gets cheap (n=1) and expensive (n=5) cases
	nb := 80
	for k := 0; k < nb; k++ {
		var mine []int
		for i := k; i < len(ids); i += nb {
			mine = append(mine, ids[i])
		}
		raw, _ := json.Marshal(mine)
		bs = append(bs, run.Batch{Kind: "outcomes", Seed: seed, N: len(mine), TimeoutS: 400, Params: map[string]string{"ids": string(raw)}})
	}
	for i := 0; i < 60; i += 4 {
		bs = append(bs, run.Batch{Kind: "stall", Seed: seed, N: 4, TimeoutS: 300, Params: map[string]string{"from": fmt.Sprint(i), "to": fmt.Sprint(i + 4)}})
	}
	for i := 0; i < 400; i += 50 {
		bs = append(bs, run.Batch{Kind: "overlap", Seed: seed, N: 50, TimeoutS: 300, Params: map[string]string{"from": fmt.Sprint(i), "to": fmt.Sprint(i + 50)}})
	}
	for i := 0; i < 16; i++ {
		bs = append(bs, run.Batch{Kind: "shapes", Seed: seed*100 + int64(i), N: 1500, TimeoutS: 300, Params: map[string]string{"direct": "1500", "full": "30"}})
	}
	return bs
}

// decodeOutcomeCase maps a global index to (n, outcome vector); indices past the
// enumeration are the all-banned configurations n = 1..5.
func decodeOutcomeCase(g int) (n int, v []string, allBanned bool) {
	if g >= nOutcomeCases {
		n = g - nOutcomeCases + 1
		for i := 0; i < n; i++ {
			v = append(v, "success")
		}
		return n, v, true
	}
	size := 5
	for n = 1; n <= 5; n++ {
		if g < size {
			break
		}
		g -= size
		size *= 5
	}
	for i := 0; i < n; i++ {
		v = append(v, outcomes[g%5])
		g /= 5
	}
	return n, v, false
}

func sampleOutcomeCases(seed int64, k int) []int {
	pickd := map[int]bool{}
	// always: for every n the five uniform vectors (all-failed in four flavours, all-success) and all-banned
	base, size := 0, 5
	for n := 1; n <= 5; n++ {
		for o := 0; o < 5; o++ {
			g := 0
			for i := 0; i < n; i++ {
				g = g*5 + o
			}
			pickd[base+g] = true
		}
		base += size
		size *= 5
	}
	for i := 0; i < nAllBanned; i++ {
		pickd[nOutcomeCases+i] = true
	}
	rng := rand.New(rand.NewSource(seed*7919 + 11))
	for len(pickd) < k {
		// favour small n a little: pick n uniformly, then a vector
		n := 1 + rng.Intn(5)
		b, s := 0, 5
		for i := 1; i < n; i++ {
			b += s
			s *= 5
		}
		pickd[b+rng.Intn(s)] = true
	}
	var out []int
	for g := range pickd {
		out = append(out, g)
	}
	sort.Ints(out)
	return out
}

// ---------------------------------------------------------------- case description

type srvCfg struct {
	Outcome string `json:"o"`
	Banned  bool   `json:"banned,omitempty"`
	Spare   bool   `json:"spare,omitempty"` // not in the initial map; only replies introduce it
}

type caseCfg struct {
	Kind     string   `json:"kind"`
	Index    int      `json:"index"`
	Seed     int64    `json:"seed"`
	Servers  []srvCfg `json:"servers"`
	Liveness bool     `json:"liveness,omitempty"`
	Shape    string   `json:"shape,omitempty"`
	Variant  string   `json:"variant,omitempty"`
	ShapeLen int      `json:"shape_len,omitempty"`
	ShapeSHA string   `json:"shape_sha256,omitempty"`
	custom   []byte
	Trace    []string `json:"trace"`
}

type ctx struct {
	r           *ev.Result
	cc          *caseCfg
	rng         *rand.Rand
	dir         string
	cdir        string
	sink        *drv.UDPSink
	closedPt    uint16
	closedRg    *rogue
	gca, dev    refenc.Key
	shortID     uint32
	rogues      []*rogue
	replies     [][]byte
	lists       [][]refenc.AuthServer
	from        []int
	selfBan     []bool
	migr        []bool
	told        map[[32]byte]bool
	prevMem     map[[32]byte]bool
	prevFile    map[[32]byte]bool
	migrated    bool
	weakPrimary bool // the round just judged adopted a migration order: the weak primary clause applies
	env         *drv.ClientEnv
	latest      uint32
	rows        string
	c           *client.Client
	T0          uint64
	closed      bool
	udpWatch    map[int]int
}

func (x *ctx) trace(f string, a ...interface{}) {
	s := fmt.Sprintf(f, a...)
	x.cc.Trace = append(x.cc.Trace, s)
	run.Op("case %s/%d: %s", x.cc.Kind, x.cc.Index, s)
}

func (x *ctx) replay(extra map[string]interface{}) map[string]interface{} {
	m := map[string]interface{}{"case": x.cc}
	if x.cc.custom != nil && len(x.cc.custom) <= 4096 {
		m["reply_hex"] = hex.EncodeToString(x.cc.custom)
	}
	for k, v := range extra {
		m[k] = v
	}
	return m
}

func (x *ctx) inconc(f string, a ...interface{}) {
	x.r.Inconc(fmt.Sprintf("case %s/%d (seed %d): ", x.cc.Kind, x.cc.Index, x.cc.Seed) + fmt.Sprintf(f, a...))
	x.r.Count("cases_inconclusive", 1)
}

func copySet(m map[[32]byte]bool) map[[32]byte]bool {
	o := map[[32]byte]bool{}
	for k, v := range m {
		if v {
			o[k] = true
		}
	}
	return o
}

func (x *ctx) entryFor(j int, banned bool) refenc.AuthServer {
	return refenc.AuthServer{Pub: x.rogues[j].Key.Pub, Banned: banned, Location: "127.0.0.1", TCP: x.rogues[j].Port, UDP: x.rogues[j].udp.Port}.Signed(x.gca.Priv)
}

// banRecord: a GCA-signed ban of server k. A ban record need not repeat the
// server's address: half of them carry a shorter (or empty) location than the
// entry the client has stored, so the saved server list shrinks.
func (x *ctx) banRecord(k int) refenc.AuthServer {
	e := x.entryFor(k, true)
	if x.rng.Intn(2) == 0 {
		e.Location = []string{"", "x", "gone"}[x.rng.Intn(3)]
		e = e.Signed(x.gca.Priv)
		x.r.Count("ban_records_with_shorter_location", 1)
	}
	return e
}

// mkList draws the server list that server j announces in its genuine reply.
func (x *ctx) mkList(j int) (list []refenc.AuthServer, selfBan bool) {
	rng := x.rng
	for k, s := range x.cc.Servers {
		if k == j {
			switch p := rng.Intn(100); {
			case p < 10:
				list = append(list, x.entryFor(j, false))
			case p < 14:
				list = append(list, x.entryFor(j, true))
				selfBan = true
			}
			continue
		}
		p := rng.Intn(100)
		switch {
		case s.Spare:
			if p < 60 {
				list = append(list, x.entryFor(k, p < 30))
			}
		case s.Banned:
			if p < 50 {
				list = append(list, x.entryFor(k, false)) // un-ban attempt (an older, validly signed entry)
			} else if p < 65 {
				list = append(list, x.banRecord(k))
			}
		default:
			if p < 25 {
				list = append(list, x.banRecord(k))
			} else if p < 35 {
				e := x.entryFor(k, false)
				e.TCP, e.UDP = x.closedPt, x.sink.Port // changed ports for a known server: must be ignored
				list = append(list, e.Signed(x.gca.Priv))
			}
		}
	}
	if len(list) > 0 && rng.Intn(5) == 0 {
		d := list[rng.Intn(len(list))]
		if d.Pub != x.rogues[j].Key.Pub {
			d.Banned = !d.Banned
			d = d.Signed(x.gca.Priv)
			if rng.Intn(2) == 0 {
				list = append(list, d)
			} else {
				list = append([]refenc.AuthServer{d}, list...)
			}
		}
	}
	rng.Shuffle(len(list), func(a, b int) { list[a], list[b] = list[b], list[a] })
	return list, selfBan
}

func (x *ctx) addReply(raw []byte, list []refenc.AuthServer, from int, selfBan, migr bool) int {
	x.replies = append(x.replies, raw)
	x.lists = append(x.lists, list)
	x.from = append(x.from, from)
	x.selfBan = append(x.selfBan, selfBan)
	x.migr = append(x.migr, migr)
	return len(x.replies) - 1
}

func (x *ctx) genuine(j int) int {
	list, sb := x.mkList(j)
	rep := refenc.SyncReply{DevKey: x.dev.Pub, Servers: list, Unix: uint64(time.Now().Unix())}
	rep.Offset = []uint32{0, x.latest - 1, x.rng.Uint32(), 0xfffff000}[x.rng.Intn(4)]
	x.rng.Read(rep.Bitfield[:])
	return x.addReply(refenc.BuildSyncReply(rep, x.rogues[j].Key.Priv), list, j, sb, false)
}

// setup creates sink, rogues, replies and the client directory.
func (x *ctx) setup() error {
	var err error
	rng := x.rng
	if x.sink, err = drv.NewUDPSink(); err != nil {
		return err
	}
	cp, err := newRogue(rng, false)
	if err != nil {
		return err
	}
	x.closedRg = cp
	x.closedPt = cp.Port
	x.gca, x.dev = refenc.GenKey(rng), refenc.GenKey(rng)
	x.shortID = uint32(rng.Intn(1 << 24))
	for _, s := range x.cc.Servers {
		// a banned server always listens: a dial to it must be observable
		rg, err := newRogue(rng, s.Outcome != "refused" || s.Banned)
		if err != nil {
			return err
		}
		// every server has its own UDP port: a report sent to a banned server is seen as such
		if rg.udp, err = drv.NewUDPSink(); err != nil {
			return err
		}
		x.rogues = append(x.rogues, rg)
	}
	s0 := uint32(100 + rng.Intn(1000))
	if rng.Intn(3) == 0 {
		// a device installed long after genesis: replies whose window starts more than a window before its
		// history (offset 0, or any offset a rogue server chooses) are as legal as any other
		s0 = uint32(5000 + rng.Intn(200000))
	}
	x.latest = s0 + 1
	x.rows = fmt.Sprintf("timestamp,energy\n%d,1000\n%d,-2000\n", glow.GenesisTime+int64(s0)*300+5, glow.GenesisTime+int64(s0+1)*300+5)
	x.told = map[[32]byte]bool{}
	var entries []refenc.MapEntry
	for j, s := range x.cc.Servers {
		rg := x.rogues[j]
		if s.Banned {
			x.told[rg.Key.Pub] = true
		}
		if !s.Spare {
			entries = append(entries, refenc.MapEntry{Pub: rg.Key.Pub, Banned: s.Banned, Location: "127.0.0.1", TCP: rg.Port, UDP: rg.udp.Port})
		}
		jj := j
		if j == 0 && x.cc.Shape != "" {
			env := shapeEnv{rng: rng, dev: x.dev, gca: x.gca, srv: rg.Key, udp: x.sink.Port, closedPt: x.closedPt, latest: x.latest}
			x.cc.custom = env.gen(x.cc.Shape)
			if x.cc.custom == nil {
				x.cc.custom = []byte{}
			}
			x.cc.ShapeLen, x.cc.ShapeSHA = len(x.cc.custom), sha(x.cc.custom)
		}
		switch {
		case j == 0 && x.cc.custom != nil:
			tag := -1
			if rep, refused, err := refenc.ParseSyncReply(x.cc.custom); err == nil && !refused {
				sb := false
				for _, e := range rep.Servers {
					if e.Pub == rg.Key.Pub && e.Banned {
						sb = true
					}
				}
				tag = x.addReply(x.cc.custom, rep.Servers, 0, sb, rep.NewGCA != [32]byte{})
			}
			raw := x.cc.custom
			rg.setBehave(func(n int) action { return action{Kind: "reply", Reply: raw, CloseAfter: -1, Tag: tag} })
		case s.Outcome == "wrongkey":
			// validly signed, well formed replies that name a different (random) equipment key
			// each time: every rejection is a new, long, distinct line in the client's event log
			env := shapeEnv{rng: rand.New(rand.NewSource(x.cc.Seed*37 + int64(j))), dev: x.dev, gca: x.gca, srv: rg.Key, udp: x.sink.Port, closedPt: x.closedPt, latest: x.latest}
			var emu sync.Mutex
			rg.setBehave(func(n int) action {
				emu.Lock()
				defer emu.Unlock()
				return action{Kind: "reply", Reply: env.gen("wrong-devkey"), CloseAfter: -1, Tag: -1}
			})
		case s.Outcome == "reset":
			rg.setBehave(func(n int) action {
				switch {
				case n%6 == 5:
					return action{Kind: "eof"}
				case n%3 != 2:
					// the protocol's own refusal: the single zero byte (after the two byte length prefix) a
					// server sends for equipment it does not know
					return action{Kind: "reply", Reply: []byte{1, 0, 0}, CloseAfter: -1, Tag: -1}
				}
				return action{Kind: "reset"}
			})
		case s.Outcome == "refused":
			// no listener (or, for a banned server, a listener that must never see a dial)
		case s.Outcome == "role":
			// overlap scenarios: the behaviour is installed by runOverlap
		default:
			tag := x.genuine(jj)
			raw := x.replies[tag]
			sub := rand.New(rand.NewSource(x.cc.Seed*31 + int64(j)))
			switch s.Outcome {
			case "short":
				rg.setBehave(func(n int) action {
					k := sub.Intn(len(raw))
					if sub.Intn(3) == 0 {
						k = []int{0, 1, 2, 3, 73, 577, len(raw) - 1}[sub.Intn(7)]
					}
					return action{Kind: "reply", Reply: raw, CloseAfter: k, Slow: sub.Intn(5) == 0, Tag: -1}
				})
			case "badsig":
				other := refenc.GenKey(rng)
				rg.setBehave(func(n int) action {
					bad := append([]byte(nil), raw...)
					if sub.Intn(2) == 0 {
						bad[len(bad)-1-sub.Intn(64)] ^= 1 << uint(sub.Intn(8))
					} else {
						sg := refenc.Sign(other.Priv, bad[2:len(bad)-64])
						copy(bad[len(bad)-64:], sg[:])
					}
					return action{Kind: "reply", Reply: bad, CloseAfter: -1, Tag: -1}
				})
			default:
				rg.setBehave(func(n int) action {
					return action{Kind: "reply", Reply: raw, CloseAfter: -1, Slow: sub.Intn(5) == 0, Tag: tag}
				})
			}
		}
	}
	ids := []uint32{x.shortID}
	if x.cc.custom != nil {
		if rep, refused, err := refenc.ParseSyncReply(x.cc.custom); err == nil && !refused {
			ids = append(ids, rep.NewID) // the id the client uses after adopting a migration
		}
	}
	for _, rg := range x.rogues {
		rg.setIDs(ids...)
		rg.anyID = x.cc.Kind == "shapefx"
	}
	x.cdir = filepath.Join(x.dir, "client")
	rng.Shuffle(len(entries), func(a, b int) { entries[a], entries[b] = entries[b], entries[a] })
	x.env = &drv.ClientEnv{Dir: x.cdir, Key: x.dev, GCA: x.gca.Pub, ShortID: x.shortID, Servers: entries, HistoryOrigin: s0,
		Energy: &x.rows, LastSync: drv.FreshSyncStamp()}
	return x.env.Write()
}

func (x *ctx) teardown() {
	if x.c != nil && !x.closed {
		x.closeClient()
	}
	for _, rg := range x.rogues {
		if f := rg.foreignCount(); f > 0 {
			x.r.Count("foreign_connections_ignored", int64(f))
		}
		rg.close()
		if rg.udp != nil {
			rg.udp.Close()
		}
	}
	if x.closedRg != nil {
		x.closedRg.close()
	}
	if x.sink != nil {
		x.sink.Close()
	}
	os.RemoveAll(x.dir)
}

// closeClient: bounded, because Close on a client whose mutex leaked never returns.
func (x *ctx) closeClient() bool {
	x.checkUDP("before close")
	x.closed = true
	done := make(chan struct{})
	c := x.c
	go func() { c.Close(); close(done) }()
	select {
	case <-done:
		return true
	case <-time.After(15 * time.Second):
		return false
	}
}

func syncOnce(c *client.Client, latest uint32) (ok bool, done bool) {
	ch := make(chan bool, 1)
	go func() { ch <- c.VerifSyncOnce(latest) }()
	select {
	case ok = <-ch:
		return ok, true
	case <-time.After(40 * time.Second):
		return false, false
	}
}

func (x *ctx) accepts() []int {
	a := make([]int, len(x.rogues))
	for j, rg := range x.rogues {
		a[j] = rg.acceptCount()
	}
	return a
}

func (x *ctx) servedCounts() []int {
	a := make([]int, len(x.rogues))
	for j, rg := range x.rogues {
		a[j] = len(rg.servedTags())
	}
	return a
}

// stalled decides, from an atomic goroutine snapshot, whether the report loop
// can never tick again.
func wedged() (bool, string) {
	c1, g1, w1 := leakVerdict(dumpGoroutines())
	if !c1 && !g1 {
		return false, w1
	}
	time.Sleep(100 * time.Millisecond)
	c2, g2, w2 := leakVerdict(dumpGoroutines())
	return (c1 && c2) || (g1 && g2), w2
}

// emission writes a new energy row and demands its datagram at the sink within
// 20 report-loop ticks.
func (x *ctx) emission(label string, expect bool) (abort bool) {
	x.latest++
	slot := x.latest
	x.rows += fmt.Sprintf("%d,%d\n", glow.GenesisTime+int64(slot)*300+7, 500+slot)
	x.trace("%s: new energy row for slot %d", label, slot)
	if err := x.env.WriteEnergy(x.rows); err != nil {
		x.inconc("energy file: %v", err)
		return true
	}
	T := client.VerifTicks()
	start := time.Now()
	last, lastChange := T, time.Now()
	for {
		if x.sawSlot(slot) {
			x.r.Count("emission_ok", 1)
			x.r.Max("max.ticks_until_new_report_at_sink", int64(client.VerifTicks()-T))
			x.checkUDP(label)
			return false
		}
		t := client.VerifTicks()
		if t != last {
			last, lastChange = t, time.Now()
		}
		if !expect && t >= T+3 {
			x.r.Count("loop_ticks_without_usable_primary", 1)
			x.checkUDP(label)
			return false
		}
		if t >= T+20 {
			x.r.Violationf("report-not-emitted-after-sync", x.replay(map[string]interface{}{"slot": slot, "label": label}),
				"%s: 20 report-loop ticks after a new energy row for slot %d appeared no datagram for it reached the sink", label, slot)
			return false
		}
		if time.Since(lastChange) > 700*time.Millisecond {
			if w, why := wedged(); w {
				x.r.Violationf("report-loop-wedged", x.replay(map[string]interface{}{"label": label, "goroutines": why}),
					"%s: the report loop stopped ticking (tick %d, no datagram for the new row of slot %d): %s", label, t, slot, why)
				return true
			}
			lastChange = time.Now()
		}
		if time.Since(start) > 25*time.Second {
			x.inconc("%s: new report neither arrived nor did 20 ticks pass within 25s (tick %d since %d)", label, t, T)
			return true
		}
		time.Sleep(time.Millisecond)
	}
}

func bannedOfState(st client.VerifClientState) map[[32]byte]bool {
	o := map[[32]byte]bool{}
	for k, s := range st.Servers {
		if s.Banned {
			o[[32]byte(k)] = true
		}
	}
	return o
}

// checkMonotone: everything banned before is banned now (or gone through a
// GCA-signed migration).
func (x *ctx) checkMonotone(label, where string, prev map[[32]byte]bool, present func(k [32]byte) (exists, banned bool)) {
	for k := range prev {
		ex, bn := present(k)
		if ex && bn {
			continue
		}
		if !ex && x.migrated {
			x.r.Count("banned_server_dropped_by_migration", 1)
			continue
		}
		what := "is listed as not banned"
		if !ex {
			what = "is no longer listed"
		}
		x.r.Violationf("ban-knowledge-lost", x.replay(map[string]interface{}{"label": label, "where": where, "server": hex.EncodeToString(k[:])}),
			"%s: server %x was known as banned and now %s in %s", label, k[:6], what, where)
	}
}

func (x *ctx) checkFile(label string) map[[32]byte]refenc.MapEntry {
	raw, err := os.ReadFile(filepath.Join(x.cdir, client.GCAServerMapFile))
	if err != nil {
		x.r.Violationf("server-map-file-unreadable", x.replay(map[string]interface{}{"label": label}), "%s: %v", label, err)
		return nil
	}
	m, err := refenc.ParseServerMap(raw)
	if err != nil {
		x.r.Violationf("server-map-file-unreadable", x.replay(map[string]interface{}{"label": label, "file_hex": hex.EncodeToString(raw)}), "%s: gcaServers.dat does not parse: %v", label, err)
		return nil
	}
	// the file is exactly one record per listed server, nothing before, between or after
	want := 0
	for _, e := range m {
		want += 41 + len(e.Location)
	}
	if want != len(raw) {
		x.r.Violationf("server-map-file-unreadable", x.replay(map[string]interface{}{"label": label, "file_hex": hex.EncodeToString(raw)}),
			"%s: gcaServers.dat has %d bytes but its %d distinct records account for %d (duplicate or stale records)", label, len(raw), len(m), want)
		return nil
	}
	x.checkMonotone(label, "gcaServers.dat", x.prevFile, func(k [32]byte) (bool, bool) { e, ok := m[k]; return ok, e.Banned })
	nb := map[[32]byte]bool{}
	for k, e := range m {
		if e.Banned {
			nb[k] = true
		}
	}
	x.prevFile = nb
	x.r.Count("file_checks", 1)
	return m
}

// checkState must only be called when the mutex is known to be free.
func (x *ctx) checkState(label string, primaryClause bool, file bool) client.VerifClientState {
	st := x.c.VerifState()
	x.checkMonotone(label, "memory", x.prevMem, func(k [32]byte) (bool, bool) { s, ok := st.Servers[glow.PublicKey(k)]; return ok, s.Banned })
	x.prevMem = bannedOfState(st)
	x.r.Count("state_checks", 1)
	if file {
		// at quiescence the saved list is the reference serialization of the state
		if m := x.checkFile(label); m != nil {
			diff := ""
			if len(m) != len(st.Servers) {
				diff = fmt.Sprintf("file lists %d servers, memory %d", len(m), len(st.Servers))
			}
			for k, s := range st.Servers {
				e, ok := m[[32]byte(k)]
				if !ok {
					diff = fmt.Sprintf("server %x is in memory but not in the file", k[:6])
				} else if e.Banned != s.Banned || e.Location != s.Location || e.HTTP != s.HttpPort || e.TCP != s.TcpPort || e.UDP != s.UdpPort {
					diff = fmt.Sprintf("server %x: file {banned %v %q %d/%d/%d} memory {banned %v %q %d/%d/%d}", k[:6], e.Banned, e.Location, e.HTTP, e.TCP, e.UDP, s.Banned, s.Location, s.HttpPort, s.TcpPort, s.UdpPort)
				}
			}
			x.r.Count("state_equals_file_checks", 1)
			if diff != "" {
				x.r.Violationf("server-map-file-differs-from-state", x.replay(map[string]interface{}{"label": label}), "%s: with no round in progress gcaServers.dat differs from the client's state: %s", label, diff)
			}
		}
	}
	any := false
	for _, s := range st.Servers {
		if !s.Banned {
			any = true
		}
	}
	if !any {
		x.r.Count("states_with_every_server_banned", 1)
	}
	if !primaryClause && x.weakPrimary {
		// right after a migration order was adopted (the accepted reply did not ban its own sender): the old
		// primary is usually no longer in the map at all, which is fine; but a primary that IS in the new map
		// and is marked banned there is a server the client knows to be banned
		if p, ok := st.Servers[st.PrimaryServer]; ok && p.Banned && any {
			x.r.Count("primary_checks_weak", 1)
			x.r.Violationf("primary-server-banned", x.replay(map[string]interface{}{"label": label, "primary": hex.EncodeToString(st.PrimaryServer[:]), "listed": true, "clause": "weak"}),
				"%s: the primary server %x is in the client's map and marked banned there although a non-banned server is known", label, st.PrimaryServer[:6])
		} else {
			x.r.Count("primary_checks_weak", 1)
		}
	}
	if primaryClause {
		// unconditional: a banned primary is a violation even when every server is banned
		// (a blank primary is what the client is left with then, and that is fine)
		p, ok := st.Servers[st.PrimaryServer]
		x.r.Count("primary_checks", 1)
		if (ok && p.Banned) || (!ok && any) {
			x.r.Violationf("primary-server-banned", x.replay(map[string]interface{}{"label": label, "primary": hex.EncodeToString(st.PrimaryServer[:]), "listed": ok}),
				"%s: the primary server %x is %s", label, st.PrimaryServer[:6], map[bool]string{true: "banned", false: "not in the map"}[ok])
		}
	}
	return st
}

// round runs one judged sync round.
func (x *ctx) round(label string) (ok bool, abort bool) {
	acc0, srv0 := x.accepts(), x.servedCounts()
	toldBefore := copySet(x.told)
	quiet := client.VerifTicks() < x.T0+28 // no background round can have been launched yet
	x.trace("%s: VerifSyncOnce(%d)", label, x.latest)
	ok, done := syncOnce(x.c, x.latest)
	if !done {
		x.closed = true
		x.inconc("%s: VerifSyncOnce did not return within 40s", label)
		return false, true
	}
	x.r.Eval(1)
	x.r.Count("rounds", 1)
	if ok {
		x.r.Count("rounds_succeeded", 1)
	} else {
		x.r.Count("rounds_failed", 1)
	}
	// 1. lock probe
	free, leaked, detail := probeLock(x.c)
	if leaked {
		x.r.Violationf("client-lock-leaked-after-sync", x.replay(map[string]interface{}{"label": label, "round_result": ok, "goroutines": detail}),
			"%s: VerifSyncOnce returned %v and the client mutex is still held: %s", label, ok, detail)
		x.closed = true // Close would block forever; the child ends after this case
		x.emissionAfterLeak(label)
		go x.c.Close()
		time.Sleep(50 * time.Millisecond)
		return ok, true
	}
	if !free {
		x.closed = true
		x.inconc("%s: lock probe undecided: %s", label, detail)
		return ok, true
	}
	x.r.Count("lock_probes_free", 1)
	// 2. dials
	acc1 := x.accepts()
	attempts := 0
	for j, rg := range x.rogues {
		d := acc1[j] - acc0[j]
		attempts += d
		if d > 0 && toldBefore[rg.Key.Pub] {
			x.r.Violationf("dialed-banned-server", x.replay(map[string]interface{}{"label": label, "server_index": j}),
				"%s: %d TCP dial(s) reached server #%d (%x) which the client had been told is banned before the round started", label, d, j, rg.Key.Pub[:6])
		}
		if toldBefore[rg.Key.Pub] && rg.ln != nil {
			x.r.Count("banned_listeners_watched", 1)
		}
	}
	x.r.Count("dials_observed", int64(attempts))
	x.r.Max("max.dials_in_one_round", int64(attempts))
	// 3. what was the client told in this round?
	var newTags []int
	for j, rg := range x.rogues {
		newTags = append(newTags, rg.servedTags()[srv0[j]:]...)
	}
	accepted := -1
	if ok {
		if len(newTags) == 1 {
			accepted = newTags[0]
			for _, e := range x.lists[accepted] {
				if e.Banned {
					x.told[e.Pub] = true
				}
			}
			if x.migr[accepted] {
				x.migrated = true
				x.r.Count("migrations_adopted", 1)
			}
		} else {
			x.r.Count("rounds_with_ambiguous_accepted_reply", 1)
		}
	}
	// 4. state
	pc := ok && accepted >= 0 && !x.selfBan[accepted] && !x.migrated && quiet
	x.weakPrimary = ok && accepted >= 0 && !x.selfBan[accepted] && x.migr[accepted] && quiet
	if ok && accepted >= 0 && x.selfBan[accepted] {
		x.r.Count("accepted_replies_banning_their_sender", 1)
	}
	x.checkState(label, pc, quiet) // the file is only read when no background round can be writing it
	nt := false
	for _, s := range x.cc.Servers {
		if s.Outcome != "success" || s.Banned {
			nt = true
		}
	}
	if nt && x.cc.Kind != "shape" {
		x.r.Nontrivial(fmt.Sprintf("%v|%s|%v", x.cc.Servers, label, ok))
	}
	return ok, false
}

// emissionAfterLeak documents the consequence of a leaked mutex (no verdict of its own
// beyond the wedge): the next report is never sent.
func (x *ctx) emissionAfterLeak(label string) {
	x.emission(label+" (after lock leak)", true)
}

// liveness waits for the client's own next background sync round.
func (x *ctx) liveness() (abort bool) {
	if client.VerifTicks() >= x.T0+29 {
		x.r.Count("liveness_skipped_judged_phase_too_long", 1)
		return false
	}
	st := x.c.VerifState()
	listening, nonBanned := 0, 0
	for _, s := range st.Servers {
		if !s.Banned {
			nonBanned++
		}
	}
	for _, rg := range x.rogues {
		if s, ok := st.Servers[glow.PublicKey(rg.Key.Pub)]; ok && !s.Banned && rg.ln != nil {
			listening++
		}
	}
	// a round makes up to 5 attempts at distinct non-banned servers: it is certain to
	// dial a listening one only if at most 4 non-banned servers have no listener
	observable := listening > 0 && nonBanned-listening <= 4
	told0 := copySet(x.told)
	acc0 := x.accepts()
	launch := x.T0 + 31
	x.trace("liveness: waiting for the background sync due at tick %d (observable=%v)", launch, observable)
	start := time.Now()
	last, lastChange := client.VerifTicks(), time.Now()
	seenAt := uint64(0)
	for {
		t := client.VerifTicks()
		if t != last {
			last, lastChange = t, time.Now()
		}
		acc := x.accepts()
		for j, rg := range x.rogues {
			if acc[j] > acc0[j] {
				if told0[rg.Key.Pub] {
					x.r.Violationf("dialed-banned-server", x.replay(map[string]interface{}{"label": "background", "server_index": j}),
						"background sync: a TCP dial reached server #%d (%x) which the client had been told is banned", j, rg.Key.Pub[:6])
					acc0[j] = acc[j]
				} else if seenAt == 0 {
					seenAt = t
					x.r.Count("later_sync_attempt_observed", 1)
					x.r.Max("max.ticks_from_due_to_observed_background_dial", int64(t)-int64(launch))
				}
			}
		}
		if seenAt != 0 && t >= seenAt+7 {
			break
		}
		if !observable && t >= launch+8 {
			x.r.Count("liveness_no_observable_server", 1)
			break
		}
		if observable && seenAt == 0 && t >= launch+40 {
			x.r.Violationf("no-later-sync-attempt", x.replay(map[string]interface{}{"due_tick": launch - x.T0, "now_tick": t - x.T0}),
				"the report loop ticked %d times since the client started (background sync due at tick 31) and no sync attempt reached any non-banned listening server", t-x.T0)
			break
		}
		if time.Since(lastChange) > 700*time.Millisecond {
			if w, why := wedged(); w {
				x.r.Violationf("report-loop-wedged", x.replay(map[string]interface{}{"label": "liveness", "goroutines": why}), "liveness: the report loop stopped ticking at tick %d: %s", t-x.T0, why)
				x.closed = true
				go x.c.Close()
				return true
			}
			lastChange = time.Now()
		}
		if time.Since(start) > 40*time.Second {
			x.inconc("liveness: undecided after 40s (tick %d)", t-x.T0)
			return true
		}
		time.Sleep(time.Millisecond)
	}
	free, leaked, detail := probeLock(x.c)
	if leaked {
		x.r.Violationf("client-lock-leaked-after-sync", x.replay(map[string]interface{}{"label": "background", "goroutines": detail}), "after a background sync round the client mutex is still held: %s", detail)
		x.closed = true
		go x.c.Close()
		return true
	}
	if !free {
		x.closed = true
		x.inconc("liveness: lock probe undecided: %s", detail)
		return true
	}
	x.r.Count("lock_probes_free", 1)
	x.checkState("after background sync", false, false)
	return false
}

// runCase drives one client through: start, judged round, emission, second
// round, [background sync], restart, judged round.
func runCase(cc *caseCfg, b run.Batch, r *ev.Result) (abort bool) {
	x := &ctx{r: r, cc: cc, rng: rand.New(rand.NewSource(cc.Seed)), dir: filepath.Join(b.Dir, fmt.Sprintf("%s%d", cc.Kind, cc.Index))}
	defer x.teardown()
	raw, _ := json.Marshal(cc)
	run.Op("case %s", raw)
	if err := x.setup(); err != nil {
		x.inconc("setup: %v", err)
		return false
	}
	x.prevMem, x.prevFile = copySet(x.told), map[[32]byte]bool{}
	for j, s := range cc.Servers {
		if s.Banned && !s.Spare {
			x.prevFile[x.rogues[j].Key.Pub] = true
		} else {
			delete(x.prevMem, x.rogues[j].Key.Pub)
		}
	}
	x.T0 = client.VerifTicks()
	x.trace("start client")
	c, err := drv.StartClient(x.cdir)
	if err != nil {
		x.inconc("client start: %v", err)
		return false
	}
	x.c = c
	x.clientStarted()
	r.Count("cases", 1)
	r.Count("cases_"+cc.Kind, 1)
	if b.Kind == "outcomes" {
		r.Count("enumerated_outcome_cases", 1) // the coverage batch repeats a few of them and is not counted here
	}
	st := x.checkState("start", true, true)
	_, hasPrimary := st.Servers[st.PrimaryServer]
	ok, abort := x.round("round 1")
	if abort {
		return true
	}
	st = x.c.VerifState()
	_, hasPrimary = st.Servers[st.PrimaryServer]
	if x.emission("after round 1", hasPrimary) {
		return true
	}
	if ok {
		if _, abort = x.round("round 2"); abort {
			return true
		}
	}
	if cc.Liveness {
		if x.liveness() {
			return true
		}
	}
	// restart
	x.trace("restart client")
	if !x.closeClient() {
		x.inconc("client.Close did not return within 15s although the mutex was free")
		return true
	}
	x.checkFile("after close")
	os.WriteFile(filepath.Join(x.cdir, client.LastSyncFile), []byte(*drv.FreshSyncStamp()), 0644)
	x.T0 = client.VerifTicks()
	c2, err := drv.StartClient(x.cdir)
	if err != nil {
		r.Violationf("client-does-not-restart", x.replay(nil), "after the rounds the client no longer starts on its directory: %v", err)
		return false
	}
	x.c, x.closed = c2, false
	x.clientStarted()
	r.Count("restarts", 1)
	x.checkState("restart", !x.migrated, true)
	if _, abort = x.round("round after restart"); abort {
		return true
	}
	if !x.closeClient() {
		x.inconc("client.Close did not return within 15s although the mutex was free")
		return true
	}
	x.checkFile("after final close")
	x.tornListRestart()
	if cc.Liveness {
		return x.stalePhase()
	}
	return false
}

// stalePhase restarts the client with a stale last-sync stamp: its own loop
// must sync on the first ticks and, while every round fails, try again
// (ticks%4==3 after each launch). Background rounds overlap here, so only
// interleaving-robust monitors are applied.
func (x *ctx) stalePhase() (abort bool) {
	os.WriteFile(filepath.Join(x.cdir, client.LastSyncFile), []byte(*drv.StaleSyncStamp()), 0644)
	told0 := copySet(x.told)
	acc0 := x.accepts()
	x.T0 = client.VerifTicks()
	x.trace("restart client with a stale last-sync stamp")
	c, err := drv.StartClient(x.cdir)
	if err != nil {
		x.r.Violationf("client-does-not-restart", x.replay(nil), "the client no longer starts on its directory: %v", err)
		return false
	}
	x.c, x.closed = c, false
	x.clientStarted()
	x.r.Count("stale_restarts", 1)
	st := x.c.VerifState()
	early := client.VerifTicks() <= x.T0+1 // the first background round cannot have touched anything yet
	x.checkMonotone("stale restart", "memory", x.prevMem, func(k [32]byte) (bool, bool) { s, ok := st.Servers[glow.PublicKey(k)]; return ok, s.Banned })
	x.prevMem = bannedOfState(st)
	listening, possibleSuccess, any := 0, false, false
	for j, rg := range x.rogues {
		s, ok := st.Servers[glow.PublicKey(rg.Key.Pub)]
		if !ok || s.Banned {
			continue
		}
		if rg.ln != nil {
			listening++
		}
		if o := x.cc.Servers[j].Outcome; o == "success" || o == "custom" {
			possibleSuccess = true
		}
	}
	nonBanned := 0
	for _, s := range st.Servers {
		if !s.Banned {
			any = true
			nonBanned++
		}
	}
	if nonBanned-listening > 4 {
		listening = 0 // a round is not certain to reach a listening server: nothing is demanded
	}
	if early && !x.migrated {
		x.r.Count("primary_checks", 1)
		if p, ok := st.Servers[st.PrimaryServer]; (ok && p.Banned) || (!ok && any) {
			x.r.Violationf("primary-server-banned", x.replay(map[string]interface{}{"label": "stale restart"}), "stale restart: the primary server %x is banned or (although a non-banned server exists) not in the map", st.PrimaryServer[:6])
		}
	}
	start := time.Now()
	last, lastChange := client.VerifTicks(), time.Now()
	first := uint64(0)
	for {
		t := client.VerifTicks()
		if t != last {
			last, lastChange = t, time.Now()
		}
		acc := x.accepts()
		dials := 0
		for j, rg := range x.rogues {
			if d := acc[j] - acc0[j]; d > 0 {
				if told0[rg.Key.Pub] {
					x.r.Violationf("dialed-banned-server", x.replay(map[string]interface{}{"label": "stale restart", "server_index": j}),
						"background sync after restart: a TCP dial reached server #%d (%x) which the client had been told is banned", j, rg.Key.Pub[:6])
					acc0[j] = acc[j]
				} else {
					dials += d
				}
			}
		}
		if dials > 0 && first == 0 {
			first = t
			x.r.Count("first_tick_sync_observed", 1)
			x.r.Max("max.ticks_until_first_background_dial_stale", int64(t-x.T0))
		}
		if listening == 0 {
			if t >= x.T0+8 {
				x.r.Count("stale_no_observable_server", 1)
				break
			}
		} else if possibleSuccess {
			if first != 0 && t >= first+6 {
				break
			}
		} else if dials > listening { // more dials than one round can make: a retry round ran
			x.r.Count("retry_after_failed_sync_observed", 1)
			x.r.Max("max.ticks_until_retry_round_observed", int64(t-x.T0))
			break
		}
		if listening > 0 && t >= x.T0+60 {
			what := "no background sync attempt reached any non-banned listening server"
			if first != 0 {
				what = fmt.Sprintf("only %d dial(s) were seen (%d non-banned listening servers, every round fails): no retry round", dials, listening)
			}
			x.r.Violationf("no-later-sync-attempt", x.replay(map[string]interface{}{"label": "stale restart", "ticks": t - x.T0}), "stale last-sync stamp, %d report-loop ticks: %s", t-x.T0, what)
			break
		}
		if time.Since(lastChange) > 700*time.Millisecond {
			if w, why := wedged(); w {
				x.r.Violationf("report-loop-wedged", x.replay(map[string]interface{}{"label": "stale restart", "goroutines": why}), "stale restart: the report loop stopped ticking at tick %d: %s", t-x.T0, why)
				x.closed = true
				go x.c.Close()
				return true
			}
			lastChange = time.Now()
		}
		if time.Since(start) > 40*time.Second {
			x.inconc("stale restart: undecided after 40s (tick %d)", t-x.T0)
			return true
		}
		time.Sleep(time.Millisecond)
	}
	free, leaked, detail := probeLock(x.c)
	if leaked {
		x.r.Violationf("client-lock-leaked-after-sync", x.replay(map[string]interface{}{"label": "stale restart", "goroutines": detail}), "after background sync rounds the client mutex is still held: %s", detail)
		x.closed = true
		x.emissionAfterLeak("stale restart")
		go x.c.Close()
		return true
	}
	if !free {
		x.closed = true
		x.inconc("stale restart: lock probe undecided: %s", detail)
		return true
	}
	x.r.Count("lock_probes_free", 1)
	st = x.checkState("after background rounds (stale)", false, false)
	_, hasPrimary := st.Servers[st.PrimaryServer]
	if x.emission("stale restart", hasPrimary) {
		return true
	}
	if !x.closeClient() {
		x.inconc("client.Close did not return within 15s although the mutex was free")
		return true
	}
	x.checkFile("after stale close")
	return false
}

// ---------------------------------------------------------------- children

func outcomeCase(g int, seed int64) *caseCfg {
	n, v, allBanned := decodeOutcomeCase(g)
	cc := &caseCfg{Kind: "outcomes", Index: g, Seed: seed*1000003 + int64(g)}
	rng := rand.New(rand.NewSource(cc.Seed ^ 0x5eed))
	for i := 0; i < n; i++ {
		cc.Servers = append(cc.Servers, srvCfg{Outcome: v[i], Banned: allBanned || rng.Intn(5) == 0})
	}
	for k := []int{0, 0, 0, 1, 1, 2}[rng.Intn(6)]; k > 0; k-- {
		cc.Servers = append(cc.Servers, srvCfg{Outcome: "success", Spare: true})
	}
	cc.Liveness = g%4 == 0
	// the uniform "every server refuses/resets" vectors: no banned server, no spare that would
	// answer, and the client's own background round is always awaited afterwards (whatever
	// refusals servers produce, a later round must dial again)
	uniform := !allBanned
	for _, o := range v {
		uniform = uniform && o == "reset"
	}
	if uniform {
		cc.Servers = cc.Servers[:n]
		for i := range cc.Servers {
			cc.Servers[i].Banned = false
		}
		cc.Liveness = true
	}
	return cc
}

func childBase(b run.Batch, r *ev.Result) {
	switch b.Kind {
	case "outcomes":
		var ids []int
		json.Unmarshal([]byte(b.P("ids")), &ids)
		for _, g := range ids {
			if runCase(outcomeCase(g, b.Seed), b, r) {
				r.Count("cases_skipped_after_abort", 1)
				return
			}
		}
	case "iofault":
		var from, to int
		fmt.Sscan(b.P("from"), &from)
		fmt.Sscan(b.P("to"), &to)
		for i := from; i < to; i++ {
			if runIOFault(ioFaultCase(i, b.Seed), b, r) {
				r.Count("cases_skipped_after_abort", 1)
				return
			}
		}
	case "outage":
		var from, to int
		fmt.Sscan(b.P("from"), &from)
		fmt.Sscan(b.P("to"), &to)
		for i := from; i < to; i++ {
			if runOutage(outageCase(i, b.Seed), b, r) {
				r.Count("cases_skipped_after_abort", 1)
				return
			}
		}
	case "stall":
		var from, to int
		fmt.Sscan(b.P("from"), &from)
		fmt.Sscan(b.P("to"), &to)
		for i := from; i < to; i++ {
			if runStall(stallCase(i, b.Seed), b, r) {
				r.Count("cases_skipped_after_abort", 1)
				return
			}
		}
	case "overlap":
		var from, to int
		fmt.Sscan(b.P("from"), &from)
		fmt.Sscan(b.P("to"), &to)
		for i := from; i < to; i++ {
			if runOverlap(overlapCase(i, b.Seed), b, r) {
				r.Count("cases_skipped_after_abort", 1)
				return
			}
		}
	case "shapes":
		shapesChild(b, r, false)
	case "cover":
		// a compact mix of everything, in a coverage-instrumented build
		for _, g := range []int{0, 1, 2, 3, 4, 5 + 4*5 + 0, 5 + 0*5 + 4, 30 + 4 + 5*2 + 25*1, 155 + 4 + 5*4 + 25*4 + 125*4, 780 + 0 + 5*1 + 25*2 + 125*3 + 625*4,
			780 + 1 + 5*1 + 25*1 + 125*1 + 625*1, 780 + 4*(1+5+25+125+625), 780 + 1*(1+5+25+125+625), 780 + 3*(1+5+25+125+625), nOutcomeCases, nOutcomeCases + 2, nOutcomeCases + 4} {
			cc := outcomeCase(g, b.Seed)
			cc.Liveness = g == 4 || g == 780+3*(1+5+25+125+625)
			if runCase(cc, b, r) {
				return
			}
		}
		for i := 0; i < 3; i++ {
			if runOverlap(overlapCase(i, b.Seed), b, r) {
				return
			}
		}
		if runStall(stallCase(0, b.Seed), b, r) {
			return
		}
		shapesChild(b, r, true)
	}
}

func sha(b []byte) string { h := sha256.Sum256(b); return hex.EncodeToString(h[:8]) }

// ourReport: an 80 byte datagram carrying one of our client's short ids.
func (x *ctx) ourReport(p []byte) bool {
	if len(p) != 80 || len(x.rogues) == 0 {
		return len(p) == 80
	}
	x.rogues[0].mu.Lock()
	defer x.rogues[0].mu.Unlock()
	return x.rogues[0].anyID || x.rogues[0].ids[binary.LittleEndian.Uint32(p)]
}

func (x *ctx) sawSlot(slot uint32) bool {
	sinks := []*drv.UDPSink{x.sink}
	for _, rg := range x.rogues {
		sinks = append(sinks, rg.udp)
	}
	for _, sk := range sinks {
		if sk == nil {
			continue
		}
		for _, p := range sk.Packets() {
			if len(p) == 80 && binary.LittleEndian.Uint32(p[4:]) == slot {
				return true
			}
		}
	}
	return false
}

func (x *ctx) reportsAt(j int) int {
	n := 0
	for _, p := range x.rogues[j].udp.Packets() {
		if x.ourReport(p) {
			n++
		}
	}
	return n
}

// clientStarted is called right after every NewClient: servers the client has
// been told are banned at that moment can never become its primary in this
// instance, so no report datagram may ever reach their UDP ports.
func (x *ctx) clientStarted() {
	x.udpWatch = map[int]int{}
	for j, rg := range x.rogues {
		if x.told[rg.Key.Pub] && rg.udp != nil {
			// Datagrams of the previous client instance may still sit unread in the
			// socket: a marker queued behind them tells when all of them are counted.
			if !x.udpBarrier(j) {
				x.r.Count("banned_udp_port_not_watched_marker_lost", 1)
				continue
			}
			x.udpWatch[j] = x.reportsAt(j)
		}
	}
}

var markerSeq uint64

func (x *ctx) udpBarrier(j int) bool {
	markerSeq++
	m := make([]byte, 9)
	m[0] = 'M'
	binary.LittleEndian.PutUint64(m[1:], markerSeq)
	c, err := net.DialUDP("udp", nil, &net.UDPAddr{IP: net.ParseIP("127.0.0.1"), Port: int(x.rogues[j].udp.Port)})
	if err != nil {
		return false
	}
	_, err = c.Write(m)
	c.Close()
	if err != nil {
		return false
	}
	for dl := time.Now().Add(10 * time.Second); time.Now().Before(dl); time.Sleep(200 * time.Microsecond) {
		pk := x.rogues[j].udp.Packets()
		for i := len(pk) - 1; i >= 0; i-- {
			if len(pk[i]) == 9 && string(pk[i]) == string(m) {
				return true
			}
		}
	}
	return false
}

func (x *ctx) checkUDP(label string) {
	for j, base := range x.udpWatch {
		x.r.Count("banned_udp_ports_watched", 1)
		if n := x.reportsAt(j); n > base {
			x.udpWatch[j] = n
			var dg []string
			for _, p := range x.rogues[j].udp.Packets() {
				if len(p) == 80 {
					dg = append(dg, fmt.Sprintf("id=%d slot=%d power=%d", binary.LittleEndian.Uint32(p), binary.LittleEndian.Uint32(p[4:]), binary.LittleEndian.Uint64(p[8:])))
				}
			}
			x.r.Violationf("sent-report-to-banned-server", x.replay(map[string]interface{}{"label": label, "server_index": j, "baseline": base, "datagrams_at_that_port": dg, "latest_slot": x.latest}),
				"%s: %d report datagram(s) arrived at the UDP port of server #%d (%x), which the client knew to be banned when it started", label, n-base, j, x.rogues[j].Key.Pub[:6])
		}
	}
}
