//go:build test

// Overlapping sync rounds. The report loop launches a new round without
// waiting for the previous one, and sync connections have no deadline, so one
// silent server is enough to make two rounds overlap: round 1 is parked in an
// attempt on a silent server while round 2 completes elsewhere and adopts a
// GCA-signed ban of a server O that round 1 has not tried yet. When round 1's
// attempt finally fails, its remaining attempts must not select O.
//
// Roles are assigned by what the client does, not by which server its random
// choice hits: the first of three equal rogues that is dialled becomes the
// holder A; the first other one that round 2 reaches becomes B and answers
// (once) with a genuine reply banning the third, O. Every later connection to
// A, B or O is closed without a reply. All barriers are logical: "A holds a
// connection", "round 2 returned true" (=> ban adopted), "round 1 returned".
package main

import (
	"fmt"
	"math/rand"
	"path/filepath"
	"sync"
	"time"

	"github.com/glowlabs-org/gca-backend/client"
	"github.com/glowlabs-org/gca-backend/glow"

	"verifharness/lib/drv"
	"verifharness/lib/ev"
	"verifharness/lib/refenc"
	"verifharness/lib/run"
)

func overlapCase(i int, seed int64) *caseCfg {
	cc := &caseCfg{Kind: "overlap", Index: i, Seed: seed*1000003 + 500000 + int64(i)}
	rng := rand.New(rand.NewSource(cc.Seed ^ 0x0badcafe))
	cc.Servers = []srvCfg{{Outcome: "role"}, {Outcome: "role"}, {Outcome: "role"}}
	switch rng.Intn(4) {
	case 1:
		cc.Servers = append(cc.Servers, srvCfg{Outcome: []string{"refused", "reset"}[rng.Intn(2)]})
	case 2:
		cc.Servers = append(cc.Servers, srvCfg{Outcome: "success", Banned: true})
	}
	if i%4 == 3 {
		// round 2 learns that the HOLDER itself is banned; the holder then answers round 1
		// with a well formed reply: the primary must not go back to it
		cc.Variant = "banholder"
	}
	return cc
}

func runOverlap(cc *caseCfg, b run.Batch, r *ev.Result) (abort bool) {
	x := &ctx{r: r, cc: cc, rng: rand.New(rand.NewSource(cc.Seed)), dir: filepath.Join(b.Dir, fmt.Sprintf("overlap%d", cc.Index))}
	defer x.teardown()
	run.Op("case overlap/%d seed=%d servers=%v", cc.Index, cc.Seed, cc.Servers)
	if err := x.setup(); err != nil {
		x.inconc("setup: %v", err)
		return false
	}
	x.prevMem, x.prevFile = copySet(x.told), copySet(x.told)

	// ---- role machine
	var mu sync.Mutex
	holder, bIdx, oIdx := -1, -1, -1
	parked := make(chan struct{})
	release := make(chan struct{})
	released := false
	doRelease := func() {
		mu.Lock()
		if !released {
			released = true
			close(release)
		}
		mu.Unlock()
	}
	defer doRelease()
	then := []string{"eof", "reset"}[x.rng.Intn(2)]
	banHolder := cc.Variant == "banholder"
	var late []byte // what the holder finally answers in the banholder variant
	for j := 0; j < 3; j++ {
		j := j
		x.rogues[j].setBehave(func(n int) action {
			mu.Lock()
			defer mu.Unlock()
			switch {
			case holder == -1:
				holder = j
				if banHolder {
					rep := refenc.SyncReply{DevKey: x.dev.Pub, Unix: uint64(time.Now().Unix())}
					for i := range rep.Bitfield {
						rep.Bitfield[i] = 0xff
					}
					late = refenc.BuildSyncReply(rep, x.rogues[j].Key.Priv)
					then = "reply"
					return action{Kind: "park", Parked: func() { close(parked) }, Release: release, Then: "reply", Reply: late, CloseAfter: -1, Tag: -1}
				}
				return action{Kind: "park", Parked: func() { close(parked) }, Release: release, Then: then}
			case j == holder || j == bIdx || j == oIdx:
				return action{Kind: "eof"}
			case bIdx == -1:
				bIdx, oIdx = j, 3-holder-j
				if banHolder {
					oIdx = holder
				}
				list := []refenc.AuthServer{x.entryFor(oIdx, true)}
				rep := refenc.SyncReply{DevKey: x.dev.Pub, Servers: list, Unix: uint64(time.Now().Unix())}
				for i := range rep.Bitfield {
					rep.Bitfield[i] = 0xff
				}
				return action{Kind: "reply", Reply: refenc.BuildSyncReply(rep, x.rogues[j].Key.Priv), CloseAfter: -1, Tag: -1}
			}
			return action{Kind: "eof"}
		})
	}
	roles := func() (int, int, int) { mu.Lock(); defer mu.Unlock(); return holder, bIdx, oIdx }

	x.T0 = client.VerifTicks()
	x.trace("start client")
	c, err := drv.StartClient(x.cdir)
	if err != nil {
		x.inconc("client start: %v", err)
		return false
	}
	x.c = c
	x.clientStarted()
	r.Count("cases", 1)
	r.Count("cases_overlap", 1)
	x.checkState("start", true, true)

	// ---- round 1 parks on its first attempt at a role server
	x.trace("round 1 starts (will be held by the first role server it dials)")
	r1 := make(chan bool, 1)
	go func() { r1 <- x.c.VerifSyncOnce(x.latest) }()
	select {
	case <-parked:
	case ok := <-r1:
		// round 1 ended without ever reaching a role server (cannot happen with <= 1 extra server)
		x.inconc("round 1 returned %v before any role server was dialled", ok)
		return false
	case <-time.After(40 * time.Second):
		x.closed = true
		x.inconc("round 1 did not reach a role server within 40s")
		return true
	}

	// ---- nothing of the client may be locked while a round merely waits for its server
	if free, leaked, detail := probeLock(x.c); leaked {
		r.Violationf(lockKey(detail), x.replay(map[string]interface{}{"label": "overlap: round 1 held by a silent server"}), "overlap: a sync round is waiting for a server that accepted the connection and says nothing, and the client mutex cannot be taken: %s", detail)
		x.closed = true
		doRelease()
		go x.c.Close()
		return true
	} else if !free {
		x.closed = true
		x.inconc("overlap: lock probe undecided while round 1 is held: %s", detail)
		return true
	}
	r.Count("lock_probes_free", 1)
	r.Count("lock_probes_free_while_a_round_waits_for_a_silent_server", 1)

	// ---- round 2 completes and adopts the ban of O while round 1 is held
	x.trace("round 2 runs to completion while round 1 is held")
	ok2, done := syncOnce(x.c, x.latest)
	if !done {
		x.closed = true
		x.inconc("round 2 did not return within 40s")
		return true
	}
	r.Eval(1)
	r.Count("rounds", 1)
	a, bb, o := roles()
	if !ok2 || bb < 0 {
		r.Count("rounds_failed", 1)
		x.inconc("round 2 did not complete (ok=%v, B=%d): the overlap could not be set up", ok2, bb)
		doRelease()
		<-r1
		return false
	}
	r.Count("rounds_succeeded", 1)
	quiet := client.VerifTicks() < x.T0+28
	// round 2 returned true => the reply banning O was adopted under the lock: the client KNOWS from here on
	x.told[x.rogues[o].Key.Pub] = true
	oAcc0 := x.rogues[o].acceptCount()
	bAcc0 := x.rogues[bb].acceptCount()
	r.Count("overlap_bans_adopted_mid_round", 1)
	if oAcc0 != 0 && !banHolder {
		x.inconc("O was dialled before it was banned (%d): roles are inconsistent", oAcc0)
		doRelease()
		<-r1
		return false
	}
	free, leaked, detail := probeLock(x.c)
	if leaked {
		r.Violationf("client-lock-leaked-after-sync", x.replay(map[string]interface{}{"label": "overlap round 2"}), "overlap: after round 2 the client mutex is still held: %s", detail)
		x.closed = true
		doRelease()
		go x.c.Close()
		return true
	}
	if !free {
		x.closed = true
		x.inconc("overlap: lock probe undecided: %s", detail)
		return true
	}
	r.Count("lock_probes_free", 1)
	st := x.checkState("overlap: after round 2 (round 1 still held)", false, true)
	if s, ok := st.Servers[glow.PublicKey(x.rogues[o].Key.Pub)]; !ok || !s.Banned {
		// adoption of told bans is C17's subject; without it this scenario decides nothing
		x.inconc("round 2 returned true but server O is not recorded as banned")
		doRelease()
		<-r1
		return false
	}
	if !quiet {
		r.Count("overlap_skipped_background_round_possible", 1)
		doRelease()
		<-r1
		return false
	}

	// ---- release A with a failure: round 1 goes on with its remaining attempts
	x.trace("A (server #%d) fails the held connection (%s); B=#%d O=#%d (banned since round 2)", a, then, bb, o)
	doRelease()
	var ok1 bool
	select {
	case ok1 = <-r1:
	case <-time.After(40 * time.Second):
		x.closed = true
		x.inconc("round 1 did not return within 40s after its held attempt failed")
		return true
	}
	r.Eval(1)
	r.Count("rounds", 1)
	if ok1 {
		r.Count("rounds_succeeded", 1)
	} else {
		r.Count("rounds_failed", 1)
	}
	free, leaked, detail = probeLock(x.c)
	if leaked {
		r.Violationf("client-lock-leaked-after-sync", x.replay(map[string]interface{}{"label": "overlap round 1", "round_result": ok1}), "overlap: round 1 returned %v and the client mutex is still held: %s", ok1, detail)
		x.closed = true
		x.emissionAfterLeak("overlap round 1")
		go x.c.Close()
		return true
	}
	if !free {
		x.closed = true
		x.inconc("overlap: lock probe undecided: %s", detail)
		return true
	}
	r.Count("lock_probes_free", 1)
	if d := x.rogues[bb].acceptCount() - bAcc0; d > 0 {
		r.Count("overlap_attempts_after_ban", int64(d)) // round 1 really made attempts after the ban was known
	}
	if banHolder {
		r.Count("overlap_banned_holder_answered_late", 1)
		if ok1 {
			r.Count("overlap_late_reply_of_banned_holder_accepted", 1)
		}
	}
	r.Nontrivial(fmt.Sprintf("overlap|%v|%s|%d%d%d", cc.Servers, then, a, bb, o))
	if d := x.rogues[o].acceptCount() - oAcc0; d > 0 {
		r.Violationf("dialed-banned-server", x.replay(map[string]interface{}{"label": "overlap", "holder": a, "B": bb, "O": o}),
			"overlap: round 2 adopted a GCA-signed ban of server #%d (%x) while round 1 was held by server #%d; after that, round 1 dialled the banned server %d time(s)", o, x.rogues[o].Key.Pub[:6], a, d)
	}
	if x.cc.Servers[len(x.cc.Servers)-1].Banned {
		j := len(x.cc.Servers) - 1
		r.Count("banned_listeners_watched", 1)
		if d := x.rogues[j].acceptCount(); d > 0 {
			r.Violationf("dialed-banned-server", x.replay(map[string]interface{}{"label": "overlap", "server_index": j}), "overlap: %d dial(s) reached the initially banned server #%d", d, j)
		}
	}
	r.Count("banned_listeners_watched", 1)
	st = x.checkState("overlap: after round 1", false, true)
	if client.VerifTicks() < x.T0+28 {
		r.Count("primary_checks", 1)
		if [32]byte(st.PrimaryServer) == x.rogues[o].Key.Pub {
			what := fmt.Sprintf("server #%d (%x) was never selected before round 2 adopted its ban, yet it is the primary server after round 1 went on", o, x.rogues[o].Key.Pub[:6])
			if banHolder {
				what = fmt.Sprintf("round 2 adopted a ban of server #%d (%x) and moved the primary away while round 1 was held there; when that server finally answered round 1 it became the primary server again although the client knows it is banned", o, x.rogues[o].Key.Pub[:6])
			}
			r.Violationf("primary-server-banned", x.replay(map[string]interface{}{"label": "overlap", "variant": cc.Variant, "holder": a, "B": bb, "O": o}), "overlap: %s", what)
		}
	}
	_, hasPrimary := st.Servers[st.PrimaryServer]
	if x.emission("overlap", hasPrimary) {
		return true
	}
	if !x.closeClient() {
		x.inconc("client.Close did not return within 15s although the mutex was free")
		return true
	}
	x.checkFile("overlap: after close")
	return false
}
