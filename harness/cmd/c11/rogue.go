//go:build test

// Rogue sync servers under full harness control (same idea as drv.RogueSync,
// plus connection resets, dribbled writes, closed ports and a record of which
// replies were served completely), the goroutine-dump analysis that turns "the
// mutex cannot be taken" into a certain statement, and the lock probe.
package main

import (
	"encoding/binary"
	"fmt"
	"io"
	"math/rand"
	"net"
	"regexp"
	"runtime"
	"strconv"
	"strings"
	"sync"
	"syscall"
	"time"

	"github.com/glowlabs-org/gca-backend/client"

	"verifharness/lib/drv"
	"verifharness/lib/refenc"
)

// ---------------------------------------------------------------- rogue server

type action struct {
	Kind       string // "eof" | "reset" | "reply" | "park"
	Reply      []byte
	CloseAfter int // < 0: send everything
	Slow       bool
	Tag        int // >= 0: index of a well-formed, validly signed reply (told-tracking)
	// park: hold the connection open (the client has no read deadline) until Release
	// is closed, then go on with Then ("eof" | "reset" | "reply" with Reply)
	Parked  func()
	Release chan struct{}
	Then    string
}

type rogue struct {
	ln      net.Listener // nil: closed port (every dial is refused)
	fd      int          // closed port: a bound, never listening socket that keeps the port number ours
	Port    uint16
	udp     *drv.UDPSink // this server's own UDP port
	Key     refenc.Key
	mu      sync.Mutex
	ids     map[uint32]bool // short ids our client may use; other requests come from foreign processes
	anyID   bool            // parser-feed fixture: no dial monitor depends on this server
	accepts int             // connections whose 4 request bytes carried one of our client's ids
	foreign int             // anything else that connected (another process that guessed the port)
	behave  func(n int) action
	served  []int // tags of the well-formed replies handed out in full, in order
	wg      sync.WaitGroup
}

// reservePort binds (without SO_REUSEADDR, without listen) a TCP socket to an
// ephemeral loopback port: dials are refused and no other process can be
// handed the same port number while the socket is open.
func reservePort() (fd int, port uint16, err error) {
	fd, err = syscall.Socket(syscall.AF_INET, syscall.SOCK_STREAM|syscall.SOCK_CLOEXEC, 0)
	if err != nil {
		return -1, 0, err
	}
	if err = syscall.Bind(fd, &syscall.SockaddrInet4{Port: 0, Addr: [4]byte{127, 0, 0, 1}}); err != nil {
		syscall.Close(fd)
		return -1, 0, err
	}
	sa, err := syscall.Getsockname(fd)
	if err != nil {
		syscall.Close(fd)
		return -1, 0, err
	}
	return fd, uint16(sa.(*syscall.SockaddrInet4).Port), nil
}

func newRogue(rng *rand.Rand, listen bool) (*rogue, error) {
	r := &rogue{Key: refenc.GenKey(rng), fd: -1, ids: map[uint32]bool{}}
	if !listen {
		fd, port, err := reservePort()
		if err != nil {
			return nil, err
		}
		r.fd, r.Port = fd, port
		return r, nil
	}
	ln, err := net.Listen("tcp", "127.0.0.1:0")
	if err != nil {
		return nil, err
	}
	r.Port = uint16(ln.Addr().(*net.TCPAddr).Port)
	r.ln = ln
	r.wg.Add(1)
	go func() {
		defer r.wg.Done()
		for {
			c, err := ln.Accept()
			if err != nil {
				return
			}
			r.wg.Add(1)
			go func() {
				defer r.wg.Done()
				r.handle(c.(*net.TCPConn))
			}()
		}
	}()
	return r, nil
}

func (r *rogue) handle(c *net.TCPConn) {
	defer c.Close()
	c.SetDeadline(time.Now().Add(8 * time.Second))
	// The client writes its 4 request bytes right after the dial; they tell our
	// client from a foreign process that happens to know the port.
	req := make([]byte, 4)
	_, err := io.ReadFull(c, req)
	r.mu.Lock()
	if err != nil || !(r.anyID || r.ids[binary.LittleEndian.Uint32(req)]) {
		r.foreign++
		r.mu.Unlock()
		return
	}
	r.accepts++
	n := r.accepts
	bf := r.behave
	r.mu.Unlock()
	a := action{Kind: "eof"}
	if bf != nil {
		a = bf(n)
	}
	if a.Kind == "park" {
		c.SetDeadline(time.Now().Add(60 * time.Second))
		if a.Parked != nil {
			a.Parked()
		}
		select {
		case <-a.Release:
		case <-time.After(45 * time.Second):
		}
		a.Kind = a.Then
	}
	if a.Kind == "eof" {
		return
	}
	if a.Kind == "reset" {
		c.SetLinger(0)
		return
	}
	out := a.Reply
	full := true
	if a.CloseAfter >= 0 && a.CloseAfter < len(out) {
		out = out[:a.CloseAfter]
		full = false
	}
	if full && a.Tag >= 0 {
		// recorded before the bytes leave: the client may finish its round before
		// this goroutine runs again
		r.mu.Lock()
		r.served = append(r.served, a.Tag)
		r.mu.Unlock()
	}
	if a.Slow && len(out) > 1 {
		h := len(out) / 2
		if _, err := c.Write(out[:h]); err != nil {
			return
		}
		time.Sleep(15 * time.Millisecond)
		out = out[h:]
	}
	c.Write(out)
}

func (r *rogue) setIDs(ids ...uint32) {
	r.mu.Lock()
	for _, id := range ids {
		r.ids[id] = true
	}
	r.mu.Unlock()
}

func (r *rogue) foreignCount() int {
	r.mu.Lock()
	defer r.mu.Unlock()
	return r.foreign
}

func (r *rogue) setBehave(f func(n int) action) {
	r.mu.Lock()
	r.behave = f
	r.mu.Unlock()
}

func (r *rogue) acceptCount() int {
	r.mu.Lock()
	defer r.mu.Unlock()
	return r.accepts
}

func (r *rogue) servedTags() []int {
	r.mu.Lock()
	defer r.mu.Unlock()
	return append([]int(nil), r.served...)
}

func (r *rogue) close() {
	if r.ln != nil {
		r.ln.Close()
	}
	if r.fd >= 0 {
		syscall.Close(r.fd)
		r.fd = -1
	}
	r.wg.Wait()
}

// ---------------------------------------------------------------- goroutine dump

type gor struct {
	id     int
	state  string
	frames []string // function names, innermost first
}

var gorHead = regexp.MustCompile(`^goroutine (\d+) \[([^\],]+)`)

func dumpGoroutines() []gor {
	buf := make([]byte, 1<<20)
	for {
		n := runtime.Stack(buf, true)
		if n < len(buf) {
			buf = buf[:n]
			break
		}
		buf = make([]byte, 2*len(buf))
	}
	var out []gor
	for _, blk := range strings.Split(string(buf), "\n\n") {
		lines := strings.Split(strings.TrimSpace(blk), "\n")
		m := gorHead.FindStringSubmatch(lines[0])
		if m == nil {
			continue
		}
		g := gor{state: m[2]}
		g.id, _ = strconv.Atoi(m[1])
		for _, ln := range lines[1:] {
			if strings.HasPrefix(ln, "\t") || strings.HasPrefix(ln, "created by") || ln == "" {
				continue
			}
			if i := strings.LastIndex(ln, "("); i > 0 {
				ln = ln[:i]
			}
			g.frames = append(g.frames, ln)
		}
		out = append(out, g)
	}
	return out
}

const clientPkg = "gca-backend/client."

func (g gor) inClient() bool {
	for _, f := range g.frames {
		if strings.Contains(f, clientPkg) {
			return true
		}
	}
	return false
}

func (g gor) has(sub string) bool {
	for _, f := range g.frames {
		if strings.Contains(f, sub) {
			return true
		}
	}
	return false
}

// blockedOnClientMutex: parked in sync.(*Mutex).Lock called directly from a
// function of package client (the client has exactly one mutex of its own;
// the event logger's mutex is reached through package glow frames).
func (g gor) blockedOnClientMutex() bool {
	if !strings.HasPrefix(g.state, "sync.Mutex.Lock") {
		return false
	}
	for _, f := range g.frames {
		if strings.HasPrefix(f, "sync.") || strings.HasPrefix(f, "runtime.") || strings.HasPrefix(f, "internal/") {
			continue
		}
		return strings.Contains(f, clientPkg)
	}
	return false
}

// leakVerdict inspects one atomic goroutine snapshot. certain=true means: the
// report loop is parked on the client mutex and no goroutine exists that could
// be its holder (every goroutine inside package client is itself parked on
// that mutex, or is the 120 s test-mode guard) - the mutex was left locked by
// a function that has returned. loopGone=true: no report loop goroutine exists.
func leakVerdict(gs []gor) (certain bool, loopGone bool, why string) {
	var loop *gor
	for i := range gs {
		if gs[i].has(clientPkg + "(*Client).threadedSendReports") {
			loop = &gs[i]
		}
	}
	if loop == nil {
		return false, true, "no goroutine runs threadedSendReports"
	}
	if !loop.blockedOnClientMutex() {
		return false, false, "report loop is in state " + loop.state
	}
	waiter := -1
	for _, g := range gs {
		if g.id == loop.id || !g.inClient() {
			continue
		}
		if g.blockedOnClientMutex() || g.has(clientPkg+"NewClient.func1") {
			continue
		}
		if strings.HasPrefix(g.state, "IO wait") && g.has(clientPkg+"(*Client).staticServerSync") {
			// a sync attempt that waits for its server: it cannot do anything - in
			// particular not release a mutex - before that server speaks
			waiter = g.id
			continue
		}
		return false, false, fmt.Sprintf("goroutine %d [%s] is inside package client (%s) and may hold the mutex", g.id, g.state, g.frames[0])
	}
	if waiter >= 0 {
		return true, false, fmt.Sprintf("report loop (goroutine %d) is parked in sync.(*Mutex).Lock; apart from goroutines parked on the same mutex the only goroutines inside package client are sync attempts waiting for a server reply (e.g. goroutine %d in staticServerSync, IO wait): the mutex stays locked for as long as that server stays silent", loop.id, waiter)
	}
	return true, false, fmt.Sprintf("report loop (goroutine %d) is parked in sync.(*Mutex).Lock and no goroutine that could hold the client mutex exists", loop.id)
}

// ---------------------------------------------------------------- lock probe

// probeLock: free=true as soon as one TryLock succeeds. A leak is concluded
// only when every probe over at least ten nominal tick lengths failed (the
// report loop takes the mutex for microseconds per tick; a leaked mutex is
// held forever - and then the loop itself stops ticking, so wall ticks cannot
// be demanded) AND two goroutine snapshots 100 ms apart both show that no
// possible holder exists. Anything else within the watchdog: undecided.
func probeLock(c *client.Client) (free bool, leaked bool, detail string) {
	start := time.Now()
	tick := client.VerifConsts().SendReportTime
	probes := 0
	var lastDump time.Time
	for {
		if c.VerifTryLock() {
			return true, false, ""
		}
		probes++
		el := time.Since(start)
		if probes >= 500 && el > 10*tick+50*time.Millisecond && time.Since(lastDump) > 50*time.Millisecond {
			lastDump = time.Now()
			c1, _, w1 := leakVerdict(dumpGoroutines())
			if c1 {
				time.Sleep(100 * time.Millisecond)
				if c.VerifTryLock() {
					return true, false, ""
				}
				c2, _, w2 := leakVerdict(dumpGoroutines())
				if c2 {
					return false, true, fmt.Sprintf("%d consecutive TryLock probes over %v failed; %s", probes, time.Since(start).Round(time.Millisecond), w2)
				}
				detail = w2
			} else {
				detail = w1
			}
		}
		if el > 20*time.Second {
			return false, false, fmt.Sprintf("%d probes failed over %v but a holder may exist: %s", probes, el.Round(time.Millisecond), detail)
		}
		time.Sleep(300 * time.Microsecond)
	}
}

// lockKey: the violation class for a mutex that cannot be taken.
func lockKey(detail string) string {
	if strings.Contains(detail, "waiting for a server reply") {
		return "client-lock-held-while-waiting-for-server"
	}
	return "client-lock-leaked-after-sync"
}
