//go:build test

// Stalling servers and the client's own background rounds. A server that
// accepts the sync connection and then says nothing keeps that round inside
// io.ReadFull for ever (the connection has no deadline). The report loop must
// nevertheless launch another round later: with an unsuccessful last sync when
// ticks%4==3 after the previous launch, otherwise 60 iterations after it.
//
// Two equal rogues: the first one the client's background round dials becomes
// the stalling server H (every connection to it is parked until the end of the
// case), the other one is the healthy server G. Monitor: after the first round
// got stuck, some later dial (to G or to H) must be seen within N report-loop
// ticks; N = 60 (longest distance between two launches) + 5 (one tick sleep
// before each of at most 5 attempts) + 10 slack.
package main

import (
	"fmt"
	"math/rand"
	"os"
	"path/filepath"
	"sync"
	"time"

	"github.com/glowlabs-org/gca-backend/client"

	"verifharness/lib/drv"
	"verifharness/lib/ev"
	"verifharness/lib/refenc"
	"verifharness/lib/run"
)

const stallBoundTicks = 60 + 5 + 10

func stallCase(i int, seed int64) *caseCfg {
	cc := &caseCfg{Kind: "stall", Index: i, Seed: seed*1000003 + 700000 + int64(i)}
	cc.Servers = []srvCfg{{Outcome: "role"}, {Outcome: "role"}}
	if i%3 == 1 {
		cc.Servers = append(cc.Servers, srvCfg{Outcome: "success", Banned: true})
	}
	cc.Shape = ""
	return cc
}

// freshStall: the case starts with a fresh last-sync stamp, i.e. the first
// background round comes at iteration 30 and the next one 60 iterations later.
func freshStall(i int) bool { return i%6 == 5 }

func runStall(cc *caseCfg, b run.Batch, r *ev.Result) (abort bool) {
	x := &ctx{r: r, cc: cc, rng: rand.New(rand.NewSource(cc.Seed)), dir: filepath.Join(b.Dir, fmt.Sprintf("stall%d", cc.Index))}
	var mu sync.Mutex
	release := make(chan struct{})
	released := false
	doRelease := func() {
		mu.Lock()
		if !released {
			released = true
			close(release)
		}
		mu.Unlock()
	}
	defer x.teardown()
	defer doRelease()
	fresh := freshStall(cc.Index)
	run.Op("case stall/%d seed=%d servers=%v fresh_stamp=%v", cc.Index, cc.Seed, cc.Servers, fresh)
	if err := x.setup(); err != nil {
		x.inconc("setup: %v", err)
		return false
	}
	x.prevMem, x.prevFile = copySet(x.told), copySet(x.told)
	if !fresh {
		os.WriteFile(filepath.Join(x.cdir, client.LastSyncFile), []byte(*drv.StaleSyncStamp()), 0644)
	}
	holder := -1
	parked := make(chan struct{})
	for j := 0; j < 2; j++ {
		j := j
		x.rogues[j].setBehave(func(n int) action {
			mu.Lock()
			defer mu.Unlock()
			if holder == -1 {
				holder = j
				close(parked)
			}
			if j == holder {
				return action{Kind: "park", Release: release, Then: "eof"}
			}
			rep := refenc.SyncReply{DevKey: x.dev.Pub, Unix: uint64(time.Now().Unix())}
			for i := range rep.Bitfield {
				rep.Bitfield[i] = 0xff
			}
			return action{Kind: "reply", Reply: refenc.BuildSyncReply(rep, x.rogues[j].Key.Priv), CloseAfter: -1, Tag: -1}
		})
	}
	fresh0 := fresh // with a stale stamp a background round may rewrite the file at any moment: no file read
	x.T0 = client.VerifTicks()
	x.trace("start client (fresh stamp: %v)", fresh)
	c, err := drv.StartClient(x.cdir)
	if err != nil {
		x.inconc("client start: %v", err)
		return false
	}
	x.c = c
	x.clientStarted()
	r.Count("cases", 1)
	r.Count("cases_stall", 1)
	x.checkState("start", true, fresh0)

	// ---- the first background round gets stuck on the first server it dials
	due := x.T0 + 2
	if fresh {
		due = x.T0 + 31
	}
	wait := func(what string, cond func() bool, from uint64, bound uint64, key string) (ok bool, abort bool) {
		start := time.Now()
		last, lastChange := client.VerifTicks(), time.Now()
		for {
			if cond() {
				return true, false
			}
			t := client.VerifTicks()
			if t != last {
				last, lastChange = t, time.Now()
			}
			if t >= from+bound {
				r.Violationf(key, x.replay(map[string]interface{}{"label": "stall: " + what, "ticks_waited": t - from, "fresh_stamp": fresh}),
					"stall: %s: not seen although the report loop ticked %d times since tick %d of this client", what, t-from, from-x.T0)
				return false, false
			}
			if time.Since(lastChange) > 700*time.Millisecond {
				if w, why := wedged(); w {
					r.Violationf("report-loop-wedged", x.replay(map[string]interface{}{"label": "stall: " + what, "goroutines": why}), "stall: the report loop stopped ticking at tick %d: %s", t-x.T0, why)
					x.closed = true
					doRelease()
					go x.c.Close()
					return false, true
				}
				lastChange = time.Now()
			}
			if time.Since(start) > 60*time.Second {
				x.inconc("stall: %s: undecided after 60s (tick %d)", what, t-x.T0)
				return false, true
			}
			time.Sleep(time.Millisecond)
		}
	}
	isParked := func() bool {
		select {
		case <-parked:
			return true
		default:
			return false
		}
	}
	ok, abort := wait("first background sync round", isParked, due, stallBoundTicks, "no-later-sync-attempt")
	if abort {
		return true
	}
	if ok {
		tP := client.VerifTicks()
		mu.Lock()
		h := holder
		mu.Unlock()
		g := 1 - h
		x.trace("background round is stuck on server #%d (accepted, silent); a later round is due within %d ticks", h, stallBoundTicks)
		r.Count("stall_rounds_stuck", 1)
		if free, leaked, detail := probeLock(x.c); leaked {
			r.Violationf(lockKey(detail), x.replay(map[string]interface{}{"label": "stall"}), "stall: a background sync round is waiting for server #%d, which accepted the connection and says nothing, and the client mutex cannot be taken: %s", h, detail)
			x.closed = true
			x.emissionAfterLeak("stall")
			doRelease()
			go x.c.Close()
			return true
		} else if free {
			r.Count("lock_probes_free", 1)
			r.Count("lock_probes_free_while_a_round_waits_for_a_silent_server", 1)
		}
		total0 := x.rogues[h].acceptCount() + x.rogues[g].acceptCount()
		later := func() bool { return x.rogues[h].acceptCount()+x.rogues[g].acceptCount() > total0 }
		ok, abort = wait(fmt.Sprintf("a later sync round after one got stuck on the silent server #%d", h), later, tP, stallBoundTicks, "no-later-sync-attempt")
		if abort {
			return true
		}
		r.Eval(1)
		r.Nontrivial(fmt.Sprintf("stall|%v|%v", cc.Servers, fresh))
		if ok {
			r.Count("stall_later_round_observed", 1)
			r.Max("max.ticks_until_later_round_after_stuck_round", int64(client.VerifTicks()-tP))
		}
	}
	if len(cc.Servers) > 2 {
		r.Count("banned_listeners_watched", 1)
		if d := x.rogues[2].acceptCount(); d > 0 {
			r.Violationf("dialed-banned-server", x.replay(map[string]interface{}{"label": "stall", "server_index": 2}), "stall: %d dial(s) reached the initially banned server #2", d)
		}
	}
	free, leaked, detail := probeLock(x.c)
	if leaked {
		r.Violationf(lockKey(detail), x.replay(map[string]interface{}{"label": "stall"}), "stall: the client mutex is held although every round is either stuck in a read or finished: %s", detail)
		x.closed = true
		doRelease()
		go x.c.Close()
		return true
	}
	if !free {
		x.closed = true
		x.inconc("stall: lock probe undecided: %s", detail)
		return true
	}
	r.Count("lock_probes_free", 1)
	st := x.checkState("stall", false, false)
	_, hasPrimary := st.Servers[st.PrimaryServer]
	if x.emission("stall", hasPrimary) {
		return true
	}
	// the unchanged client's Close waits for the stuck rounds: let them fail first
	doRelease()
	if !x.closeClient() {
		x.inconc("client.Close did not return within 15s after the silent server closed its connections")
		return true
	}
	x.checkFile("stall: after close")
	return false
}
